#!/bin/sh
# try_clean.sh <stream> [n] [seed] : run one correspondence stream on the current /repo tree with the current harness build
S="$1"; N="${2:-300}"; SEED="${3:-1}"
rm -rf /tmp/oclean; timeout 900 /verif/build/harness $S --seed $SEED --n $N --out /tmp/oclean >/tmp/oclean.log 2>&1 || echo "harness rc=$?: $(tail -3 /tmp/oclean.log)"
if [ -f /tmp/oclean/$S.in ]; then /verif/ocaml/driver /tmp/oclean/$S.in > /tmp/oclean/$S.mod; cmp -s /tmp/oclean/$S.mod /tmp/oclean/$S.obs && echo "model: SAME" || echo "model: DIFF at $(cmp /tmp/oclean/$S.mod /tmp/oclean/$S.obs | head -1)"; fi
python3 - <<PY
import json,os
p='/tmp/oclean/$S.meta.json'
if os.path.exists(p):
    m=json.load(open(p)); v=m['violations'] or []
    print('monitor violations:', len(v), sorted(set(x['property'] for x in v)))
    for x in v[:4]: print('  ', x['property'], x['what'][:400])
    print({k:v for k,v in m['distribution'].items() if 'queued' in k or 'fence' in k})
PY
