#!/usr/bin/env python3
"""keep_mutants.py <confirm.jsonl>: copy confirmed seeded changes from /tmp/mut/out into /verif/seeded/<id>/."""
import json, os, shutil, sys
for line in open(sys.argv[1]):
    line=line.strip()
    if not line.startswith('{'): continue
    r=json.loads(line.replace("\t"," "), strict=False)
    ok = r.get('applies')==0 and r.get('demo_on_clean_rc')==0 and r.get('suite_with_mutant_rc')==0 and r.get('demo_with_mutant_rc') not in (0,None)
    prop, m = r['name'].split('-')
    src=f'/tmp/mut/out/{prop}/{m}'
    dst=f'/verif/seeded/{prop}-{m}'
    if not ok:
        print('NOT CONFIRMED', r); continue
    os.makedirs(dst, exist_ok=True)
    for f in os.listdir(src):
        shutil.copy(os.path.join(src,f), os.path.join(dst, f if not f.endswith('_test.go') else f+'.txt'))
    readme=open(os.path.join(src,'README.md')).read() if os.path.exists(os.path.join(src,'README.md')) else ''
    meta={'id': r['name'], 'property': prop, 'breaks': prop, 'needs_to_manifest': readme[:1500],
          'confirmed_by': 'tools/confirm_mutant.sh in a scratch worktree of /repo HEAD: patch applies; existing suite passes with it; demo fails with it; demo passes without it',
          'confirm_result': r, 'detected_by': None}
    mp=os.path.join(dst,'meta.json')
    if os.path.exists(mp):
        old=json.load(open(mp)); meta['detected_by']=old.get('detected_by')
    json.dump(meta, open(mp,'w'), indent=1)
    print('kept', dst)
