#!/usr/bin/env python3
"""mk_matrix.py <seeded_results.jsonl>...: record which check caught which seeded change.
Updates seeded/<id>/meta.json (detected_by) and writes seeded/MATRIX.md (included in DESIGN.md section 11)."""
import json, os, sys, glob
ROOT = os.path.dirname(os.path.dirname(os.path.abspath(__file__)))
res = {}
for p in sys.argv[1:]:
    for l in open(p):
        l = l.strip()
        if not l.startswith("{"): continue
        try: d = json.loads(l)
        except Exception: continue
        if "check" in d: res.setdefault(d["id"], {})[d["check"]] = d
rows = []
for mp in sorted(glob.glob(os.path.join(ROOT, "seeded", "*", "meta.json"))):
    m = json.load(open(mp)); sid = os.path.basename(os.path.dirname(mp))
    r = res.get(sid)
    if r:
        det = {}
        for chk, d in r.items():
            det[chk] = {"violation": bool(d["violation"]), "with_failing_input": bool(d["violation"]) and not d["no_failing_input"], "what": d.get("what", "").strip()[:200], "secs": d.get("secs")}
        m["detected_by"] = det
        json.dump(m, open(mp, "w"), indent=1)
    readme = os.path.join(os.path.dirname(mp), "README.md")
    title = ""
    if os.path.exists(readme):
        for line in open(readme):
            if line.strip():
                title = line.strip().lstrip("# ").strip()[:110]; break
    det = m.get("detected_by") or {}
    if isinstance(det, dict) and det:
        cell = "; ".join("%s: %s" % (c, ("VIOLATION + failing input" if v.get("with_failing_input") else ("VIOLATION (no-failing-input-found)" if v.get("violation") else "**missed**"))) for c, v in sorted(det.items()))
        what = next((v.get("what", "") for v in det.values() if v.get("violation")), "")
    else:
        cell, what = "not run yet", ""
    rows.append("| %s | %s | %s | %s |" % (sid, title.replace("|", "/"), cell, what.replace("|", "/")[:140]))
out = ["| seeded change | what it changes | quick check verdict | first reported failing input |", "|---|---|---|---|"] + rows
open(os.path.join(ROOT, "seeded", "MATRIX.md"), "w").write("\n".join(out) + "\n")
dp = os.path.join(ROOT, "DESIGN.md")
ds = open(dp).read()
if "<!-- MATRIX-BEGIN -->" in ds:
    a = ds.index("<!-- MATRIX-BEGIN -->") + len("<!-- MATRIX-BEGIN -->"); b = ds.index("<!-- MATRIX-END -->")
    open(dp, "w").write(ds[:a] + "\n" + "\n".join(out) + "\n" + ds[b:])
missed = [r for r in rows if "**missed**" in r]
print(len(rows), "seeded changes;", len(missed), "missed;", sum("not run yet" in r for r in rows), "not run")
for r in missed: print(r[:160])
