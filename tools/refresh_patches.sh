#!/bin/sh
# refresh_patches.sh [dir...]: re-base seeded patch.diff files onto /repo HEAD (hook commits shift context lines).
# Uses a scratch worktree; rewrites patch.diff in place when the change still applies (exactly, 3-way or with fuzz).
W=$(mktemp -d /tmp/refresh.XXXXXX)
git -C /repo worktree add -q --detach "$W/wt" HEAD || exit 1
for d in "$@"; do
  p="$d/patch.diff"; [ -f "$p" ] || continue
  cd "$W/wt"; git reset -q --hard HEAD; git clean -fdq
  if git apply "$p" 2>/dev/null; then st=exact
  elif git apply -3 "$p" 2>/dev/null; then st=3way
  elif patch -p1 -F3 -s --no-backup-if-mismatch < "$p" >/dev/null 2>&1; then st=fuzz
  else echo "FAILED $d"; continue; fi
  if git diff --quiet; then echo "EMPTY $d"; continue; fi
  git diff -- . ':!*_test.go' > "$p.new"; find . -name '*.orig' -delete; find . -name '*.rej' -delete
  if GOFLAGS=-mod=mod GOPROXY=off go build ./... 2>/dev/null; then mv "$p.new" "$p"; echo "$st $d"; else echo "NOBUILD $d"; rm -f "$p.new"; fi
done
cd /; git -C /repo worktree remove --force "$W/wt"; rm -rf "$W"
