#!/bin/sh
# confirm_mutant.sh <mutant-dir> <name>: verify in a scratch worktree that the patch applies,
# the existing suite still passes with it, the demo fails with it and passes without it.
# Prints one JSON line. The scratch worktree is removed afterwards.
set -u
D="$1"; NAME="$2"
export GOFLAGS=-mod=mod GOPROXY=off
W=$(mktemp -d /tmp/confirm.XXXXXX)
git -C /repo worktree add -q --detach "$W/wt" HEAD >/dev/null 2>&1 || { echo "{\"name\":\"$NAME\",\"error\":\"worktree\"}"; exit 1; }
cd "$W/wt"
pkgdir="."
demo=$(ls "$D"/*_test.go 2>/dev/null | head -1)
if [ -n "$demo" ] && grep -q '^package httpcache' "$demo"; then pkgdir="httpcache"; fi
if [ -n "$demo" ] && grep -q '^package keyhash' "$demo"; then pkgdir="internal/keyhash"; fi
run_demo() { cp "$D"/*_test.go "$pkgdir"/ ; names=$(grep -ho '^func Test[A-Za-z0-9_]*' "$D"/*_test.go | sed 's/func //' | paste -sd'|'); timeout 300 go test -vet=off -count=1 -run "^($names)\$" ./"$pkgdir" >"$W/demo.log" 2>&1; rc=$?; for f in "$D"/*_test.go; do rm -f "$pkgdir/$(basename $f)"; done; return $rc; }
run_demo; clean_rc=$?
if git apply "$D/patch.diff" 2>"$W/apply.log"; then applied=0; else applied=1; fi
timeout 600 go test -vet=off -count=1 ./... >"$W/suite.log" 2>&1; suite_rc=$?
run_demo; mut_rc=$?
tail -3 "$W/demo.log" | tr '\n"' ' ' > "$W/demo.tail"
echo "{\"name\":\"$NAME\",\"applies\":$applied,\"demo_on_clean_rc\":$clean_rc,\"suite_with_mutant_rc\":$suite_rc,\"demo_with_mutant_rc\":$mut_rc,\"demo_tail\":\"$(cat $W/demo.tail)\"}"
cd /; git -C /repo worktree remove --force "$W/wt" >/dev/null 2>&1; rm -rf "$W"
