#!/bin/sh
# try_mutant.sh <patch.diff> <stream> [n] : apply patch to /repo, run one correspondence stream, report, undo.
P="$1"; S="$2"; N="${3:-300}"; FOCUS="${4:-}"
export GOFLAGS=-mod=mod GOPROXY=off
git -C /repo apply "$P" || { echo "patch does not apply"; exit 2; }
cd /verif/harness && go build -tags verif -o /tmp/hmut . 2>&1 | tail -3
rm -rf /tmp/omut; timeout 600 /tmp/hmut $S --seed 1 --n $N ${FOCUS:+--focus $FOCUS} --out /tmp/omut >/tmp/omut.log 2>&1; rc=$?
git -C /repo checkout -- .
if [ $rc -ne 0 ]; then echo "harness rc=$rc: $(tail -3 /tmp/omut.log)"; fi
if [ -f /tmp/omut/$S.in ]; then /verif/ocaml/driver /tmp/omut/$S.in > /tmp/omut/$S.mod; cmp -s /tmp/omut/$S.mod /tmp/omut/$S.obs && echo "model: SAME" || echo "model: DIFF at $(cmp /tmp/omut/$S.mod /tmp/omut/$S.obs | head -1)"; fi
python3 - <<PY
import json,os
p='/tmp/omut/$S.meta.json'
if os.path.exists(p):
    m=json.load(open(p)); v=m['violations'] or []
    print('monitor violations:', len(v), sorted(set(x['property'] for x in v)))
    for x in v[:2]: print('  ', x['property'], x['what'][:260])
PY
rm -f /tmp/hmut
