#!/bin/sh
# run_seeded.sh [ids...]: for every seeded change, apply it to the repository copy in $VERIF_REPO
# (default: $VP_RUN_REPO, a scratch snapshot), run the quick check of the property it breaks (and the extra
# checks named in meta.json "also"), record verdicts in seeded_results.jsonl, and undo it.
# Never touches /repo.
R="${VERIF_REPO:-$VP_RUN_REPO}"
[ -n "$R" ] && [ "$R" != "/repo" ] || { echo "refusing to run against /repo; set VERIF_REPO to a scratch copy"; exit 2; }
export VERIF_REPO="$R"
cd "$(dirname "$0")/.."
[ -x build/harness ] && [ -f coq/C16.vo ] || ./setup.sh >/dev/null 2>&1
out=seeded_results.jsonl; : > $out
ids="$@"; [ -n "$ids" ] || ids=$(ls seeded)
for id in $ids; do
  d=$(pwd)/seeded/$id; [ -f $d/patch.diff ] || continue
  prop=$(echo ${id%%-*} | sed "s/[bcdefghijklnpqrs]$//")
  git -C "$R" checkout -q -- . 2>/dev/null
  if ! git -C "$R" apply $d/patch.diff 2>/dev/null; then echo "{\"id\":\"$id\",\"error\":\"patch does not apply\"}" >> $out; continue; fi
  for p in $prop $(python3 -c "import json;print(' '.join(json.load(open('$d/meta.json')).get('also',[])))" 2>/dev/null); do
    grep -q "\"$p\"" checks_registry.py || continue
    t0=$(date +%s); res=$(timeout 1500 ./check $p 2>&1 | tail -40); rc=$?
    v=$(echo "$res" | grep -c '^VIOLATION'); nf=$(echo "$res" | grep -c 'no-failing-input-found')
    what=$(echo "$res" | grep -B1 '^VIOLATION' | head -1 | cut -c1-220 | tr '"\\' "' ")
    echo "{\"id\":\"$id\",\"check\":\"$p\",\"violation\":$v,\"no_failing_input\":$nf,\"secs\":$(( $(date +%s)-t0 )),\"what\":\"$what\"}" >> $out
  done
  git -C "$R" checkout -q -- .
done
cat $out
