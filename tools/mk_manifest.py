#!/usr/bin/env python3
"""Regenerate MANIFEST.json from checks_registry.py."""
import json, os, sys, subprocess
ROOT = os.path.dirname(os.path.dirname(os.path.abspath(__file__)))
sys.path.insert(0, ROOT)
from checks_registry import PROPS, NOT_YET, ALL_IDS
hook_commits = subprocess.run(["git", "-C", "/repo", "log", "--format=%h %s"], capture_output=True, text=True).stdout.splitlines()
hook_commits = [l.split()[0] for l in hook_commits if l.split(" ", 1)[1].startswith("verif:")]
checks = []
for pid in sorted(PROPS):
    P = PROPS[pid]
    checks.append({
        "property_id": pid,
        "quick_cmd": "./check %s --tier quick" % pid,
        "thorough_cmd": "./check %s --tier thorough" % pid,
        "evidence_file": "evidence/%s.json" % pid,
        "replay_cmd_template": "./check %s --replay {path}" % pid,
        "engine": "coq-proof",
        "level_claimed": {"category": "proof", "text": P["claim"], "design_ref": "DESIGN.md, section on " + pid},
        "level_note": P["note"],
        "technique": P.get("technique", "Rocq/Coq theorem proving over a hand-written executable model + differential correspondence check against /repo"),
    })
na = [{"property_id": p, "reason": NOT_YET.get(p, "check under construction in this session (model and theorems not yet committed); will be claimed")}
      for p in ALL_IDS if p not in PROPS]
m = {
 "version": 1,
 "setup_cmd": "./setup.sh",
 "hooks": {
  "guard": "verif",
  "enable": "go build -tags verif (harness/ is a Go module with `replace github.com/unkn0wn-root/kioshun => /repo`)",
  "baseline_off_cmd": "cd /repo && GOFLAGS=-mod=mod GOPROXY=off go test -json -vet=off -count=1 -timeout 25m ./...",
  "source_commits": hook_commits,
  "add_only": True
 },
 "engines": [
  {"name": "coq-proof", "path": "coq/", "serves_properties": sorted(PROPS), "kind_free_text": "Coq 8.16.1 development: executable Gallina models + theorems, one Cxx.v per property (only `exact` + Print Assumptions)"},
  {"name": "correspondence", "path": "harness/ ocaml/ check", "serves_properties": sorted(PROPS), "kind_free_text": "Go harness (implementation built from /repo with -tags verif) vs OCaml-extracted model on the same inputs, plus property monitors used to search for failing inputs"}
 ],
 "checks": checks,
 "not_applicable": na,
 "notes": "All checks share one Coq build and one harness build, serialised by build/.lock; each check recompiles its own Cxx.v to capture Print Assumptions. known_findings.json lists genuine defects (fixed ones with their fix: commit)."
}
json.dump(m, open(os.path.join(ROOT, "MANIFEST.json"), "w"), indent=1)
print("MANIFEST.json:", len(checks), "checks,", len(na), "not yet claimed")
