import subprocess,glob,os,re
INSTR=" Instrumentation statements (verifYield / verifYieldNote / verifEv / verifAdopt / verifRetire / verifAckInc / verifDeliveredInc, `if verifEnabled` blocks, files verif_*.go) must be left exactly as they are. ALWAYS pass -timeout 120s to go test (a lost-key bug can make the suite spin)."
GEN="Make each change look like a plausible refactoring or optimisation a maintainer might merge: caching a value that can go stale, hoisting a check out of a loop or above a lock, merging two branches that differ in one rare case, replacing a full scan by an early exit, pooling or reusing objects, narrowing a lock's scope, turning a blocking wait into a bounded one, deduplicating work inside a batch. Prefer TWO COOPERATING SITES that each look fine alone. It must only misbehave on a rare path."
focus={
'C03':GEN+" For this property stay inside the capacity enforcement code (overCapacity, enforceSieveCapacity, the eviction loops in writes.go / eviction.go, per-shard budget computation in New, ErrItemTooLarge checks, cost bookkeeping on update / delete / expiry): the entry-count and weight budgets are never exceeded after any call returns. Rare paths: weighted updates that grow an entry, an insert needing several evictions, budgets of 1, remainders spread over shards, SieveTinyLFU warm-up and forced passes, cost-only caches, a weigher returning 0 or huge values, asynchronous batches mixing inserts and updates.",
'C05':GEN+" For this property stay inside the TTL code (deadline computation in setCommand / applySet including DefaultTTL, NoExpiration and saturation on huge TTLs, expiry checks in Get / GetWithTTL / Exists / Keys, Cleanup sweeps, lazy expiry on the SieveTinyLFU lock-free path): an entry is served until its deadline and never after, GetWithTTL reports the remaining time, non-expiring entries never expire. Rare paths: TTL overflow near MaxInt64, deadline exactly equal to now, updates that shorten or remove a TTL, DefaultTTL substituted for 0 but not for NoExpiration, Cleanup racing an update, expired entries counted by Size / Keys / Exists.",
'C06':GEN+" For this property stay inside the removal-notification code (dropItem staging, removeBuf, removePending, drainRemovals / the notifier goroutine, OnRemove / OnEvict option handling, reasons RemovedExpired / Evicted / Deleted / Replaced / Cleared / Rejected, the final drain at Close): every removal is reported exactly once with the right key, value and reason, never with a lock held, and none is lost at Close. Rare paths: a replace that also evicts, removal of a just-rejected candidate, Clear with listeners, removals staged while the notifier is mid-delivery, several shards flagged at once, listener masks that subscribe to only some reasons.",
'C10':GEN+" For this property stay inside the accounting code (Size / per-shard size and cost counters, Stats: hits, misses, evictions, expirations, the striped counters in stats.go, Keys / Len agreement with the table): counters agree with what is resident and with what callers observed. Rare paths: an update that changes cost, a rejected SieveTinyLFU candidate, expiry discovered by Exists or GetWithTTL rather than Get, Clear and Close resetting counters, stats disabled then read, eviction of several entries by one insert, asynchronous batches, Delete of an absent key.",
'C14':GEN+" For this property stay inside httpcache's capture and replay code (the capturing responseWriter: Header / WriteHeader / Write / Flush / ReadFrom / Unwrap, body size limit, header snapshot and IgnoreHeaders, serveCached): a hit replays exactly the status, headers and body the origin handler produced, isolated from later mutation. Rare paths: implicit 200 on first Write, WriteHeader called twice, 1xx informational headers, headers added after WriteHeader, multi-value headers, empty bodies, bodies exactly at the size limit, HEAD requests, handlers that write after Flush, Content-Length handling.",
}
for p,f in focus.items():
    pid=p+'s'
    prop=open(f'out/{p}.prop.txt').read()
    open(f'out/{pid}.prop.txt','w').write(prop)
    base=subprocess.check_output(['python3','prompt.py',pid],text=True)
    prev=[]
    for d in sorted(glob.glob(f'/verif/seeded/{p}*-m*/README.md')):
        t=[x for x in open(d).read().strip().split('\n') if x.strip()]
        prev.append((t[0]+' / '+(t[1] if len(t)>1 else ''))[:130])
    extra="\n\nFOCUS: "+f+INSTR+" Mutants ALREADY produced for this property by someone else — do NOT repeat these mechanisms: "+' ;; '.join(prev)+"\n"
    i=base.index('For each mutant i in')
    open(f'out/{pid}.prompt.txt','w').write(base[:i].rstrip()+extra+"\n"+base[i:])
    os.makedirs(f'out/{pid}',exist_ok=True)
    subprocess.check_call(['git','-C','/repo','worktree','add','--detach',f'/tmp/mut/{pid}','HEAD'],stdout=subprocess.DEVNULL,stderr=subprocess.DEVNULL)
print('ok')
