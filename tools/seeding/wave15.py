import subprocess,glob,os,re
INSTR=" Instrumentation statements (verifYield / verifYieldNote / verifEv / verifAdopt / verifRetire / verifAckInc / verifDeliveredInc, `if verifEnabled` blocks, files verif_*.go) must be left exactly as they are. ALWAYS pass -timeout 120s to go test (a lost-key bug can make the suite spin)."
GEN="Make each change look like a plausible refactoring or optimisation a maintainer might merge: caching a value that can go stale, hoisting a check out of a loop or above a lock, merging two branches that differ in one rare case, replacing a full scan by an early exit, pooling or reusing objects, narrowing a lock's scope, turning a blocking wait into a bounded one, deduplicating work inside a batch. Prefer TWO COOPERATING SITES that each look fine alone. It must only misbehave on a rare path."
focus={
'C17':GEN+" For this property stay inside manager.go (Manager, GetCache, GetCacheWithConfig, RegisterCache / Register, Remove, CloseAll, the package-level global manager helpers): e.g. the double-checked creation under the registration lock, what a loser of a creation race does with the instance it built, the type pinned by a registration versus the type of the stored instance, Remove racing a creation of the same name, CloseAll's iteration and what it leaves registered, errors from an invalid configuration leaving state behind.",
'C18':GEN+" For this property stay inside internal/keyhash and the places where cache.go derives the shard index and the table hash from it; it should only show for particular key types or values (named integer or string types, uintptr, small negative signed integers, float keys ±0/NaN, very long strings and strings that differ only far from the start or only in length, array / struct keys with padding, strings or interfaces inside, pointer and channel keys, bool, complex) or for particular shard counts (1, 2, 256, more than 256 on an unbounded cache).",
'C19':GEN+" For this property stay inside sketch.go and ghost.go (frequency sketch: increment / estimate / aging / doorkeeper, counter saturation at 15, row index derivation; ghost list: add / contains / remove / clear, the ring of fingerprints and its open-addressed index, wrap-around, capacity 1-3) and the few call sites in sieve.go that feed them.",
'C02':GEN+" The fault must only be visible to CONCURRENT callers on one key (never to a single goroutine): a reader racing an update / delete / eviction / expiry / table growth / tombstone reclaim, two writers racing on one key through different paths (Set vs SetAsync vs SetWithCallback vs GetOrSet / Delete), the lock-free read path of SieveTinyLFU versus the locked path of LRU / LFU / FIFO, item recycling, seqlock-style version checks, the value+expiry pair read in two steps.",
'C07':GEN+" For this property aim at progress: a call that never returns, a write that is accepted and never applied or acknowledged, a worker or notifier goroutine that goes to sleep with work pending (lost wake-up), a Sync / Clear / Close / SetWithCallback that waits for something nobody will do any more, a callback never invoked or a lock kept on a rare error path. Only on a rare path: ring exactly full, batch exactly full, wrap-around of head/tail indices, a producer stalled between reserving and publishing a slot, Close racing producers, tiny WriteBufferSize / WriteBatchSize, the notifier queue at its high-water mark.",
'C11':GEN+" For this property aim at the internal linked structures and their counters: LRU list, LFU frequency buckets / ring, FIFO queue, the SIEVE probation / main queues with the hand pointer, the table's size / tombstone counters, per-shard size and cost counters, stats counters; a missing unlink or double link on a rare path (update of the node the hand points at, removal of the only node, replacement of head or tail, expiry discovered by a Get, Clear during warm-up, eviction triggered by an update rather than an insert).",
}
for p,f in focus.items():
    pid=p+'q'
    prop=open(f'out/{p}.prop.txt').read()
    open(f'out/{pid}.prop.txt','w').write(prop)
    base=subprocess.check_output(['python3','prompt.py',pid],text=True)
    prev=[]
    for d in sorted(glob.glob(f'/verif/seeded/{p}*-m*/README.md')):
        t=open(d).read().strip().split('\n')
        t=[x for x in t if x.strip()]
        prev.append((t[0]+' / '+(t[1] if len(t)>1 else ''))[:130])
    extra="\n\nFOCUS: "+f+INSTR+" Mutants ALREADY produced for this property by someone else — do NOT repeat these mechanisms: "+' ;; '.join(prev)+"\n"
    # insert before 'For each mutant i'
    i=base.index('For each mutant i in')
    open(f'out/{pid}.prompt.txt','w').write(base[:i].rstrip()+extra+"\n"+base[i:])
    os.makedirs(f'out/{pid}',exist_ok=True)
    subprocess.check_call(['git','-C','/repo','worktree','add','--detach',f'/tmp/mut/{pid}','HEAD'],stdout=subprocess.DEVNULL,stderr=subprocess.DEVNULL)
print('ok')
