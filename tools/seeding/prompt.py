import sys
pid=sys.argv[1]
prop=open(f'/tmp/mut/out/{pid}.prop.txt').read()
print(f"""You are helping test a verification framework by seeding realistic bugs ("mutants") into a Go library.

The library is github.com/unkn0wn-root/kioshun (a sharded in-memory Go cache with LRU/LFU/FIFO/SieveTinyLFU eviction and an httpcache middleware). You have your OWN scratch git worktree of it at /tmp/mut/{pid} . Work ONLY inside /tmp/mut/{pid} and write your results to /tmp/mut/out/{pid}/ . Do NOT read, list or modify anything under /repo or /verif, and do not look at other directories under /tmp/mut.

Go environment (sandbox is offline): in every shell command first run
  export GOFLAGS=-mod=mod GOPROXY=off
and do NOT set GOTOOLCHAIN or GOSUMDB. `go test -vet=off -count=1 ./...` inside /tmp/mut/{pid} runs the existing suite (about 10 s). Files named verif_on.go / verif_off.go and statements mentioning `verifEnabled`, `verifEv`, `verifYield`, `verifStagedInc` are instrumentation: do not modify or rely on them, and do not use the `verif` build tag.

Here is a semantic property the library is supposed to satisfy:

---
{prop}---

Your task: produce TWO DIFFERENT source changes (mutants) to the library's non-test Go code, each of which
  (a) breaks this property (a user relying on the property would observe wrong behaviour),
  (b) still compiles and still passes the ENTIRE existing test suite unchanged (`go test -vet=off -count=1 ./...` — run it at least twice, it must pass both times), and
  (c) needs something SPECIFIC to manifest: a particular interleaving, a multi-step sequence of operations, an unusual input or configuration, a boundary value, or two cooperating sites that each look fine alone. Not something ordinary use would expose at once. Aim for bugs a plausible refactoring or optimisation could introduce (off-by-one in a boundary, a dropped re-check, a wrong branch order, a missing unlink/counter update on a rare path, a stale value kept on one path), small (1-15 changed lines), and different in mechanism from each other. Do not change test files. Do not make changes that merely crash on every use.

For each mutant i in {{1,2}} write into /tmp/mut/out/{pid}/m$i/ :
  - patch.diff : `git diff` of the change against the worktree's HEAD (must apply with `git apply` to a clean checkout of HEAD). Only library source files; no test files.
  - a demonstration: a Go test file (demo_test.go, state in README which package directory it belongs in) or small program that FAILS with the mutant applied and PASSES on the unmodified HEAD. It must be deterministic or very nearly so (if it needs concurrency, loop enough to make it reliable and keep it under 30 s).
  - README.md : which clause of the property it breaks, what is needed for it to manifest, exact commands you ran and their results (suite with mutant: pass; demo with mutant: fail; demo without mutant: pass).

Procedure per mutant: edit the source, run the full suite twice (must pass), add the demo, run it (must fail), save `git diff -- . ':!*_test.go'` as patch.diff, copy the demo out, then `git stash -u` or `git checkout -- . && git clean -fd` to get back to a clean HEAD, re-add only the demo and confirm it passes on clean HEAD, then clean again. If a candidate mutant is caught by the existing suite, discard it and find another. Leave the worktree clean (git status empty) at the end.

Finish with a short report: for each mutant one paragraph (file/function changed, what breaks, what triggers it) and confirmation of the three runs. If you could only produce one, say so.""")
