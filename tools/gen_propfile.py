#!/usr/bin/env python3
"""gen_propfile.py <Cxx> <spec.json>: generate coq/Cxx.v from a spec
{ "header": "...comment...", "imports": ["KV.Base", ...], "open_scopes": ["Z_scope"],
  "theorems": [ ["c09_name", "lemma_name", "comment"], ... ] }
Each statement is printed by Coq itself (Check) and re-stated explicitly, closed by `exact`."""
import json, re, subprocess, sys, os
pid, spec = sys.argv[1], json.load(open(sys.argv[2]))
COQ = os.path.join(os.path.dirname(os.path.dirname(os.path.abspath(__file__))), "coq")
imports = "Require Import " + " ".join(spec["imports"]) + ".\n" + "".join("Open Scope %s.\n" % s for s in spec.get("open_scopes", []))
q = imports + "Set Printing Width 100.\nSet Printing Depth 1000.\n" + "".join('Check %s.\n' % t[1] for t in spec["theorems"])
open("/tmp/gen_q.v", "w").write(q)
out = subprocess.run(["coqc", "-Q", ".", "KV", "/tmp/gen_q.v"], cwd=COQ, capture_output=True, text=True)
if out.returncode != 0:
    print(out.stdout[-3000:], out.stderr[-3000:]); sys.exit(1)
txt = out.stdout
stmts = {}
names = [t[1] for t in spec["theorems"]]
# split output at lines that are exactly a lemma name followed by "\n     : "
parts = re.split(r"^(\S+)\n     : ", txt, flags=re.M)
ordered = []
for i in range(1, len(parts), 2):
    stmts[parts[i]] = parts[i + 1].strip()
    ordered.append(parts[i + 1].strip())
positional = len(ordered) == len(spec["theorems"])
body = ["(* %s *)" % spec["header"].replace("*)", "* )"), imports]
for idx, (new, lem, comment) in enumerate(spec["theorems"]):
    key = lem.split(".")[-1]
    st = ordered[idx] if positional else (stmts.get(lem) or stmts.get(key))
    if st is None:
        print("no statement for", lem); sys.exit(1)
    st = re.sub(r"\n\nArguments.*", "", st, flags=re.S)
    body.append("(* %s *)\nTheorem %s :\n  %s.\nProof. exact %s. Qed.\n" % (comment, new, st.replace("\n", "\n  "), lem))
body.append("".join("Print Assumptions %s.\n" % t[0] for t in spec["theorems"]))
open(os.path.join(COQ, pid + ".v"), "w").write("\n".join(body))
r = subprocess.run(["coqc", "-Q", ".", "KV", pid + ".v"], cwd=COQ, capture_output=True, text=True)
print(pid, "rc", r.returncode, "closed:", r.stdout.count("Closed under the global context"), "of", len(spec["theorems"]))
if r.returncode != 0:
    print((r.stdout + r.stderr)[-2500:])
