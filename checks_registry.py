"""Registry of properties: which Coq file states them and which correspondence streams tie the model to /repo."""

TRUSTED_BASE = [
    "Coq 8.16.1 kernel and coqc; vm_compute used inside proofs for finite side conditions and refutation witnesses; no native_compute",
    "Axioms: none declared by this development; Print Assumptions output of every property theorem is recorded in axioms_reported (empty = closed under the global context)",
    "Extraction: Require Import ExtrOcamlBasic only (bool, option, list, prod, unit, sumbool mapped to OCaml's); no Extract Constant / Extract Inductive of our own; nat, positive, N, Z stay inductive; OCaml 4.13.1 ocamlopt",
    "ocaml/driver.ml (line parser, decimal<->Z conversion, printing) and the line-by-line comparison in ./check",
    "Go harness under harness/ and the build-tag `verif` hooks in /repo (verif_on.go and the inserted verifEv/verifYield/verifClock statements) report faithfully",
    "The model is hand-written; it is tied to /repo only through the correspondence streams listed under coverage.streams (differential testing, not proof)",
]

AXIOM_WHITELIST = set()   # no axioms expected; standard-library axioms would be named here and in DESIGN.md

def S(stream, quick, thorough, **kw):
    d = {"stream": stream, "quick": quick, "thorough": thorough}
    d.update(kw)
    return d

PROPS = {
    "C01": {
        "file": "C01.v",
        "streams": [S("cache", 250, 4000, focus="C01"), S("conc", 24, 400, timeout=2400)],
        "claim": "Theorems over the whole-cache machine of CacheModel (typed machine cstep proved equal to the integer-encoded step the stream runs): for every validated configuration, every well-sharded sequence of Set/SetAsync/Sync/Get/GetWithTTL/Exists/Delete/Keys/Clear/Cleanup/Close/clock advances, every oracle event stream and all four policies, every lookup result is justified by the lossy-map reference `latest` (a hit is the latest successfully written value unless a SetAsync for that key is still queued, Exists/Keys only name keys whose latest state is a write, Keys has no duplicates), a successful Set on a resident key takes effect (or loses the key, never keeps the old value), Delete returns true iff the key was resident, a failed Set changes nothing, a SetAsync batch followed by Sync equals the same Sets applied synchronously, shards commute, a closed cache serves nothing. Shard-level: SieveProofs (lookup = table, rejected candidate absent, other keys unchanged or lost) and ClassicProofs. Concurrency: MutexAtomicity proves lock-protected sections atomic for every schedule; the conc stream checks real concurrent histories per key against the sequential specification (LinCheck windows) and replays deterministic schedules through the yield hooks. Tied to /repo by T-trace on the real cache (virtual clock; admission/ghost/adaptation decisions recorded as oracle events and re-checked by the model), with every third trace forcing async batches through the ring.",
        "note": "Trusted: Coq kernel, extraction, driver, harness and hooks. The literal statement 'a hit returns latest' is refuted for the window in which an accepted SetAsync is still queued (c01_literal_refuted_async_visibility: intended asynchronous semantics; Sync/Set/Delete or a Sieve miss close it). The lock-free read path of SieveTinyLFU is covered by C02/C11/C12's table LTS, not by these sequential theorems.",
        "assumptions": ["shard placement is an arbitrary fixed function shard_of (the implementation's hash placement is taken from the trace)", "TinyLFU admission, ghost hits and adaptation are oracle events, each checked by the model against its own state (serr); theorems hold for every event stream", "ShardCount <= 2^62 in cache_init_inv (F9)"],
    },
    "C03": {
        "file": "C03.v",
        "streams": [S("cache", 250, 4000, focus="C03"), S("cfg", 200, 3000), S("conc", 24, 400, timeout=2400)],
        "claim": "Theorems: CacheInv (containing over_capacity = false for every shard) is preserved by every operation of every well-sharded history for every event stream, hence every shard holds at most its share of MaxSize entries and of MaxCost weight in every state between operations, len(Keys) <= Size <= MaxSize; an insert into a shard with room drops, rejects and notifies nothing; an unweighted insert drops at most one entry; an unlimited cache never drops. The SieveTinyLFU budget theorem (apply_sieve_budget_strong) covers adversarial states: every protected entry visited, every probation entry promotable, forced repair; it needs no assumption on the oracle stream. Shares sum to the configured totals (ConfigProofs.share_sum). Tied to /repo by T-trace (cache stream: per-shard size/cost compared after every operation, directed adversarial prefixes at capacities up to 1000), the cfg stream (shares) and the conc stream (budget monitors at quiescence under concurrent writers).",
        "note": "Trusted: Coq kernel, extraction, driver, harness, hooks. LFU's budget clause is conditional on the implementation's victim pick being accepted by the model (serr = 0), which the stream checks on every trace. 'At every moment Keys reports at most MaxSize keys' is proved between operations; during a concurrent write the conc stream samples it. F1 (two evictions for one insert) was found here and fixed.",
        "assumptions": ["per-shard, between operations; transient over-budget inside a write is inside the shard lock (MutexAtomicity.invariant_transfer)", "LFU: oracle pick accepted"],
    },
    "C04": {
        "file": "C04.v",
        "streams": [S("qc", 150, 3000, timeout=2400), S("ql", 100, 2000), S("conc", 24, 400, timeout=2400, race=True), S("cache", 150, 2500, focus="C04")],
        "claim": "Theorems over QueueLts, an atomic-step labelled transition system of one shard's write pipeline written statement by statement from mpsc.go / writes.go / cache.go (each step runs one thread from one yield point to the next): for every ring size n >= 2, batch size, number of producers / synchronous writers / Sync, Clear, Close callers / miss helpers, the worker, every schedule and every resolution of two-way selects: the ring invariant (no published command overwritten, laps and back-pressure included; n = 1 refuted), queue-applied commands are a prefix of the reservation order each applied exactly once, every nil-returned SetAsync is published / in the consumer's batch / applied, and (repaired code) real-time order: a write that returned before another was invoked is applied before it, for any mix of SetAsync, Set and Delete; the original syncMutate is refuted on the model (finding F13, replayed on the real code, fixed). Tied to /repo by T-lockstep at two levels: `ql` (the real mpscQueue) and `qc` (the real cache: SetAsync/Set/Sync/Close/Get-miss callers and the adopted write worker) run under the cooperative scheduler on random schedules, and after EVERY step the yield point or result and the shared state (head, tail, wakeState, wake/space tokens, closeCh, drain token) are compared with the extracted LTS; plus deterministic schedule probes (stalled producer, sync overtake, sync fence with a dequeued-but-unapplied batch), free-running stress with per-key linearizability windows, and the cache stream's queued batches (drain tokens held so that SetAsync goes through applyWriteBatch, Sync/Clear issued while the batch is queued).",
        "note": "Trusted: Coq kernel, extraction, driver, harness, scheduler hooks (verifYield points; adoption of the worker goroutine). sync/atomic operations and channel sends/receives are single steps of the LTS; positions are unbounded integers (the 64-bit wrap of head/tail after 2^64 writes is not modelled). 'Visible within bounded time with no further calls' is proved as: no lost wake-up + some responsible thread is always enabled (progress); real-time bounds and scheduler fairness are the runtime's. Not modelled: the extra wake signal sent by read sampling (a spurious token), Clear's effect on the table (CacheProofs covers it functionally), multi-shard loops of Sync/Clear/Close (shards are independent; the conc and cache streams use up to 8).",
        "assumptions": ["atomics and channel operations are sequentially consistent single steps", "Go's random choice in a two-way select with both cases ready is an oracle bit; theorems hold for both choices"],
    },
    "C05": {
        "file": "C05.v",
        "streams": [S("cache", 250, 4000, focus="C05"), S("conc", 24, 400, timeout=2400)],
        "claim": "Theorems over the whole-cache machine with a virtual clock: TTL normalisation (DefaultExpiration, NoExpiration, other negatives, DefaultTTL 0/-1); a committed write stores deadline min(now+t, MaxInt64) for t>0 and 0 otherwise, never wrapping; an entry with 0<deadline<now is never returned by Get/GetWithTTL/Exists nor listed by Keys, and is served until then while resident; GetWithTTL's remaining time is -1 iff no deadline, else deadline-now in [0, ttl], strictly decreasing; a rewrite replaces the deadline; Cleanup removes exactly the expired entries, each logged, notified and counted once. Tied to /repo by T-trace with clock advances landing on and next to deadlines, TTLs from 1 ns to MaxInt64, both the inline and the queued (applyWriteBatch) stamping paths, plus concurrent expiry races (a fresh long-TTL rewrite is never reported expired; deterministic and free-running).",
        "note": "Trusted: Coq kernel, extraction, driver, harness, virtual-clock hook (the monotonic clock itself is the runtime's). '-1 iff deadline 0' needs a non-negative clock (refuted at a negative clock; the implementation's clock starts at 0). F6 (deadline overflow) was found here and fixed.",
        "assumptions": ["the cache clock is non-negative and monotone (time.Since of a fixed base)"],
    },
    "C06": {
        "file": "C06.v",
        "streams": [S("cache", 250, 4000, focus="C06"), S("conc", 24, 400, timeout=2400), S("nl", 150, 3000)],
        "claim": "Theorems over ghost logs threaded through the model (glog: every write/replace/clear/drop; nlog: notifications): conservation for every (key,value) after every history (#written = #resident + #replaced + #cleared + #dropped), the notification log is exactly the dropped entries whose reason is in the listener mask, in order, once each; nothing is reported for a resident entry; an entry whose last event is a drop is not readable; reasons: deleted only by Delete of that key, expired only for 0<deadline<now met by Get/Exists/Cleanup, capacity only for a published entry displaced while writes are applied, rejected only under Sieve for the write's own unpublished candidate or an entry displaced by that write; replacement, Clear's and Close's clearing step stage nothing. Tied to /repo by T-trace with real listeners (OnRemove, OnEvict, both), notifications compared per operation, an independent Go ledger monitor, and concurrent histories with a value-unique ledger (stress, Close with staged notifications).",
        "note": "Trusted: Coq kernel, extraction, driver, harness, hooks. Delivery is proved on a separate LTS (NotifierProofs.v: staging buffers, pending flags, coalescing token, one notifier, re-entrant listeners: nothing fabricated or duplicated, FIFO per shard, no lost wake-up, everything staged before the final drain's visit delivered exactly once before Close returns; F14 = what is staged later is lost); that LTS is hand-written from eviction.go/shard.go and tied to the code by the nl lock-step stream (the real notifier goroutine adopted by the scheduler and stepped through its select, per-shard flag loads, lock and listener calls on random schedules with Close; position, wake token, closeCh, pending flags, buffer lengths and deliveries compared after every step), plus the cache stream (staged vs received after settling), the closeNotify / closeDrainNotify / backlog probes and the conc ledger. F2 (unpublished candidate reported as capacity) was found here and fixed; F7 (listener calling Close) is recorded under C07/C08.",
        "assumptions": ["notification delivery is asynchronous; comparison happens after the notifier has drained"],
    },
    "C10": {
        "file": "C10.v",
        "streams": [S("cache", 250, 4000, focus="C10"), S("conc", 24, 400, timeout=2400)],
        "claim": "Theorems: in every state of every history total size = number of resident items = table sizes, total cost = sum of item costs when cost is tracked and = size otherwise, len(Keys) <= size; per shard the table domain equals the policy lists' members without duplicates and the counters equal their sizes; with stats on, hits/misses equal the ghost counts of Get/GetWithTTL outcomes, evictions the number of capacity drops and expirations the number of expiry drops in the ghost log (= notifications by C06), with stats off all stay 0. Tied to /repo by T-trace (Stats, Size, Cost and the per-shard (size,cost) pairs compared after operations; the internal-structure checker VerifCheckInvariants at every quiescent point) and by concurrent runs observed after quiescence (hits+misses = calls, Expirations = expiry notifications, structure checker).",
        "note": "Trusted: Coq kernel, extraction, driver, harness, hooks (VerifCheckInvariants is an independent Go re-derivation of the structures). Atomic counters under concurrency are covered by the conc stream's quiescent-point checks, not by the sequential theorems.",
        "assumptions": ["counters are compared at quiescent points"],
    },
    "C17": {
        "file": "C17.v",
        "streams": [S("reg", 30, 400)],
        "claim": "Theorems over RegistryLts (sync.Map operations and the registration lock as atomic steps; any number of concurrent GetCache / GetCacheWithConfig / Register / RegisterCache / Remove / CloseAll callers, names and type parameters; every interleaving): one instance per name, every returned instance was in the map at the call's linearization point, losers of creation races are closed, no instance is ever leaked once all calls returned, type mismatches (live instance or typed registration) fail without leaving an instance behind, unregistered names fail, Register never replaces, Remove closes and forgets, CloseAll keeps registrations and forgets only what it closed. The leak schedule found on the model was replayed on the real code through a yield hook and fixed (F12); F8 fixed earlier. Tied to /repo by sequential call sequences compared with the sequential registry specification (extracted), concurrent rounds with identity / liveness / goroutine-delta monitors, CloseAll races and the deterministic leak probe. Since the sequential traces are now replayed on the extracted RegistryLts itself as well (every call spawned as a thread and run to completion, sid 18), the LTS the theorems are about is compared with the real Manager call by call, not only the separate sequential specification.",
        "note": "Trusted: Coq kernel, extraction (sequential spec only), harness, the CloseAll yield hook. The concurrent LTS is hand-written from manager.go and tied by monitors, not by an extracted-model diff. sync.Map and sync.RWMutex are taken at their documented meaning.",
        "assumptions": ["a GetCache linearizing just before a concurrent CloseAll may return the instance being closed (c17_closed_instance_window)"],
    },
    "C18": {
        "file": "C18.v",
        "streams": [S("keys", 12, 200, no_model=True), S("ht", 200, 3000)],
        "claim": "The table refines a map for every hash function (distinct keys never alias even when hashes or tags coincide; hashes 0 and 1 are ordinary) - theorems shared with C12; the reflect.Kind switch of keyhash.New is regenerated from the source on every run and proved to route each integer kind through a type of the same width and signedness and strings to the string hasher; the integer hasher is a function of the key's value. For floats (+0/-0), padded structs, interface-typed, pointer and array keys equality-implies-same-hash rests on hash/maphash.Comparable's documented contract: that part is conformance (20 key types written through one representation and read/overwritten/deleted through an equal one, integer keys whose Avalanche hash is exactly 0/1/2/3 obtained by inverting it, keys colliding modulo the table size).",
        "note": "Trusted: Coq kernel, extraction, harness; hash/maphash (String, Comparable) contracts; the go/ast table generator (harness/kindtable.go). Partial: the stdlib hashers are exercised, not proved.",
        "assumptions": ["64-bit target (int/uint/uintptr are 64 bits wide)"],
    },
    "C20": {
        "file": "C20.v",
        "streams": [S("cb", 60, 800)],
        "claim": "Theorems over CallbackLts (virtual time; one timer thread per SetWithCallback call; arbitrary interleavings with Set, Delete, Clear, expiry removal and Close; every schedule and timing): at most once per call, never before its own deadline, never for a timer that elapses after Close returned, own key and value, nothing scheduled for failed/rejected/non-expiring writes, not when the key was deleted, cleared or rewritten with another deadline, no lock held while the callback runs. The Delete-then-shorter-re-Set defect (F11) is fixed and kept as a regression theorem; the same-deadline residual is stated explicitly. Tied to /repo by scenario runs under the virtual cache clock with real timers, callbacks re-entering the cache on their own key. The cb stream is a T-trace: every call of the directed and random scenarios is replayed on the extracted CallbackLts (call threads run to completion, timers taking the closeCh case at Close and the timer case at the final clock) and the set of callbacks that ran is compared.",
        "note": "Trusted: Coq kernel, harness, virtual-clock hook; timer accuracy and goroutine scheduling are the runtime's. The LTS is hand-written from writes.go/cache.go and tied only by the scenario stream (no extracted-model diff for this property).",
        "assumptions": ["distinct deadlines for distinct writes of one key (B6); one shard suffices"],
    },
    "C07": {
        "file": "C07.v",
        "streams": [S("qc", 150, 3000, timeout=2400), S("ql", 100, 2000), S("conc", 24, 400, timeout=2400, race=True), S("cb", 20, 100), S("nl", 100, 2000)],
        "claim": "Theorems over QueueLts for every ring size >= 2, batch >= 1, thread mix, schedule and select choice: the lock discipline (a thread blocked on the drain token holds nothing; blocked on the shard lock it holds at most the token; blocked on a channel or workers.Wait it holds nothing; every inline path uses TryLock and is always enabled), no lost wake-up (a published command at tail with a free token on an open cache always has a pending wake token, an active worker section or a producer about to signal), the coalescing flag is sound, progress (whenever work is ready a responsible thread is enabled), the repaired synchronous writer's wait depends only on never-blocked producer steps, Close's broadcast enables every producer blocked on a full ring, Close waits for the workers; MutexAtomicity: the two-lock order is deadlock free for arbitrary scripts; CallbackProofs: callbacks run with no lock held. Tied to /repo by the ql/qc lock-step streams (every step of random schedules compared, enabledness computed from the real state, a deadlock monitor at schedule end), the conc stream (every public call under a 15 s watchdog in stress with back-pressure rings of 2, concurrent Sync/Clear/Close, re-entrant listeners and callbacks; Close races counting goroutines), and the cb stream (callbacks re-entering the cache).",
        "note": "Trusted: Coq kernel, extraction, driver, harness, scheduler hooks. Liveness is proved as enabledness (some responsible thread can always step); 'bounded time' additionally needs the Go scheduler's fairness and is observed only through watchdogs. Removal listeners re-entering the cache: NotifierProofs shows they run with no shard lock held and that what they stage is delivered; the known finding F7 (a listener that calls Close never returns), which the check reports as KNOWN-FINDING.",
        "assumptions": ["Go scheduler fairness for the step from 'enabled' to 'returns in bounded time'", "atomics and channel operations are single sequentially consistent steps"],
    },
    "C08": {
        "file": "C08.v",
        "streams": [S("qc", 150, 3000, timeout=2400), S("conc", 24, 400, timeout=2400), S("cache", 150, 2500, focus="C08"), S("reg", 20, 300), S("nl", 100, 2000)],
        "claim": "Theorems: at most one thread is ever inside Close, a second Close waits and then returns, Close after completion returns at once and changes nothing, Close returns only after every write worker exited, producers blocked on a full queue are released with ErrCacheClosed unless their write was still accepted (QueueLts, every schedule); on a closed cache every Set/SetAsync/SetWithCallback refuses and changes nothing, Sync fails, Get/GetWithTTL miss, Exists/Delete are false, Keys is empty, Clear/Cleanup/Close are the identity (CacheProofs); a callback timer that reaches its select after Close returned never calls (CallbackProofs). Tied to /repo by the qc lock-step (a Close caller in a third of the schedules, stepped against the model through flush, broadcast, join and clear), the conc stream's close races (Close landing at random points of in-flight operations of every kind, results after Close checked, goroutine count back to the baseline within 3 s for every policy / listener / cleanup / callback setting), the cache stream (operations after Close) and the reg stream (Remove/CloseAll goroutine deltas).",
        "note": "Trusted: Coq kernel, extraction, driver, harness. Goroutine release for the notifier, cleanup ticker and callback timers is checked by counting goroutines after Close (runtime observation), not proved; the write workers' exit is proved. Known finding F7 (Close called from a removal listener waits for itself) is reported as KNOWN-FINDING.",
        "assumptions": ["'shortly after Close returns' is checked with a 3 s bound"],
    },
    "C09": {
        "file": "C09.v",
        "streams": [S("cache", 250, 4000, focus="C09")],
        "claim": "Theorems over CacheModel's classic-policy shard for every operation sequence, capacity and cost vector: the LRU list is sorted by last read/write stamp and the victim has the minimum stamp; FIFO by insertion stamp regardless of reads and updates; LFU bucket frequency = 1 + reads since the last write and any victim accepted from the implementation lies in the minimum bucket; Exists/Keys/misses/expired lookups never change the stamps; the shard invariant, history ledger and notification log hold along every history. Tied to /repo by T-trace on the real cache (virtual clock, LFU pick recorded as an oracle event) and an independent Go monitor that re-derives the policy order from the history.",
        "note": "Trusted: Coq kernel, extraction, driver, harness and hooks (virtual clock, LFU-victim event). Pointer surgery of the intrusive list and Go map iteration inside the LFU bucket are modelled (list / oracle), not verified.",
        "assumptions": ["LFU's choice among equally infrequent entries is an oracle input checked to lie in the minimum bucket", "shard placement of keys is taken from the implementation"],
    },
    "C13": {
        "file": "C13.v",
        "streams": [S("http", 300, 4000, focus="C13")],
        "claim": "Theorems over HttpModel: directive detection is sound w.r.t. the RFC 9111 reading of Cache-Control for every spelling, position, spacing, argument form and field-line arrangement (over-splitting inside quoted strings only errs towards not caching); strconv.Atoi and the max-age clamp; the default policy's decision table (stored iff every gate passes; max-age, else future Expires, else default TTL); the capture state machine (streamed iff flushed/hijacked/101; too large iff bytes > limit, exactly); non-cacheable methods bypass. Tied to /repo by handler scripts run behind a real loopback server through the real middleware, by the exported DefaultCachePolicy on generated and malformed values, and by an independent Go oracle for 'must not be cached'.",
        "note": "Trusted: Coq kernel, extraction, driver, harness, httpcache hooks; net/http server and client behaviour is a reference model validated by the same correspondence; time.Parse for Expires is an oracle. Non-ASCII header bytes are outside the theorems (generated only in the malformed stream).",
        "assumptions": ["Expires parsing is an oracle input (Some ttl / None)", "header keys and values are byte strings; theorems about case folding are for ASCII"],
    },
    "C14": {
        "file": "C14.v",
        "streams": [S("http", 300, 4000, focus="C14")],
        "claim": "Theorems over HttpModel's capturing writer composed with a reference model of net/http's server-side writer: for every handler script (header edits, implicit status, several writes, 1xx first, edits after commit, superfluous WriteHeader) the stored status/body/header snapshot equals what the client was sent (plus the MISS marker), and the client view of a replay equals the client view of the origin response outside ignored headers and markers; HIT/MISS markers. Isolation from later mutation of maps/slices is decided by the harness (it mutates every slice the handler kept between two hits) since value-semantics models cannot express aliasing.",
        "note": "Trusted: as C13. The aliasing clause is exploration-level (harness attack), stated as partial.",
        "assumptions": ["responses whose status allows no body (204/304) are compared at the client view only"],
    },
    "C15": {
        "file": "C15.v",
        "streams": [S("trie", 300, 5000), S("index", 40, 400)],
        "claim": "Part 1, theorems over HttpTrie: for every raw operation stream the path index equals the abstract map normalized-path -> key -> identity, exact and wildcard matching are segment-wise, equivalent spellings (slash runs of any length, leading, trailing) coincide, removal by identity ignores stale notifications, pruning leaves no empty branch and never loses a live branch. Part 2, theorems over IndexLts (store = index step then cache step; notifications delivered asynchronously and removed by identity; Invalidate = snapshot then deletes; Clear = two steps; evictions, rejections, expirations as environment steps; any number of threads, every schedule): under the hypothesis that no two stores of ONE key overlap and no store overlaps a Clear, at every quiescent state index and cache hold the same keys with the same identities; an Invalidate with no request in flight leaves no matching key cached and nothing else touched; the drained state is independent of notification delivery times; rejected and failed stores leave nothing behind. The hypothesis is necessary: overlapping stores of one key are refuted on the model and replayed on the real middleware (known finding F5). Tied to /repo by T-trace on the real patternIndex (trie stream) and on the real middleware through the split-store hooks (index stream: every step replayed by the extracted IndexLts, key sets compared at every flush), plus the late-notification probes (a blocking PathExtractor; 6000 free-running race rounds) and rounds with small caches (evictions) under the index = cache monitor.",
        "note": "Trusted: Coq kernel, extraction, driver, harness, httpcache hooks. The index-vs-cache interleaving clause is partial (probes + known finding), not a theorem yet.",
        "assumptions": ["keys and identities are integers in the model; Go map iteration order is abstracted by comparing sorted answers"],
    },
    "C02": {
        "file": "C02.v",
        "streams": [S("conc", 40, 600, focus="C02", timeout=2400), S("htl", 150, 3000)],
        "claim": "A Coq-verified (sound and complete) linearizability checker for per-key histories against the lossy register, with the three consequences named in the property as theorems; real concurrent histories of the cache (all policies, tiny capacities and rings) are cut at quiescent points and decided by the extracted checker on every run. Table level: theorems on an LTS of lock-free lookups against the single writer at the granularity of individual atomic loads/stores (hit = item of that key alive during the lookup; miss = key unpublished at some instant; never another key's value). The strict statement is machine-refuted inside one in-flight re-insert (present/absent/present, finding F10), so the property is claimed with that exception.",
        "note": "Trusted: Coq kernel, extraction, driver, harness. sync/atomic is taken as sequentially consistent; Go's scheduler decides which interleavings the stress run explores (evidence, not proof). Cache-level trace inclusion (locks + table) is argued in DESIGN.md, not mechanised.",
        "assumptions": ["values written are pairwise distinct (harness guarantees it)", "windows longer than 14 overlapping calls end a key's chain (counted in the evidence)"],
    },
    "C11": {
        "file": "C11.v",
        "streams": [S("conc", 40, 600, focus="C11", timeout=2400, race=True), S("htl", 150, 3000), S("rb", 100, 2000)],
        "claim": "Table-level theorems on the atomic-step LTS: a lookup's key and value are fields of one item object created by one write (items are never mutated), the structural invariant holds at every instant including between the two stores of an operation, replaced arrays are frozen, lookups terminate within n*(w+1) loads. Tied to /repo by free-running stress with multi-word checksummed values (torn values, TTL/value pairing), panics recovered as violations, the internal-structure checker at quiescence, one-writer/many-reader races on the real table; the thorough tier runs the same under the Go race detector. The wait-free read-sample ring is proved (ReadBuffer.v: indices in range, nothing fabricated, exact accounting, for every interleaving of producers and the consumer) and tied to the real stripe by the rb stream (whole samples and drains incl. lapped windows: back-pressure flag, cursors and the exact replayed fingerprints compared). Structures under the shard RWMutex: MutexAtomicity (readers see only states satisfying the invariants of the write-locked bodies).",
        "note": "Trusted: as C02. Data-race freedom in the Go memory-model sense is not expressible in the model: the race detector in the thorough tier is a search tool, so that clause is partial.",
        "assumptions": ["sync/atomic operations are single sequentially consistent steps"],
    },
    "C12": {
        "file": "C12.v",
        "streams": [S("ht", 400, 6000), S("htl", 150, 3000), S("conc", 16, 300, timeout=2400)],
        "claim": "Theorems over HtableModel (a statement-by-statement model of htable.go in its under-the-lock view): for every hash function (so identical, colliding and sentinel-valued hashes are inside the quantifier), every table size and growth point and every protocol-respecting sequence of store / lookup / probe-then-publish / probe-then-abandon / replace / removeExact / clear with removals between probe and publish, the table refines an abstract map at every step, lookups terminate within one pass, resident keys are never lost, removed keys never resurrected, and the live counter equals the contents. Tied to /repo by T-trace on the real htable through VerifHtable plus a reference-map monitor. Lookups concurrent with the writer: theorems on the atomic-step LTS HtableLts (see C02/C11 for reader soundness, termination bound n*(w+1), structural invariant at every instant), which is tied to /repo by T-lockstep: the real htable runs under a cooperative scheduler parked at yield points between its atomic accesses and must reach the same yield point / result as the extracted LTS after every step of random schedules; plus one-writer/four-reader free-running races.",
        "note": "Trusted: Coq kernel, extraction, driver, harness, VerifHtable wrapper. Pointer identity is modelled by a fresh iid per item object. Concurrent readers: not covered by these theorems.",
        "assumptions": [
            "operations follow the calling protocol of the cache (between a missed probe and its publish/unpin only removals and clear happen; store/probe are not issued while a cursor is parked)",
            "every item passed in carries hash = hashf(key) for one fixed but arbitrary hashf (C18 covers the hashers)",
        ],
        "trusted": ["Modelled, not verified: atomic tag/item stores are collapsed into one cell update (sequential view)"],
    },
    "C19": {
        "file": "C19.v",
        "claim": "Theorems over EstimatorModel (bit-exact Avalanche, doorkeeper words, packed 4-bit counters): lower bound min(count,15) <= estimate <= 15 between aging events for every recording sequence and sketch size, monotonicity, exact halving on aging, indices in range; nibble arithmetic proved for every 64-bit word. Ghost lists: GhostModel (ring + open-addressed index with deletion by cluster re-insertion) is proved to refine an abstract FIFO ring for every capacity, index size and operation sequence and for an arbitrary probe hash; the FIFO-window characterisation (last n accepted adds, not removed since) is a theorem; tied to the real ghostQueue by correspondence plus an independent FIFO-window monitor.",
        "note": "Trusted: Coq kernel, extraction, driver, harness, VerifEstimator/VerifGhost wrappers. ",
        "streams": [S("est", 60, 800), S("ghost", 150, 3000)],
        "assumptions": [
            "fingerprints enter through keyhash.Avalanche, modelled bit-exactly (64-bit wrap explicit) and compared on every trace",
            "ghost lists: index size m = 2^k >= 2n (what newGhostQueue allocates; compared in the C16 stream)",
            "the adaptive controller ticked by tickObservation (tick/adaptSize/tuneAdmission) is outside the estimator model; it does not touch sketch or doorkeeper",
        ],
        "trusted": ["Modelled, not verified: Go slices as lists with 0 default outside the range (ruled out by c19_indices_in_range)"],
    },
    "C16": {
        "file": "C16.v",
        "claim": "Machine-checked theorems over ConfigModel (Validate, shard-count rounding with Go's 64-bit wrap, per-shard budget split, Sieve segment sizing, defaults) for all configurations and CPU counts; the model is tied to /repo by T-gen (constants regenerated every run) and by a correspondence run of Validate/New against the extracted model on boundary and random configurations.",
        "note": "Trusted: Coq kernel, extraction (ExtrOcamlBasic only), OCaml driver, Go harness and hooks. Theorems assume ShardCount <= 2^62; above it the full statement is refuted (known finding F9). Allocation itself is not modelled.",
        "streams": [S("cfg", 400, 6000)],
        "assumptions": [
            "ShardCount <= 2^62 in the shard-count theorems (above it the rounding wraps: c16_new_total_refuted, known finding F9)",
            "configurations too large to allocate (MaxSize > 200000, ShardCount > 2048, buffers > 16384) are compared through Validate and the model only",
            "runtime.NumCPU() is whatever this machine reports; the theorems quantify over every ncpu >= 1",
        ],
        "trusted": ["Modelled, not verified: make()/allocation behaviour of New; goroutine start-up"],
    },
}

# properties not claimed yet, with the reason shown in MANIFEST.not_applicable
NOT_YET = {
}
ALL_IDS = ["C%02d" % i for i in range(1, 21)]
