"""Registry of properties: which Coq file states them and which correspondence streams tie the model to /repo."""

TRUSTED_BASE = [
    "Coq 8.16.1 kernel and coqc; vm_compute used inside proofs for finite side conditions and refutation witnesses; no native_compute",
    "Axioms: none declared by this development; Print Assumptions output of every property theorem is recorded in axioms_reported (empty = closed under the global context)",
    "Extraction: Require Import ExtrOcamlBasic only (bool, option, list, prod, unit, sumbool mapped to OCaml's); no Extract Constant / Extract Inductive of our own; nat, positive, N, Z stay inductive; OCaml 4.13.1 ocamlopt",
    "ocaml/driver.ml (line parser, decimal<->Z conversion, printing) and the line-by-line comparison in ./check",
    "Go harness under harness/ and the build-tag `verif` hooks in /repo (verif_on.go and the inserted verifEv/verifYield/verifClock statements) report faithfully",
    "The model is hand-written; it is tied to /repo only through the correspondence streams listed under coverage.streams (differential testing, not proof)",
]

AXIOM_WHITELIST = set()   # no axioms expected; standard-library axioms would be named here and in DESIGN.md

def S(stream, quick, thorough, **kw):
    d = {"stream": stream, "quick": quick, "thorough": thorough}
    d.update(kw)
    return d

PROPS = {
    "C19": {
        "file": "C19.v",
        "streams": [S("est", 60, 800), S("ghost", 150, 3000)],
        "assumptions": [
            "fingerprints enter through keyhash.Avalanche, modelled bit-exactly (64-bit wrap explicit) and compared on every trace",
            "ghost-list clause: decided by correspondence of GhostModel with the real ghostQueue and by the FIFO-window monitor; the refinement proof GhostModel -> abstract ring is not finished (partial)",
            "the adaptive controller ticked by tickObservation (tick/adaptSize/tuneAdmission) is outside the estimator model; it does not touch sketch or doorkeeper",
        ],
        "trusted": ["Modelled, not verified: Go slices as lists with 0 default outside the range (ruled out by c19_indices_in_range)"],
    },
    "C16": {
        "file": "C16.v",
        "streams": [S("cfg", 400, 6000)],
        "assumptions": [
            "ShardCount <= 2^62 in the shard-count theorems (above it the rounding wraps: c16_new_total_refuted, known finding F9)",
            "configurations too large to allocate (MaxSize > 200000, ShardCount > 2048, buffers > 16384) are compared through Validate and the model only",
            "runtime.NumCPU() is whatever this machine reports; the theorems quantify over every ncpu >= 1",
        ],
        "trusted": ["Modelled, not verified: make()/allocation behaviour of New; goroutine start-up"],
    },
}
