"""Registry of properties: which Coq file states them and which correspondence streams tie the model to /repo."""

TRUSTED_BASE = [
    "Coq 8.16.1 kernel and coqc; vm_compute used inside proofs for finite side conditions and refutation witnesses; no native_compute",
    "Axioms: none declared by this development; Print Assumptions output of every property theorem is recorded in axioms_reported (empty = closed under the global context)",
    "Extraction: Require Import ExtrOcamlBasic only (bool, option, list, prod, unit, sumbool mapped to OCaml's); no Extract Constant / Extract Inductive of our own; nat, positive, N, Z stay inductive; OCaml 4.13.1 ocamlopt",
    "ocaml/driver.ml (line parser, decimal<->Z conversion, printing) and the line-by-line comparison in ./check",
    "Go harness under harness/ and the build-tag `verif` hooks in /repo (verif_on.go and the inserted verifEv/verifYield/verifClock statements) report faithfully",
    "The model is hand-written; it is tied to /repo only through the correspondence streams listed under coverage.streams (differential testing, not proof)",
]

AXIOM_WHITELIST = set()   # no axioms expected; standard-library axioms would be named here and in DESIGN.md

def S(stream, quick, thorough, **kw):
    d = {"stream": stream, "quick": quick, "thorough": thorough}
    d.update(kw)
    return d

PROPS = {
    "C12": {
        "file": "C12.v",
        "streams": [S("ht", 400, 6000)],
        "claim": "Theorems over HtableModel (a statement-by-statement model of htable.go in its under-the-lock view): for every hash function (so identical, colliding and sentinel-valued hashes are inside the quantifier), every table size and growth point and every protocol-respecting sequence of store / lookup / probe-then-publish / probe-then-abandon / replace / removeExact / clear with removals between probe and publish, the table refines an abstract map at every step, lookups terminate within one pass, resident keys are never lost, removed keys never resurrected, and the live counter equals the contents. Tied to /repo by T-trace on the real htable through VerifHtable plus a reference-map monitor. The clause about lookups running concurrently with the writer is decided by the lock-step/stress streams (see C02/C11) and is stated as partial here.",
        "note": "Trusted: Coq kernel, extraction, driver, harness, VerifHtable wrapper. Pointer identity is modelled by a fresh iid per item object. Concurrent readers: not covered by these theorems.",
        "assumptions": [
            "operations follow the calling protocol of the cache (between a missed probe and its publish/unpin only removals and clear happen; store/probe are not issued while a cursor is parked)",
            "every item passed in carries hash = hashf(key) for one fixed but arbitrary hashf (C18 covers the hashers)",
        ],
        "trusted": ["Modelled, not verified: atomic tag/item stores are collapsed into one cell update (sequential view)"],
    },
    "C19": {
        "file": "C19.v",
        "claim": "Theorems over EstimatorModel (bit-exact Avalanche, doorkeeper words, packed 4-bit counters): lower bound min(count,15) <= estimate <= 15 between aging events for every recording sequence and sketch size, monotonicity, exact halving on aging, indices in range; nibble arithmetic proved for every 64-bit word. Ghost lists: GhostModel (ring + open-addressed index with deletion by cluster re-insertion) is proved to refine an abstract FIFO ring for every capacity, index size and operation sequence and for an arbitrary probe hash; the FIFO-window characterisation (last n accepted adds, not removed since) is a theorem; tied to the real ghostQueue by correspondence plus an independent FIFO-window monitor.",
        "note": "Trusted: Coq kernel, extraction, driver, harness, VerifEstimator/VerifGhost wrappers. ",
        "streams": [S("est", 60, 800), S("ghost", 150, 3000)],
        "assumptions": [
            "fingerprints enter through keyhash.Avalanche, modelled bit-exactly (64-bit wrap explicit) and compared on every trace",
            "ghost lists: index size m = 2^k >= 2n (what newGhostQueue allocates; compared in the C16 stream)",
            "the adaptive controller ticked by tickObservation (tick/adaptSize/tuneAdmission) is outside the estimator model; it does not touch sketch or doorkeeper",
        ],
        "trusted": ["Modelled, not verified: Go slices as lists with 0 default outside the range (ruled out by c19_indices_in_range)"],
    },
    "C16": {
        "file": "C16.v",
        "claim": "Machine-checked theorems over ConfigModel (Validate, shard-count rounding with Go's 64-bit wrap, per-shard budget split, Sieve segment sizing, defaults) for all configurations and CPU counts; the model is tied to /repo by T-gen (constants regenerated every run) and by a correspondence run of Validate/New against the extracted model on boundary and random configurations.",
        "note": "Trusted: Coq kernel, extraction (ExtrOcamlBasic only), OCaml driver, Go harness and hooks. Theorems assume ShardCount <= 2^62; above it the full statement is refuted (known finding F9). Allocation itself is not modelled.",
        "streams": [S("cfg", 400, 6000)],
        "assumptions": [
            "ShardCount <= 2^62 in the shard-count theorems (above it the rounding wraps: c16_new_total_refuted, known finding F9)",
            "configurations too large to allocate (MaxSize > 200000, ShardCount > 2048, buffers > 16384) are compared through Validate and the model only",
            "runtime.NumCPU() is whatever this machine reports; the theorems quantify over every ncpu >= 1",
        ],
        "trusted": ["Modelled, not verified: make()/allocation behaviour of New; goroutine start-up"],
    },
}

# properties not claimed yet, with the reason shown in MANIFEST.not_applicable
NOT_YET = {
}
ALL_IDS = ["C%02d" % i for i in range(1, 21)]
