(* PtrProofs.v: the pointer-level model (PtrModel.v) refines the list-level functions of
   CacheModel.v.  Stdlib only, closed under the global context; heaps are compared pointwise. *)
From Coq Require Import List ZArith Bool Lia Permutation.
Require Import KV.Base KV.CacheModel KV.PtrModel.
Import ListNotations.
Open Scope Z_scope.

(* ================================================================== heap algebra *)
Lemma upd_same h p n : upd h p n p = n.
Proof. unfold upd. rewrite Z.eqb_refl. reflexivity. Qed.
Lemma upd_other h p n x : x <> p -> upd h p n x = h x.
Proof. intros H. unfold upd. destruct (Z.eqb_spec x p); [contradiction | reflexivity]. Qed.

Ltac fld :=
  intros; unfold w_prev, w_next, w_q, w_own, w_vis, w_reuse, upd;
  match goal with |- context[?x =? ?p] => destruct (Z.eqb_spec x p) end; subst; reflexivity.

Lemma pprev_w_prev h p v x : pprev (w_prev h p v x) = if x =? p then v else pprev (h x). Proof. fld. Qed.
Lemma pnext_w_prev h p v x : pnext (w_prev h p v x) = pnext (h x). Proof. fld. Qed.
Lemma pq_w_prev h p v x : pq (w_prev h p v x) = pq (h x). Proof. fld. Qed.
Lemma pown_w_prev h p v x : pown (w_prev h p v x) = pown (h x). Proof. fld. Qed.
Lemma pvis_w_prev h p v x : pvis (w_prev h p v x) = pvis (h x). Proof. fld. Qed.
Lemma preuse_w_prev h p v x : preuse (w_prev h p v x) = preuse (h x). Proof. fld. Qed.

Lemma pprev_w_next h p v x : pprev (w_next h p v x) = pprev (h x). Proof. fld. Qed.
Lemma pnext_w_next h p v x : pnext (w_next h p v x) = if x =? p then v else pnext (h x). Proof. fld. Qed.
Lemma pq_w_next h p v x : pq (w_next h p v x) = pq (h x). Proof. fld. Qed.
Lemma pown_w_next h p v x : pown (w_next h p v x) = pown (h x). Proof. fld. Qed.
Lemma pvis_w_next h p v x : pvis (w_next h p v x) = pvis (h x). Proof. fld. Qed.
Lemma preuse_w_next h p v x : preuse (w_next h p v x) = preuse (h x). Proof. fld. Qed.

Lemma pprev_w_q h p v x : pprev (w_q h p v x) = pprev (h x). Proof. fld. Qed.
Lemma pnext_w_q h p v x : pnext (w_q h p v x) = pnext (h x). Proof. fld. Qed.
Lemma pq_w_q h p v x : pq (w_q h p v x) = if x =? p then v else pq (h x). Proof. fld. Qed.
Lemma pown_w_q h p v x : pown (w_q h p v x) = pown (h x). Proof. fld. Qed.
Lemma pvis_w_q h p v x : pvis (w_q h p v x) = pvis (h x). Proof. fld. Qed.
Lemma preuse_w_q h p v x : preuse (w_q h p v x) = preuse (h x). Proof. fld. Qed.

Lemma pprev_w_own h p v x : pprev (w_own h p v x) = pprev (h x). Proof. fld. Qed.
Lemma pnext_w_own h p v x : pnext (w_own h p v x) = pnext (h x). Proof. fld. Qed.
Lemma pq_w_own h p v x : pq (w_own h p v x) = pq (h x). Proof. fld. Qed.
Lemma pown_w_own h p v x : pown (w_own h p v x) = if x =? p then v else pown (h x). Proof. fld. Qed.
Lemma pvis_w_own h p v x : pvis (w_own h p v x) = pvis (h x). Proof. fld. Qed.
Lemma preuse_w_own h p v x : preuse (w_own h p v x) = preuse (h x). Proof. fld. Qed.

Lemma pprev_w_vis h p v x : pprev (w_vis h p v x) = pprev (h x). Proof. fld. Qed.
Lemma pnext_w_vis h p v x : pnext (w_vis h p v x) = pnext (h x). Proof. fld. Qed.
Lemma pq_w_vis h p v x : pq (w_vis h p v x) = pq (h x). Proof. fld. Qed.
Lemma pown_w_vis h p v x : pown (w_vis h p v x) = pown (h x). Proof. fld. Qed.
Lemma pvis_w_vis h p v x : pvis (w_vis h p v x) = if x =? p then v else pvis (h x). Proof. fld. Qed.
Lemma preuse_w_vis h p v x : preuse (w_vis h p v x) = preuse (h x). Proof. fld. Qed.

Lemma pprev_w_reuse h p v x : pprev (w_reuse h p v x) = pprev (h x). Proof. fld. Qed.
Lemma pnext_w_reuse h p v x : pnext (w_reuse h p v x) = pnext (h x). Proof. fld. Qed.
Lemma pq_w_reuse h p v x : pq (w_reuse h p v x) = pq (h x). Proof. fld. Qed.
Lemma pown_w_reuse h p v x : pown (w_reuse h p v x) = pown (h x). Proof. fld. Qed.
Lemma pvis_w_reuse h p v x : pvis (w_reuse h p v x) = pvis (h x). Proof. fld. Qed.
Lemma preuse_w_reuse h p v x : preuse (w_reuse h p v x) = if x =? p then v else preuse (h x). Proof. fld. Qed.

#[global] Hint Rewrite
  pprev_w_prev pnext_w_prev pq_w_prev pown_w_prev pvis_w_prev preuse_w_prev
  pprev_w_next pnext_w_next pq_w_next pown_w_next pvis_w_next preuse_w_next
  pprev_w_q pnext_w_q pq_w_q pown_w_q pvis_w_q preuse_w_q
  pprev_w_own pnext_w_own pq_w_own pown_w_own pvis_w_own preuse_w_own
  pprev_w_vis pnext_w_vis pq_w_vis pown_w_vis pvis_w_vis preuse_w_vis
  pprev_w_reuse pnext_w_reuse pq_w_reuse pown_w_reuse pvis_w_reuse preuse_w_reuse : heap.

Ltac wother := intros; unfold w_prev, w_next, w_q, w_own, w_vis, w_reuse; apply upd_other; assumption.
Lemma w_prev_other h p v x : x <> p -> w_prev h p v x = h x. Proof. wother. Qed.
Lemma w_next_other h p v x : x <> p -> w_next h p v x = h x. Proof. wother. Qed.
Lemma w_q_other h p v x : x <> p -> w_q h p v x = h x. Proof. wother. Qed.
Lemma w_own_other h p v x : x <> p -> w_own h p v x = h x. Proof. wother. Qed.
Lemma w_vis_other h p v x : x <> p -> w_vis h p v x = h x. Proof. wother. Qed.
Lemma w_reuse_other h p v x : x <> p -> w_reuse h p v x = h x. Proof. wother. Qed.

(* unfold the sentinel / tag constants so that lia sees numbers *)
Ltac consts := unfold lruHead, lruTail, probHead, probTail, mainHead, mainTail, qNone, qProb, qMain in *.

(* decide every `a =? b` in the goal: by lia when possible, by case split otherwise *)
Ltac gconsts := unfold lruHead, lruTail, probHead, probTail, mainHead, mainTail, qNone, qProb, qMain.
Ltac neq_solve := first [ assumption | apply not_eq_sym; assumption | (gconsts; lia) | (consts; lia) ].
Ltac eq_solve := first [ assumption | symmetry; assumption | (gconsts; lia) | (consts; lia) ].
Ltac eqb_false a b := replace (a =? b) with false by (symmetry; apply Z.eqb_neq; neq_solve).
Ltac eqb_true a b := replace (a =? b) with true by (symmetry; apply Z.eqb_eq; eq_solve).
Ltac zeq1 :=
  match goal with
  | |- context[?a =? ?a] => rewrite (Z.eqb_refl a)
  | |- context[?a =? ?b] => first [ eqb_false a b | eqb_true a b ]
  end.
Ltac zeq := repeat zeq1.
Ltac zsplit :=
  repeat match goal with
  | |- context[?a =? ?b] => destruct (Z.eqb_spec a b); try (exfalso; consts; lia)
  end.

(* ================================================================== list helpers *)
Lemma NoDup_app_inv {T} (A B : list T) :
  NoDup (A ++ B) -> NoDup A /\ NoDup B /\ (forall x, In x A -> In x B -> False).
Proof.
  induction A as [|a A IH]; cbn [app]; intros H.
  - split; [constructor|]. split; [assumption|]. intros x [].
  - inversion H as [|? ? Hn Hd]; subst. destruct (IH Hd) as (HA & HB & HAB).
    split; [|split].
    + constructor; [|assumption]. intros Hi. apply Hn. apply in_or_app. left; assumption.
    + assumption.
    + intros x [Hx|Hx] HxB.
      * subst. apply Hn. apply in_or_app. right; assumption.
      * exact (HAB x Hx HxB).
Qed.

Lemma NoDup_app_intro {T} (A B : list T) :
  NoDup A -> NoDup B -> (forall x, In x A -> In x B -> False) -> NoDup (A ++ B).
Proof.
  induction A as [|a A IH]; cbn [app]; intros HA HB HAB; [assumption|].
  inversion HA as [|? ? Hn Hd]; subst. constructor.
  - intros Hi. apply in_app_or in Hi. destruct Hi as [Hi|Hi]; [exact (Hn Hi)|].
    apply (HAB a); [left; reflexivity | assumption].
  - apply IH; [assumption | assumption |]. intros x Hx. apply HAB. right; assumption.
Qed.

Lemma In_removelast {T} (l : list T) x : In x (removelast l) -> In x l.
Proof.
  induction l as [|a l IH]; cbn [removelast]; [intros []|].
  destruct l as [|b l]; [intros []|].
  intros [H|H]; [left; assumption | right; apply IH; assumption].
Qed.

Lemma memz_In l k : memz l k = true <-> In k l.
Proof.
  induction l as [|x l IH]; cbn [memz In]; [split; [discriminate | intros []]|].
  rewrite orb_true_iff, IH, Z.eqb_eq. tauto.
Qed.
Lemma memz_false l k : memz l k = false <-> ~ In k l.
Proof. rewrite <- memz_In. destruct (memz l k); split; congruence. Qed.

Lemma remz_notin l k : ~ In k l -> remz l k = l.
Proof.
  induction l as [|x l IH]; cbn [remz In]; intros H; [reflexivity|].
  destruct (Z.eqb_spec x k); [exfalso; apply H; left; assumption|].
  rewrite IH; [reflexivity | intros Hi; apply H; right; assumption].
Qed.
Lemma remz_In l k x : In x (remz l k) -> In x l.
Proof.
  induction l as [|y l IH]; cbn [remz In]; [intros []|].
  destruct (Z.eqb_spec y k); [intros H; right; assumption|].
  intros [H|H]; [left; assumption | right; apply IH; assumption].
Qed.
Lemma remz_In_other l k x : x <> k -> In x l -> In x (remz l k).
Proof.
  intros Hx. induction l as [|y l IH]; cbn [remz In]; [intros []|].
  destruct (Z.eqb_spec y k).
  - intros [H|H]; [congruence | assumption].
  - intros [H|H]; [left; assumption | right; apply IH; assumption].
Qed.
Lemma remz_app_first A B k : ~ In k A -> remz (A ++ k :: B) k = A ++ B.
Proof.
  induction A as [|a A IH]; cbn [app remz In]; intros H.
  - rewrite Z.eqb_refl. reflexivity.
  - destruct (Z.eqb_spec a k); [exfalso; apply H; left; assumption|].
    rewrite IH; [reflexivity | intros Hi; apply H; right; assumption].
Qed.
Lemma remz_NoDup l k : NoDup l -> NoDup (remz l k).
Proof.
  induction 1 as [|x l Hn Hd IH]; cbn [remz]; [constructor|].
  destruct (Z.eqb_spec x k); [assumption|].
  constructor; [|assumption]. intros Hi. apply Hn. eapply remz_In; eassumption.
Qed.
Lemma remz_NoDup_notin l k : NoDup l -> ~ In k (remz l k).
Proof.
  induction 1 as [|x l Hn Hd IH]; cbn [remz]; [intros []|].
  destruct (Z.eqb_spec x k); [subst; assumption|].
  intros [H|H]; [congruence | exact (IH H)].
Qed.
Lemma remz_length l k : In k l -> length (remz l k) = pred (length l).
Proof.
  induction l as [|x l IH]; cbn [remz In length]; [intros []|].
  destruct (Z.eqb_spec x k); [reflexivity|].
  intros [H|H]; [congruence|]. cbn [length]. rewrite IH by assumption.
  destruct l; [destruct H | reflexivity].
Qed.

(* first occurrence split *)
Lemma in_split_first (l : list Z) k : In k l -> exists A B, l = A ++ k :: B /\ ~ In k A.
Proof.
  induction l as [|x l IH]; [intros []|]. intros H.
  destruct (Z.eq_dec x k) as [->|Hne].
  - exists [], l. split; [reflexivity | intros []].
  - destruct H as [H|H]; [contradiction|]. destruct (IH H) as (A & B & -> & HA).
    exists (x :: A), B. split; [reflexivity|]. intros [Hi|Hi]; [contradiction | exact (HA Hi)].
Qed.

(* ================================================================== A. doubly linked segments *)
(* links h x L: starting at x, following L, every consecutive pair (a,b) has
   a.next = b and b.prev = a. *)
Fixpoint links (h : heap) (x : Z) (L : list Z) : Prop :=
  match L with
  | [] => True
  | y :: r => pnext (h x) = y /\ pprev (h y) = x /\ links h y r
  end.
Definition Links (h : heap) (L : list Z) : Prop :=
  match L with [] => True | x :: r => links h x r end.

Definition dll (h : heap) (hd tl : Z) (l : list Z) : Prop :=
  NoDup (hd :: l ++ [tl]) /\ ~ In 0 (hd :: l ++ [tl]) /\ links h hd (l ++ [tl]).

Lemma links_app h A : forall x y B,
  links h x (A ++ y :: B) <-> links h x (A ++ [y]) /\ links h y B.
Proof.
  induction A as [|a A IH]; intros x y B; cbn [app links].
  - tauto.
  - rewrite (IH a y B). tauto.
Qed.
Lemma Links_app h A x B : Links h (A ++ x :: B) <-> Links h (A ++ [x]) /\ links h x B.
Proof.
  destruct A as [|a A]; cbn [app Links].
  - cbn [links]. tauto.
  - apply links_app.
Qed.

(* frame: links depends on next of all but the last node and on prev of all but the first *)
Lemma links_frame h h' L : forall x,
  (forall p, In p (x :: removelast L) -> pnext (h' p) = pnext (h p)) ->
  (forall p, In p L -> pprev (h' p) = pprev (h p)) ->
  links h x L -> links h' x L.
Proof.
  induction L as [|y L IH]; intros x Hn Hp; cbn [links]; [trivial|].
  intros (H1 & H2 & H3). split; [|split].
  - rewrite Hn; [assumption | left; reflexivity].
  - rewrite Hp; [assumption | left; reflexivity].
  - destruct L as [|z L]; [exact I|].
    apply IH; [| |assumption].
    + intros p Hi. apply Hn. right. exact Hi.
    + intros p Hi. apply Hp. right; assumption.
Qed.

Lemma links_frame_all h h' L x :
  (forall p, In p (x :: L) -> pnext (h' p) = pnext (h p) /\ pprev (h' p) = pprev (h p)) ->
  links h x L -> links h' x L.
Proof.
  intros H. apply links_frame.
  - intros p [Hp|Hp]; [apply H; left; assumption|]. apply H. right. apply In_removelast; assumption.
  - intros p Hp. apply H. right; assumption.
Qed.

Lemma dll_frame h h' hd tl l :
  (forall p, In p (hd :: l ++ [tl]) -> pnext (h' p) = pnext (h p) /\ pprev (h' p) = pprev (h p)) ->
  dll h hd tl l -> dll h' hd tl l.
Proof.
  intros H (ND & NZ & LK). split; [assumption|]. split; [assumption|].
  eapply links_frame_all; eassumption.
Qed.

Lemma NoDup_mid3 (A B : list Z) p it n :
  NoDup (A ++ p :: it :: n :: B) ->
  p <> it /\ p <> n /\ it <> n /\ ~ In p B /\ ~ In it B /\ ~ In n B /\
  (forall x, In x A -> x <> p /\ x <> it /\ x <> n /\ ~ In x B) /\ NoDup A /\ NoDup B.
Proof.
  intros H. apply NoDup_app_inv in H. destruct H as (HA & HR & HX).
  rewrite !NoDup_cons_iff in HR. cbn [In] in HR. destruct HR as (Hp & Hit & Hn & HB).
  split; [intros ->; apply Hp; left; reflexivity|].
  split; [intros ->; apply Hp; right; left; reflexivity|].
  split; [intros ->; apply Hit; left; reflexivity|].
  split; [intros Hi; apply Hp; right; right; assumption|].
  split; [intros Hi; apply Hit; right; assumption|].
  split; [assumption|].
  split; [|split; assumption].
  intros x Hx. specialize (HX x Hx). cbn [In] in HX.
  split; [intros ->; apply HX; left; reflexivity|].
  split; [intros ->; apply HX; right; left; reflexivity|].
  split; [intros ->; apply HX; right; right; left; reflexivity|].
  intros Hi; apply HX; right; right; right; assumption.
Qed.

Lemma links_insert h h' a it n R :
  NoDup (a :: it :: n :: R) -> links h a (n :: R) ->
  pnext (h' a) = it -> pnext (h' it) = n ->
  (forall x, x <> a -> x <> it -> pnext (h' x) = pnext (h x)) ->
  pprev (h' it) = a -> pprev (h' n) = it ->
  (forall x, x <> it -> x <> n -> pprev (h' x) = pprev (h x)) ->
  links h' a (it :: n :: R).
Proof.
  intros ND LK N1 N2 NF P1 P2 PF.
  destruct (NoDup_mid3 [] R a it n ND) as (Hai & Han & Hin & HaR & HiR & HnR & _ & _ & _).
  cbn [links] in *. destruct LK as (_ & _ & LK).
  repeat (split; [assumption|]).
  eapply links_frame; [| |exact LK].
  - intros p [Hp|Hp].
    + subst p. apply NF; congruence.
    + apply In_removelast in Hp. apply NF; intros ->; contradiction.
  - intros p Hp. apply PF; intros ->; contradiction.
Qed.

Lemma Links_unlink h h' A p it n B :
  NoDup (A ++ p :: it :: n :: B) -> Links h (A ++ p :: it :: n :: B) ->
  pnext (h' p) = n ->
  (forall x, x <> p -> x <> it -> pnext (h' x) = pnext (h x)) ->
  pprev (h' n) = p ->
  (forall x, x <> n -> x <> it -> pprev (h' x) = pprev (h x)) ->
  Links h' (A ++ p :: n :: B).
Proof.
  intros ND LK N1 NF P1 PF.
  destruct (NoDup_mid3 A B p it n ND) as (Hpi & Hpn & Hin & HpB & HiB & HnB & HA & _ & _).
  apply Links_app in LK. destruct LK as (LA & LK). cbn [links] in LK.
  destruct LK as (_ & _ & _ & _ & LB).
  apply Links_app. split.
  - destruct A as [|a A]; [exact I|]. cbn [app Links] in *.
    eapply links_frame; [| |exact LA].
    + intros x Hx. rewrite removelast_last in Hx.
      destruct (HA x Hx) as (? & ? & ? & ?). apply NF; assumption.
    + intros x Hx. apply in_app_or in Hx. destruct Hx as [Hx|[<-|[]]].
      * destruct (HA x (or_intror Hx)) as (? & ? & ? & ?). apply PF; assumption.
      * apply PF; congruence.
  - cbn [links]. split; [assumption|]. split; [assumption|].
    eapply links_frame; [| |exact LB].
    + intros x [<-|Hx]; [apply NF; congruence|].
      apply In_removelast in Hx. apply NF; intros ->; contradiction.
    + intros x Hx. apply PF; intros ->; contradiction.
Qed.

(* the position of a member of l inside hd :: l ++ [tl] *)
Lemma mid_split l : forall hd tl it, In it l -> exists A p n B,
  hd :: l ++ [tl] = A ++ p :: it :: n :: B /\ hd :: remz l it ++ [tl] = A ++ p :: n :: B.
Proof.
  induction l as [|x l IH]; intros hd tl it Hi; [destruct Hi|].
  destruct (Z.eq_dec x it) as [->|Hne].
  - exists [], hd. cbn [remz]. rewrite Z.eqb_refl.
    destruct l as [|y l].
    + exists tl, []. split; reflexivity.
    + exists y, (l ++ [tl]). split; reflexivity.
  - destruct Hi as [Hi|Hi]; [contradiction|].
    destruct (IH x tl it Hi) as (A & p & n & B & E1 & E2).
    exists (hd :: A), p, n, B. cbn [remz app]. 
    destruct (Z.eqb_spec x it); [contradiction|].
    cbn [app] in *. rewrite E1, E2. split; reflexivity.
Qed.

Lemma Links_mid h A p it n B : Links h (A ++ p :: it :: n :: B) ->
  pnext (h p) = it /\ pprev (h it) = p /\ pnext (h it) = n /\ pprev (h n) = it.
Proof.
  intros LK. apply Links_app in LK. destruct LK as (_ & LK). cbn [links] in LK. tauto.
Qed.

(* ------------------------------------------------------------------ A.1 lru_init *)
Theorem lru_init_dll h : dll (lru_init h) lruHead lruTail [].
Proof.
  unfold dll. cbn [app]. split; [|split].
  - constructor; [intros [H|[]]; discriminate|]. constructor; [intros []|constructor].
  - intros [H|[H|[]]]; discriminate.
  - cbn [links]. unfold lru_init. autorewrite with heap. zeq. auto.
Qed.

(* ------------------------------------------------------------------ A.2 lru_add *)
Lemma lru_add_pnext s it x :
  pnext (hp (lru_add s it) x) =
  if x =? it then pnext (hp s lruHead) else if x =? lruHead then it else pnext (hp s x).
Proof. unfold lru_add. cbn [hp st_heap deref st_err]. autorewrite with heap. reflexivity. Qed.
Lemma lru_add_pprev s it x :
  pprev (hp (lru_add s it) x) =
  if x =? pnext (hp s lruHead) then it else if x =? it then lruHead else pprev (hp s x).
Proof. unfold lru_add. cbn [hp st_heap deref st_err]. autorewrite with heap. reflexivity. Qed.
Lemma lru_add_tags s it x :
  pq (hp (lru_add s it) x) = pq (hp s x) /\ pown (hp (lru_add s it) x) = pown (hp s x) /\
  pvis (hp (lru_add s it) x) = pvis (hp s x) /\ preuse (hp (lru_add s it) x) = preuse (hp s x).
Proof. unfold lru_add. cbn [hp st_heap deref st_err]. autorewrite with heap. auto. Qed.
Lemma lru_add_other s it x :
  x <> lruHead -> x <> it -> x <> pnext (hp s lruHead) -> hp (lru_add s it) x = hp s x.
Proof.
  intros H1 H2 H3. unfold lru_add. cbn [hp st_heap deref st_err].
  rewrite w_prev_other, w_prev_other, w_next_other, w_next_other by assumption. reflexivity.
Qed.

Lemma tail_shape (l : list Z) tl : exists R, l ++ [tl] = hd tl l :: R.
Proof. destruct l as [|y l]; [exists [] | exists (l ++ [tl])]; reflexivity. Qed.

Theorem lru_add_dll s it l :
  dll (hp s) lruHead lruTail l -> ~ In it l -> it <> lruHead -> it <> lruTail -> it <> 0 ->
  let s' := lru_add s it in
  dll (hp s') lruHead lruTail (it :: l) /\ perr s' = perr s /\
  (forall x, x <> lruHead -> x <> it -> x <> hd lruTail l -> hp s' x = hp s x) /\
  (forall x, pq (hp s' x) = pq (hp s x) /\ pown (hp s' x) = pown (hp s x) /\
             pvis (hp s' x) = pvis (hp s x) /\ preuse (hp s' x) = preuse (hp s x)) /\
  prob s' = prob s /\ mainq s' = mainq s /\ hand s' = hand s /\ maincap s' = maincap s.
Proof.
  intros (ND & NZ & LK) Hnl Hh Ht H0 s'.
  destruct (tail_shape l lruTail) as (R & E). set (n := hd lruTail l) in *.
  assert (Hfresh : ~ In it (l ++ [lruTail])).
  { intros Hi. apply in_app_or in Hi. destruct Hi as [Hi|[Hi|[]]]; [contradiction | congruence]. }
  rewrite E in ND, NZ, LK, Hfresh.
  assert (Hn : pnext (hp s lruHead) = n) by (cbn [links] in LK; tauto).
  assert (ND' : NoDup (lruHead :: it :: n :: R)).
  { rewrite NoDup_cons_iff in ND. destruct ND as (ND1 & ND2).
    constructor; [|constructor; assumption].
    intros [Hi|Hi]; [congruence | contradiction]. }
  assert (Hn0 : n <> 0) by (intros Hz; apply NZ; right; left; assumption).
  split; [|split; [|split; [|split]]].
  - split; [|split].
    + cbn [app]. rewrite E. exact ND'.
    + cbn [app]. rewrite E. intros [Hi|[Hi|Hi]]; [discriminate | congruence |].
      apply NZ. right; assumption.
    + cbn [app]. rewrite E.
      destruct (NoDup_mid3 [] R lruHead it n ND') as (Hai & Han & Hin & _).
      apply (links_insert (hp s) (hp s') lruHead it n R ND' LK); subst s';
        try rewrite lru_add_pnext; try rewrite lru_add_pprev; rewrite ?Hn.
      * zeq. reflexivity.
      * zeq. reflexivity.
      * intros x Hx1 Hx2. rewrite lru_add_pnext. zeq. reflexivity.
      * zeq. reflexivity.
      * zeq. reflexivity.
      * intros x Hx1 Hx2. rewrite lru_add_pprev, Hn. zeq. reflexivity.
  - subst s'. unfold lru_add. cbn [perr st_heap deref st_err]. rewrite Hn. zeq.
    rewrite !orb_false_r. reflexivity.
  - intros x H1 H2 H3. apply lru_add_other; [assumption | assumption | rewrite Hn; assumption].
  - intros x. apply lru_add_tags.
  - auto.
Qed.

(* ------------------------------------------------------------------ A.3 lru_remove *)
Lemma lru_remove_hp s it p n :
  pprev (hp s it) = p -> pnext (hp s it) = n -> p <> 0 -> n <> 0 -> p <> it ->
  hp (lru_remove s it) = w_next (w_prev (w_prev (w_next (hp s) p n) n p) it 0) it 0.
Proof.
  intros Hp Hn Hp0 Hn0 Hpi. unfold lru_remove. cbn [hp st_heap deref st_err].
  rewrite Hp, Hn. eqb_false p 0. autorewrite with heap. eqb_false it p.
  rewrite Hn, Hp. eqb_false n 0. reflexivity.
Qed.

Theorem lru_remove_dll s it l :
  dll (hp s) lruHead lruTail l -> In it l ->
  let s' := lru_remove s it in
  dll (hp s') lruHead lruTail (remz l it) /\ perr s' = perr s /\
  pprev (hp s' it) = 0 /\ pnext (hp s' it) = 0 /\
  (forall x, x <> it -> x <> pprev (hp s it) -> x <> pnext (hp s it) -> hp s' x = hp s x) /\
  (forall x, pq (hp s' x) = pq (hp s x) /\ pown (hp s' x) = pown (hp s x) /\
             pvis (hp s' x) = pvis (hp s x) /\ preuse (hp s' x) = preuse (hp s x)) /\
  prob s' = prob s /\ mainq s' = mainq s /\ hand s' = hand s /\ maincap s' = maincap s.
Proof.
  intros (ND & NZ & LK) Hi s'.
  destruct (mid_split l lruHead lruTail it Hi) as (A & p & n & B & E1 & E2).
  change (links (hp s) lruHead (l ++ [lruTail])) with (Links (hp s) (lruHead :: l ++ [lruTail])) in LK.
  rewrite E1 in ND, NZ, LK.
  destruct (Links_mid _ _ _ _ _ _ LK) as (Npi & Pip & Nin & Pni).
  destruct (NoDup_mid3 A B p it n ND) as (Hpi & Hpn & Hin & HpB & HiB & HnB & HA & _ & _).
  assert (Hp0 : p <> 0) by (intros ->; apply NZ; apply in_or_app; right; left; reflexivity).
  assert (Hn0 : n <> 0) by (intros ->; apply NZ; apply in_or_app; right; right; right; left; reflexivity).
  assert (Hi0 : it <> 0) by (intros ->; apply NZ; apply in_or_app; right; right; left; reflexivity).
  pose proof (lru_remove_hp s it p n Pip Nin Hp0 Hn0 Hpi) as HH. fold s' in HH.
  split; [|split; [|split; [|split; [|split; [|split]]]]].
  - split; [|split].
    + rewrite E2. apply NoDup_app_inv in ND. destruct ND as (NA & NR & NX).
      apply NoDup_app_intro; [assumption | |].
      * rewrite !NoDup_cons_iff in NR. rewrite !NoDup_cons_iff. cbn [In] in *. tauto.
      * intros x Hx Hx2. apply (NX x Hx). cbn [In] in *. tauto.
    + rewrite E2. intros H0. apply NZ. apply in_app_or in H0. apply in_or_app.
      cbn [In] in *. tauto.
    + change (Links (hp s') (lruHead :: remz l it ++ [lruTail])). rewrite E2.
      apply (Links_unlink (hp s) (hp s') A p it n B ND LK); rewrite HH.
      * autorewrite with heap. zeq. reflexivity.
      * intros x H1 H2. autorewrite with heap. zeq. reflexivity.
      * autorewrite with heap. zeq. reflexivity.
      * intros x H1 H2. autorewrite with heap. zeq. reflexivity.
  - subst s'. unfold lru_remove. cbn [perr st_heap deref st_err]. zeq. apply orb_false_r.
  - rewrite HH. autorewrite with heap. zeq. reflexivity.
  - rewrite HH. autorewrite with heap. zeq. reflexivity.
  - intros x H1 H2 H3. rewrite HH. rewrite Pip in H2. rewrite Nin in H3.
    rewrite w_next_other, w_prev_other, w_prev_other, w_next_other by assumption. reflexivity.
  - intros x. rewrite HH. autorewrite with heap. auto.
  - auto.
Qed.

(* ------------------------------------------------------------------ A.4 lru_move *)
Theorem lru_move_dll s it l :
  dll (hp s) lruHead lruTail l -> In it l ->
  let s' := lru_move s it in
  dll (hp s') lruHead lruTail (it :: remz l it) /\ perr s' = perr s /\
  (forall x, pq (hp s' x) = pq (hp s x) /\ pown (hp s' x) = pown (hp s x) /\
             pvis (hp s' x) = pvis (hp s x) /\ preuse (hp s' x) = preuse (hp s x)) /\
  prob s' = prob s /\ mainq s' = mainq s /\ hand s' = hand s /\ maincap s' = maincap s.
Proof.
  intros D Hi s'. subst s'. unfold lru_move.
  destruct (Z.eqb_spec (pnext (hp s lruHead)) it) as [Heq|Hne].
  - (* already first *)
    destruct D as (ND & NZ & LK).
    destruct l as [|y l]; [destruct Hi|].
    assert (y = it) by (cbn [app links] in LK; destruct LK as (LK & _); congruence). subst y.
    cbn [remz]. rewrite Z.eqb_refl.
    split; [split; [|split]; assumption|]. split; [reflexivity|]. split; [auto|]. auto.
  - pose proof (lru_remove_dll s it l D Hi) as R. cbv zeta in R.
    destruct R as (D1 & E1 & _ & _ & _ & T1 & Q1 & Q2 & Q3 & Q4).
    assert (NDl : NoDup l).
    { destruct D as (ND & _). rewrite NoDup_cons_iff in ND. destruct ND as (_ & ND).
      apply NoDup_app_inv in ND. tauto. }
    assert (Hs : it <> lruHead /\ it <> lruTail /\ it <> 0).
    { destruct D as (ND & NZ & _). rewrite NoDup_cons_iff in ND. destruct ND as (ND1 & ND2).
      apply NoDup_app_inv in ND2. destruct ND2 as (_ & _ & NX).
      split; [|split].
      - intros ->. apply ND1. apply in_or_app. left; assumption.
      - intros ->. apply (NX lruTail Hi). left; reflexivity.
      - intros ->. apply NZ. right. apply in_or_app. left; assumption. }
    destruct Hs as (Hs1 & Hs2 & Hs3).
    pose proof (lru_add_dll (lru_remove s it) it (remz l it) D1 (remz_NoDup_notin l it NDl) Hs1 Hs2 Hs3) as R.
    cbv zeta in R. destruct R as (D2 & E2 & _ & T2 & P1 & P2 & P3 & P4).
    split; [assumption|]. split; [congruence|]. split; [|repeat split; congruence].
    intros x. destruct (T1 x) as (? & ? & ? & ?). destruct (T2 x) as (? & ? & ? & ?).
    repeat split; congruence.
Qed.

(* ------------------------------------------------------------------ A.5 lru_victim *)
Lemma links_last h d A : forall x z, links h x (A ++ [z]) -> pprev (h z) = last (x :: A) d.
Proof.
  induction A as [|a A IH]; intros x z; cbn [app links].
  - intros (_ & H & _). exact H.
  - intros (_ & _ & H). rewrite (IH a z H). reflexivity.
Qed.
Lemma last_rev (l : list Z) d : last l d = match rev l with [] => d | x :: _ => x end.
Proof.
  destruct (rev l) as [|x r] eqn:E.
  - apply (f_equal (@rev Z)) in E. rewrite rev_involutive in E. subst l. reflexivity.
  - apply (f_equal (@rev Z)) in E. rewrite rev_involutive in E. subst l. cbn [rev].
    apply last_last.
Qed.

Lemma dll_tail_prev h hd tl l : dll h hd tl l ->
  pprev (h tl) = match rev l with [] => hd | x :: _ => x end.
Proof.
  intros (_ & _ & LK). rewrite (links_last _ 0 _ _ _ LK). rewrite last_rev. cbn [rev].
  destruct (rev l); reflexivity.
Qed.

Lemma dll_members h hd tl l x : dll h hd tl l -> In x l -> x <> hd /\ x <> tl /\ x <> 0.
Proof.
  intros (ND & NZ & _) Hi. rewrite NoDup_cons_iff in ND. destruct ND as (ND1 & ND2).
  apply NoDup_app_inv in ND2. destruct ND2 as (_ & _ & NX).
  split; [|split].
  - intros ->. apply ND1. apply in_or_app. left; assumption.
  - intros ->. apply (NX tl Hi). left; reflexivity.
  - intros ->. apply NZ. right. apply in_or_app. left; assumption.
Qed.
Lemma dll_NoDup h hd tl l : dll h hd tl l -> NoDup l.
Proof.
  intros (ND & _). rewrite NoDup_cons_iff in ND. destruct ND as (_ & ND).
  apply NoDup_app_inv in ND. tauto.
Qed.

Theorem lru_victim_spec s l :
  dll (hp s) lruHead lruTail l ->
  lru_victim s = match rev l with [] => 0 | x :: _ => x end.
Proof.
  intros D. unfold lru_victim. rewrite (dll_tail_prev _ _ _ _ D).
  destruct (rev l) as [|x r] eqn:E.
  - rewrite Z.eqb_refl. reflexivity.
  - assert (Hi : In x l) by (apply in_rev; rewrite E; left; reflexivity).
    destruct (dll_members _ _ _ _ x D Hi) as (H1 & _ & _).
    destruct (Z.eqb_spec x lruHead); [contradiction | reflexivity].
Qed.

(* ------------------------------------------------------------------ A.6 sequences *)
Inductive lru_op := LAdd (it : Z) | LRemove (it : Z) | LMove (it : Z) | LVictim.
Definition lru_p_step (s : pstate) (op : lru_op) : pstate :=
  match op with
  | LAdd it => lru_add s it | LRemove it => lru_remove s it | LMove it => lru_move s it | LVictim => s
  end.
Definition lru_abs_step (l : list Z) (op : lru_op) : list Z :=
  match op with
  | LAdd it => it :: l | LRemove it => remz l it | LMove it => it :: remz l it | LVictim => l
  end.
Definition lru_op_ok (l : list Z) (op : lru_op) : bool :=
  match op with
  | LAdd it => negb (memz l it) && negb (it =? 0) && negb (it =? lruHead) && negb (it =? lruTail)
  | LRemove it | LMove it => memz l it
  | LVictim => true
  end.
Fixpoint lru_ops_ok (l : list Z) (ops : list lru_op) : bool :=
  match ops with [] => true | op :: r => lru_op_ok l op && lru_ops_ok (lru_abs_step l op) r end.

Definition LruInv (s : pstate) (l : list Z) : Prop :=
  dll (hp s) lruHead lruTail l /\ perr s = false.

Lemma lru_step_inv s l op :
  LruInv s l -> lru_op_ok l op = true -> LruInv (lru_p_step s op) (lru_abs_step l op).
Proof.
  intros (D & E) Hok. destruct op as [it|it|it|]; cbn [lru_p_step lru_abs_step lru_op_ok] in *.
  - rewrite !andb_true_iff, !negb_true_iff, memz_false, !Z.eqb_neq in Hok.
    destruct Hok as (((H1 & H2) & H3) & H4).
    destruct (lru_add_dll s it l D H1 H3 H4 H2) as (D' & E' & _). split; [assumption | congruence].
  - apply memz_In in Hok. destruct (lru_remove_dll s it l D Hok) as (D' & E' & _).
    split; [assumption | congruence].
  - apply memz_In in Hok. destruct (lru_move_dll s it l D Hok) as (D' & E' & _).
    split; [assumption | congruence].
  - split; assumption.
Qed.

Lemma lru_run_inv ops : forall s l,
  LruInv s l -> lru_ops_ok l ops = true ->
  LruInv (fold_left lru_p_step ops s) (fold_left lru_abs_step ops l).
Proof.
  induction ops as [|op ops IH]; intros s l I Hok; cbn [fold_left lru_ops_ok] in *; [assumption|].
  apply andb_true_iff in Hok. destruct Hok as (H1 & H2).
  apply IH; [apply lru_step_inv; assumption | assumption].
Qed.

Lemma pinit_lru owner mcap : LruInv (pinit owner mcap) [].
Proof.
  split; [|reflexivity]. unfold dll. cbn [app]. split; [|split].
  - constructor; [intros [H|[]]; discriminate|]. constructor; [intros []|constructor].
  - intros [H|[H|[]]]; discriminate.
  - cbn [links]. split; [reflexivity|]. split; [reflexivity | exact I].
Qed.

Theorem lru_sequence owner mcap ops :
  lru_ops_ok [] ops = true ->
  let s := fold_left lru_p_step ops (pinit owner mcap) in
  let l := fold_left lru_abs_step ops [] in
  dll (hp s) lruHead lruTail l /\ perr s = false /\
  lru_victim s = match rev l with [] => 0 | x :: _ => x end.
Proof.
  intros Hok s l. destruct (lru_run_inv ops _ _ (pinit_lru owner mcap) Hok) as (D & E).
  split; [assumption|]. split; [assumption|]. apply lru_victim_spec; assumption.
Qed.

(* ================================================================== generic dll surgery *)
Lemma dll_intro h hd tl l :
  hd < 0 -> tl < 0 -> hd <> tl -> (forall x, In x l -> 0 < x) -> NoDup l ->
  links h hd (l ++ [tl]) -> dll h hd tl l.
Proof.
  intros Hh Ht Hne Hpos ND LK. split; [|split; [|assumption]].
  - constructor.
    + intros Hi. apply in_app_or in Hi. destruct Hi as [Hi|[Hi|[]]]; [|congruence].
      specialize (Hpos _ Hi). lia.
    + apply NoDup_app_intro; [assumption | constructor; [intros []|constructor] |].
      intros x Hx [<-|[]]. specialize (Hpos _ Hx). lia.
  - intros [Hi|Hi]; [lia|]. apply in_app_or in Hi. destruct Hi as [Hi|[Hi|[]]]; [|lia].
    specialize (Hpos _ Hi). lia.
Qed.

Lemma dll_push h h' hd tl l it :
  dll h hd tl l -> ~ In it (hd :: l ++ [tl]) -> it <> 0 ->
  pnext (h' hd) = it -> pnext (h' it) = pnext (h hd) ->
  (forall x, x <> hd -> x <> it -> pnext (h' x) = pnext (h x)) ->
  pprev (h' it) = hd -> pprev (h' (pnext (h hd))) = it ->
  (forall x, x <> it -> x <> pnext (h hd) -> pprev (h' x) = pprev (h x)) ->
  dll h' hd tl (it :: l).
Proof.
  intros (ND & NZ & LK) Hfresh H0 N1 N2 NF P1 P2 PF.
  destruct (tail_shape l tl) as (R & E). set (n := List.hd tl l) in *.
  rewrite E in ND, NZ, LK, Hfresh.
  assert (Hn : pnext (h hd) = n) by (cbn [links] in LK; tauto).
  rewrite Hn in *.
  assert (ND' : NoDup (hd :: it :: n :: R)).
  { rewrite NoDup_cons_iff in ND. destruct ND as (ND1 & ND2).
    constructor; [|constructor; [|assumption]].
    - intros [Hi|Hi]; [apply Hfresh; left; symmetry; exact Hi | contradiction].
    - intros Hi. apply Hfresh. right; assumption. }
  split; [|split]; cbn [app]; rewrite E.
  - exact ND'.
  - intros [Hi|[Hi|Hi]]; [apply NZ; left; assumption | congruence | apply NZ; right; assumption].
  - apply (links_insert h h' hd it n R ND' LK); assumption.
Qed.

Lemma dll_mid h hd tl l it :
  dll h hd tl l -> In it l ->
  let p := pprev (h it) in let n := pnext (h it) in
  p <> 0 /\ n <> 0 /\ p <> it /\ n <> it /\ p <> n /\ pnext (h p) = it /\ pprev (h n) = it /\
  In p (hd :: l) /\ In n (l ++ [tl]) /\ p <> tl /\ n <> hd.
Proof.
  intros (ND & NZ & LK) Hi.
  destruct (mid_split l hd tl it Hi) as (A & p & n & B & E1 & E2).
  change (links h hd (l ++ [tl])) with (Links h (hd :: l ++ [tl])) in LK.
  rewrite E1 in ND, NZ, LK.
  destruct (Links_mid _ _ _ _ _ _ LK) as (Npi & Pip & Nin & Pni).
  destruct (NoDup_mid3 A B p it n ND) as (Hpi & Hpn & Hin & HpB & HiB & HnB & HA & _ & _).
  cbv zeta. rewrite Pip, Nin.
  assert (Hp0 : p <> 0) by (intros ->; apply NZ; apply in_or_app; right; left; reflexivity).
  assert (Hn0 : n <> 0) by (intros ->; apply NZ; apply in_or_app; right; right; right; left; reflexivity).
  assert (Hp : In p (hd :: l) /\ p <> tl).
  { (* p is in A ++ [p], a prefix of hd :: l ++ [tl] that misses at least it, n *)
    assert (HI : In p (hd :: l ++ [tl])) by (rewrite E1; apply in_or_app; right; left; reflexivity).
    assert (Hpt : p <> tl).
    { intros ->. 
      assert (EE : (hd :: l) ++ [tl] = (A ++ tl :: it :: removelast (n :: B)) ++ [last (n :: B) 0]).
      { cbn [app]. rewrite E1. rewrite <- app_assoc. cbn [app]. f_equal. f_equal. f_equal.
        apply app_removelast_last. discriminate. }
      apply app_inj_tail in EE. destruct EE as (_ & EE).
      assert (In (last (n :: B) 0) (n :: B)).
      { rewrite (app_removelast_last 0 (l:=n :: B)) at 2 by discriminate. apply in_or_app. right; left; reflexivity. }
      rewrite <- EE in H. destruct H as [H|H]; [congruence | contradiction]. }
    split; [|assumption].
    destruct HI as [HI|HI]; [left; assumption|]. right.
    apply in_app_or in HI. destruct HI as [HI|[HI|[]]]; [assumption | congruence]. }
  assert (Hn : In n (l ++ [tl]) /\ n <> hd).
  { assert (HI : In n (hd :: l ++ [tl])) by (rewrite E1; apply in_or_app; right; right; right; left; reflexivity).
    assert (Hnh : n <> hd).
    { intros Heq. destruct A as [|a A]; cbn [app] in E1.
      - injection E1 as E1 _. congruence.
      - injection E1 as E1 _. destruct (HA a (or_introl eq_refl)) as (_ & _ & Hc & _). congruence. }
    split; [|assumption]. destruct HI as [HI|HI]; [congruence | assumption]. }
  repeat split; try tauto; congruence.
Qed.

Lemma dll_unlink h h' hd tl l it :
  dll h hd tl l -> In it l ->
  pnext (h' (pprev (h it))) = pnext (h it) ->
  (forall x, x <> pprev (h it) -> x <> it -> pnext (h' x) = pnext (h x)) ->
  pprev (h' (pnext (h it))) = pprev (h it) ->
  (forall x, x <> pnext (h it) -> x <> it -> pprev (h' x) = pprev (h x)) ->
  dll h' hd tl (remz l it).
Proof.
  intros (ND & NZ & LK) Hi N1 NF P1 PF.
  destruct (mid_split l hd tl it Hi) as (A & p & n & B & E1 & E2).
  change (links h hd (l ++ [tl])) with (Links h (hd :: l ++ [tl])) in LK.
  rewrite E1 in ND, NZ, LK.
  destruct (Links_mid _ _ _ _ _ _ LK) as (Npi & Pip & Nin & Pni).
  rewrite Pip, Nin in *.
  split; [|split].
  - rewrite E2. apply NoDup_app_inv in ND. destruct ND as (NA & NR & NX).
    apply NoDup_app_intro; [assumption | |].
    + rewrite !NoDup_cons_iff in NR. rewrite !NoDup_cons_iff. cbn [In] in *. tauto.
    + intros x Hx Hx2. apply (NX x Hx). cbn [In] in *. tauto.
  - rewrite E2. intros H0. apply NZ. apply in_app_or in H0. apply in_or_app.
    cbn [In] in *. tauto.
  - change (Links h' (hd :: remz l it ++ [tl])). rewrite E2.
    apply (Links_unlink h h' A p it n B ND LK); assumption.
Qed.

(* in-place substitution of the first occurrence *)
Fixpoint subst_ptr (l : list Z) (old new : Z) : list Z :=
  match l with [] => [] | x :: r => if x =? old then new :: r else x :: subst_ptr r old new end.

Lemma mid_split3 l : forall hd tl it, In it l -> exists A p n B,
  hd :: l ++ [tl] = A ++ p :: it :: n :: B /\
  forall new, hd :: subst_ptr l it new ++ [tl] = A ++ p :: new :: n :: B.
Proof.
  induction l as [|x l IH]; intros hd tl it Hi; [destruct Hi|].
  destruct (Z.eq_dec x it) as [->|Hne].
  - exists [], hd. cbn [subst_ptr]. rewrite Z.eqb_refl.
    destruct l as [|y l].
    + exists tl, []. split; reflexivity.
    + exists y, (l ++ [tl]). split; reflexivity.
  - destruct Hi as [Hi|Hi]; [contradiction|].
    destruct (IH x tl it Hi) as (A & p & n & B & E1 & E2).
    exists (hd :: A), p, n, B. cbn [subst_ptr app].
    destruct (Z.eqb_spec x it); [contradiction|].
    cbn [app] in *. rewrite E1. split; [reflexivity|]. intros new. rewrite E2. reflexivity.
Qed.

Lemma subst_ptr_In l old new x : In x (subst_ptr l old new) -> x = new \/ (In x l /\ (NoDup l -> x <> old)).
Proof.
  induction l as [|y l IH]; cbn [subst_ptr In]; [intros []|].
  destruct (Z.eqb_spec y old).
  - intros [H|H]; [left; congruence|]. right. split; [right; assumption|].
    intros ND. rewrite NoDup_cons_iff in ND. intros ->. subst. tauto.
  - intros [H|H].
    + right. split; [left; assumption|]. intros _. congruence.
    + destruct (IH H) as [H1|(H1 & H2)]; [left; assumption|]. right. split; [right; assumption|].
      intros ND. rewrite NoDup_cons_iff in ND. tauto.
Qed.
Lemma subst_ptr_In_new l old new : In old l -> In new (subst_ptr l old new).
Proof.
  induction l as [|y l IH]; cbn [subst_ptr In]; [intros []|].
  destruct (Z.eqb_spec y old); [intros _; left; reflexivity|].
  intros [H|H]; [contradiction | right; apply IH; assumption].
Qed.
Lemma subst_ptr_In_other l old new x : x <> old -> In x l -> In x (subst_ptr l old new).
Proof.
  intros Hx. induction l as [|y l IH]; cbn [subst_ptr In]; [intros []|].
  destruct (Z.eqb_spec y old).
  - intros [H|H]; [congruence | right; assumption].
  - intros [H|H]; [left; assumption | right; apply IH; assumption].
Qed.
Lemma subst_ptr_length l old new : length (subst_ptr l old new) = length l.
Proof.
  induction l as [|y l IH]; cbn [subst_ptr length]; [reflexivity|].
  destruct (y =? old); cbn [length]; congruence.
Qed.
Lemma subst_ptr_NoDup l old new : NoDup l -> ~ In new l -> NoDup (subst_ptr l old new).
Proof.
  induction 1 as [|y l Hn Hd IH]; cbn [subst_ptr In]; intros Hnew; [constructor|].
  destruct (Z.eqb_spec y old).
  - constructor; [tauto | assumption].
  - constructor; [|apply IH; tauto].
    intros Hi. apply subst_ptr_In in Hi. destruct Hi as [Hi|(Hi & _)]; [subst; tauto | contradiction].
Qed.
Lemma subst_ptr_notin l old new : ~ In old l -> subst_ptr l old new = l.
Proof.
  induction l as [|y l IH]; cbn [subst_ptr In]; intros H; [reflexivity|].
  destruct (Z.eqb_spec y old); [exfalso; apply H; left; assumption|].
  rewrite IH; [reflexivity | tauto].
Qed.

Lemma Links_replace h h' A p old new n B :
  NoDup (A ++ p :: old :: n :: B) -> ~ In new (A ++ p :: old :: n :: B) ->
  Links h (A ++ p :: old :: n :: B) ->
  pnext (h' p) = new -> pnext (h' new) = n ->
  (forall x, x <> p -> x <> new -> x <> old -> pnext (h' x) = pnext (h x)) ->
  pprev (h' new) = p -> pprev (h' n) = new ->
  (forall x, x <> n -> x <> new -> x <> old -> pprev (h' x) = pprev (h x)) ->
  Links h' (A ++ p :: new :: n :: B).
Proof.
  intros ND Hnew LK N1 N2 NF P1 P2 PF.
  destruct (NoDup_mid3 A B p old n ND) as (Hpi & Hpn & Hin & HpB & HiB & HnB & HA & _ & _).
  assert (HnewA : forall x, In x A -> x <> new).
  { intros x Hx ->. apply Hnew. apply in_or_app. left; assumption. }
  assert (HnewB : forall x, In x B -> x <> new).
  { intros x Hx ->. apply Hnew. apply in_or_app. right. right. right. right. assumption. }
  assert (Hnp : new <> p) by (intros ->; apply Hnew; apply in_or_app; right; left; reflexivity).
  assert (Hnn : new <> n) by (intros ->; apply Hnew; apply in_or_app; right; right; right; left; reflexivity).
  apply Links_app in LK. destruct LK as (LA & LK). cbn [links] in LK.
  destruct LK as (_ & _ & _ & _ & LB).
  apply Links_app. split.
  - destruct A as [|a A]; [exact I|]. cbn [app Links] in *.
    eapply links_frame; [| |exact LA].
    + intros x Hx. rewrite removelast_last in Hx.
      destruct (HA x Hx) as (? & ? & ? & ?). apply NF; auto.
    + intros x Hx. apply in_app_or in Hx. destruct Hx as [Hx|[<-|[]]].
      * destruct (HA x (or_intror Hx)) as (? & ? & ? & ?). apply PF; auto. apply HnewA. right; assumption.
      * apply PF; congruence.
  - cbn [links]. repeat (split; [assumption|]).
    eapply links_frame; [| |exact LB].
    + intros x [<-|Hx]; [apply NF; congruence|].
      apply In_removelast in Hx. apply NF; [intros ->; contradiction | auto | intros ->; contradiction].
    + intros x Hx. apply PF; [intros ->; contradiction | auto | intros ->; contradiction].
Qed.

Lemma dll_replace h h' hd tl l old new :
  dll h hd tl l -> In old l -> ~ In new (hd :: l ++ [tl]) -> new <> 0 ->
  pnext (h' (pprev (h old))) = new -> pnext (h' new) = pnext (h old) ->
  (forall x, x <> pprev (h old) -> x <> new -> x <> old -> pnext (h' x) = pnext (h x)) ->
  pprev (h' new) = pprev (h old) -> pprev (h' (pnext (h old))) = new ->
  (forall x, x <> pnext (h old) -> x <> new -> x <> old -> pprev (h' x) = pprev (h x)) ->
  dll h' hd tl (subst_ptr l old new).
Proof.
  intros (ND & NZ & LK) Hi Hnew Hnew0 N1 N2 NF P1 P2 PF.
  destruct (mid_split3 l hd tl old Hi) as (A & p & n & B & E1 & E2).
  change (links h hd (l ++ [tl])) with (Links h (hd :: l ++ [tl])) in LK.
  rewrite E1 in ND, NZ, LK, Hnew.
  destruct (Links_mid _ _ _ _ _ _ LK) as (Npi & Pip & Nin & Pni).
  rewrite Pip, Nin in *.
  destruct (NoDup_mid3 A B p old n ND) as (Hpi & Hpn & Hin & HpB & HiB & HnB & HA & NA & NB).
  split; [|split].
  - rewrite E2. apply NoDup_app_inv in ND. destruct ND as (_ & NR & NX).
    apply NoDup_app_intro; [assumption | |].
    + rewrite !NoDup_cons_iff in NR. rewrite !NoDup_cons_iff. cbn [In] in *.
      assert (~ In new (p :: old :: n :: B)) by (intros Hx; apply Hnew; apply in_or_app; right; assumption).
      cbn [In] in *. intuition congruence.
    + intros x Hx [Hx2|[Hx2|Hx2]].
      * apply (NX x Hx). left; assumption.
      * subst x. apply Hnew. apply in_or_app. left; assumption.
      * apply (NX x Hx). right; right; assumption.
  - rewrite E2. intros H0. apply in_app_or in H0. destruct H0 as [H0|[H0|[H0|H0]]].
    + apply NZ. apply in_or_app. left; assumption.
    + apply NZ. apply in_or_app. right. left; assumption.
    + congruence.
    + apply NZ. apply in_or_app. right. right. right. assumption.
  - change (Links h' (hd :: subst_ptr l old new ++ [tl])). rewrite E2.
    apply (Links_replace h h' A p old new n B ND Hnew LK); assumption.
Qed.

(* ================================================================== B. SIEVE queues and the hand *)
Record SInv (s : pstate) (P M : list Z) : Prop := mkSInv {
  si_P : dll (hp s) probHead probTail P;
  si_M : dll (hp s) mainHead mainTail M;
  si_nd : NoDup (P ++ M);
  si_pos : forall x, In x (P ++ M) -> 0 < x;
  si_tagP : forall x, In x P -> pq (hp s x) = qProb /\ pown (hp s x) = qowner (prob s);
  si_tagM : forall x, In x M -> pq (hp s x) = qMain /\ pown (hp s x) = qowner (mainq s);
  (* stronger than "every positive pointer": every pointer outside P ++ M, sentinels included *)
  si_none : forall x, ~ In x (P ++ M) -> pq (hp s x) = qNone;
  si_szP : qsize (prob s) = Z.of_nat (length P);
  si_szM : qsize (mainq s) = Z.of_nat (length M);
  si_qP : qhd (prob s) = probHead /\ qtl (prob s) = probTail /\ qid (prob s) = qProb;
  si_qM : qhd (mainq s) = mainHead /\ qtl (mainq s) = mainTail /\ qid (mainq s) = qMain;
  si_hand : hand s = 0 \/ In (hand s) M;
  si_err : perr s = false }.

Definition sentinels : list Z := [lruHead; lruTail; probHead; probTail; mainHead; mainTail].

Lemma in_ext_cases (hd tl x : Z) l : In x (hd :: l ++ [tl]) -> x = hd \/ In x l \/ x = tl.
Proof.
  intros [H|H]; [left; congruence|]. apply in_app_or in H.
  destruct H as [H|[H|[]]]; [right; left; assumption | right; right; congruence].
Qed.

Lemma SInv_posP s P M x : SInv s P M -> In x P -> 0 < x.
Proof. intros I Hx. apply (si_pos _ _ _ I). apply in_or_app. left; assumption. Qed.
Lemma SInv_posM s P M x : SInv s P M -> In x M -> 0 < x.
Proof. intros I Hx. apply (si_pos _ _ _ I). apply in_or_app. right; assumption. Qed.
Lemma SInv_PM s P M x : SInv s P M -> In x P -> In x M -> False.
Proof.
  intros I. pose proof (si_nd _ _ _ I) as ND. apply NoDup_app_inv in ND.
  destruct ND as (_ & _ & NX). apply NX.
Qed.

(* the pairwise disjointness clause of the task, derived *)
Theorem SInv_disjoint s P M : SInv s P M -> NoDup (sentinels ++ P ++ M).
Proof.
  intros I. apply NoDup_app_intro.
  - unfold sentinels. repeat (constructor; [cbn [In]; consts; intros H; repeat (destruct H as [H|H]; [discriminate|]); exact H|]).
    constructor.
  - apply (si_nd _ _ _ I).
  - intros x Hs Hx. pose proof (si_pos _ _ _ I x Hx). unfold sentinels in Hs. cbn [In] in Hs. consts.
    repeat (destruct Hs as [Hs|Hs]; [lia|]). exact Hs.
Qed.

Lemma SInv_sepPM s P M x : SInv s P M ->
  In x (probHead :: P ++ [probTail]) -> In x (mainHead :: M ++ [mainTail]) -> False.
Proof.
  intros I H1 H2. apply in_ext_cases in H1. apply in_ext_cases in H2.
  destruct H1 as [H1|[H1|H1]]; destruct H2 as [H2|[H2|H2]];
    try (pose proof (SInv_posP _ _ _ _ I H1)); try (pose proof (SInv_posM _ _ _ _ I H2));
    try (consts; lia).
  exact (SInv_PM _ _ _ _ I H1 H2).
Qed.

Lemma dll_first h hd tl l : dll h hd tl l -> In (pnext (h hd)) (l ++ [tl]).
Proof.
  intros (_ & _ & LK). destruct (tail_shape l tl) as (R & E). rewrite E in *.
  cbn [links] in LK. destruct LK as (-> & _). left; reflexivity.
Qed.

(* tags, sizes etc. do not depend on pvis / preuse: frame rule for SInv *)
Lemma SInv_frame s s' P M :
  SInv s P M ->
  (forall x, pprev (hp s' x) = pprev (hp s x) /\ pnext (hp s' x) = pnext (hp s x) /\
             pq (hp s' x) = pq (hp s x) /\ pown (hp s' x) = pown (hp s x)) ->
  prob s' = prob s -> mainq s' = mainq s -> (hand s' = 0 \/ In (hand s') M) -> perr s' = perr s ->
  SInv s' P M.
Proof.
  intros I H Ep Em Hh Ee. destruct I. constructor; rewrite ?Ep, ?Em, ?Ee; try assumption.
  - eapply dll_frame; [|eassumption]. intros p _. destruct (H p) as (? & ? & _). split; assumption.
  - eapply dll_frame; [|eassumption]. intros p _. destruct (H p) as (? & ? & _). split; assumption.
  - intros x Hx. destruct (H x) as (_ & _ & -> & ->). auto.
  - intros x Hx. destruct (H x) as (_ & _ & -> & ->). auto.
  - intros x Hx. destruct (H x) as (_ & _ & -> & _). auto.
Qed.

(* ------------------------------------------------------------------ B.2 holds = membership *)
Theorem holds_main s P M x : SInv s P M -> (holds (hp s) (mainq s) x = true <-> In x M).
Proof.
  intros I. destruct (si_qM _ _ _ I) as (Eh & Et & Ei).
  unfold holds, owns_tag, is_sentinel. rewrite Eh, Et, Ei. split.
  - rewrite !andb_true_iff, !negb_true_iff, !Z.eqb_eq, Z.eqb_neq, orb_false_iff, !Z.eqb_neq.
    intros (((H0 & Hq) & Ho) & Hs).
    destruct (in_dec Z.eq_dec x (P ++ M)) as [Hi|Hi].
    + apply in_app_or in Hi. destruct Hi as [Hi|Hi]; [|assumption].
      destruct (si_tagP _ _ _ I x Hi) as (Hq' & _). rewrite Hq' in Hq. discriminate.
    + rewrite (si_none _ _ _ I x Hi) in Hq. discriminate.
  - intros Hi. destruct (si_tagM _ _ _ I x Hi) as (-> & ->).
    pose proof (SInv_posM _ _ _ _ I Hi). rewrite !Z.eqb_refl.
    eqb_false x 0. eqb_false x mainHead. eqb_false x mainTail. reflexivity.
Qed.
Theorem holds_prob s P M x : SInv s P M -> (holds (hp s) (prob s) x = true <-> In x P).
Proof.
  intros I. destruct (si_qP _ _ _ I) as (Eh & Et & Ei).
  unfold holds, owns_tag, is_sentinel. rewrite Eh, Et, Ei. split.
  - rewrite !andb_true_iff, !negb_true_iff, !Z.eqb_eq, Z.eqb_neq, orb_false_iff, !Z.eqb_neq.
    intros (((H0 & Hq) & Ho) & Hs).
    destruct (in_dec Z.eq_dec x (P ++ M)) as [Hi|Hi].
    + apply in_app_or in Hi. destruct Hi as [Hi|Hi]; [assumption|].
      destruct (si_tagM _ _ _ I x Hi) as (Hq' & _). rewrite Hq' in Hq. discriminate.
    + rewrite (si_none _ _ _ I x Hi) in Hq. discriminate.
  - intros Hi. destruct (si_tagP _ _ _ I x Hi) as (-> & ->).
    pose proof (SInv_posP _ _ _ _ I Hi). rewrite !Z.eqb_refl.
    eqb_false x 0. eqb_false x probHead. eqb_false x probTail. reflexivity.
Qed.
Lemma holds_main_false s P M x : SInv s P M -> ~ In x M -> holds (hp s) (mainq s) x = false.
Proof.
  intros I H. destruct (holds (hp s) (mainq s) x) eqn:E; [|reflexivity].
  apply (holds_main _ _ _ x I) in E. contradiction.
Qed.
Lemma holds_prob_false s P M x : SInv s P M -> ~ In x P -> holds (hp s) (prob s) x = false.
Proof.
  intros I H. destruct (holds (hp s) (prob s) x) eqn:E; [|reflexivity].
  apply (holds_prob _ _ _ x I) in E. contradiction.
Qed.

(* ------------------------------------------------------------------ B.1 pinit *)
Theorem pinit_SInv owner mcap : SInv (pinit owner mcap) [] [].
Proof.
  constructor; try reflexivity.
  - apply dll_intro; try (consts; lia); [intros x [] | constructor|].
    cbn [app links]. split; [reflexivity|]. split; [reflexivity | exact I].
  - apply dll_intro; try (consts; lia); [intros x [] | constructor|].
    cbn [app links]. split; [reflexivity|]. split; [reflexivity | exact I].
  - constructor.
  - intros x [].
  - intros x [].
  - intros x [].
  - intros x _. unfold pinit, sieve_init, q_init, lru_init. cbn [hp prob mainq qhd qtl].
    autorewrite with heap. unfold upd, nil_node.
    repeat match goal with |- context[if ?c then _ else _] => destruct c end; reflexivity.
  - repeat split.
  - repeat split.
  - left; reflexivity.
Qed.

(* ------------------------------------------------------------------ B.3 / B.4 inserts *)
Lemma sieve_insert_prob_fields s it x :
  let h' := hp (sieve_insert_prob s it) in let hd := qhd (prob s) in let n := pnext (hp s hd) in
  pnext (h' x) = (if x =? it then n else if x =? hd then it else pnext (hp s x)) /\
  pprev (h' x) = (if x =? n then it else if x =? it then hd else pprev (hp s x)) /\
  pq (h' x) = (if x =? it then qid (prob s) else pq (hp s x)) /\
  pown (h' x) = (if x =? it then qowner (prob s) else pown (hp s x)) /\
  pvis (h' x) = (if x =? it then false else pvis (hp s x)) /\
  preuse (h' x) = (if x =? it then 0 else preuse (hp s x)).
Proof.
  unfold sieve_insert_prob, q_push. cbn [hp st_heap st_prob st_err]. autorewrite with heap.
  repeat split; try reflexivity. destruct (x =? it); reflexivity.
Qed.

Lemma sieve_insert_main_fields s it x :
  let h' := hp (sieve_insert_main s it) in let hd := qhd (mainq s) in let n := pnext (hp s hd) in
  pnext (h' x) = (if x =? it then n else if x =? hd then it else pnext (hp s x)) /\
  pprev (h' x) = (if x =? n then it else if x =? it then hd else pprev (hp s x)) /\
  pq (h' x) = (if x =? it then qid (mainq s) else pq (hp s x)) /\
  pown (h' x) = (if x =? it then qowner (mainq s) else pown (hp s x)) /\
  pvis (h' x) = (if x =? it then true else pvis (hp s x)) /\
  preuse (h' x) = (if x =? it then 1 else preuse (hp s x)).
Proof.
  unfold sieve_insert_main, q_push. cbn [hp hand st_heap st_main st_err].
  destruct (hand s =? 0); cbn [hp st_hand st_heap st_main st_err]; autorewrite with heap;
    (repeat split; try reflexivity; destruct (x =? it); reflexivity).
Qed.

Lemma sieve_insert_prob_rest s it :
  let s' := sieve_insert_prob s it in
  prob s' = q_size (prob s) (qsize (prob s) + 1) /\ mainq s' = mainq s /\ hand s' = hand s /\
  maincap s' = maincap s /\ perr s' = perr s || ((it =? 0) || (pnext (hp s (qhd (prob s))) =? 0)).
Proof.
  unfold sieve_insert_prob, q_push. cbn [hp prob mainq hand maincap perr st_heap st_prob st_err].
  autorewrite with heap. repeat split; reflexivity.
Qed.
Lemma sieve_insert_main_rest s it :
  let s' := sieve_insert_main s it in
  prob s' = prob s /\ mainq s' = q_size (mainq s) (qsize (mainq s) + 1) /\
  hand s' = (if hand s =? 0 then it else hand s) /\
  maincap s' = maincap s /\ perr s' = perr s || ((it =? 0) || (pnext (hp s (qhd (mainq s))) =? 0)).
Proof.
  unfold sieve_insert_main, q_push. cbn [hp hand st_heap st_main st_err].
  destruct (hand s =? 0) eqn:E;
    cbn [hp prob mainq hand maincap perr st_hand st_heap st_main st_err]; autorewrite with heap;
    rewrite ?E; repeat split; reflexivity.
Qed.

Theorem sieve_insert_prob_spec s P M it :
  SInv s P M -> 0 < it -> ~ In it (P ++ M) ->
  let s' := sieve_insert_prob s it in
  SInv s' (it :: P) M /\ preuse (hp s' it) = 0 /\ pvis (hp s' it) = false /\ hand s' = hand s /\
  maincap s' = maincap s /\
  (forall x, x <> it -> pvis (hp s' x) = pvis (hp s x) /\ preuse (hp s' x) = preuse (hp s x)).
Proof.
  intros I Hpos Hfresh s'.
  destruct (si_qP _ _ _ I) as (Eh & Et & Ei).
  pose proof (sieve_insert_prob_fields s it) as F. cbv zeta in F. fold s' in F. rewrite Eh in F.
  destruct (sieve_insert_prob_rest s it) as (R1 & R2 & R3 & R4 & R5). fold s' in R1, R2, R3, R4, R5.
  rewrite Eh in R5.
  set (n := pnext (hp s probHead)) in *.
  pose proof (dll_first _ _ _ _ (si_P _ _ _ I)) as Hn. fold n in Hn.
  assert (HitP : ~ In it (probHead :: P ++ [probTail])).
  { intros H. apply in_ext_cases in H. destruct H as [H|[H|H]]; [consts; lia | | consts; lia].
    apply Hfresh. apply in_or_app. left; assumption. }
  assert (HitM : ~ In it (mainHead :: M ++ [mainTail])).
  { intros H. apply in_ext_cases in H. destruct H as [H|[H|H]]; [consts; lia | | consts; lia].
    apply Hfresh. apply in_or_app. right; assumption. }
  assert (Hnit : n <> it) by (intros E; apply HitP; right; rewrite <- E; assumption).
  assert (Hn0 : n <> 0).
  { intros E. destruct (si_P _ _ _ I) as (_ & NZ & _). apply NZ. right. rewrite <- E. assumption. }
  assert (HnM : ~ In n (mainHead :: M ++ [mainTail])).
  { intros H. apply (SInv_sepPM s P M n I); [right; assumption | assumption]. }
  assert (HhM : ~ In probHead (mainHead :: M ++ [mainTail])).
  { intros H. apply (SInv_sepPM s P M probHead I); [left; reflexivity | assumption]. }
  assert (Hnh : n <> probHead).
  { intros E. destruct (si_P _ _ _ I) as (ND & _). rewrite NoDup_cons_iff in ND. apply ND. rewrite <- E. assumption. }
  split; [|split; [|split; [|split; [|split]]]].
  - constructor.
    + apply (dll_push (hp s) (hp s') probHead probTail P it (si_P _ _ _ I) HitP); fold n; try lia.
      * destruct (F probHead) as (-> & _). zeq. reflexivity.
      * destruct (F it) as (-> & _). zeq. reflexivity.
      * intros x H1 H2. destruct (F x) as (-> & _). zeq. reflexivity.
      * destruct (F it) as (_ & -> & _). zeq. reflexivity.
      * destruct (F n) as (_ & -> & _). zeq. reflexivity.
      * intros x H1 H2. destruct (F x) as (_ & -> & _). zeq. reflexivity.
    + eapply dll_frame; [|exact (si_M _ _ _ I)]. intros x Hx.
      assert (x <> it) by (intros ->; contradiction).
      assert (x <> n) by (intros ->; contradiction).
      assert (x <> probHead) by (intros ->; contradiction).
      destruct (F x) as (-> & -> & _). zeq. split; reflexivity.
    + cbn [app]. constructor; [assumption | apply (si_nd _ _ _ I)].
    + intros x [<-|Hx]; [assumption | apply (si_pos _ _ _ I); assumption].
    + intros x Hx. destruct (F x) as (_ & _ & -> & -> & _). rewrite R1. cbn [qowner q_size].
      destruct Hx as [<-|Hx]; [zeq; split; [assumption | reflexivity]|].
      assert (x <> it) by (intros ->; apply Hfresh; apply in_or_app; left; assumption).
      zeq. apply (si_tagP _ _ _ I); assumption.
    + intros x Hx. destruct (F x) as (_ & _ & -> & -> & _). rewrite R2.
      assert (x <> it) by (intros ->; apply Hfresh; apply in_or_app; right; assumption).
      zeq. apply (si_tagM _ _ _ I); assumption.
    + intros x Hx. destruct (F x) as (_ & _ & -> & _).
      assert (x <> it) by (intros ->; apply Hx; left; reflexivity).
      zeq. apply (si_none _ _ _ I). intros Hi. apply Hx. right; assumption.
    + rewrite R1. cbn [qsize q_size length]. rewrite (si_szP _ _ _ I). lia.
    + rewrite R2. apply (si_szM _ _ _ I).
    + rewrite R1. cbn [qhd qtl qid q_size]. auto.
    + rewrite R2. apply (si_qM _ _ _ I).
    + rewrite R3. apply (si_hand _ _ _ I).
    + rewrite R5, (si_err _ _ _ I). fold n. zeq. reflexivity.
  - destruct (F it) as (_ & _ & _ & _ & _ & ->). zeq. reflexivity.
  - destruct (F it) as (_ & _ & _ & _ & -> & _). zeq. reflexivity.
  - assumption.
  - assumption.
  - intros x Hx. destruct (F x) as (_ & _ & _ & _ & -> & ->). zeq. split; reflexivity.
Qed.

Theorem sieve_insert_main_spec s P M it :
  SInv s P M -> 0 < it -> ~ In it (P ++ M) ->
  let s' := sieve_insert_main s it in
  SInv s' P (it :: M) /\ preuse (hp s' it) = 1 /\ pvis (hp s' it) = true /\
  hand s' = (if hand s =? 0 then it else hand s) /\ maincap s' = maincap s /\
  (forall x, x <> it -> pvis (hp s' x) = pvis (hp s x) /\ preuse (hp s' x) = preuse (hp s x)).
Proof.
  intros I Hpos Hfresh s'.
  destruct (si_qM _ _ _ I) as (Eh & Et & Ei).
  pose proof (sieve_insert_main_fields s it) as F. cbv zeta in F. fold s' in F. rewrite Eh in F.
  destruct (sieve_insert_main_rest s it) as (R1 & R2 & R3 & R4 & R5). fold s' in R1, R2, R3, R4, R5.
  rewrite Eh in R5.
  set (n := pnext (hp s mainHead)) in *.
  pose proof (dll_first _ _ _ _ (si_M _ _ _ I)) as Hn. fold n in Hn.
  assert (HitP : ~ In it (probHead :: P ++ [probTail])).
  { intros H. apply in_ext_cases in H. destruct H as [H|[H|H]]; [consts; lia | | consts; lia].
    apply Hfresh. apply in_or_app. left; assumption. }
  assert (HitM : ~ In it (mainHead :: M ++ [mainTail])).
  { intros H. apply in_ext_cases in H. destruct H as [H|[H|H]]; [consts; lia | | consts; lia].
    apply Hfresh. apply in_or_app. right; assumption. }
  assert (Hnit : n <> it) by (intros E; apply HitM; right; rewrite <- E; assumption).
  assert (Hn0 : n <> 0).
  { intros E. destruct (si_M _ _ _ I) as (_ & NZ & _). apply NZ. right. rewrite <- E. assumption. }
  assert (HnP : ~ In n (probHead :: P ++ [probTail])).
  { intros H. apply (SInv_sepPM s P M n I); [assumption | right; assumption]. }
  assert (HhP : ~ In mainHead (probHead :: P ++ [probTail])).
  { intros H. apply (SInv_sepPM s P M mainHead I); [assumption | left; reflexivity]. }
  assert (Hnh : n <> mainHead).
  { intros E. destruct (si_M _ _ _ I) as (ND & _). rewrite NoDup_cons_iff in ND. apply ND. rewrite <- E. assumption. }
  split; [|split; [|split; [|split; [|split]]]].
  - constructor.
    + eapply dll_frame; [|exact (si_P _ _ _ I)]. intros x Hx.
      assert (x <> it) by (intros ->; contradiction).
      assert (x <> n) by (intros ->; contradiction).
      assert (x <> mainHead) by (intros ->; contradiction).
      destruct (F x) as (-> & -> & _). zeq. split; reflexivity.
    + apply (dll_push (hp s) (hp s') mainHead mainTail M it (si_M _ _ _ I) HitM); fold n; try lia.
      * destruct (F mainHead) as (-> & _). zeq. reflexivity.
      * destruct (F it) as (-> & _). zeq. reflexivity.
      * intros x H1 H2. destruct (F x) as (-> & _). zeq. reflexivity.
      * destruct (F it) as (_ & -> & _). zeq. reflexivity.
      * destruct (F n) as (_ & -> & _). zeq. reflexivity.
      * intros x H1 H2. destruct (F x) as (_ & -> & _). zeq. reflexivity.
    + pose proof (si_nd _ _ _ I) as ND. apply NoDup_app_inv in ND. destruct ND as (NP & NM & NX).
      apply NoDup_app_intro; [assumption | constructor; [|assumption] |].
      * intros Hi. apply Hfresh. apply in_or_app. right; assumption.
      * intros x Hx [<-|Hx2]; [apply Hfresh; apply in_or_app; left; assumption | exact (NX x Hx Hx2)].
    + intros x Hx. apply in_app_or in Hx. destruct Hx as [Hx|[<-|Hx]]; [| assumption |].
      * apply (si_pos _ _ _ I). apply in_or_app. left; assumption.
      * apply (si_pos _ _ _ I). apply in_or_app. right; assumption.
    + intros x Hx. destruct (F x) as (_ & _ & -> & -> & _). rewrite R1.
      assert (x <> it) by (intros ->; apply Hfresh; apply in_or_app; left; assumption).
      zeq. apply (si_tagP _ _ _ I); assumption.
    + intros x Hx. destruct (F x) as (_ & _ & -> & -> & _). rewrite R2. cbn [qowner q_size].
      destruct Hx as [<-|Hx]; [zeq; split; [assumption | reflexivity]|].
      assert (x <> it) by (intros ->; apply Hfresh; apply in_or_app; right; assumption).
      zeq. apply (si_tagM _ _ _ I); assumption.
    + intros x Hx. destruct (F x) as (_ & _ & -> & _).
      assert (x <> it) by (intros ->; apply Hx; apply in_or_app; right; left; reflexivity).
      zeq. apply (si_none _ _ _ I). intros Hi. apply Hx. apply in_app_or in Hi. apply in_or_app.
      destruct Hi as [Hi|Hi]; [left; assumption | right; right; assumption].
    + rewrite R1. apply (si_szP _ _ _ I).
    + rewrite R2. cbn [qsize q_size length]. rewrite (si_szM _ _ _ I). lia.
    + rewrite R1. apply (si_qP _ _ _ I).
    + rewrite R2. cbn [qhd qtl qid q_size]. auto.
    + rewrite R3. destruct (Z.eqb_spec (hand s) 0); [right; left; reflexivity|].
      destruct (si_hand _ _ _ I) as [Hh|Hh]; [contradiction | right; right; assumption].
    + rewrite R5, (si_err _ _ _ I). fold n. zeq. reflexivity.
  - destruct (F it) as (_ & _ & _ & _ & _ & ->). zeq. reflexivity.
  - destruct (F it) as (_ & _ & _ & _ & -> & _). zeq. reflexivity.
  - assumption.
  - assumption.
  - intros x Hx. destruct (F x) as (_ & _ & _ & _ & -> & ->). zeq. split; reflexivity.
Qed.

(* ------------------------------------------------------------------ B.5 previousMainItem *)
(* predecessor of the first occurrence of x in l; [prev] when x is the head; 0 when absent *)
Fixpoint pred_of (prev : Z) (l : list Z) (x : Z) : Z :=
  match l with [] => 0 | y :: r => if y =? x then prev else pred_of y r x end.
(* predecessor in M, wrapping from the first element to the last; 0 when x is alone (or absent) *)
Definition aprev (M : list Z) (x : Z) : Z :=
  let p := pred_of (last M 0) M x in if p =? x then 0 else p.

Lemma links_pred h L : forall a x, links h a L -> In x L -> pprev (h x) = pred_of a L x.
Proof.
  induction L as [|y L IH]; intros a x LK Hi; [destruct Hi|].
  cbn [links pred_of] in *. destruct LK as (_ & Hp & LK).
  destruct (Z.eqb_spec y x) as [e|e]; [subst y; exact Hp|].
  destruct Hi as [Hi|Hi]; [contradiction|]. apply IH; assumption.
Qed.
Lemma pred_of_app l r : forall a x, In x l -> pred_of a (l ++ r) x = pred_of a l x.
Proof.
  induction l as [|y l IH]; intros a x Hi; [destruct Hi|]. cbn [app pred_of].
  destruct (Z.eqb_spec y x); [reflexivity|]. destruct Hi as [Hi|Hi]; [contradiction|]. apply IH; assumption.
Qed.
Lemma pred_of_in l : forall a x, In x l -> In (pred_of a l x) (a :: l).
Proof.
  induction l as [|y l IH]; intros a x Hi; [destruct Hi|]. cbn [pred_of].
  destruct (Z.eqb_spec y x); [left; reflexivity|]. destruct Hi as [Hi|Hi]; [contradiction|].
  right. apply IH; assumption.
Qed.
Lemma pred_of_neq l : forall a x, NoDup (a :: l) -> In x l -> pred_of a l x <> x.
Proof.
  induction l as [|y l IH]; intros a x ND Hi; [destruct Hi|]. cbn [pred_of].
  rewrite NoDup_cons_iff in ND. destruct ND as (ND1 & ND2).
  destruct (Z.eqb_spec y x).
  - subst. intros ->. apply ND1. left; reflexivity.
  - destruct Hi as [Hi|Hi]; [contradiction|]. apply IH; assumption.
Qed.
Lemma last_in (l : list Z) d : l <> [] -> In (last l d) l.
Proof.
  intros H. rewrite (app_removelast_last d H) at 2. apply in_or_app. right; left; reflexivity.
Qed.

Lemma last_indep (l : list Z) d d' : l <> [] -> last l d = last l d'.
Proof.
  induction l as [|a l IH]; intros H; [congruence|]. destruct l as [|b l]; [reflexivity|].
  change (last (b :: l) d = last (b :: l) d'). apply IH. discriminate.
Qed.

Lemma aprev_neq M x : x <> 0 -> aprev M x <> x.
Proof.
  intros H. unfold aprev. destruct (Z.eqb_spec (pred_of (last M 0) M x) x); congruence.
Qed.
Lemma aprev_in M x : In x M -> aprev M x = 0 \/ In (aprev M x) M.
Proof.
  intros Hi. unfold aprev. destruct (Z.eqb_spec (pred_of (last M 0) M x) x); [left; reflexivity|].
  right. destruct (pred_of_in M (last M 0) x Hi) as [H|H]; [|assumption].
  rewrite <- H. apply last_in. intros ->. destruct Hi.
Qed.

Theorem prev_main_item_spec s P M x :
  SInv s P M -> In x M -> prev_main_item s x = aprev M x.
Proof.
  intros I Hi. pose proof (SInv_posM _ _ _ _ I Hi) as Hpos.
  destruct (si_qM _ _ _ I) as (Eh & Et & Ei).
  pose proof (si_M _ _ _ I) as D. pose proof D as (ND & NZ & LK).
  unfold prev_main_item. eqb_false x 0. rewrite Eh, Et.
  assert (Hp0 : pprev (hp s x) = pred_of mainHead M x).
  { rewrite (links_pred _ _ mainHead x LK) by (apply in_or_app; left; assumption).
    apply pred_of_app; assumption. }
  rewrite Hp0. unfold aprev.
  destruct M as [|y r]; [destruct Hi|]. cbn [pred_of].
  destruct (Z.eqb_spec y x) as [->|Hne].
  - rewrite Z.eqb_refl, orb_true_r.
    rewrite (dll_tail_prev _ _ _ _ D), <- last_rev.
    assert (HL : In (last (x :: r) mainHead) (x :: r)) by (apply last_in; discriminate).
    assert (EL : last (x :: r) mainHead = last (x :: r) 0) by (apply last_indep; discriminate).
    rewrite <- EL. destruct (Z.eqb_spec (last (x :: r) mainHead) x); [reflexivity|].
    rewrite (proj2 (holds_main s P (x :: r) _ I) HL). reflexivity.
  - destruct Hi as [Hi|Hi]; [contradiction|].
    assert (ND' : NoDup (y :: r)).
    { rewrite NoDup_cons_iff in ND. destruct ND as (_ & ND). apply NoDup_app_inv in ND. tauto. }
    pose proof (pred_of_in r y x Hi) as Hin. pose proof (pred_of_neq r y x ND' Hi) as Hneq.
    set (p := pred_of y r x) in *.
    pose proof (SInv_posM _ _ _ _ I Hin). eqb_false p 0. eqb_false p mainHead. cbn [orb].
    eqb_false p x. rewrite (proj2 (holds_main s P (y :: r) _ I) Hin). reflexivity.
Qed.

(* ------------------------------------------------------------------ sieveQueue.remove *)
Definition q_remove_heap (h : heap) (it : Z) : heap :=
  let p := pprev (h it) in let n := pnext (h it) in
  w_q (w_next (w_prev (w_prev (w_next h p n) n p) it 0) it 0) it qNone.

Lemma q_remove_eq h q it :
  owns_tag h q it = true -> pprev (h it) <> 0 -> pnext (h it) <> 0 -> pprev (h it) <> it ->
  pnext (h (pprev (h it))) = it -> pprev (h (pnext (h it))) = it ->
  q_remove h q it = (q_remove_heap h it, q_size q (if 0 <? qsize q then qsize q - 1 else qsize q), true).
Proof.
  intros Ho Hp0 Hn0 Hpi Hnp Hpn. unfold q_remove, q_remove_heap. rewrite Ho, Hnp, Hpn.
  set (p := pprev (h it)) in *. set (n := pnext (h it)) in *.
  eqb_false p 0. eqb_false n 0. rewrite Z.eqb_refl. cbn [negb orb].
  autorewrite with heap. eqb_false it p. fold p n. reflexivity.
Qed.

Lemma q_remove_heap_fields h it x :
  let p := pprev (h it) in let n := pnext (h it) in let h' := q_remove_heap h it in
  pnext (h' x) = (if x =? it then 0 else if x =? p then n else pnext (h x)) /\
  pprev (h' x) = (if x =? it then 0 else if x =? n then p else pprev (h x)) /\
  pq (h' x) = (if x =? it then qNone else pq (h x)) /\
  pown (h' x) = pown (h x) /\ pvis (h' x) = pvis (h x) /\ preuse (h' x) = preuse (h x).
Proof. unfold q_remove_heap. cbv zeta. autorewrite with heap. repeat split; reflexivity. Qed.

Lemma q_remove_main_ok s P M it :
  SInv s P M -> In it M -> hand s <> it ->
  q_remove (hp s) (mainq s) it =
    (q_remove_heap (hp s) it, q_size (mainq s) (Z.of_nat (length (remz M it))), true) /\
  SInv (st_main (st_heap s (q_remove_heap (hp s) it))
                (q_size (mainq s) (Z.of_nat (length (remz M it))))) P (remz M it).
Proof.
  intros I Hi Hh. pose proof (SInv_posM _ _ _ _ I Hi) as Hpos.
  destruct (si_qM _ _ _ I) as (Eh & Et & Ei).
  pose proof (dll_mid _ _ _ _ it (si_M _ _ _ I) Hi) as DM. cbv zeta in DM.
  pose proof (q_remove_heap_fields (hp s) it) as F. cbv zeta in F.
  set (p := pprev (hp s it)) in *. set (n := pnext (hp s it)) in *.
  destruct DM as (Hp0 & Hn0 & Hpi & Hni & Hpn & Npi & Pni & HpM & HnM & Hpt & Hnh).
  destruct (si_tagM _ _ _ I it Hi) as (Tq & To).
  assert (NDM : NoDup M) by (apply (dll_NoDup _ _ _ _ (si_M _ _ _ I))).
  assert (Hsz : (if 0 <? qsize (mainq s) then qsize (mainq s) - 1 else qsize (mainq s)) = Z.of_nat (length (remz M it))).
  { rewrite (si_szM _ _ _ I), (remz_length _ _ Hi). destruct M; [destruct Hi|]. cbn [length].
    destruct (Z.ltb_spec 0 (Z.of_nat (S (length M)))); lia. }
  split.
  - rewrite <- Hsz. apply q_remove_eq; try assumption.
    unfold owns_tag. rewrite Tq, To, Ei, !Z.eqb_refl. eqb_false it 0. reflexivity.
  - assert (HpP : ~ In p (probHead :: P ++ [probTail])).
    { intros H. apply (SInv_sepPM s P M p I H). destruct HpM as [<-|HpM]; [left; reflexivity|].
      right. apply in_or_app. left; assumption. }
    assert (HnP : ~ In n (probHead :: P ++ [probTail])).
    { intros H. apply (SInv_sepPM s P M n I H). right; assumption. }
    assert (HiP : ~ In it (probHead :: P ++ [probTail])).
    { intros H. apply (SInv_sepPM s P M it I H). right. apply in_or_app. left; assumption. }
    constructor; cbn [hp prob mainq hand perr st_main st_heap].
    + eapply dll_frame; [|exact (si_P _ _ _ I)]. intros x Hx.
      assert (x <> it) by (intros ->; contradiction).
      assert (x <> n) by (intros ->; contradiction).
      assert (x <> p) by (intros ->; contradiction).
      destruct (F x) as (-> & -> & _). zeq. split; reflexivity.
    + apply (dll_unlink (hp s) _ mainHead mainTail M it (si_M _ _ _ I) Hi); fold p n.
      * destruct (F p) as (-> & _). zeq. reflexivity.
      * intros x H1 H2. destruct (F x) as (-> & _). zeq. reflexivity.
      * destruct (F n) as (_ & -> & _). zeq. reflexivity.
      * intros x H1 H2. destruct (F x) as (_ & -> & _). zeq. reflexivity.
    + pose proof (si_nd _ _ _ I) as ND. apply NoDup_app_inv in ND. destruct ND as (NP & NM & NX).
      apply NoDup_app_intro; [assumption | apply remz_NoDup; assumption |].
      intros x Hx Hx2. apply (NX x Hx). eapply remz_In; eassumption.
    + intros x Hx. apply (si_pos _ _ _ I). apply in_app_or in Hx. apply in_or_app.
      destruct Hx as [Hx|Hx]; [left; assumption | right; eapply remz_In; eassumption].
    + intros x Hx. destruct (F x) as (_ & _ & -> & -> & _).
      assert (x <> it) by (intros ->; exact (SInv_PM _ _ _ _ I Hx Hi)).
      zeq. apply (si_tagP _ _ _ I); assumption.
    + intros x Hx. destruct (F x) as (_ & _ & -> & -> & _).
      assert (x <> it) by (intros ->; exact (remz_NoDup_notin M it NDM Hx)).
      zeq. cbn [qowner q_size]. apply (si_tagM _ _ _ I). eapply remz_In; eassumption.
    + intros x Hx. destruct (F x) as (_ & _ & -> & _).
      destruct (Z.eqb_spec x it); [reflexivity|]. apply (si_none _ _ _ I).
      intros Hi2. apply Hx. apply in_app_or in Hi2. apply in_or_app.
      destruct Hi2 as [Hi2|Hi2]; [left; assumption | right; apply remz_In_other; assumption].
    + apply (si_szP _ _ _ I).
    + reflexivity.
    + apply (si_qP _ _ _ I).
    + cbn [qhd qtl qid q_size]. auto.
    + destruct (si_hand _ _ _ I) as [H|H]; [left; assumption | right; apply remz_In_other; assumption].
    + apply (si_err _ _ _ I).
Qed.

Lemma q_remove_prob_ok s P M it :
  SInv s P M -> In it P ->
  q_remove (hp s) (prob s) it =
    (q_remove_heap (hp s) it, q_size (prob s) (Z.of_nat (length (remz P it))), true) /\
  SInv (st_prob (st_heap s (q_remove_heap (hp s) it))
                (q_size (prob s) (Z.of_nat (length (remz P it))))) (remz P it) M.
Proof.
  intros I Hi. pose proof (SInv_posP _ _ _ _ I Hi) as Hpos.
  destruct (si_qP _ _ _ I) as (Eh & Et & Ei).
  pose proof (dll_mid _ _ _ _ it (si_P _ _ _ I) Hi) as DM. cbv zeta in DM.
  pose proof (q_remove_heap_fields (hp s) it) as F. cbv zeta in F.
  set (p := pprev (hp s it)) in *. set (n := pnext (hp s it)) in *.
  destruct DM as (Hp0 & Hn0 & Hpi & Hni & Hpn & Npi & Pni & HpM & HnM & Hpt & Hnh).
  destruct (si_tagP _ _ _ I it Hi) as (Tq & To).
  assert (NDP : NoDup P) by (apply (dll_NoDup _ _ _ _ (si_P _ _ _ I))).
  assert (Hsz : (if 0 <? qsize (prob s) then qsize (prob s) - 1 else qsize (prob s)) = Z.of_nat (length (remz P it))).
  { rewrite (si_szP _ _ _ I), (remz_length _ _ Hi). destruct P; [destruct Hi|]. cbn [length].
    destruct (Z.ltb_spec 0 (Z.of_nat (S (length P)))); lia. }
  split.
  - rewrite <- Hsz. apply q_remove_eq; try assumption.
    unfold owns_tag. rewrite Tq, To, Ei, !Z.eqb_refl. eqb_false it 0. reflexivity.
  - assert (HpP : ~ In p (mainHead :: M ++ [mainTail])).
    { intros H. apply (SInv_sepPM s P M p I); [|assumption]. destruct HpM as [<-|HpM]; [left; reflexivity|].
      right. apply in_or_app. left; assumption. }
    assert (HnP : ~ In n (mainHead :: M ++ [mainTail])).
    { intros H. apply (SInv_sepPM s P M n I); [|assumption]. right; assumption. }
    assert (HiP : ~ In it (mainHead :: M ++ [mainTail])).
    { intros H. apply (SInv_sepPM s P M it I); [|assumption]. right. apply in_or_app. left; assumption. }
    constructor; cbn [hp prob mainq hand perr st_prob st_heap].
    + apply (dll_unlink (hp s) _ probHead probTail P it (si_P _ _ _ I) Hi); fold p n.
      * destruct (F p) as (-> & _). zeq. reflexivity.
      * intros x H1 H2. destruct (F x) as (-> & _). zeq. reflexivity.
      * destruct (F n) as (_ & -> & _). zeq. reflexivity.
      * intros x H1 H2. destruct (F x) as (_ & -> & _). zeq. reflexivity.
    + eapply dll_frame; [|exact (si_M _ _ _ I)]. intros x Hx.
      assert (x <> it) by (intros ->; contradiction).
      assert (x <> n) by (intros ->; contradiction).
      assert (x <> p) by (intros ->; contradiction).
      destruct (F x) as (-> & -> & _). zeq. split; reflexivity.
    + pose proof (si_nd _ _ _ I) as ND. apply NoDup_app_inv in ND. destruct ND as (NP & NM & NX).
      apply NoDup_app_intro; [apply remz_NoDup; assumption | assumption |].
      intros x Hx Hx2. apply (NX x); [eapply remz_In; eassumption | assumption].
    + intros x Hx. apply (si_pos _ _ _ I). apply in_app_or in Hx. apply in_or_app.
      destruct Hx as [Hx|Hx]; [left; eapply remz_In; eassumption | right; assumption].
    + intros x Hx. destruct (F x) as (_ & _ & -> & -> & _).
      assert (x <> it) by (intros ->; exact (remz_NoDup_notin P it NDP Hx)).
      zeq. cbn [qowner q_size]. apply (si_tagP _ _ _ I). eapply remz_In; eassumption.
    + intros x Hx. destruct (F x) as (_ & _ & -> & -> & _).
      assert (x <> it) by (intros ->; exact (SInv_PM _ _ _ _ I Hi Hx)).
      zeq. apply (si_tagM _ _ _ I); assumption.
    + intros x Hx. destruct (F x) as (_ & _ & -> & _).
      destruct (Z.eqb_spec x it); [reflexivity|]. apply (si_none _ _ _ I).
      intros Hi2. apply Hx. apply in_app_or in Hi2. apply in_or_app.
      destruct Hi2 as [Hi2|Hi2]; [left; apply remz_In_other; assumption | right; assumption].
    + reflexivity.
    + apply (si_szM _ _ _ I).
    + cbn [qhd qtl qid q_size]. auto.
    + apply (si_qM _ _ _ I).
    + apply (si_hand _ _ _ I).
    + apply (si_err _ _ _ I).
Qed.

(* ------------------------------------------------------------------ B.6 sieve_remove *)
Theorem sieve_remove_main s P M it :
  SInv s P M -> In it M ->
  let s' := fst (sieve_remove s it) in
  snd (sieve_remove s it) = true /\ SInv s' P (remz M it) /\
  hand s' = (if hand s =? it then aprev M it else hand s) /\
  preuse (hp s' it) = 0 /\ pvis (hp s' it) = false /\ maincap s' = maincap s /\
  (forall x, x <> it -> pvis (hp s' x) = pvis (hp s x) /\ preuse (hp s' x) = preuse (hp s x)).
Proof.
  intros I Hi. pose proof (SInv_posM _ _ _ _ I Hi) as Hpos.
  destruct (si_tagM _ _ _ I it Hi) as (Tq & _).
  unfold sieve_remove. eqb_false it 0. rewrite Tq. change (qMain =? qMain) with true. cbv iota.
  set (s1 := if hand s =? it then st_hand s (prev_main_item s it) else s).
  assert (H1 : hp s1 = hp s /\ mainq s1 = mainq s /\ prob s1 = prob s /\ perr s1 = perr s /\
                maincap s1 = maincap s /\ hand s1 = (if hand s =? it then aprev M it else hand s)).
  { subst s1. destruct (hand s =? it); cbn [hp mainq prob perr maincap hand st_hand];
      rewrite ?(prev_main_item_spec s P M it I Hi); repeat split; reflexivity. }
  destruct H1 as (E1 & E2 & E3 & E4 & E5 & E6).
  assert (Hh1 : hand s1 <> it).
  { rewrite E6. destruct (Z.eqb_spec (hand s) it); [apply aprev_neq; lia | assumption]. }
  assert (I1 : SInv s1 P M).
  { apply (SInv_frame s s1 P M I); try assumption.
    - intros x. rewrite E1. auto.
    - rewrite E6. destruct (Z.eqb_spec (hand s) it); [apply aprev_in; assumption | apply (si_hand _ _ _ I)]. }
  destruct (q_remove_main_ok s1 P M it I1 Hi Hh1) as (QE & I2).
  rewrite QE. cbv iota beta. cbn [fst snd].
  set (s2 := st_main (st_heap s1 (q_remove_heap (hp s1) it)) (q_size (mainq s1) (Z.of_nat (length (remz M it))))) in *.
  split; [reflexivity|].
  pose proof (q_remove_heap_fields (hp s1) it) as F. cbv zeta in F.
  split; [|split; [|split; [|split; [|split]]]].
  - apply (SInv_frame s2 _ P (remz M it) I2); try reflexivity.
    + intros x. cbn [hp st_heap]. autorewrite with heap. auto.
    + apply (si_hand _ _ _ I2).
  - cbn [hand st_heap]. subst s2. cbn [hand st_main st_heap]. exact E6.
  - cbn [hp st_heap]. autorewrite with heap. zeq. reflexivity.
  - cbn [hp st_heap]. autorewrite with heap. zeq. reflexivity.
  - cbn [maincap st_heap]. subst s2. cbn [maincap st_main st_heap]. exact E5.
  - intros x Hx. cbn [hp st_heap]. autorewrite with heap. zeq. subst s2. cbn [hp st_main st_heap].
    destruct (F x) as (_ & _ & _ & _ & -> & ->). rewrite E1. split; reflexivity.
Qed.

Theorem sieve_remove_prob s P M it :
  SInv s P M -> In it P ->
  let s' := fst (sieve_remove s it) in
  snd (sieve_remove s it) = true /\ SInv s' (remz P it) M /\ hand s' = hand s /\
  preuse (hp s' it) = 0 /\ pvis (hp s' it) = false /\ maincap s' = maincap s /\
  (forall x, x <> it -> pvis (hp s' x) = pvis (hp s x) /\ preuse (hp s' x) = preuse (hp s x)).
Proof.
  intros I Hi. pose proof (SInv_posP _ _ _ _ I Hi) as Hpos.
  destruct (si_tagP _ _ _ I it Hi) as (Tq & _).
  unfold sieve_remove. eqb_false it 0. rewrite Tq. change (qProb =? qMain) with false.
  change (qProb =? qProb) with true. cbv iota.
  destruct (q_remove_prob_ok s P M it I Hi) as (QE & I2).
  rewrite QE. cbv iota beta. cbn [fst snd].
  set (s2 := st_prob (st_heap s (q_remove_heap (hp s) it)) (q_size (prob s) (Z.of_nat (length (remz P it))))) in *.
  split; [reflexivity|].
  pose proof (q_remove_heap_fields (hp s) it) as F. cbv zeta in F.
  split; [|split; [|split; [|split; [|split]]]].
  - apply (SInv_frame s2 _ (remz P it) M I2); try reflexivity.
    + intros x. cbn [hp st_heap]. autorewrite with heap. auto.
    + apply (si_hand _ _ _ I2).
  - reflexivity.
  - cbn [hp st_heap]. autorewrite with heap. zeq. reflexivity.
  - cbn [hp st_heap]. autorewrite with heap. zeq. reflexivity.
  - reflexivity.
  - intros x Hx. cbn [hp st_heap]. autorewrite with heap. zeq. subst s2. cbn [hp st_prob st_heap].
    destruct (F x) as (_ & _ & _ & _ & -> & ->). split; reflexivity.
Qed.

Theorem sieve_remove_absent s P M it :
  SInv s P M -> ~ In it (P ++ M) -> sieve_remove s it = (s, false).
Proof.
  intros I Hi. unfold sieve_remove. destruct (Z.eqb_spec it 0); [reflexivity|].
  rewrite (si_none _ _ _ I it Hi). change (qNone =? qMain) with false. change (qNone =? qProb) with false.
  cbv iota. destruct (Z.eqb_spec (hand s) it) as [E|E]; [|reflexivity].
  exfalso. destruct (si_hand _ _ _ I) as [H|H]; [congruence|].
  apply Hi. apply in_or_app. right. rewrite <- E. assumption.
Qed.

(* the hand rule is CacheModel's sieve_unlink rule: Some hk with hk = k becomes prev_main, i.e. aprev
   (None when it is 0); see prev_main_aprev below for the bridge. *)

(* ------------------------------------------------------------------ B.7 sieve_promote *)
Theorem sieve_promote_spec s P M it :
  SInv s P M -> In it P -> 0 < maincap s ->
  let s' := sieve_promote s it in
  SInv s' (remz P it) (it :: M) /\ hand s' = (if hand s =? 0 then it else hand s) /\
  preuse (hp s' it) = 1 /\ pvis (hp s' it) = true /\ maincap s' = maincap s /\
  (forall x, x <> it -> pvis (hp s' x) = pvis (hp s x) /\ preuse (hp s' x) = preuse (hp s x)).
Proof.
  intros I Hi Hcap. pose proof (SInv_posP _ _ _ _ I Hi) as Hpos.
  destruct (si_tagP _ _ _ I it Hi) as (Tq & _).
  unfold sieve_promote. eqb_false it 0. rewrite Tq. change (qProb =? qProb) with true.
  destruct (Z.leb_spec (maincap s) 0); [lia|]. cbn [negb orb].
  destruct (q_remove_prob_ok s P M it I Hi) as (QE & I2).
  rewrite QE. cbv iota beta.
  set (s2 := st_prob (st_heap s (q_remove_heap (hp s) it)) (q_size (prob s) (Z.of_nat (length (remz P it))))) in *.
  assert (NDP : NoDup P) by (apply (dll_NoDup _ _ _ _ (si_P _ _ _ I))).
  assert (Hfresh : ~ In it (remz P it ++ M)).
  { intros Hx. apply in_app_or in Hx. destruct Hx as [Hx|Hx].
    - exact (remz_NoDup_notin P it NDP Hx).
    - exact (SInv_PM _ _ _ _ I Hi Hx). }
  pose proof (sieve_insert_main_spec s2 (remz P it) M it I2 Hpos Hfresh) as R. cbv zeta in R.
  destruct R as (I3 & R1 & R2 & R3 & R4 & R5).
  pose proof (q_remove_heap_fields (hp s) it) as F. cbv zeta in F.
  repeat (split; [assumption|]).
  intros x Hx. destruct (R5 x Hx) as (-> & ->). subst s2. cbn [hp st_prob st_heap].
  destruct (F x) as (_ & _ & _ & _ & -> & ->). split; reflexivity.
Qed.

Theorem sieve_promote_noop s P M it :
  SInv s P M -> (maincap s <= 0 \/ ~ In it P) -> sieve_promote s it = s.
Proof.
  intros I H. unfold sieve_promote. destruct (Z.eqb_spec it 0); [reflexivity|].
  destruct H as [H|H].
  - destruct (Z.leb_spec (maincap s) 0); [|lia]. rewrite orb_true_r. reflexivity.
  - assert (Hq : pq (hp s it) <> qProb).
    { destruct (in_dec Z.eq_dec it M) as [HM|HM].
      - destruct (si_tagM _ _ _ I it HM) as (-> & _). discriminate.
      - rewrite (si_none _ _ _ I it); [discriminate|]. intros Hi. apply in_app_or in Hi. tauto. }
    destruct (Z.eqb_spec (pq (hp s it)) qProb); [contradiction|]. reflexivity.
Qed.

(* ------------------------------------------------------------------ B.9 mainCandidate, B.11 probation tail *)
Theorem main_cand_spec s P M c :
  SInv s P M ->
  main_cand s c = if in_dec Z.eq_dec c M then Some c
                  else match rev M with [] => None | x :: _ => Some x end.
Proof.
  intros I. destruct (si_qM _ _ _ I) as (Eh & Et & Ei). unfold main_cand, is_sentinel.
  destruct (in_dec Z.eq_dec c M) as [Hi|Hi].
  - rewrite (proj2 (holds_main s P M c I) Hi). pose proof (SInv_posM _ _ _ _ I Hi).
    rewrite Eh, Et. eqb_false c mainHead. eqb_false c mainTail. reflexivity.
  - rewrite (holds_main_false s P M c I Hi). rewrite Eh, Et.
    rewrite (dll_tail_prev _ _ _ _ (si_M _ _ _ I)).
    destruct (rev M) as [|x r] eqn:E.
    + rewrite Z.eqb_refl. reflexivity.
    + assert (Hx : In x M) by (apply in_rev; rewrite E; left; reflexivity).
      pose proof (SInv_posM _ _ _ _ I Hx). eqb_false x mainHead. eqb_false x mainTail. reflexivity.
Qed.

Lemma main_cand_in s P M c x : SInv s P M -> main_cand s c = Some x -> In x M.
Proof.
  intros I. rewrite (main_cand_spec s P M c I). destruct (in_dec Z.eq_dec c M) as [Hi|Hi].
  - intros [= <-]. assumption.
  - destruct (rev M) as [|y r] eqn:E; [discriminate|]. intros [= <-].
    apply in_rev. rewrite E. left; reflexivity.
Qed.
Lemma main_cand_none s P M c : SInv s P M -> main_cand s c = None -> M = [].
Proof.
  intros I. rewrite (main_cand_spec s P M c I). destruct (in_dec Z.eq_dec c M) as [Hi|Hi]; [discriminate|].
  destruct (rev M) as [|y r] eqn:E; [|discriminate]. intros _.
  apply (f_equal (@rev Z)) in E. rewrite rev_involutive in E. exact E.
Qed.

Theorem prob_tail_spec s P M :
  SInv s P M -> prob_tail s = match rev P with [] => 0 | x :: _ => x end.
Proof.
  intros I. destruct (si_qP _ _ _ I) as (Eh & Et & Ei). unfold prob_tail.
  rewrite (si_szP _ _ _ I), Et, (dll_tail_prev _ _ _ _ (si_P _ _ _ I)).
  destruct (rev P) as [|x r] eqn:E.
  - apply (f_equal (@rev Z)) in E. rewrite rev_involutive in E. subst P. reflexivity.
  - assert (Hx : In x P) by (apply in_rev; rewrite E; left; reflexivity).
    assert (length P <> O) by (destruct P; [destruct Hx | discriminate]).
    destruct (Z.eqb_spec (Z.of_nat (length P)) 0); [lia|].
    rewrite (proj2 (holds_prob s P M x I) Hx). reflexivity.
Qed.

(* ------------------------------------------------------------------ B.8 replaceNode *)
Definition replace_heap (h : heap) (old new : Z) : heap :=
  let p := pprev (h old) in let n := pnext (h old) in
  let h5 := w_next (w_prev (w_reuse (w_own (w_q h new (pq (h old))) new (pown (h old))) new (preuse (h old))) new p) new n in
  let h7 := w_prev (w_next h5 p new) n new in
  let h8 := if pvis (h old) then w_vis h7 new true else h7 in
  w_q (w_next (w_prev h8 old 0) old 0) old qNone.

Lemma sieve_replace_hp s old new :
  old <> new -> pprev (hp s old) <> 0 -> pnext (hp s old) <> 0 -> pprev (hp s old) <> old ->
  hp (sieve_replace s old new) = replace_heap (hp s) old new.
Proof.
  intros H1 H2 H3 H4. unfold sieve_replace, replace_heap. cbn [hp st_heap deref st_err].
  set (p := pprev (hp s old)) in *. set (n := pnext (hp s old)) in *.
  autorewrite with heap. fold p n. zeq.
  autorewrite with heap. fold p n. zeq.
  autorewrite with heap. fold p n. zeq. reflexivity.
Qed.

Lemma sieve_replace_rest s old new :
  let s' := sieve_replace s old new in
  prob s' = prob s /\ mainq s' = mainq s /\ hand s' = (if hand s =? old then new else hand s) /\
  maincap s' = maincap s /\ perr s' = perr s || (old =? 0) || (new =? 0).
Proof.
  unfold sieve_replace. cbv zeta.
  destruct (hand s =? old); cbn [prob mainq hand maincap perr st_heap st_hand deref st_err];
    repeat split; reflexivity.
Qed.

Lemma replace_heap_fields h old new x :
  let p := pprev (h old) in let n := pnext (h old) in let h' := replace_heap h old new in
  pnext (h' x) = (if x =? old then 0 else if x =? p then new else if x =? new then n else pnext (h x)) /\
  pprev (h' x) = (if x =? old then 0 else if x =? n then new else if x =? new then p else pprev (h x)) /\
  pq (h' x) = (if x =? old then qNone else if x =? new then pq (h old) else pq (h x)) /\
  pown (h' x) = (if x =? new then pown (h old) else pown (h x)) /\
  pvis (h' x) = (if x =? new then pvis (h old) || pvis (h new) else pvis (h x)) /\
  preuse (h' x) = (if x =? new then preuse (h old) else preuse (h x)).
Proof.
  unfold replace_heap. cbv zeta. destruct (pvis (h old)); autorewrite with heap;
    repeat split; try reflexivity.
  cbn [orb]. destruct (Z.eqb_spec x new); [subst; reflexivity | reflexivity].
Qed.

Theorem sieve_replace_spec s P M old new :
  SInv s P M -> In old (P ++ M) -> 0 < new -> ~ In new (P ++ M) ->
  let s' := sieve_replace s old new in
  SInv s' (subst_ptr P old new) (subst_ptr M old new) /\
  hand s' = (if hand s =? old then new else hand s) /\
  preuse (hp s' new) = preuse (hp s old) /\
  pvis (hp s' new) = pvis (hp s old) || pvis (hp s new) /\
  pq (hp s' old) = qNone /\ pprev (hp s' old) = 0 /\ pnext (hp s' old) = 0 /\
  maincap s' = maincap s /\
  (forall x, x <> new -> pvis (hp s' x) = pvis (hp s x) /\ preuse (hp s' x) = preuse (hp s x)).
Proof.
  intros I Hold Hpos Hnew s'.
  assert (Hon : old <> new) by (intros ->; contradiction).
  assert (Hopos : 0 < old) by (apply (si_pos _ _ _ I); assumption).
  destruct (sieve_replace_rest s old new) as (R1 & R2 & R3 & R4 & R5).
  fold s' in R1, R2, R3, R4, R5.
  pose proof (replace_heap_fields (hp s) old new) as F. cbv zeta in F.
  assert (HnewP : ~ In new (probHead :: P ++ [probTail])).
  { intros H. apply in_ext_cases in H. destruct H as [H|[H|H]]; [consts; lia | | consts; lia].
    apply Hnew. apply in_or_app. left; assumption. }
  assert (HnewM : ~ In new (mainHead :: M ++ [mainTail])).
  { intros H. apply in_ext_cases in H. destruct H as [H|[H|H]]; [consts; lia | | consts; lia].
    apply Hnew. apply in_or_app. right; assumption. }
  pose proof (si_nd _ _ _ I) as ND. apply NoDup_app_inv in ND. destruct ND as (NP & NM & NX).
  apply in_app_or in Hold. destruct Hold as [Hi|Hi].
  - (* old in probation *)
    pose proof (dll_mid _ _ _ _ old (si_P _ _ _ I) Hi) as DM. cbv zeta in DM.
    set (p := pprev (hp s old)) in *. set (n := pnext (hp s old)) in *.
    destruct DM as (Hp0 & Hn0 & Hpi & Hni & Hpn & Npi & Pni & HpL & HnL & Hpt & Hnh).
    assert (HH : hp s' = replace_heap (hp s) old new) by (apply sieve_replace_hp; assumption).
    assert (HoM : ~ In old M) by (intros H; exact (NX old Hi H)).
    assert (Hpnew : p <> new) by (intros E; apply HnewP; rewrite <- E; destruct HpL as [<-|HpL]; [left; reflexivity | right; apply in_or_app; left; assumption]).
    assert (Hnnew : n <> new) by (intros E; apply HnewP; rewrite <- E; right; assumption).
    assert (HpM : ~ In p (mainHead :: M ++ [mainTail])).
    { intros H. apply (SInv_sepPM s P M p I); [|assumption]. destruct HpL as [<-|HpL]; [left; reflexivity|].
      right. apply in_or_app. left; assumption. }
    assert (HnM : ~ In n (mainHead :: M ++ [mainTail])).
    { intros H. apply (SInv_sepPM s P M n I); [|assumption]. right; assumption. }
    assert (HoM' : ~ In old (mainHead :: M ++ [mainTail])).
    { intros H. apply (SInv_sepPM s P M old I); [|assumption]. right. apply in_or_app. left; assumption. }
    rewrite (subst_ptr_notin M old new HoM).
    destruct (si_tagP _ _ _ I old Hi) as (Tq & To).
    split; [|split; [|split; [|split; [|split; [|split; [|split; [|split]]]]]]].
    + constructor; rewrite ?HH.
      * apply (dll_replace (hp s) _ probHead probTail P old new (si_P _ _ _ I) Hi HnewP); fold p n; try lia.
        -- destruct (F p) as (-> & _). zeq. reflexivity.
        -- destruct (F new) as (-> & _). zeq. reflexivity.
        -- intros x H1 H2 H3. destruct (F x) as (-> & _). zeq. reflexivity.
        -- destruct (F new) as (_ & -> & _). zeq. reflexivity.
        -- destruct (F n) as (_ & -> & _). zeq. reflexivity.
        -- intros x H1 H2 H3. destruct (F x) as (_ & -> & _). zeq. reflexivity.
      * eapply dll_frame; [|exact (si_M _ _ _ I)]. intros x Hx.
        assert (x <> old) by (intros ->; contradiction).
        assert (x <> new) by (intros ->; contradiction).
        assert (x <> n) by (intros ->; contradiction).
        assert (x <> p) by (intros ->; contradiction).
        destruct (F x) as (-> & -> & _). zeq. split; reflexivity.
      * apply NoDup_app_intro; [apply subst_ptr_NoDup; [assumption|] | assumption |].
        -- intros H. apply Hnew. apply in_or_app. left; assumption.
        -- intros x Hx Hx2. apply subst_ptr_In in Hx. destruct Hx as [->|(Hx & _)].
           ++ apply Hnew. apply in_or_app. right; assumption.
           ++ exact (NX x Hx Hx2).
      * intros x Hx. apply in_app_or in Hx. destruct Hx as [Hx|Hx].
        -- apply subst_ptr_In in Hx. destruct Hx as [->|(Hx & _)]; [assumption|].
           apply (si_pos _ _ _ I). apply in_or_app. left; assumption.
        -- apply (si_pos _ _ _ I). apply in_or_app. right; assumption.
      * intros x Hx. destruct (F x) as (_ & _ & -> & -> & _). rewrite R1.
        apply subst_ptr_In in Hx. destruct Hx as [->|(Hx & Hx2)].
        -- zeq. split; assumption.
        -- specialize (Hx2 NP). assert (x <> new) by (intros ->; apply Hnew; apply in_or_app; left; assumption).
           zeq. apply (si_tagP _ _ _ I); assumption.
      * intros x Hx. destruct (F x) as (_ & _ & -> & -> & _). rewrite R2.
        assert (x <> old) by (intros ->; contradiction).
        assert (x <> new) by (intros ->; apply Hnew; apply in_or_app; right; assumption).
        zeq. apply (si_tagM _ _ _ I); assumption.
      * intros x Hx. destruct (F x) as (_ & _ & -> & _).
        destruct (Z.eqb_spec x old); [reflexivity|].
        assert (x <> new).
        { intros ->. apply Hx. apply in_or_app. left. apply subst_ptr_In_new; assumption. }
        zeq. apply (si_none _ _ _ I). intros H2. apply Hx. apply in_app_or in H2. apply in_or_app.
        destruct H2 as [H2|H2]; [left; apply subst_ptr_In_other; assumption | right; assumption].
      * rewrite R1, subst_ptr_length. apply (si_szP _ _ _ I).
      * rewrite R2. apply (si_szM _ _ _ I).
      * rewrite R1. apply (si_qP _ _ _ I).
      * rewrite R2. apply (si_qM _ _ _ I).
      * rewrite R3. destruct (Z.eqb_spec (hand s) old) as [E|E]; [|apply (si_hand _ _ _ I)].
        exfalso. destruct (si_hand _ _ _ I) as [H|H]; [lia|]. rewrite E in H. contradiction.
      * rewrite R5, (si_err _ _ _ I). zeq. reflexivity.
    + assumption.
    + rewrite HH. destruct (F new) as (_ & _ & _ & _ & _ & ->). zeq. reflexivity.
    + rewrite HH. destruct (F new) as (_ & _ & _ & _ & -> & _). zeq. reflexivity.
    + rewrite HH. destruct (F old) as (_ & _ & -> & _). zeq. reflexivity.
    + rewrite HH. destruct (F old) as (_ & -> & _). zeq. reflexivity.
    + rewrite HH. destruct (F old) as (-> & _). zeq. reflexivity.
    + assumption.
    + intros x Hx. rewrite HH. destruct (F x) as (_ & _ & _ & _ & -> & ->). zeq. split; reflexivity.
  - (* old in main *)
    pose proof (dll_mid _ _ _ _ old (si_M _ _ _ I) Hi) as DM. cbv zeta in DM.
    set (p := pprev (hp s old)) in *. set (n := pnext (hp s old)) in *.
    destruct DM as (Hp0 & Hn0 & Hpi & Hni & Hpn & Npi & Pni & HpL & HnL & Hpt & Hnh).
    assert (HH : hp s' = replace_heap (hp s) old new) by (apply sieve_replace_hp; assumption).
    assert (HoP : ~ In old P) by (intros H; exact (NX old H Hi)).
    assert (Hpnew : p <> new) by (intros E; apply HnewM; rewrite <- E; destruct HpL as [<-|HpL]; [left; reflexivity | right; apply in_or_app; left; assumption]).
    assert (Hnnew : n <> new) by (intros E; apply HnewM; rewrite <- E; right; assumption).
    assert (HpP : ~ In p (probHead :: P ++ [probTail])).
    { intros H. apply (SInv_sepPM s P M p I H). destruct HpL as [<-|HpL]; [left; reflexivity|].
      right. apply in_or_app. left; assumption. }
    assert (HnP : ~ In n (probHead :: P ++ [probTail])).
    { intros H. apply (SInv_sepPM s P M n I H). right; assumption. }
    assert (HoP' : ~ In old (probHead :: P ++ [probTail])).
    { intros H. apply (SInv_sepPM s P M old I H). right. apply in_or_app. left; assumption. }
    rewrite (subst_ptr_notin P old new HoP).
    destruct (si_tagM _ _ _ I old Hi) as (Tq & To).
    split; [|split; [|split; [|split; [|split; [|split; [|split; [|split]]]]]]].
    + constructor; rewrite ?HH.
      * eapply dll_frame; [|exact (si_P _ _ _ I)]. intros x Hx.
        assert (x <> old) by (intros ->; contradiction).
        assert (x <> new) by (intros ->; contradiction).
        assert (x <> n) by (intros ->; contradiction).
        assert (x <> p) by (intros ->; contradiction).
        destruct (F x) as (-> & -> & _). zeq. split; reflexivity.
      * apply (dll_replace (hp s) _ mainHead mainTail M old new (si_M _ _ _ I) Hi HnewM); fold p n; try lia.
        -- destruct (F p) as (-> & _). zeq. reflexivity.
        -- destruct (F new) as (-> & _). zeq. reflexivity.
        -- intros x H1 H2 H3. destruct (F x) as (-> & _). zeq. reflexivity.
        -- destruct (F new) as (_ & -> & _). zeq. reflexivity.
        -- destruct (F n) as (_ & -> & _). zeq. reflexivity.
        -- intros x H1 H2 H3. destruct (F x) as (_ & -> & _). zeq. reflexivity.
      * apply NoDup_app_intro; [assumption | apply subst_ptr_NoDup; [assumption|] |].
        -- intros H. apply Hnew. apply in_or_app. right; assumption.
        -- intros x Hx Hx2. apply subst_ptr_In in Hx2. destruct Hx2 as [->|(Hx2 & _)].
           ++ apply Hnew. apply in_or_app. left; assumption.
           ++ exact (NX x Hx Hx2).
      * intros x Hx. apply in_app_or in Hx. destruct Hx as [Hx|Hx].
        -- apply (si_pos _ _ _ I). apply in_or_app. left; assumption.
        -- apply subst_ptr_In in Hx. destruct Hx as [->|(Hx & _)]; [assumption|].
           apply (si_pos _ _ _ I). apply in_or_app. right; assumption.
      * intros x Hx. destruct (F x) as (_ & _ & -> & -> & _). rewrite R1.
        assert (x <> old) by (intros ->; contradiction).
        assert (x <> new) by (intros ->; apply Hnew; apply in_or_app; left; assumption).
        zeq. apply (si_tagP _ _ _ I); assumption.
      * intros x Hx. destruct (F x) as (_ & _ & -> & -> & _). rewrite R2.
        apply subst_ptr_In in Hx. destruct Hx as [->|(Hx & Hx2)].
        -- zeq. split; assumption.
        -- specialize (Hx2 NM). assert (x <> new) by (intros ->; apply Hnew; apply in_or_app; right; assumption).
           zeq. apply (si_tagM _ _ _ I); assumption.
      * intros x Hx. destruct (F x) as (_ & _ & -> & _).
        destruct (Z.eqb_spec x old); [reflexivity|].
        assert (x <> new).
        { intros ->. apply Hx. apply in_or_app. right. apply subst_ptr_In_new; assumption. }
        zeq. apply (si_none _ _ _ I). intros H2. apply Hx. apply in_app_or in H2. apply in_or_app.
        destruct H2 as [H2|H2]; [left; assumption | right; apply subst_ptr_In_other; assumption].
      * rewrite R1. apply (si_szP _ _ _ I).
      * rewrite R2, subst_ptr_length. apply (si_szM _ _ _ I).
      * rewrite R1. apply (si_qP _ _ _ I).
      * rewrite R2. apply (si_qM _ _ _ I).
      * rewrite R3. destruct (Z.eqb_spec (hand s) old) as [E|E].
        -- right. apply subst_ptr_In_new; assumption.
        -- destruct (si_hand _ _ _ I) as [H|H]; [left; assumption | right; apply subst_ptr_In_other; assumption].
      * rewrite R5, (si_err _ _ _ I). zeq. reflexivity.
    + assumption.
    + rewrite HH. destruct (F new) as (_ & _ & _ & _ & _ & ->). zeq. reflexivity.
    + rewrite HH. destruct (F new) as (_ & _ & _ & _ & -> & _). zeq. reflexivity.
    + rewrite HH. destruct (F old) as (_ & _ & -> & _). zeq. reflexivity.
    + rewrite HH. destruct (F old) as (_ & -> & _). zeq. reflexivity.
    + rewrite HH. destruct (F old) as (-> & _). zeq. reflexivity.
    + assumption.
    + intros x Hx. rewrite HH. destruct (F x) as (_ & _ & _ & _ & -> & ->). zeq. split; reflexivity.
Qed.

(* "the other list is unchanged" *)
Corollary sieve_replace_prob s P M old new :
  SInv s P M -> In old P -> 0 < new -> ~ In new (P ++ M) ->
  SInv (sieve_replace s old new) (subst_ptr P old new) M /\ hand (sieve_replace s old new) = hand s.
Proof.
  intros I Hi Hp Hn.
  destruct (sieve_replace_spec s P M old new I (in_or_app _ _ _ (or_introl Hi)) Hp Hn) as (I' & Hh & _).
  assert (HoM : ~ In old M) by (intros H; exact (SInv_PM _ _ _ _ I Hi H)).
  rewrite (subst_ptr_notin M old new HoM) in I'. split; [assumption|]. rewrite Hh.
  destruct (Z.eqb_spec (hand s) old) as [E|E]; [|reflexivity].
  exfalso. destruct (si_hand _ _ _ I) as [H|H]; [|rewrite E in H; contradiction].
  pose proof (SInv_posP _ _ _ _ I Hi). lia.
Qed.
Corollary sieve_replace_main s P M old new :
  SInv s P M -> In old M -> 0 < new -> ~ In new (P ++ M) ->
  SInv (sieve_replace s old new) P (subst_ptr M old new) /\
  hand (sieve_replace s old new) = (if hand s =? old then new else hand s).
Proof.
  intros I Hi Hp Hn.
  destruct (sieve_replace_spec s P M old new I (in_or_app _ _ _ (or_intror Hi)) Hp Hn) as (I' & Hh & _).
  assert (HoP : ~ In old P) by (intros H; exact (SInv_PM _ _ _ _ I H Hi)).
  rewrite (subst_ptr_notin P old new HoP) in I'. split; assumption.
Qed.

(* ------------------------------------------------------------------ B.10 findMainVictim *)
(* the abstraction of main the scan works on: (pointer, visited, reuse), head first *)
Definition ent := (Z * bool * Z)%type.
Definition eptr (e : ent) : Z := fst (fst e).
Definition absM (h : heap) (M : list Z) : list ent := map (fun x => (x, pvis (h x), preuse (h x))) M.

Fixpoint afind_item (L : list ent) (k : Z) : option ent :=
  match L with [] => None | e :: r => if eptr e =? k then Some e else afind_item r k end.
Definition alast (L : list ent) : option ent := match rev L with [] => None | x :: _ => Some x end.
Definition acand (L : list ent) (c : Z) : option ent :=
  match afind_item L c with Some e => Some e | None => alast L end.
Fixpoint areplace (L : list ent) (n : ent) : list ent :=
  match L with [] => [] | e :: r => if eptr e =? eptr n then n :: r else e :: areplace r n end.

(* mirror of CacheModel.find_victim: (list, hand, cursor) -> (list, hand, victim); 0 = none *)
Fixpoint afind (n : nat) (L : list ent) (hnd c : Z) (force : bool) : list ent * Z * Z :=
  match n with
  | O =>
    if force then
      match acand L c with
      | Some e => (L, aprev (map eptr L) (eptr e), eptr e)
      | None => (L, hnd, 0)
      end
    else (L, c, 0)
  | S n' =>
    match acand L c with
    | None => (L, hnd, 0)
    | Some (x, v, r) =>
      if v then
        let L' := areplace L (x, false, if 0 <? r then r - 1 else r) in
        afind n' L' hnd (aprev (map eptr L') x) force
      else (L, aprev (map eptr L) x, x)
    end
  end.
Definition afind_main (L : list ent) (hnd scan : Z) (force : bool) : list ent * Z * Z :=
  match L with
  | [] => (L, hnd, 0)
  | _ => afind (Z.to_nat (if scan <=? 0 then 1 else scan)) L hnd hnd force
  end.

Lemma absM_ptrs h M : map eptr (absM h M) = M.
Proof. unfold absM. rewrite map_map. cbn [eptr fst]. apply map_id. Qed.
Lemma absM_ext h h' M :
  (forall y, In y M -> pvis (h' y) = pvis (h y) /\ preuse (h' y) = preuse (h y)) -> absM h' M = absM h M.
Proof.
  intros H. unfold absM. apply map_ext_in. intros y Hy. destruct (H y Hy) as (-> & ->). reflexivity.
Qed.
Lemma afind_item_in h M c : In c M -> afind_item (absM h M) c = Some (c, pvis (h c), preuse (h c)).
Proof.
  induction M as [|y M IH]; [intros []|]. cbn [absM map afind_item eptr fst].
  destruct (Z.eqb_spec y c); [subst; reflexivity|]. intros [H|H]; [contradiction | apply IH; assumption].
Qed.
Lemma afind_item_notin h M c : ~ In c M -> afind_item (absM h M) c = None.
Proof.
  induction M as [|y M IH]; [reflexivity|]. cbn [absM map afind_item eptr fst In]. intros H.
  destruct (Z.eqb_spec y c); [tauto|]. apply IH. tauto.
Qed.
Lemma alast_abs h M :
  alast (absM h M) = match rev M with [] => None | x :: _ => Some (x, pvis (h x), preuse (h x)) end.
Proof. unfold alast, absM. rewrite <- map_rev. destruct (rev M); reflexivity. Qed.

Lemma acand_abs s P M c : SInv s P M ->
  acand (absM (hp s) M) c =
  match main_cand s c with Some x => Some (x, pvis (hp s x), preuse (hp s x)) | None => None end.
Proof.
  intros I. rewrite (main_cand_spec s P M c I). unfold acand.
  destruct (in_dec Z.eq_dec c M) as [Hi|Hi].
  - rewrite afind_item_in by assumption. reflexivity.
  - rewrite afind_item_notin by assumption. rewrite alast_abs. destruct (rev M); reflexivity.
Qed.

Lemma areplace_abs h h' M x : NoDup M -> In x M ->
  (forall y, y <> x -> pvis (h' y) = pvis (h y) /\ preuse (h' y) = preuse (h y)) ->
  absM h' M = areplace (absM h M) (x, pvis (h' x), preuse (h' x)).
Proof.
  intros ND Hi H. induction M as [|y M IH]; [destruct Hi|].
  rewrite NoDup_cons_iff in ND. destruct ND as (ND1 & ND2).
  cbn [absM map areplace eptr fst]. fold (absM h' M). fold (absM h M).
  destruct (Z.eqb_spec y x) as [->|Hne].
  - f_equal. apply absM_ext. intros z Hz. apply H. intros ->. contradiction.
  - destruct Hi as [Hi|Hi]; [contradiction|]. destruct (H y Hne) as (-> & ->). f_equal. apply IH; assumption.
Qed.

Lemma find_victim_p_refines n : forall s c force P M,
  SInv s P M -> (c = 0 \/ In c M) ->
  exists s' v, find_victim_p n s c force = (s', v) /\
    afind n (absM (hp s) M) (hand s) c force = (absM (hp s') M, hand s', v) /\
    SInv s' P M /\ maincap s' = maincap s /\
    (forall x, ~ In x M -> hp s' x = hp s x) /\
    (v = 0 \/ (In v M /\ (force = false -> pvis (hp s' v) = false))) /\
    (M = [] -> v = 0) /\ (force = true -> M <> [] -> In v M).
Proof.
  induction n as [|n IH]; intros s c force P M I Hc.
  - cbn [find_victim_p afind]. destruct force.
    + rewrite (acand_abs s P M c I). destruct (main_cand s c) as [x|] eqn:E.
      * pose proof (main_cand_in s P M c x I E) as Hx.
        exists (st_hand s (prev_main_item s x)), x. split; [reflexivity|].
        cbn [eptr fst hp hand st_hand maincap]. rewrite absM_ptrs, (prev_main_item_spec s P M x I Hx).
        split; [reflexivity|]. split.
        { apply (SInv_frame s _ P M I); try reflexivity; [intros y; auto|].
          cbn [hand st_hand]. apply aprev_in; assumption. }
        split; [reflexivity|]. split; [reflexivity|]. split; [right; split; [assumption | discriminate]|].
        split; [intros ->; destruct Hx | intros _ _; assumption].
      * exists s, 0. split; [reflexivity|]. split; [reflexivity|]. split; [assumption|].
        split; [reflexivity|]. split; [reflexivity|]. split; [left; reflexivity|].
        split; [reflexivity|]. intros _ Hne. exfalso. apply Hne. exact (main_cand_none s P M c I E).
    + exists (st_hand s c), 0. split; [reflexivity|]. cbn [hp hand st_hand maincap].
      split; [reflexivity|]. split.
      { apply (SInv_frame s _ P M I); try reflexivity; [intros y; auto | exact Hc]. }
      split; [reflexivity|]. split; [reflexivity|]. split; [left; reflexivity|].
      split; [reflexivity | discriminate].
  - cbn [find_victim_p afind]. rewrite (acand_abs s P M c I). destruct (main_cand s c) as [x|] eqn:E.
    + pose proof (main_cand_in s P M c x I E) as Hx. pose proof (SInv_posM _ _ _ _ I Hx) as Hpos.
      eqb_false x 0. cbn [negb andb]. destruct (pvis (hp s x)) eqn:Ev.
      * (* visited: clear the bit, age, move on *)
        set (h1 := w_vis (hp s) x false).
        assert (Er : preuse (h1 x) = preuse (hp s x)) by (subst h1; autorewrite with heap; reflexivity).
        rewrite Er.
        set (h2 := if 0 <? preuse (hp s x) then w_reuse h1 x (preuse (hp s x) - 1) else h1).
        set (s1 := st_heap s h2).
        assert (F : forall y, pprev (h2 y) = pprev (hp s y) /\ pnext (h2 y) = pnext (hp s y) /\
                               pq (h2 y) = pq (hp s y) /\ pown (h2 y) = pown (hp s y)).
        { intros y. subst h2 h1. destruct (0 <? preuse (hp s x)); autorewrite with heap; auto. }
        assert (Fv : pvis (h2 x) = false /\
                     preuse (h2 x) = (if 0 <? preuse (hp s x) then preuse (hp s x) - 1 else preuse (hp s x))).
        { subst h2 h1. destruct (0 <? preuse (hp s x)); autorewrite with heap; rewrite !Z.eqb_refl; auto. }
        assert (Fo : forall y, y <> x -> h2 y = hp s y).
        { intros y Hy. subst h2 h1. destruct (0 <? preuse (hp s x));
            rewrite ?w_reuse_other, w_vis_other by assumption; reflexivity. }
        assert (I1 : SInv s1 P M).
        { apply (SInv_frame s s1 P M I); try reflexivity; [exact F | apply (si_hand _ _ _ I)]. }
        assert (NDM : NoDup M) by (apply (dll_NoDup _ _ _ _ (si_M _ _ _ I))).
        assert (EA : absM (hp s1) M =
                     areplace (absM (hp s) M) (x, false, if 0 <? preuse (hp s x) then preuse (hp s x) - 1 else preuse (hp s x))).
        { destruct Fv as (Fv1 & Fv2). rewrite <- Fv1, <- Fv2. apply areplace_abs; try assumption.
          intros y Hy. cbn [hp s1 st_heap]. rewrite (Fo y Hy). auto. }
        rewrite <- EA, absM_ptrs, (prev_main_item_spec s1 P M x I1 Hx).
        destruct (IH s1 (aprev M x) force P M I1 (aprev_in M x Hx))
          as (s' & v & E1 & E2 & I' & Ec & Ef & Ev1 & Ev2 & Ev3).
        exists s', v. split; [exact E1|]. split; [exact E2|]. split; [assumption|].
        split; [exact Ec|]. split; [|split; [assumption | split; assumption]].
        intros y Hy. rewrite (Ef y Hy). apply Fo. intros ->. contradiction.
      * exists (st_hand s (prev_main_item s x)), x. split; [reflexivity|].
        cbn [hp hand st_hand maincap]. rewrite absM_ptrs, (prev_main_item_spec s P M x I Hx).
        split; [reflexivity|]. split.
        { apply (SInv_frame s _ P M I); try reflexivity; [intros y; auto|].
          cbn [hand st_hand]. apply aprev_in; assumption. }
        split; [reflexivity|]. split; [reflexivity|]. split; [right; split; [assumption | intros _; exact Ev]|].
        split; [intros ->; destruct Hx | intros _ _; assumption].
    + exists s, 0. split; [reflexivity|]. split; [reflexivity|]. split; [assumption|].
      split; [reflexivity|]. split; [reflexivity|]. split; [left; reflexivity|].
      split; [reflexivity|]. intros _ Hne. exfalso. apply Hne. exact (main_cand_none s P M c I E).
Qed.

Theorem find_main_victim_p_spec s P M scan force :
  SInv s P M ->
  exists s' v, find_main_victim_p s scan force = (s', v) /\
    afind_main (absM (hp s) M) (hand s) scan force = (absM (hp s') M, hand s', v) /\
    SInv s' P M /\ maincap s' = maincap s /\
    (forall x, ~ In x M -> hp s' x = hp s x) /\
    (v = 0 \/ (In v M /\ (force = false -> pvis (hp s' v) = false))) /\
    (M = [] -> v = 0) /\ (force = true -> M <> [] -> In v M).
Proof.
  intros I. unfold find_main_victim_p, afind_main. rewrite (si_szM _ _ _ I).
  destruct M as [|m M].
  - exists s, 0. cbn [length absM map]. split; [reflexivity|]. split; [reflexivity|]. split; [assumption|].
    split; [reflexivity|]. split; [reflexivity|]. split; [left; reflexivity|]. split; [reflexivity|].
    intros _ H. congruence.
  - destruct (Z.eqb_spec (Z.of_nat (length (m :: M))) 0) as [E|E]; [cbn [length] in E; lia|].
    exact (find_victim_p_refines _ s (hand s) force P (m :: M) I (si_hand _ _ _ I)).
Qed.

(* ------------------------------------------------------------------ B.1 sieve_init (reset) *)
Lemma sieve_init_fields s x :
  qhd (prob s) = probHead -> qtl (prob s) = probTail ->
  qhd (mainq s) = mainHead -> qtl (mainq s) = mainTail ->
  let h' := hp (sieve_init s) in
  pnext (h' x) = (if x =? mainTail then 0 else if x =? mainHead then mainTail else
                  if x =? probTail then 0 else if x =? probHead then probTail else pnext (hp s x)) /\
  pprev (h' x) = (if x =? mainTail then mainHead else if x =? mainHead then 0 else
                  if x =? probTail then probHead else if x =? probHead then 0 else pprev (hp s x)) /\
  pq (h' x) = (if x =? mainTail then qNone else if x =? mainHead then qNone else
               if x =? probTail then qNone else if x =? probHead then qNone else pq (hp s x)) /\
  pown (h' x) = pown (hp s x) /\ pvis (h' x) = pvis (hp s x) /\ preuse (h' x) = preuse (hp s x).
Proof.
  intros E1 E2 E3 E4. unfold sieve_init, q_init. cbn [hp]. rewrite E1, E2, E3, E4.
  autorewrite with heap. repeat split; reflexivity.
Qed.

(* Items that were linked keep their stale queue tags: reset does not visit them (in the Go code
   reset is only called by Clear, which drops every item).  Everything else of SInv _ [] [] holds. *)
Theorem sieve_init_partial s P M :
  SInv s P M ->
  let s' := sieve_init s in
  dll (hp s') probHead probTail [] /\ dll (hp s') mainHead mainTail [] /\
  qsize (prob s') = 0 /\ qsize (mainq s') = 0 /\
  (qhd (prob s') = probHead /\ qtl (prob s') = probTail /\ qid (prob s') = qProb) /\
  (qhd (mainq s') = mainHead /\ qtl (mainq s') = mainTail /\ qid (mainq s') = qMain) /\
  hand s' = 0 /\ perr s' = false /\ maincap s' = maincap s /\
  (forall x, ~ In x (P ++ M) -> pq (hp s' x) = qNone) /\
  (forall x, In x (P ++ M) -> pq (hp s' x) = pq (hp s x)).
Proof.
  intros I s'. destruct (si_qP _ _ _ I) as (E1 & E2 & E3). destruct (si_qM _ _ _ I) as (E4 & E5 & E6).
  pose proof (sieve_init_fields s) as F. cbv zeta in F. fold s' in F.
  assert (F' := fun x => F x E1 E2 E4 E5). clear F.
  split; [|split; [|split; [|split; [|split; [|split; [|split; [|split; [|split; [|split]]]]]]]]].
  - apply dll_intro; try (consts; lia); [intros x [] | constructor|]. cbn [app links].
    destruct (F' probHead) as (-> & _). destruct (F' probTail) as (_ & -> & _). zeq. auto.
  - apply dll_intro; try (consts; lia); [intros x [] | constructor|]. cbn [app links].
    destruct (F' mainHead) as (-> & _). destruct (F' mainTail) as (_ & -> & _). zeq. auto.
  - reflexivity.
  - reflexivity.
  - subst s'. unfold sieve_init, q_init. cbn [prob qhd qtl qid q_size]. auto.
  - subst s'. unfold sieve_init, q_init. cbn [mainq qhd qtl qid q_size]. auto.
  - reflexivity.
  - subst s'. unfold sieve_init, q_init. cbn [perr]. apply (si_err _ _ _ I).
  - reflexivity.
  - intros x Hx. destruct (F' x) as (_ & _ & -> & _). rewrite (si_none _ _ _ I x Hx).
    repeat match goal with |- context[if ?c then _ else _] => destruct c end; reflexivity.
  - intros x Hx. destruct (F' x) as (_ & _ & -> & _). pose proof (si_pos _ _ _ I x Hx). zeq. reflexivity.
Qed.

Theorem sieve_init_empty s : SInv s [] [] -> SInv (sieve_init s) [] [].
Proof.
  intros I. pose proof (sieve_init_partial s [] [] I) as R. cbv zeta in R.
  destruct R as (D1 & D2 & Z1 & Z2 & Q1 & Q2 & Hh & He & _ & N & _).
  constructor; try assumption.
  - constructor.
  - intros x [].
  - intros x [].
  - intros x [].
  - left; assumption.
Qed.

(* the full statement "SInv s P M -> SInv (sieve_init s) [] []" is false: stale tags *)
Example sieve_init_refuted :
  let s := sieve_insert_prob (pinit 7 4) 1 in
  SInv s [1] [] /\ ~ SInv (sieve_init s) [] [] /\
  holds (hp (sieve_init s)) (prob (sieve_init s)) 1 = true.
Proof.
  cbv zeta. split; [|split].
  - apply (sieve_insert_prob_spec (pinit 7 4) [] [] 1 (pinit_SInv 7 4)); [lia | intros []].
  - intros I. pose proof (si_none _ _ _ I 1 (fun H => H)) as H. vm_compute in H. discriminate.
  - vm_compute. reflexivity.
Qed.

(* ------------------------------------------------------------------ mark_visited *)
Theorem mark_visited_spec s P M it :
  SInv s P M ->
  let s' := mark_visited s it in
  SInv s' P M /\ hand s' = hand s /\ maincap s' = maincap s /\
  (it <> 0 -> pvis (hp s' it) = true) /\
  (forall x, x <> it -> hp s' x = hp s x) /\ (forall x, preuse (hp s' x) = preuse (hp s x)).
Proof.
  intros I. unfold mark_visited. destruct (Z.eqb_spec it 0) as [->|Hne]; cbv zeta.
  - split; [assumption|]. split; [reflexivity|]. split; [reflexivity|]. split; [intros H; congruence|].
    split; intros; reflexivity.
  - split; [|split; [|split; [|split; [|split]]]]; try reflexivity.
    + apply (SInv_frame s _ P M I); try reflexivity.
      * intros x. cbn [hp st_heap]. autorewrite with heap. auto.
      * apply (si_hand _ _ _ I).
    + intros _. cbn [hp st_heap]. autorewrite with heap. rewrite Z.eqb_refl. reflexivity.
    + intros x Hx. cbn [hp st_heap]. apply w_vis_other; assumption.
    + intros x. cbn [hp st_heap]. autorewrite with heap. reflexivity.
Qed.

(* ------------------------------------------------------------------ B.12 sequences *)
Inductive sv_op :=
| SInsP (it : Z) | SInsM (it : Z) | SRem (it : Z) | SProm (it : Z) | SRepl (old new : Z)
| SFind (scan : Z) (force : bool) | SMark (it : Z).

Definition sv_p_step (s : pstate) (op : sv_op) : pstate :=
  match op with
  | SInsP it => sieve_insert_prob s it
  | SInsM it => sieve_insert_main s it
  | SRem it => fst (sieve_remove s it)
  | SProm it => sieve_promote s it
  | SRepl o n => sieve_replace s o n
  | SFind sc f => fst (find_main_victim_p s sc f)
  | SMark it => mark_visited s it
  end.

(* abstract state: the two pointer lists; mcap is the (constant) main capacity *)
Definition sv_abs_step (mcap : Z) (st : list Z * list Z) (op : sv_op) : list Z * list Z :=
  let '(P, M) := st in
  match op with
  | SInsP it => (it :: P, M)
  | SInsM it => (P, it :: M)
  | SRem it => (remz P it, remz M it)
  | SProm it => if memz P it && (0 <? mcap) then (remz P it, it :: M) else (P, M)
  | SRepl o n => (subst_ptr P o n, subst_ptr M o n)
  | SFind _ _ => (P, M)
  | SMark _ => (P, M)
  end.
Definition sv_op_ok (st : list Z * list Z) (op : sv_op) : bool :=
  let '(P, M) := st in
  match op with
  | SInsP it | SInsM it => (0 <? it) && negb (memz (P ++ M) it)
  | SRepl o n => memz (P ++ M) o && (0 <? n) && negb (memz (P ++ M) n)
  | _ => true
  end.
Fixpoint sv_ops_ok (mcap : Z) (st : list Z * list Z) (ops : list sv_op) : bool :=
  match ops with
  | [] => true
  | op :: r => sv_op_ok st op && sv_ops_ok mcap (sv_abs_step mcap st op) r
  end.

Lemma sv_step_inv mcap s P M op :
  SInv s P M -> maincap s = mcap -> sv_op_ok (P, M) op = true ->
  SInv (sv_p_step s op) (fst (sv_abs_step mcap (P, M) op)) (snd (sv_abs_step mcap (P, M) op)) /\
  maincap (sv_p_step s op) = mcap.
Proof.
  intros I Ec Hok. destruct op as [it|it|it|it|o n|sc f|it]; cbn [sv_p_step sv_abs_step sv_op_ok fst snd] in *.
  - apply andb_true_iff in Hok. destruct Hok as (H1 & H2). apply Z.ltb_lt in H1.
    apply negb_true_iff, memz_false in H2.
    destruct (sieve_insert_prob_spec s P M it I H1 H2) as (I' & _ & _ & _ & E & _). split; [assumption | congruence].
  - apply andb_true_iff in Hok. destruct Hok as (H1 & H2). apply Z.ltb_lt in H1.
    apply negb_true_iff, memz_false in H2.
    destruct (sieve_insert_main_spec s P M it I H1 H2) as (I' & _ & _ & _ & E & _). split; [assumption | congruence].
  - destruct (in_dec Z.eq_dec it M) as [HM|HM].
    + assert (HP : ~ In it P) by (intros H; exact (SInv_PM _ _ _ _ I H HM)).
      rewrite (remz_notin P it HP).
      destruct (sieve_remove_main s P M it I HM) as (_ & I' & _ & _ & _ & E & _). split; [assumption | congruence].
    + rewrite (remz_notin M it HM). destruct (in_dec Z.eq_dec it P) as [HP|HP].
      * destruct (sieve_remove_prob s P M it I HP) as (_ & I' & _ & _ & _ & E & _). split; [assumption | congruence].
      * rewrite (remz_notin P it HP). rewrite (sieve_remove_absent s P M it I).
        -- split; assumption.
        -- intros H. apply in_app_or in H. tauto.
  - destruct (memz P it) eqn:EP; cbn [andb].
    + apply memz_In in EP. destruct (Z.ltb_spec 0 mcap); cbn [fst snd].
      * destruct (sieve_promote_spec s P M it I EP) as (I' & _ & _ & _ & E & _); [lia|].
        split; [assumption | congruence].
      * rewrite (sieve_promote_noop s P M it I); [split; assumption | left; lia].
    + apply memz_false in EP. cbn [fst snd].
      rewrite (sieve_promote_noop s P M it I); [split; assumption | right; assumption].
  - rewrite !andb_true_iff in Hok. destruct Hok as ((H1 & H2) & H3).
    apply memz_In in H1. apply Z.ltb_lt in H2. apply negb_true_iff, memz_false in H3.
    destruct (sieve_replace_spec s P M o n I H1 H2 H3) as (I' & _ & _ & _ & _ & _ & _ & E & _).
    split; [assumption | congruence].
  - destruct (find_main_victim_p_spec s P M sc f I) as (s' & v & E1 & _ & I' & E & _).
    rewrite E1. cbn [fst]. split; [assumption | congruence].
  - destruct (mark_visited_spec s P M it I) as (I' & _ & E & _). split; [assumption | congruence].
Qed.

Lemma sv_run_inv mcap ops : forall s P M,
  SInv s P M -> maincap s = mcap -> sv_ops_ok mcap (P, M) ops = true ->
  let st := fold_left (sv_abs_step mcap) ops (P, M) in
  SInv (fold_left sv_p_step ops s) (fst st) (snd st).
Proof.
  induction ops as [|op ops IH]; intros s P M I Ec Hok; cbn [fold_left sv_ops_ok] in *; [assumption|].
  apply andb_true_iff in Hok. destruct Hok as (H1 & H2).
  destruct (sv_step_inv mcap s P M op I Ec H1) as (I' & Ec').
  destruct (sv_abs_step mcap (P, M) op) as [P' M'] eqn:E. cbn [fst snd] in *.
  apply IH; assumption.
Qed.

Theorem sieve_sequence owner mcap ops :
  sv_ops_ok mcap ([], []) ops = true ->
  let s := fold_left sv_p_step ops (pinit owner mcap) in
  let st := fold_left (sv_abs_step mcap) ops ([], []) in
  SInv s (fst st) (snd st) /\ perr s = false.
Proof.
  intros Hok s st.
  pose proof (sv_run_inv mcap ops (pinit owner mcap) [] [] (pinit_SInv owner mcap) eq_refl Hok) as I.
  split; [exact I | exact (si_err _ _ _ I)].
Qed.

(* ================================================================== bridges to CacheModel's list functions *)
(* In CacheModel the queues are lists of items identified by key and the hand is an option key.
   The pointer lists are the key lists (items are named by their key). *)
Definition oz (o : option Z) : Z := match o with Some k => k | None => 0 end.
Definition zo (z : Z) : option Z := if z =? 0 then None else Some z.
Lemma oz_zo z : oz (zo z) = z.
Proof. unfold zo. destruct (Z.eqb_spec z 0); [subst|]; reflexivity. Qed.

Lemma remove_key_remz l k : map key (remove_key l k) = remz (map key l) k.
Proof.
  induction l as [|it l IH]; [reflexivity|]. cbn [remove_key map remz].
  destruct (key it =? k); [reflexivity|]. cbn [map]. rewrite IH. reflexivity.
Qed.
Lemma find_item_in l k : In k (map key l) <-> exists it, find_item l k = Some it /\ key it = k.
Proof.
  induction l as [|x l IH]; cbn [map In find_item].
  - split; [intros [] | intros (it & H & _); discriminate].
  - destruct (Z.eqb_spec (key x) k) as [E|E].
    + split; [intros _; exists x; split; [reflexivity | assumption] | intros _; left; assumption].
    + rewrite <- IH. split; [intros [H|H]; [contradiction | assumption] | intros H; right; assumption].
Qed.
Lemma has_key_memz l k : has_key l k = memz (map key l) k.
Proof.
  unfold has_key. induction l as [|x l IH]; [reflexivity|]. cbn [find_item map memz].
  destruct (key x =? k); [reflexivity | exact IH].
Qed.
Lemma last_item_rev l :
  option_map key (last_item l) = match rev (map key l) with [] => None | x :: _ => Some x end.
Proof. unfold last_item. rewrite <- map_rev. destruct (rev l); reflexivity. Qed.

(* replaceNode against replace_item: [f] reads the item a pointer denotes *)
Lemma replace_item_subst (f : Z -> item) l old new :
  (forall x, In x l -> (key (f x) =? key (f new)) = (x =? old)) ->
  map f (subst_ptr l old new) = replace_item (map f l) (f new).
Proof.
  induction l as [|x l IH]; intros H; [reflexivity|]. cbn [subst_ptr map replace_item].
  rewrite (H x (or_introl eq_refl)). destruct (x =? old); [reflexivity|]. cbn [map].
  rewrite IH; [reflexivity|]. intros y Hy. apply H. right; assumption.
Qed.
Lemma replace_item_keys l n : map key (replace_item l n) = map key l.
Proof.
  induction l as [|x l IH]; [reflexivity|]. cbn [replace_item map].
  destruct (Z.eqb_spec (key x) (key n)) as [E|E]; cbn [map]; [rewrite E | rewrite IH]; reflexivity.
Qed.

Lemma last_indep_gen {T} (l : list T) d d' : l <> [] -> last l d = last l d'.
Proof.
  induction l as [|a l IH]; intros H; [congruence|]. destruct l as [|b l]; [reflexivity|].
  change (last (b :: l) d = last (b :: l) d'). apply IH. discriminate.
Qed.

Lemma nth_error_last {T} (l : list T) : forall x d, nth_error (x :: l) (length l) = Some (last (x :: l) d).
Proof.
  induction l as [|y l IH]; intros x d; [reflexivity|].
  cbn [length nth_error]. rewrite (IH y d). reflexivity.
Qed.
Lemma key_last (m : list item) : forall it d d', key (last (it :: m) d) = last (key it :: map key m) d'.
Proof.
  induction m as [|y m IH]; intros it d d'; [reflexivity|].
  change (last (it :: y :: m) d) with (last (y :: m) d).
  change (last (key it :: map key (y :: m)) d') with (last (key y :: map key m) d'). apply IH.
Qed.

(* ---- B.5 bridge: prev_main = aprev on the key list *)
Lemma prev_main_walk k m : forall pre,
  pre <> [] -> ~ In k (map key pre) -> In k (map key m) ->
  exists j, index_of m k (length pre) = Some (S j) /\
            key_at (pre ++ m) j = Some (pred_of (last (map key pre) 0) (map key m) k).
Proof.
  induction m as [|it m IH]; intros pre Hne Hpre Hi; [destruct Hi|].
  cbn [index_of map pred_of]. destruct (Z.eqb_spec (key it) k) as [E|E].
  - destruct pre as [|p0 pre] using rev_ind; [congruence|]. clear IHpre.
    exists (length pre). rewrite app_length. cbn [length]. split; [f_equal; lia|].
    unfold key_at. rewrite <- app_assoc. rewrite nth_error_app2 by lia. rewrite Nat.sub_diag. cbn [app nth_error].
    rewrite map_app. cbn [map]. rewrite last_last. reflexivity.
  - destruct Hi as [Hi|Hi]; [contradiction|].
    destruct (IH (pre ++ [it])) as (j & E1 & E2).
    + intros H. apply app_eq_nil in H. destruct H; discriminate.
    + rewrite map_app. cbn [map]. intros H. apply in_app_or in H. destruct H as [H|[H|[]]]; contradiction.
    + assumption.
    + exists j. rewrite app_length in E1. cbn [length] in E1. replace (length pre + 1)%nat with (S (length pre)) in E1 by lia.
      split; [exact E1|]. rewrite <- app_assoc in E2. cbn [app] in E2. rewrite E2.
      rewrite map_app. cbn [map]. rewrite last_last. reflexivity.
Qed.

Theorem prev_main_aprev (m : list item) (k : Z) :
  (forall it, In it m -> key it <> 0) -> In k (map key m) ->
  prev_main m k = (let r := aprev (map key m) k in if r =? 0 then None else Some r).
Proof.
  intros Hnz Hi. cbv zeta. unfold prev_main, aprev.
  assert (Hk0 : forall x, In x (map key m) -> x <> 0).
  { intros x Hx. apply in_map_iff in Hx. destruct Hx as (it & <- & Hit). apply Hnz; assumption. }
  destruct m as [|it m]; [destruct Hi|].
  cbn [index_of]. cbn [map pred_of]. destruct (Z.eqb_spec (key it) k) as [E|E].
  - (* k is the head: wrap to the last *)
    unfold key_at. cbn [length Nat.pred].
    rewrite (nth_error_last m it it), (key_last m it it 0).
    set (p := last (key it :: map key m) 0).
    destruct (Z.eqb_spec p k); [reflexivity|].
    assert (Hp : p <> 0).
    { apply Hk0. subst p. change (key it :: map key m) with (map key (it :: m)). apply last_in.
      discriminate. }
    destruct (Z.eqb_spec p 0); [contradiction | reflexivity].
  - destruct Hi as [Hi|Hi]; [contradiction|].
    destruct (prev_main_walk k m [it]) as (j & E1 & E2); [discriminate | intros [H|[]]; contradiction | assumption |].
    cbn [length] in E1. rewrite E1. cbn [app] in E2. rewrite E2. cbn [map last].
    set (p := pred_of (key it) (map key m) k).
    destruct (Z.eqb_spec p k); [reflexivity|].
    assert (Hp : p <> 0).
    { apply Hk0. change (key it :: map key m) with (map key (it :: m)) . cbn [map]. apply pred_of_in; assumption. }
    destruct (Z.eqb_spec p 0); [contradiction | reflexivity].
Qed.

Corollary prev_main_oz m k :
  (forall it, In it m -> key it <> 0) -> In k (map key m) -> oz (prev_main m k) = aprev (map key m) k.
Proof.
  intros H1 H2. rewrite (prev_main_aprev m k H1 H2). cbv zeta. apply (oz_zo (aprev (map key m) k)).
Qed.

(* ---- B.9 / B.10 bridge: CacheModel.find_victim = afind on (key, visited, reuse) *)
Definition ient (it : item) : ent := (key it, visited it, reuse it).
Definition absI (m : list item) : list ent := map ient m.

Lemma absI_ptrs m : map eptr (absI m) = map key m.
Proof. unfold absI. rewrite map_map. reflexivity. Qed.
Lemma afind_item_absI m k : afind_item (absI m) k = option_map ient (find_item m k).
Proof.
  induction m as [|x m IH]; [reflexivity|]. cbn [absI map afind_item find_item]. fold (absI m).
  change (eptr (ient x)) with (key x). destruct (key x =? k); [reflexivity | exact IH].
Qed.
Lemma alast_absI m : alast (absI m) = option_map ient (last_item m).
Proof. unfold alast, last_item, absI. rewrite <- map_rev. destruct (rev m); reflexivity. Qed.
Lemma find_item_zero m : (forall it, In it m -> key it <> 0) -> find_item m 0 = None.
Proof.
  induction m as [|x m IH]; intros H; [reflexivity|]. cbn [find_item].
  destruct (Z.eqb_spec (key x) 0) as [E|E]; [exfalso; apply (H x); [left; reflexivity | assumption]|].
  apply IH. intros it Hit. apply H. right; assumption.
Qed.

Lemma main_candidate_acand (sh : shard) c :
  (forall it, In it (main sh) -> key it <> 0) ->
  acand (absI (main sh)) (oz c) = option_map ient (main_candidate sh c).
Proof.
  intros Hnz. unfold acand, main_candidate. rewrite afind_item_absI, alast_absI.
  destruct c as [k|]; cbn [oz].
  - destruct (find_item (main sh) k); reflexivity.
  - rewrite (find_item_zero _ Hnz). reflexivity.
Qed.
Lemma main_candidate_in (sh : shard) c it : main_candidate sh c = Some it -> In it (main sh).
Proof.
  unfold main_candidate.
  assert (F : forall l k x, find_item l k = Some x -> In x l).
  { induction l as [|y l IH]; cbn [find_item]; [discriminate|]. intros k x.
    destruct (key y =? k); [intros [= <-]; left; reflexivity | intros H; right; eapply IH; eassumption]. }
  assert (L : forall l x, last_item l = Some x -> In x l).
  { intros l x. unfold last_item. destruct (rev l) as [|y r] eqn:E; [discriminate|]. intros [= <-].
    apply in_rev. rewrite E. left; reflexivity. }
  destruct c as [k|]; [|apply L]. destruct (find_item (main sh) k) eqn:E.
  - intros [= <-]. eapply F; eassumption.
  - apply L.
Qed.
Lemma areplace_absI m n : absI (replace_item m n) = areplace (absI m) (ient n).
Proof.
  induction m as [|x m IH]; [reflexivity|]. cbn [replace_item absI map areplace]. fold (absI m).
  change (eptr (ient x)) with (key x). change (eptr (ient n)) with (key n).
  destruct (key x =? key n); [reflexivity|]. cbn [map]. fold (absI (replace_item m n)). rewrite IH. reflexivity.
Qed.

Lemma find_victim_afind n : forall (sh : shard) c force,
  (forall it, In it (main sh) -> key it <> 0) ->
  afind n (absI (main sh)) (oz (CacheModel.hand sh)) (oz c) force =
  (absI (main (fst (find_victim n sh c force))),
   oz (CacheModel.hand (fst (find_victim n sh c force))),
   oz (snd (find_victim n sh c force))) /\
  map key (main (fst (find_victim n sh c force))) = map key (main sh) /\
  CacheModel.prob (fst (find_victim n sh c force)) = CacheModel.prob sh.
Proof.
  induction n as [|n IH]; intros sh c force Hnz.
  - cbn [afind find_victim]. destruct force.
    + rewrite (main_candidate_acand sh c Hnz). destruct (main_candidate sh c) as [it|] eqn:E; cbn [option_map].
      * cbn [fst snd oz]. unfold set_hand, sh_lists, sh_set. cbn [main CacheModel.hand CacheModel.prob].
        rewrite absI_ptrs. change (eptr (ient it)) with (key it).
        rewrite prev_main_oz; [auto | assumption|].
        apply in_map. eapply main_candidate_in; eassumption.
      * cbn [fst snd oz]. auto.
    + cbn [fst snd oz]. unfold set_hand, sh_lists, sh_set. cbn [main CacheModel.hand CacheModel.prob]. auto.
  - cbn [afind find_victim]. rewrite (main_candidate_acand sh c Hnz).
    destruct (main_candidate sh c) as [it|] eqn:E; cbn [option_map].
    + pose proof (main_candidate_in sh c it E) as Hit.
      unfold ient at 1. destruct (visited it) eqn:Ev.
      * set (it' := set_flags it (if 0 <? reuse it then reuse it - 1 else reuse it) false (unpub it)).
        set (sh1 := sh_lists sh (CacheModel.prob sh) (replace_item (main sh) it') (CacheModel.hand sh)).
        assert (Em : main sh1 = replace_item (main sh) it') by reflexivity.
        assert (Eh : CacheModel.hand sh1 = CacheModel.hand sh) by reflexivity.
        assert (Ep : CacheModel.prob sh1 = CacheModel.prob sh) by reflexivity.
        assert (Ek : map key (main sh1) = map key (main sh)) by (rewrite Em; apply replace_item_keys).
        assert (Hnz1 : forall x, In x (main sh1) -> key x <> 0).
        { intros x Hx. assert (Hk : In (key x) (map key (main sh1))) by (apply in_map; assumption).
          rewrite Ek in Hk. apply in_map_iff in Hk. destruct Hk as (y & Ey & Hy). rewrite <- Ey. apply Hnz; assumption. }
        change (key it, false, if 0 <? reuse it then reuse it - 1 else reuse it) with (ient it').
        rewrite <- areplace_absI, <- Em, absI_ptrs.
        rewrite <- (prev_main_oz (main sh1) (key it) Hnz1) by (rewrite Ek; apply in_map; assumption).
        rewrite <- Eh.
        destruct (IH sh1 (prev_main (main sh1) (key it)) force Hnz1) as (E1 & E2 & E3).
        split; [exact E1|]. split; congruence.
      * cbn [fst snd oz]. unfold set_hand, sh_lists, sh_set. cbn [main CacheModel.hand CacheModel.prob].
        rewrite absI_ptrs. rewrite prev_main_oz; [auto | assumption|]. apply in_map; assumption.
    + cbn [fst snd oz]. auto.
Qed.

(* B.10, full refinement: the pointer-level scan and CacheModel.find_main_victim compute the same victim,
   the same hand and the same visited / reuse fields, whenever the pointer state represents the shard's
   main list and hand. *)
Theorem find_main_victim_refines s P M (sh : shard) scan force :
  SInv s P M -> absM (hp s) M = absI (main sh) -> hand s = oz (CacheModel.hand sh) ->
  let r := find_main_victim_p s scan force in
  let a := find_main_victim sh scan force in
  snd r = oz (snd a) /\ hand (fst r) = oz (CacheModel.hand (fst a)) /\
  absM (hp (fst r)) M = absI (main (fst a)) /\ SInv (fst r) P M /\
  map key (main (fst a)) = M /\ CacheModel.prob (fst a) = CacheModel.prob sh.
Proof.
  intros I EA EH. cbv zeta.
  assert (EM : M = map key (main sh)).
  { transitivity (map eptr (absM (hp s) M)); [symmetry; apply absM_ptrs | rewrite EA; apply absI_ptrs]. }
  assert (Hnz : forall it, In it (main sh) -> key it <> 0).
  { intros it Hit. assert (Hk : In (key it) M) by (rewrite EM; apply in_map; assumption).
    pose proof (SInv_posM _ _ _ _ I Hk). lia. }
  destruct (find_main_victim_p_spec s P M scan force I) as (s' & v & E1 & E2 & I' & _).
  rewrite E1. cbn [fst snd]. unfold afind_main in E2. unfold find_main_victim.
  destruct (main sh) as [|it m] eqn:Em.
  - cbn [absI map] in EA. rewrite EA in E2. cbn [fst snd oz]. rewrite ?Em. cbn [absI map].
    inversion E2 as [[Ha Hb Hc]].
    split; [reflexivity|]. split; [congruence|]. split; [reflexivity|]. split; [assumption|].
    split; [symmetry; exact EM | reflexivity].
  - rewrite EA in E2. cbn [absI map] in E2. fold (absI m) in E2.
    change (ient it :: absI m) with (absI (it :: m)) in E2. rewrite <- Em in E2.
    rewrite EH in E2. rewrite <- Em in Hnz, EM.
    destruct (find_victim_afind (Z.to_nat (if scan <=? 0 then 1 else scan)) sh (CacheModel.hand sh) force Hnz)
      as (F1 & F2 & F3).
    rewrite F1 in E2. inversion E2 as [[Ha Hb Hc]].
    split; [reflexivity|]. split; [reflexivity|]. split; [reflexivity|].
    split; [assumption|]. split; [rewrite F2; symmetry; exact EM | exact F3].
Qed.

(* ---- B.6 / B.7 bridges: the hand rules of sieve_unlink and promote *)
Lemma unlink_hand_bridge (m : list item) (h : option Z) k :
  (forall it, In it m -> key it <> 0) -> In k (map key m) ->
  oz (match h with Some hk => if hk =? k then prev_main m k else h | None => None end) =
  (if oz h =? k then aprev (map key m) k else oz h).
Proof.
  intros Hnz Hi.
  assert (k <> 0).
  { apply in_map_iff in Hi. destruct Hi as (it & <- & Hit). apply Hnz; assumption. }
  destruct h as [hk|]; cbn [oz].
  - destruct (hk =? k); [apply prev_main_oz; assumption | reflexivity].
  - destruct (Z.eqb_spec 0 k); [congruence | reflexivity].
Qed.
Lemma promote_hand_bridge (h : option Z) k :
  (forall hk, h = Some hk -> hk <> 0) ->
  oz (match h with None => Some k | h' => h' end) = (if oz h =? 0 then k else oz h).
Proof.
  intros H. destruct h as [hk|]; cbn [oz]; [|reflexivity].
  destruct (Z.eqb_spec hk 0) as [E|E]; [exfalso; exact (H hk eq_refl E) | reflexivity].
Qed.

(* sieve_unlink on key lists is (remz P k, remz M k): removal of a non-member is the identity *)
Lemma sieve_unlink_lists (sh : shard) k :
  NoDup (map key (CacheModel.prob sh) ++ map key (main sh)) ->
  map key (CacheModel.prob (sieve_unlink sh k)) = remz (map key (CacheModel.prob sh)) k /\
  map key (main (sieve_unlink sh k)) = remz (map key (main sh)) k.
Proof.
  intros ND. apply NoDup_app_inv in ND. destruct ND as (_ & _ & NX).
  unfold sieve_unlink. rewrite !has_key_memz.
  destruct (memz (map key (main sh)) k) eqn:EM.
  - unfold sh_lists, sh_set. cbn [CacheModel.prob main]. rewrite remove_key_remz. split; [|reflexivity].
    apply memz_In in EM. symmetry. apply remz_notin. intros H. exact (NX k H EM).
  - apply memz_false in EM. destruct (memz (map key (CacheModel.prob sh)) k) eqn:EP.
    + unfold sh_lists, sh_set. cbn [CacheModel.prob main]. rewrite remove_key_remz. split; [reflexivity|].
      symmetry. apply remz_notin; assumption.
    + apply memz_false in EP. rewrite !remz_notin by assumption. split; reflexivity.
Qed.

(* ================================================================== D. non-vacuity (A and B) *)
Definition lru_ex_ops : list lru_op := [LAdd 1; LAdd 2; LAdd 3; LMove 1; LRemove 2; LAdd 4; LVictim].
Example lru_ex_guard : lru_ops_ok [] lru_ex_ops = true.
Proof. vm_compute. reflexivity. Qed.
Example lru_ex_abs : fold_left lru_abs_step lru_ex_ops [] = [4; 1; 3].
Proof. vm_compute. reflexivity. Qed.
Example lru_ex_inv :
  let s := fold_left lru_p_step lru_ex_ops (pinit 7 4) in
  dll (hp s) lruHead lruTail [4; 1; 3] /\ perr s = false /\ lru_victim s = 3.
Proof.
  pose proof (lru_sequence 7 4 lru_ex_ops lru_ex_guard) as H. cbv zeta in H.
  rewrite lru_ex_abs in H. exact H.
Qed.
(* the concrete heap: head <-> 4 <-> 1 <-> 3 <-> tail, item 2 unlinked *)
Example lru_ex_heap :
  let s := fold_left lru_p_step lru_ex_ops (pinit 7 4) in
  map (fun p => (pprev (hp s p), pnext (hp s p))) [lruHead; 4; 1; 3; lruTail; 2] =
  [(0, 4); (lruHead, 1); (4, 3); (1, lruTail); (3, 0); (0, 0)].
Proof. vm_compute. reflexivity. Qed.

Definition sv_ex_ops : list sv_op :=
  [SInsP 1; SInsP 2; SInsM 3; SProm 1; SInsP 4; SRepl 3 5; SMark 5; SFind 2 false; SRem 2].
Example sv_ex_guard : sv_ops_ok 4 ([], []) sv_ex_ops = true.
Proof. vm_compute. reflexivity. Qed.
Example sv_ex_abs : fold_left (sv_abs_step 4) sv_ex_ops ([], []) = ([4], [1; 5]).
Proof. vm_compute. reflexivity. Qed.
Example sv_ex_inv :
  let s := fold_left sv_p_step sv_ex_ops (pinit 7 4) in
  SInv s [4] [1; 5] /\ perr s = false.
Proof.
  pose proof (sieve_sequence 7 4 sv_ex_ops sv_ex_guard) as H. cbv zeta in H.
  rewrite sv_ex_abs in H. exact H.
Qed.
(* the concrete state: hand, sizes, links and tags of the two queues; items 2 and 3 unlinked *)
Example sv_ex_state :
  let s := fold_left sv_p_step sv_ex_ops (pinit 7 4) in
  (hand s, qsize (prob s), qsize (mainq s), prob_tail s, main_cand s 0) = (5, 1, 2, 4, Some 5) /\
  map (fun p => (pprev (hp s p), pnext (hp s p), pq (hp s p)))
      [probHead; 4; probTail; mainHead; 1; 5; mainTail; 2; 3] =
  [(0, 4, qNone); (probHead, probTail, qProb); (4, 0, qNone);
   (0, 1, qNone); (mainHead, 5, qMain); (1, mainTail, qMain); (5, 0, qNone);
   (0, 0, qNone); (0, 0, qNone)].
Proof. vm_compute. split; reflexivity. Qed.
(* a scan that does return a victim: main = [1; 5], hand = 5, both unvisited by now *)
Example sv_ex_victim :
  let s := fold_left sv_p_step sv_ex_ops (pinit 7 4) in
  let r := find_main_victim_p s 2 false in
  (snd r, hand (fst r)) = (5, 1) /\
  afind_main (absM (hp s) [1; 5]) (hand s) 2 false = (absM (hp (fst r)) [1; 5], 1, 5).
Proof. vm_compute. split; reflexivity. Qed.

(* The freshness guards are needed: pushing an item that is already linked makes it its own
   successor (the list is corrupted and the size counter over-counts).  The Go callers only
   insert items that are not linked. *)
Example lru_add_unguarded_refuted :
  let s := lru_add (lru_add (pinit 7 4) 1) 1 in
  pnext (hp s 1) = 1 /\ pprev (hp s 1) = 1 /\ perr s = false.
Proof. vm_compute. repeat split; reflexivity. Qed.
Example sieve_insert_unguarded_refuted :
  let s := sieve_insert_prob (sieve_insert_prob (pinit 7 4) 1) 1 in
  pnext (hp s 1) = 1 /\ pprev (hp s 1) = 1 /\ qsize (prob s) = 2 /\ perr s = false.
Proof. vm_compute. repeat split; reflexivity. Qed.

(* ================================================================== C. LFU frequency-bucket ring *)
(* The development of part C lives in its own module: it re-uses short names (links, LAdd, ...) for
   the bucket ring, which has its own heap type. *)
Module LfuRing.

(* ================================================================== *)
(* LFU frequency-bucket ring (PtrModel: lfu_add_p / lfu_increment_p /  *)
(* lfu_remove_p / lfu_remove_lfu_p) refines the list-level LFU bucket  *)
(* functions of CacheModel (lfu_add / lfu_increment / lfu_remove /     *)
(* lfu_min_bucket).                                                    *)
(* ================================================================== *)

(* ------------------------------------------------------------------ generic list facts *)
Lemma lr_NoDup_app_iff : forall (A : Type) (X Y : list A),
  NoDup (X ++ Y) <-> NoDup X /\ NoDup Y /\ (forall z, In z X -> In z Y -> False).
Proof.
  intros A X Y. induction X as [|x X IH]; simpl.
  - split.
    + intros H. split; [constructor|]. split; [exact H|]. intros z [].
    + intros [_ [H _]]. exact H.
  - split.
    + intros H. inversion H as [|x' l' Hn Hd]; subst.
      apply IH in Hd. destruct Hd as [HX [HY Hdis]].
      split.
      * constructor; [|exact HX]. intro Hi. apply Hn. apply in_or_app. left. exact Hi.
      * split; [exact HY|].
        intros z [Hz|Hz] HzY.
        -- subst z. apply Hn. apply in_or_app. right. exact HzY.
        -- exact (Hdis z Hz HzY).
    + intros [HX [HY Hdis]]. inversion HX as [|x' l' Hn Hd]; subst.
      constructor.
      * intro Hi. apply in_app_or in Hi. destruct Hi as [Hi|Hi].
        -- exact (Hn Hi).
        -- apply (Hdis x); [left; reflexivity|exact Hi].
      * apply IH. split; [exact Hd|]. split; [exact HY|].
        intros z Hz HzY. apply (Hdis z); [right; exact Hz|exact HzY].
Qed.

Lemma lr_Forall2_length : forall (A B : Type) (R : A -> B -> Prop) l1 l2,
  Forall2 R l1 l2 -> length l1 = length l2.
Proof. intros A B R l1 l2 H. induction H; simpl; congruence. Qed.

Lemma lr_Forall2_split : forall (A B : Type) (R : A -> B -> Prop) A1 a A2 c,
  Forall2 R (A1 ++ a :: A2) c ->
  exists c1 x c2, c = c1 ++ x :: c2 /\ Forall2 R A1 c1 /\ R a x /\ Forall2 R A2 c2
                  /\ length A1 = length c1.
Proof.
  intros A B R A1 a A2 c H.
  apply Forall2_app_inv_l in H. destruct H as [c1 [c' [H1 [H2 Hc]]]].
  inversion H2 as [|a' x l l' Hax Hrest]; subst.
  exists c1, x, l'. split; [reflexivity|]. split; [exact H1|]. split; [exact Hax|].
  split; [exact Hrest|]. eapply lr_Forall2_length; exact H1.
Qed.

Lemma lr_Forall2_unsplit : forall (A B : Type) (R : A -> B -> Prop) A1 a A2 c1 x c2,
  Forall2 R (A1 ++ a :: A2) (c1 ++ x :: c2) -> length A1 = length c1 ->
  Forall2 R A1 c1 /\ R a x /\ Forall2 R A2 c2.
Proof.
  intros A B R A1. induction A1 as [|y A1 IH]; intros a A2 c1 x c2 H Hl.
  - destruct c1; [|discriminate]. simpl in H. inversion H; subst. auto.
  - destruct c1 as [|z c1]; [discriminate|]. simpl in H, Hl.
    inversion H as [|? ? ? ? Hyz Hrest]; subst.
    destruct (IH a A2 c1 x c2) as [H1 [H2 H3]]; [assumption|lia|].
    split; [constructor; assumption|]. split; assumption.
Qed.

Lemma lr_Forall2_app2 : forall (A B : Type) (R : A -> B -> Prop) A1 A2 c1 c2,
  Forall2 R (A1 ++ A2) (c1 ++ c2) -> length A1 = length c1 ->
  Forall2 R A1 c1 /\ Forall2 R A2 c2.
Proof.
  intros A B R A1. induction A1 as [|y A1 IH]; intros A2 c1 c2 H Hl.
  - destruct c1; [|discriminate]. simpl in H. split; [constructor|exact H].
  - destruct c1 as [|z c1]; [discriminate|]. simpl in H, Hl.
    inversion H as [|? ? ? ? Hyz Hrest]; subst.
    destruct (IH A2 c1 c2) as [H1 H2]; [assumption|lia|].
    split; [constructor; assumption|assumption].
Qed.

(* ------------------------------------------------------------------ memz / remz *)
Lemma lr_memz_In : forall ks k, memz ks k = true <-> In k ks.
Proof.
  induction ks as [|x r IH]; intros k; simpl.
  - split; [discriminate|intros []].
  - rewrite orb_true_iff, IH. split.
    + intros [H|H]; [left; apply Z.eqb_eq; exact H|right; exact H].
    + intros [H|H]; [left; apply Z.eqb_eq; exact H|right; exact H].
Qed.

Lemma lr_memz_false : forall ks k, memz ks k = false <-> ~ In k ks.
Proof.
  intros ks k. rewrite <- lr_memz_In. destruct (memz ks k); split; intro H; congruence.
Qed.

Lemma lr_remz_notin : forall ks k, ~ In k ks -> remz ks k = ks.
Proof.
  induction ks as [|x r IH]; intros k H; simpl; [reflexivity|].
  destruct (Z.eqb_spec x k) as [E|E].
  - exfalso. apply H. left. exact E.
  - f_equal. apply IH. intro Hi. apply H. right. exact Hi.
Qed.

Lemma lr_remz_In : forall ks k x, In x (remz ks k) -> In x ks.
Proof.
  induction ks as [|y r IH]; intros k x H; simpl in *; [exact H|].
  destruct (Z.eqb_spec y k) as [E|E].
  - right. exact H.
  - destruct H as [H|H]; [left; exact H|right; eapply IH; exact H].
Qed.

Lemma lr_remz_In_neq : forall ks k x, x <> k -> In x ks -> In x (remz ks k).
Proof.
  induction ks as [|y r IH]; intros k x Hn H; simpl in *; [exact H|].
  destruct (Z.eqb_spec y k) as [E|E].
  - destruct H as [H|H]; [congruence|exact H].
  - destruct H as [H|H]; [left; exact H|right; apply IH; assumption].
Qed.

Lemma lr_remz_NoDup : forall ks k, NoDup ks -> NoDup (remz ks k).
Proof.
  induction ks as [|y r IH]; intros k H; simpl; [exact H|].
  inversion H; subst.
  destruct (Z.eqb_spec y k) as [E|E]; [assumption|].
  constructor; [|apply IH; assumption].
  intro Hi. apply lr_remz_In in Hi. contradiction.
Qed.

Lemma lr_remz_NoDup_notin : forall ks k, NoDup ks -> ~ In k (remz ks k).
Proof.
  induction ks as [|y r IH]; intros k H; simpl; [intros []|].
  inversion H; subst.
  destruct (Z.eqb_spec y k) as [E|E].
  - subst. assumption.
  - intros [Hi|Hi]; [congruence|]. eapply IH; eassumption.
Qed.

(* ------------------------------------------------------------------ abstract bucket lists *)
Definition bitems (b : list (Z * list Z)) : list Z := concat (map snd b).

Fixpoint asc (lo : Z) (b : list (Z * list Z)) : Prop :=
  match b with
  | [] => True
  | fb :: r => lo < fst fb /\ snd fb <> [] /\ asc (fst fb) r
  end.

(* well-formed abstract bucket list: strictly ascending freqs, all >= 1,
   no empty bucket, no item twice (inside a bucket or across buckets) *)
Definition bwf (b : list (Z * list Z)) : Prop := asc 0 b /\ NoDup (bitems b).

Lemma bitems_cons : forall f ks r, bitems ((f, ks) :: r) = ks ++ bitems r.
Proof. reflexivity. Qed.

Lemma bitems_app : forall b1 b2, bitems (b1 ++ b2) = bitems b1 ++ bitems b2.
Proof. intros. unfold bitems. rewrite map_app, concat_app. reflexivity. Qed.

Lemma asc_weaken : forall b lo lo', lo' <= lo -> asc lo b -> asc lo' b.
Proof. destruct b as [|[f ks] r]; simpl; intros; [exact I|]. destruct H0 as [? [? ?]]. repeat split; try assumption; lia. Qed.

Lemma asc_app : forall b1 lo f ks b2,
  asc lo (b1 ++ (f, ks) :: b2) ->
  Forall (fun fb => lo < fst fb < f) b1 /\ lo < f /\ ks <> [] /\ asc f b2.
Proof.
  induction b1 as [|[g gs] r IH]; intros lo f ks b2 H; simpl in H.
  - destruct H as [H1 [H2 H3]]. split; [constructor|]. auto.
  - destruct H as [H1 [H2 H3]]. simpl in H3. apply IH in H3.
    destruct H3 as [Hf [Hlt [Hne Ha]]].
    split.
    + constructor; [simpl; lia|]. eapply Forall_impl; [|exact Hf]. simpl. intros; lia.
    + repeat split; try assumption; lia.
Qed.

Lemma asc_lower : forall b lo, asc lo b -> Forall (fun fb => lo < fst fb) b.
Proof.
  induction b as [|[g gs] r IH]; intros lo H; [constructor|].
  simpl in H. destruct H as [H1 [H2 H3]]. constructor; [exact H1|].
  apply IH in H3. eapply Forall_impl; [|exact H3]. simpl. intros; lia.
Qed.

(* ---- lfu_add_at *)
Lemma asc_add_at : forall b lo f k, asc lo b -> lo < f -> asc lo (lfu_add_at b f k).
Proof.
  induction b as [|[g gs] r IH]; intros lo f k H Hlt; simpl.
  - repeat split; [exact Hlt|discriminate].
  - simpl in H. destruct H as [H1 [H2 H3]].
    destruct (Z.eqb_spec g f) as [E|E].
    + simpl. repeat split; [exact H1|discriminate|exact H3].
    + destruct (Z.ltb_spec f g) as [L|L].
      * simpl. repeat split; try assumption; discriminate.
      * simpl. repeat split; try assumption. apply IH; [assumption|lia].
Qed.

Lemma bitems_add_at_perm : forall b f k, Permutation (bitems (lfu_add_at b f k)) (k :: bitems b).
Proof.
  induction b as [|[g gs] r IH]; intros f k; simpl.
  - apply Permutation_refl.
  - destruct (Z.eqb_spec g f) as [E|E]; [apply Permutation_refl|].
    destruct (Z.ltb_spec f g) as [L|L]; [apply Permutation_refl|].
    rewrite !bitems_cons.
    eapply Permutation_trans; [apply Permutation_app_head; apply IH|].
    apply Permutation_sym. apply Permutation_middle.
Qed.

Lemma bwf_add_at : forall b f k, bwf b -> 0 < f -> ~ In k (bitems b) -> bwf (lfu_add_at b f k).
Proof.
  intros b f k [Ha Hn] Hf Hk. split.
  - apply asc_add_at; assumption.
  - eapply Permutation_NoDup; [apply Permutation_sym; apply bitems_add_at_perm|].
    constructor; assumption.
Qed.

Lemma add_at_skip : forall b1 b2 f k,
  Forall (fun fb => fst fb < f) b1 -> lfu_add_at (b1 ++ b2) f k = b1 ++ lfu_add_at b2 f k.
Proof.
  induction b1 as [|[g gs] r IH]; intros b2 f k H; simpl; [reflexivity|].
  inversion H; subst. simpl in *.
  destruct (Z.eqb_spec g f) as [E|E]; [lia|].
  destruct (Z.ltb_spec f g) as [L|L]; [lia|].
  f_equal. apply IH. assumption.
Qed.

Lemma add_at_front : forall b f k,
  Forall (fun fb => f < fst fb) b -> lfu_add_at b f k = (f, [k]) :: b.
Proof.
  intros [|[g gs] r] f k H; simpl; [reflexivity|].
  inversion H; subst. simpl in *.
  destruct (Z.eqb_spec g f) as [E|E]; [lia|].
  destruct (Z.ltb_spec f g) as [L|L]; [reflexivity|lia].
Qed.

(* ---- lfu_remove *)
Lemma asc_remove : forall b lo k, asc lo b -> asc lo (lfu_remove b k).
Proof.
  induction b as [|[g gs] r IH]; intros lo k H; simpl; [exact I|].
  simpl in H. destruct H as [H1 [H2 H3]].
  destruct (memz gs k).
  - destruct (remz gs k) eqn:E.
    + eapply asc_weaken; [|exact H3]. lia.
    + simpl. repeat split; [exact H1|discriminate|exact H3].
  - simpl. repeat split; try assumption. apply IH. assumption.
Qed.

Lemma remove_notin : forall b k, ~ In k (bitems b) -> lfu_remove b k = b.
Proof.
  induction b as [|[g gs] r IH]; intros k H; simpl; [reflexivity|].
  rewrite bitems_cons in H.
  destruct (memz gs k) eqn:E.
  - exfalso. apply H. apply in_or_app. left. apply lr_memz_In. exact E.
  - f_equal. apply IH. intro Hi. apply H. apply in_or_app. right. exact Hi.
Qed.

Lemma remove_at : forall b1 g ks b2 k,
  ~ In k (bitems b1) -> In k ks ->
  lfu_remove (b1 ++ (g, ks) :: b2) k =
  b1 ++ match remz ks k with [] => b2 | ks' => (g, ks') :: b2 end.
Proof.
  induction b1 as [|[h hs] r IH]; intros g ks b2 k Hn Hi; simpl.
  - apply lr_memz_In in Hi. rewrite Hi. reflexivity.
  - rewrite bitems_cons in Hn.
    destruct (memz hs k) eqn:E.
    + exfalso. apply Hn. apply in_or_app. left. apply lr_memz_In. exact E.
    + f_equal. apply IH; [|exact Hi]. intro H. apply Hn. apply in_or_app. right. exact H.
Qed.

Lemma bitems_remove_In : forall b k x, In x (bitems (lfu_remove b k)) -> In x (bitems b).
Proof.
  induction b as [|[g gs] r IH]; intros k x H; simpl in *; [exact H|].
  rewrite bitems_cons.
  destruct (memz gs k).
  - destruct (remz gs k) eqn:E.
    + apply in_or_app. right. exact H.
    + rewrite bitems_cons in H. apply in_app_or in H. apply in_or_app.
      destruct H as [H|H]; [left|right; exact H].
      rewrite <- E in H. eapply lr_remz_In. exact H.
  - rewrite bitems_cons in H. apply in_app_or in H. apply in_or_app.
    destruct H as [H|H]; [left; exact H|right; eapply IH; exact H].
Qed.

Lemma bitems_remove_NoDup : forall b k, NoDup (bitems b) -> NoDup (bitems (lfu_remove b k)).
Proof.
  induction b as [|[g gs] r IH]; intros k H; simpl; [exact H|].
  rewrite bitems_cons in H. apply lr_NoDup_app_iff in H. destruct H as [H1 [H2 H3]].
  destruct (memz gs k).
  - destruct (remz gs k) eqn:E; [exact H2|].
    rewrite bitems_cons. apply lr_NoDup_app_iff. split; [|split].
    + rewrite <- E. apply lr_remz_NoDup. exact H1.
    + exact H2.
    + intros w Hz Hz2. apply (H3 w); [|exact Hz2]. rewrite <- E in Hz. eapply lr_remz_In. exact Hz.
  - rewrite bitems_cons. apply lr_NoDup_app_iff. split; [exact H1|]. split; [apply IH; exact H2|].
    intros z Hz Hz2. apply (H3 z); [exact Hz|]. eapply bitems_remove_In. exact Hz2.
Qed.

Lemma bitems_remove_notin : forall b k, NoDup (bitems b) -> ~ In k (bitems (lfu_remove b k)).
Proof.
  induction b as [|[g gs] r IH]; intros k H; simpl; [intros []|].
  rewrite bitems_cons in H. apply lr_NoDup_app_iff in H. destruct H as [H1 [H2 H3]].
  destruct (memz gs k) eqn:M.
  - apply lr_memz_In in M.
    assert (Hr : ~ In k (bitems r)) by (intro Hi; exact (H3 k M Hi)).
    destruct (remz gs k) eqn:E; [exact Hr|].
    rewrite bitems_cons. intro Hi. apply in_app_or in Hi. destruct Hi as [Hi|Hi]; [|exact (Hr Hi)].
    rewrite <- E in Hi. exact (lr_remz_NoDup_notin gs k H1 Hi).
  - apply lr_memz_false in M. rewrite bitems_cons. intro Hi. apply in_app_or in Hi.
    destruct Hi as [Hi|Hi]; [exact (M Hi)|]. exact (IH k H2 Hi).
Qed.

Lemma bwf_remove : forall b k, bwf b -> bwf (lfu_remove b k).
Proof.
  intros b k [Ha Hn]. split; [apply asc_remove; exact Ha|apply bitems_remove_NoDup; exact Hn].
Qed.

(* ---- lfu_freq *)
Lemma freq_at : forall b1 g ks b2 k,
  ~ In k (bitems b1) -> In k ks -> lfu_freq (b1 ++ (g, ks) :: b2) k = g.
Proof.
  induction b1 as [|[h hs] r IH]; intros g ks b2 k Hn Hi; simpl.
  - apply lr_memz_In in Hi. rewrite Hi. reflexivity.
  - rewrite bitems_cons in Hn.
    destruct (memz hs k) eqn:E.
    + exfalso. apply Hn. apply in_or_app. left. apply lr_memz_In. exact E.
    + apply IH; [|exact Hi]. intro H. apply Hn. apply in_or_app. right. exact H.
Qed.

Lemma freq_zero_iff : forall b lo k, 0 <= lo -> asc lo b -> (lfu_freq b k = 0 <-> ~ In k (bitems b)).
Proof.
  induction b as [|[g gs] r IH]; intros lo k Hlo H; simpl.
  - split; [intros _ []|reflexivity].
  - simpl in H. destruct H as [H1 [H2 H3]]. rewrite bitems_cons.
    destruct (memz gs k) eqn:E.
    + apply lr_memz_In in E. split; [lia|]. intro Hn. exfalso. apply Hn. apply in_or_app. left. exact E.
    + apply lr_memz_false in E. rewrite (IH g k); [|lia|exact H3]. split.
      * intros Hn Hi. apply in_app_or in Hi. destruct Hi as [Hi|Hi]; [exact (E Hi)|exact (Hn Hi)].
      * intros Hn Hi. apply Hn. apply in_or_app. right. exact Hi.
Qed.

Lemma freq_lower : forall b lo k, asc lo b -> In k (bitems b) -> lo < lfu_freq b k.
Proof.
  induction b as [|[g gs] r IH]; intros lo k H Hi; simpl; [destruct Hi|].
  simpl in H. destruct H as [H1 [H2 H3]]. rewrite bitems_cons in Hi.
  destruct (memz gs k) eqn:E; [exact H1|].
  apply lr_memz_false in E. apply in_app_or in Hi. destruct Hi as [Hi|Hi]; [contradiction|].
  specialize (IH g k H3 Hi). lia.
Qed.

(* ------------------------------------------------------------------ heap field lemmas *)
Lemma f_prev_next : forall h p v x, fnext (f_prev h p v x) = fnext (h x).
Proof. intros. unfold f_prev, fupd. destruct (Z.eqb_spec x p); subst; reflexivity. Qed.
Lemma f_prev_prev : forall h p v x, fprev (f_prev h p v x) = if x =? p then v else fprev (h x).
Proof. intros. unfold f_prev, fupd. destruct (Z.eqb_spec x p); subst; reflexivity. Qed.
Lemma f_prev_freq : forall h p v x, ffreq (f_prev h p v x) = ffreq (h x).
Proof. intros. unfold f_prev, fupd. destruct (Z.eqb_spec x p); subst; reflexivity. Qed.
Lemma f_prev_items : forall h p v x, fitems (f_prev h p v x) = fitems (h x).
Proof. intros. unfold f_prev, fupd. destruct (Z.eqb_spec x p); subst; reflexivity. Qed.

Lemma f_next_next : forall h p v x, fnext (f_next h p v x) = if x =? p then v else fnext (h x).
Proof. intros. unfold f_next, fupd. destruct (Z.eqb_spec x p); subst; reflexivity. Qed.
Lemma f_next_prev : forall h p v x, fprev (f_next h p v x) = fprev (h x).
Proof. intros. unfold f_next, fupd. destruct (Z.eqb_spec x p); subst; reflexivity. Qed.
Lemma f_next_freq : forall h p v x, ffreq (f_next h p v x) = ffreq (h x).
Proof. intros. unfold f_next, fupd. destruct (Z.eqb_spec x p); subst; reflexivity. Qed.
Lemma f_next_items : forall h p v x, fitems (f_next h p v x) = fitems (h x).
Proof. intros. unfold f_next, fupd. destruct (Z.eqb_spec x p); subst; reflexivity. Qed.

Lemma f_items_next : forall h p v x, fnext (f_items h p v x) = fnext (h x).
Proof. intros. unfold f_items, fupd. destruct (Z.eqb_spec x p); subst; reflexivity. Qed.
Lemma f_items_prev : forall h p v x, fprev (f_items h p v x) = fprev (h x).
Proof. intros. unfold f_items, fupd. destruct (Z.eqb_spec x p); subst; reflexivity. Qed.
Lemma f_items_freq : forall h p v x, ffreq (f_items h p v x) = ffreq (h x).
Proof. intros. unfold f_items, fupd. destruct (Z.eqb_spec x p); subst; reflexivity. Qed.
Lemma f_items_items : forall h p v x, fitems (f_items h p v x) = if x =? p then v else fitems (h x).
Proof. intros. unfold f_items, fupd. destruct (Z.eqb_spec x p); subst; reflexivity. Qed.

Lemma fupd_next : forall h p n x, fnext (fupd h p n x) = if x =? p then fnext n else fnext (h x).
Proof. intros. unfold fupd. destruct (x =? p); reflexivity. Qed.
Lemma fupd_prev : forall h p n x, fprev (fupd h p n x) = if x =? p then fprev n else fprev (h x).
Proof. intros. unfold fupd. destruct (x =? p); reflexivity. Qed.
Lemma fupd_freq : forall h p n x, ffreq (fupd h p n x) = if x =? p then ffreq n else ffreq (h x).
Proof. intros. unfold fupd. destruct (x =? p); reflexivity. Qed.
Lemma fupd_items : forall h p n x, fitems (fupd h p n x) = if x =? p then fitems n else fitems (h x).
Proof. intros. unfold fupd. destruct (x =? p); reflexivity. Qed.

(* the heap after ensureIndex allocated bucket nw behind prev *)
Definition ens_heap (h : fheap) (nw prev freq : Z) : fheap :=
  let h0 := fupd h nw {| ffreq := freq; fitems := []; fprev := 0; fnext := 0 |} in
  let nxt := fnext (h0 prev) in
  f_prev (f_next (f_prev (f_next h0 prev nw) nw prev) nw nxt) nxt nw.

Lemma ens_heap_next : forall h nw prev freq z, prev <> nw ->
  fnext (ens_heap h nw prev freq z) =
  if z =? nw then fnext (h prev) else if z =? prev then nw else fnext (h z).
Proof.
  intros h nw prev freq z Hp. unfold ens_heap.
  rewrite f_prev_next, f_next_next, f_prev_next, f_next_next, !fupd_next.
  cbn [fnext].
  destruct (Z.eqb_spec prev nw) as [E|E]; [contradiction|].
  destruct (Z.eqb_spec z nw) as [E1|E1]; [reflexivity|].
  destruct (Z.eqb_spec z prev); reflexivity.
Qed.

Lemma ens_heap_prev : forall h nw prev freq z, prev <> nw ->
  fprev (ens_heap h nw prev freq z) =
  if z =? fnext (h prev) then nw else if z =? nw then prev else fprev (h z).
Proof.
  intros h nw prev freq z Hp. unfold ens_heap.
  rewrite f_prev_prev, f_next_prev, f_prev_prev, f_next_prev, !fupd_prev, fupd_next.
  cbn [fprev fnext].
  destruct (Z.eqb_spec prev nw) as [E|E]; [contradiction|].
  destruct (Z.eqb_spec z (fnext (h prev))) as [E1|E1]; [reflexivity|].
  destruct (Z.eqb_spec z nw); reflexivity.
Qed.

Lemma ens_heap_freq : forall h nw prev freq z,
  ffreq (ens_heap h nw prev freq z) = if z =? nw then freq else ffreq (h z).
Proof.
  intros. unfold ens_heap.
  rewrite f_prev_freq, f_next_freq, f_prev_freq, f_next_freq, fupd_freq. reflexivity.
Qed.

Lemma ens_heap_items : forall h nw prev freq z,
  fitems (ens_heap h nw prev freq z) = if z =? nw then [] else fitems (h z).
Proof.
  intros. unfold ens_heap.
  rewrite f_prev_items, f_next_items, f_prev_items, f_next_items, fupd_items. reflexivity.
Qed.

(* the heap after removeFreqNode unlinked n *)
Definition unl_heap (h : fheap) (n : Z) : fheap :=
  let h1 := f_next h (fprev (h n)) (fnext (h n)) in
  f_prev h1 (fnext (h1 n)) (fprev (h1 n)).

Lemma unl_heap_next : forall h n z,
  fnext (unl_heap h n z) = if z =? fprev (h n) then fnext (h n) else fnext (h z).
Proof. intros. unfold unl_heap. rewrite f_prev_next, f_next_next. reflexivity. Qed.

Lemma unl_heap_prev : forall h n z,
  fprev (unl_heap h n z) = if z =? fnext (h n) then fprev (h n) else fprev (h z).
Proof.
  intros. unfold unl_heap. rewrite f_prev_prev, !f_next_prev, f_next_next.
  destruct (Z.eqb_spec n (fprev (h n))); reflexivity.
Qed.

Lemma unl_heap_freq : forall h n z, ffreq (unl_heap h n z) = ffreq (h z).
Proof. intros. unfold unl_heap. rewrite f_prev_freq, f_next_freq. reflexivity. Qed.

Lemma unl_heap_items : forall h n z, fitems (unl_heap h n z) = fitems (h z).
Proof. intros. unfold unl_heap. rewrite f_prev_items, f_next_items. reflexivity. Qed.

(* ------------------------------------------------------------------ assoc lists *)
Lemma assoc_del_eq : forall m k, assoc (assoc_del m k) k = None.
Proof.
  induction m as [|[a b] r IH]; intros k; simpl; [reflexivity|].
  destruct (Z.eqb_spec a k) as [E|E]; [apply IH|].
  simpl. destruct (Z.eqb_spec a k); [contradiction|apply IH].
Qed.

Lemma assoc_del_neq : forall m k k', k' <> k -> assoc (assoc_del m k) k' = assoc m k'.
Proof.
  induction m as [|[a b] r IH]; intros k k' Hn; simpl; [reflexivity|].
  destruct (Z.eqb_spec a k) as [E|E].
  - subst a. destruct (Z.eqb_spec k k'); [congruence|]. apply IH. exact Hn.
  - simpl. destruct (Z.eqb_spec a k'); [reflexivity|]. apply IH. exact Hn.
Qed.

Lemma assoc_set_eq : forall m k v, assoc (assoc_set m k v) k = Some v.
Proof. intros. unfold assoc_set. simpl. rewrite Z.eqb_refl. reflexivity. Qed.

Lemma assoc_set_neq : forall m k v k', k' <> k -> assoc (assoc_set m k v) k' = assoc m k'.
Proof.
  intros. unfold assoc_set. simpl. destruct (Z.eqb_spec k k'); [congruence|].
  apply assoc_del_neq. assumption.
Qed.

(* ------------------------------------------------------------------ ring links *)
Fixpoint links (h : fheap) (x : Z) (L : list Z) : Prop :=
  match L with
  | [] => True
  | y :: r => fnext (h x) = y /\ fprev (h y) = x /\ links h y r
  end.

Lemma links_app : forall h A x y B,
  links h x (A ++ y :: B) <-> links h x (A ++ [y]) /\ links h y B.
Proof.
  intros h A. induction A as [|a A IH]; intros x y B; simpl.
  - tauto.
  - rewrite (IH a y B). tauto.
Qed.

Lemma links_frame : forall h h' A x y,
  (forall z, In z (x :: A) -> fnext (h' z) = fnext (h z)) ->
  (forall z, In z (A ++ [y]) -> fprev (h' z) = fprev (h z)) ->
  links h x (A ++ [y]) -> links h' x (A ++ [y]).
Proof.
  intros h h' A. induction A as [|a A IH]; intros x y Hn Hp H; simpl in *.
  - destruct H as [H1 [H2 _]]. rewrite Hn by (left; reflexivity). rewrite Hp by (left; reflexivity). auto.
  - destruct H as [H1 [H2 H3]]. rewrite Hn by (left; reflexivity). rewrite Hp by (left; reflexivity).
    split; [exact H1|]. split; [exact H2|].
    apply IH; [| |exact H3].
    + intros z Hz. apply Hn. right. exact Hz.
    + intros z Hz. apply Hp. right. exact Hz.
Qed.

Lemma links_ext : forall h h' L x,
  (forall z, fnext (h' z) = fnext (h z)) -> (forall z, fprev (h' z) = fprev (h z)) ->
  links h x L -> links h' x L.
Proof.
  intros h h' L. induction L as [|a L IH]; intros x Hn Hp H; simpl in *; [exact I|].
  destruct H as [H1 [H2 H3]]. rewrite Hn, Hp. split; [exact H1|]. split; [exact H2|].
  apply IH; assumption.
Qed.

Lemma links_head : forall h x T e, links h x (T ++ [e]) -> In (fnext (h x)) (T ++ [e]).
Proof. intros h x [|a A] e H; simpl in *; destruct H as [H _]; left; symmetry; exact H. Qed.

(* the cyclic list with its first element as the start *)
Definition clinks (h : fheap) (R : list Z) : Prop :=
  match R with [] => True | x :: L => links h x L end.

Lemma clinks_app : forall h Q p T,
  clinks h (Q ++ p :: T) <-> clinks h (Q ++ [p]) /\ links h p T.
Proof.
  intros h [|x Q] p T; simpl.
  - tauto.
  - apply links_app.
Qed.

Lemma clinks_frame : forall h h' Q p,
  (forall z, In z Q -> fnext (h' z) = fnext (h z)) ->
  (forall z, In z (tl (Q ++ [p])) -> fprev (h' z) = fprev (h z)) ->
  clinks h (Q ++ [p]) -> clinks h' (Q ++ [p]).
Proof.
  intros h h' [|x Q] p Hn Hp H; simpl in *; [exact I|].
  apply (links_frame h h'); assumption.
Qed.

(* splice nw in behind x *)
Lemma links_insert : forall h h' x T e nw,
  links h x (T ++ [e]) ->
  (forall z, fnext (h' z) = if z =? nw then fnext (h x) else if z =? x then nw else fnext (h z)) ->
  (forall z, fprev (h' z) = if z =? fnext (h x) then nw else if z =? nw then x else fprev (h z)) ->
  x <> nw -> e <> nw -> ~ In nw T -> ~ In x T -> ~ In e T -> NoDup T ->
  links h' x (nw :: T ++ [e]).
Proof.
  intros h h' x T e nw H Hn Hp Hx He HnT HxT HeT Hnd.
  destruct T as [|a A]; simpl in *.
  - destruct H as [H1 [H2 _]].
    rewrite (Hn x), (Hp nw), (Hn nw), (Hp e). rewrite H1.
    destruct (Z.eqb_spec x nw) as [E|E]; [contradiction|].
    rewrite (Z.eqb_refl x), (Z.eqb_refl nw), (Z.eqb_refl e).
    destruct (Z.eqb_spec nw e) as [E1|E1]; [congruence|]. auto.
  - destruct H as [H1 [H2 H3]].
    rewrite (Hn x), (Hp nw), (Hn nw), (Hp a). rewrite H1.
    destruct (Z.eqb_spec x nw) as [E|E]; [contradiction|].
    rewrite (Z.eqb_refl x), (Z.eqb_refl nw), (Z.eqb_refl a).
    destruct (Z.eqb_spec nw a) as [E1|E1]; [exfalso; apply HnT; left; congruence|].
    split; [reflexivity|]. split; [reflexivity|]. split; [reflexivity|]. split; [reflexivity|].
    inversion Hnd as [|a' A' HaA HndA]; subst a' A'.
    apply (links_frame h h'); [| |exact H3].
    + intros z Hz. rewrite (Hn z).
      destruct (Z.eqb_spec z nw) as [E2|E2]; [exfalso; apply HnT; subst z; exact Hz|].
      destruct (Z.eqb_spec z x) as [E3|E3]; [exfalso; apply HxT; subst z; exact Hz|]. reflexivity.
    + intros z Hz. rewrite (Hp z). rewrite H1.
      apply in_app_or in Hz.
      destruct (Z.eqb_spec z a) as [E2|E2].
      * exfalso. subst z. destruct Hz as [Hz|[Hz|[]]]; [exact (HaA Hz)|]. apply HeT. left. symmetry. exact Hz.
      * destruct (Z.eqb_spec z nw) as [E3|E3]; [|reflexivity].
        exfalso. subst z. destruct Hz as [Hz|[Hz|[]]]; [apply HnT; right; exact Hz|]. congruence.
Qed.

(* unlink n (the successor of p) *)
Lemma links_unlink : forall h h' p n T e,
  links h p (n :: T ++ [e]) ->
  (forall z, fnext (h' z) = if z =? fprev (h n) then fnext (h n) else fnext (h z)) ->
  (forall z, fprev (h' z) = if z =? fnext (h n) then fprev (h n) else fprev (h z)) ->
  ~ In p T -> ~ In e T -> NoDup T ->
  links h' p (T ++ [e]).
Proof.
  intros h h' p n T e H Hn Hp HpT HeT Hnd.
  simpl in H. destruct H as [H1 [H2 H3]].
  destruct T as [|a A]; simpl in *.
  - destruct H3 as [H3 [H4 _]].
    rewrite (Hn p), (Hp e). rewrite H2, H3. rewrite (Z.eqb_refl p), (Z.eqb_refl e). auto.
  - destruct H3 as [H3 [H4 H5]].
    rewrite (Hn p), (Hp a). rewrite H2, H3. rewrite (Z.eqb_refl p), (Z.eqb_refl a).
    split; [reflexivity|]. split; [reflexivity|].
    inversion Hnd as [|a' A' HaA HndA]; subst a' A'.
    apply (links_frame h h'); [| |exact H5].
    + intros z Hz. rewrite (Hn z). rewrite H2.
      destruct (Z.eqb_spec z p) as [E|E]; [exfalso; apply HpT; subst z; exact Hz|]. reflexivity.
    + intros z Hz. rewrite (Hp z). rewrite H3.
      destruct (Z.eqb_spec z a) as [E|E]; [|reflexivity].
      exfalso. subst z. apply in_app_or in Hz.
      destruct Hz as [Hz|[Hz|[]]]; [exact (HaA Hz)|]. apply HeT. left. symmetry. exact Hz.
Qed.

(* ------------------------------------------------------------------ the invariant *)
Definition bucket_at (h : fheap) (a : Z) (fb : Z * list Z) : Prop :=
  ffreq (h a) = fst fb /\ fitems (h a) = snd fb.

(* shape of the ring: [addrs] are the bucket addresses in ring order, [c] their (freq, items) *)
Definition GInv (l : lfu) (addrs : list Z) (c : list (Z * list Z)) : Prop :=
  Forall2 (bucket_at (fh l)) addrs c /\
  links (fh l) (fhead l) (addrs ++ [fhead l]) /\
  NoDup (fhead l :: addrs) /\
  (forall a, In a (fhead l :: addrs) -> 0 < a < falloc l) /\
  ffreq (fh l (fhead l)) = 0 /\
  fitems (fh l (fhead l)) = [] /\
  (forall f a, assoc (fmap l) f = Some a <-> In a addrs /\ ffreq (fh l a) = f) /\
  lerr l = false.

(* itemFreq is exact *)
Definition IF (l : lfu) (addrs : list Z) : Prop :=
  forall it a, assoc (ifreq l) it = Some a <-> In a addrs /\ In it (fitems (fh l a)).
(* ... except possibly for the item x under surgery *)
Definition IFx (l : lfu) (addrs : list Z) (x : Z) : Prop :=
  forall it a, it <> x -> (assoc (ifreq l) it = Some a <-> In a addrs /\ In it (fitems (fh l a))).

Definition LInvA (l : lfu) (addrs : list Z) (b : list (Z * list Z)) : Prop :=
  bwf b /\ GInv l addrs b /\ IF l addrs.

Definition LInv (l : lfu) (b : list (Z * list Z)) : Prop := exists addrs, LInvA l addrs b.

Lemma IF_IFx : forall l addrs x, IF l addrs -> IFx l addrs x.
Proof. intros l addrs x H it a _. apply H. Qed.

Lemma IFx_IF : forall l addrs x, IFx l addrs x ->
  (forall a, assoc (ifreq l) x = Some a <-> In a addrs /\ In x (fitems (fh l a))) -> IF l addrs.
Proof.
  intros l addrs x H Hx it a. destruct (Z.eq_dec it x) as [E|E]; [subst; apply Hx|apply H; exact E].
Qed.

Lemma f2_bucket_ext : forall h h' A c,
  (forall a, In a A -> ffreq (h' a) = ffreq (h a) /\ fitems (h' a) = fitems (h a)) ->
  Forall2 (bucket_at h) A c -> Forall2 (bucket_at h') A c.
Proof.
  intros h h' A c Hx H. induction H as [|a fb A c Hab HF IH]; constructor.
  - unfold bucket_at in *. destruct (Hx a (or_introl eq_refl)) as [E1 E2]. rewrite E1, E2. exact Hab.
  - apply IH. intros z Hz. apply Hx. right. exact Hz.
Qed.

Lemma f2_items_in : forall h A c a x,
  Forall2 (bucket_at h) A c -> In a A -> In x (fitems (h a)) -> In x (bitems c).
Proof.
  intros h A c a x H. induction H as [|a0 [f ks] A c Hab HF IH]; intros Ha Hx; [destruct Ha|].
  rewrite bitems_cons. apply in_or_app. destruct Ha as [Ha|Ha].
  - subst a0. left. destruct Hab as [_ E]. simpl in E. rewrite <- E. exact Hx.
  - right. apply IH; assumption.
Qed.

Lemma f2_in_items : forall h A c x,
  Forall2 (bucket_at h) A c -> In x (bitems c) -> exists a, In a A /\ In x (fitems (h a)).
Proof.
  intros h A c x H. induction H as [|a0 [f ks] A c Hab HF IH]; intros Hx; [destruct Hx|].
  rewrite bitems_cons in Hx. apply in_app_or in Hx. destruct Hx as [Hx|Hx].
  - exists a0. split; [left; reflexivity|]. destruct Hab as [_ E]. simpl in E. rewrite E. exact Hx.
  - destruct (IH Hx) as [a [Ha Hi]]. exists a. split; [right; exact Ha|exact Hi].
Qed.

Lemma f2_items_unique : forall h A c a a' x,
  Forall2 (bucket_at h) A c -> NoDup (bitems c) ->
  In a A -> In a' A -> In x (fitems (h a)) -> In x (fitems (h a')) -> a = a'.
Proof.
  intros h A c a a' x H. induction H as [|a0 [f ks] A c Hab HF IH]; intros Hnd Ha Ha' Hx Hx'; [destruct Ha|].
  rewrite bitems_cons in Hnd. apply lr_NoDup_app_iff in Hnd. destruct Hnd as [N1 [N2 N3]].
  destruct Hab as [_ E]. simpl in E.
  destruct Ha as [Ha|Ha]; destruct Ha' as [Ha'|Ha'].
  - congruence.
  - exfalso. subst a0. apply (N3 x); [rewrite <- E; exact Hx|]. eapply f2_items_in; eassumption.
  - exfalso. subst a0. apply (N3 x); [rewrite <- E; exact Hx'|]. eapply f2_items_in; eassumption.
  - apply IH; assumption.
Qed.

Lemma f2_freq_in : forall h A c a,
  Forall2 (bucket_at h) A c -> In a A -> In (ffreq (h a)) (map fst c).
Proof.
  intros h A c a H. induction H as [|a0 fb A c Hab HF IH]; intros Ha; [destruct Ha|].
  simpl. destruct Ha as [Ha|Ha].
  - subst a0. left. destruct Hab as [E _]. symmetry. exact E.
  - right. apply IH. exact Ha.
Qed.

Lemma ring_reassoc : forall (hd : Z) A1 Q prev X,
  hd :: A1 = Q ++ [prev] -> hd :: A1 ++ X = Q ++ prev :: X.
Proof.
  intros hd A1 Q prev X H. change (hd :: A1 ++ X) with ((hd :: A1) ++ X).
  rewrite H. rewrite <- app_assoc. reflexivity.
Qed.

Lemma in_mid_intro : forall (A1 A2 : list Z) n a, In a (A1 ++ A2) -> In a (A1 ++ n :: A2).
Proof.
  intros A1 A2 n a H. apply in_app_or in H. apply in_or_app.
  destruct H as [H|H]; [left; exact H|right; right; exact H].
Qed.

(* ---- G1: rewriting the item list of one bucket *)
Lemma ginv_set_items : forall l A1 n A2 c1 f ks c2 ks' i',
  GInv l (A1 ++ n :: A2) (c1 ++ (f, ks) :: c2) -> length A1 = length c1 ->
  GInv (lf_set l (f_items (fh l) n ks') (fmap l) i' (falloc l))
       (A1 ++ n :: A2) (c1 ++ (f, ks') :: c2).
Proof.
  intros l A1 n A2 c1 f ks c2 ks' i' [HF [HL [HN [HB [HS1 [HS2 [HM HE]]]]]]] Hlen.
  unfold GInv, lf_set; cbn [fh fhead fmap ifreq falloc lerr].
  inversion HN as [|hd' L' Hhd HnA]; subst hd' L'.
  assert (Hhdn : fhead l <> n).
  { intro E. apply Hhd. rewrite E. apply in_or_app. right. left. reflexivity. }
  pose proof (NoDup_remove_2 _ _ _ HnA) as Hnn.
  destruct (lr_Forall2_unsplit _ _ _ _ _ _ _ _ _ HF Hlen) as [F1 [Fn F2]].
  split.
  { apply Forall2_app.
    - apply (f2_bucket_ext (fh l)); [|exact F1].
      intros a Ha. rewrite f_items_freq, f_items_items.
      destruct (Z.eqb_spec a n) as [E|E]; [|auto].
      exfalso. apply Hnn. subst a. apply in_or_app. left. exact Ha.
    - constructor.
      + unfold bucket_at. rewrite f_items_freq, f_items_items, Z.eqb_refl.
        split; [apply Fn|reflexivity].
      + apply (f2_bucket_ext (fh l)); [|exact F2].
        intros a Ha. rewrite f_items_freq, f_items_items.
        destruct (Z.eqb_spec a n) as [E|E]; [|auto].
        exfalso. apply Hnn. subst a. apply in_or_app. right. exact Ha. }
  split.
  { apply (links_ext (fh l)); [intro z; apply f_items_next|intro z; apply f_items_prev|exact HL]. }
  split; [exact HN|]. split; [exact HB|].
  split; [rewrite f_items_freq; exact HS1|].
  split.
  { rewrite f_items_items. destruct (Z.eqb_spec (fhead l) n); [contradiction|exact HS2]. }
  split; [|exact HE].
  intros g a. rewrite f_items_freq. apply HM.
Qed.

Lemma ifx_set_items : forall l addrs n ks' i' x,
  IFx l addrs x ->
  (forall it, it <> x -> assoc i' it = assoc (ifreq l) it) ->
  (forall it, it <> x -> (In it ks' <-> In it (fitems (fh l n)))) ->
  IFx (lf_set l (f_items (fh l) n ks') (fmap l) i' (falloc l)) addrs x.
Proof.
  intros l addrs n ks' i' x H Hi Hk it a Hne.
  unfold lf_set; cbn [fh fhead fmap ifreq falloc lerr].
  rewrite (Hi it Hne). rewrite (H it a Hne). rewrite f_items_items.
  destruct (Z.eqb_spec a n) as [E|E]; [|tauto].
  subst a. rewrite (Hk it Hne). tauto.
Qed.

(* ---- G2: ensureIndex allocates *)
Definition ens_lfu (l : lfu) (prev freq : Z) : lfu :=
  lf_set l (ens_heap (fh l) (falloc l) prev freq) (assoc_set (fmap l) freq (falloc l))
         (ifreq l) (falloc l + 1).

Lemma ensure_index_none : forall l prev freq,
  assoc (fmap l) freq = None -> ensure_index l prev freq = (ens_lfu l prev freq, falloc l).
Proof. intros l prev freq H. unfold ensure_index. rewrite H. reflexivity. Qed.

Lemma ensure_index_some : forall l prev freq n,
  assoc (fmap l) freq = Some n -> ensure_index l prev freq = (l, n).
Proof. intros l prev freq n H. unfold ensure_index. rewrite H. reflexivity. Qed.

Lemma ginv_ensure : forall l A1 A2 c1 c2 Q prev freq,
  GInv l (A1 ++ A2) (c1 ++ c2) -> length A1 = length c1 ->
  fhead l :: A1 = Q ++ [prev] -> assoc (fmap l) freq = None ->
  GInv (ens_lfu l prev freq) (A1 ++ falloc l :: A2) (c1 ++ (freq, []) :: c2).
Proof.
  intros l A1 A2 c1 c2 Q prev freq [HF [HL [HN [HB [HS1 [HS2 [HM HE]]]]]]] Hlen HQ Hnone.
  unfold GInv, ens_lfu, lf_set; cbn [fh fhead fmap ifreq falloc lerr].
  set (nw := falloc l) in *. set (h := fh l) in *. set (hd := fhead l) in *.
  assert (HinQ : forall z, In z Q -> In z (hd :: A1)).
  { intros z Hz. rewrite HQ. apply in_or_app. left. exact Hz. }
  assert (Hprev : In prev (hd :: A1)).
  { rewrite HQ. apply in_or_app. right. left. reflexivity. }
  assert (Hlt : forall z, In z (hd :: A1 ++ A2) -> z <> nw).
  { intros z Hz E. specialize (HB z Hz). lia. }
  assert (Hlt1 : forall z, In z (hd :: A1) -> z <> nw).
  { intros z Hz. apply Hlt. change (In z ((hd :: A1) ++ A2)). apply in_or_app. left. exact Hz. }
  assert (Hlt2 : forall z, In z A2 -> z <> nw).
  { intros z Hz. apply Hlt. right. apply in_or_app. right. exact Hz. }
  assert (Hpnw : prev <> nw) by (apply Hlt1; exact Hprev).
  assert (HN' : NoDup ((Q ++ [prev]) ++ A2)).
  { rewrite <- HQ. exact HN. }
  apply lr_NoDup_app_iff in HN'. destruct HN' as [NQ [NA2 Ndis]].
  apply lr_NoDup_app_iff in NQ. destruct NQ as [NQ0 [_ NQp]].
  assert (Hdis : forall z, In z (hd :: A1) -> In z A2 -> False).
  { intros z Hz. apply Ndis. rewrite <- HQ. exact Hz. }
  destruct (lr_Forall2_app2 _ _ _ _ _ _ _ HF Hlen) as [F1 F2].
  (* links of the old ring, split at prev *)
  assert (HL' : clinks h (Q ++ [prev]) /\ links h prev (A2 ++ [hd])).
  { apply clinks_app. rewrite <- (ring_reassoc hd A1 Q prev _ HQ).
    rewrite <- app_assoc in HL. exact HL. }
  destruct HL' as [HLa HLb].
  assert (Hnxt : In (fnext (h prev)) (A2 ++ [hd])) by (apply links_head; exact HLb).
  split.
  { apply Forall2_app.
    - apply (f2_bucket_ext h); [|exact F1].
      intros a Ha. rewrite ens_heap_freq, ens_heap_items.
      destruct (Z.eqb_spec a nw) as [E|E]; [|auto].
      exfalso. apply (Hlt1 a); [right; exact Ha|exact E].
    - constructor.
      + unfold bucket_at. rewrite ens_heap_freq, ens_heap_items, Z.eqb_refl. split; reflexivity.
      + apply (f2_bucket_ext h); [|exact F2].
        intros a Ha. rewrite ens_heap_freq, ens_heap_items.
        destruct (Z.eqb_spec a nw) as [E|E]; [|auto].
        exfalso. apply (Hlt2 a); assumption. }
  split.
  { rewrite <- app_assoc.
    change (clinks (ens_heap h nw prev freq) (hd :: A1 ++ (nw :: A2) ++ [hd])).
    rewrite (ring_reassoc hd A1 Q prev _ HQ). apply clinks_app. split.
    - apply (clinks_frame h); [| |exact HLa].
      + intros z Hz. rewrite ens_heap_next by exact Hpnw.
        destruct (Z.eqb_spec z nw) as [E|E]; [exfalso; apply (Hlt1 z); [apply HinQ; exact Hz|exact E]|].
        destruct (Z.eqb_spec z prev) as [E1|E1]; [|reflexivity].
        exfalso. apply (NQp z); [exact Hz|left; symmetry; exact E1].
      + rewrite <- HQ. cbn [tl]. intros z Hz. rewrite ens_heap_prev by exact Hpnw.
        destruct (Z.eqb_spec z (fnext (h prev))) as [E|E].
        * exfalso. rewrite <- E in Hnxt. apply in_app_or in Hnxt.
          destruct Hnxt as [Hn|[Hn|[]]].
          -- apply (Hdis z); [right; exact Hz|exact Hn].
          -- inversion HN as [|hd' L' Hhd _]; subst hd' L'. apply Hhd. rewrite Hn.
             apply in_or_app. left. exact Hz.
        * destruct (Z.eqb_spec z nw) as [E1|E1]; [|reflexivity].
          exfalso. apply (Hlt1 z); [right; exact Hz|exact E1].
    - apply (links_insert h (ens_heap h nw prev freq) prev A2 hd nw HLb).
      + intro z. apply ens_heap_next. exact Hpnw.
      + intro z. apply ens_heap_prev. exact Hpnw.
      + exact Hpnw.
      + apply Hlt1. left. reflexivity.
      + intro Hi. apply (Hlt2 nw Hi). reflexivity.
      + intro Hi. apply (Hdis prev); assumption.
      + intro Hi. apply (Hdis hd); [left; reflexivity|exact Hi].
      + exact NA2. }
  split.
  { change (NoDup ((hd :: A1) ++ nw :: A2)).
    eapply Permutation_NoDup; [apply Permutation_middle|].
    constructor; [|exact HN].
    intro Hi. apply (Hlt nw Hi). reflexivity. }
  split.
  { intros a Ha. change (In a ((hd :: A1) ++ nw :: A2)) in Ha.
    apply in_elt_inv in Ha. destruct Ha as [Ha|Ha].
    - subst a. specialize (HB hd (or_introl eq_refl)). fold nw in HB. lia.
    - specialize (HB a Ha). fold nw in HB. lia. }
  split.
  { rewrite ens_heap_freq. destruct (Z.eqb_spec hd nw) as [E|E]; [|exact HS1].
    exfalso. apply (Hlt1 hd); [left; reflexivity|exact E]. }
  split.
  { rewrite ens_heap_items. destruct (Z.eqb_spec hd nw) as [E|E]; [reflexivity|exact HS2]. }
  split; [|exact HE].
  intros g a. rewrite ens_heap_freq.
  destruct (Z.eq_dec g freq) as [Eg|Eg].
  - subst g. rewrite assoc_set_eq. split.
    + intros Hs. injection Hs as Hs. subst a. split.
      * apply in_or_app. right. left. reflexivity.
      * rewrite Z.eqb_refl. reflexivity.
    + intros [Hin Hfr]. destruct (Z.eqb_spec a nw) as [E|E]; [subst a; reflexivity|].
      exfalso. apply in_elt_inv in Hin. destruct Hin as [Hin|Hin]; [congruence|].
      assert (Hs : assoc (fmap l) freq = Some a) by (apply HM; split; assumption).
      congruence.
  - rewrite assoc_set_neq by exact Eg. rewrite HM. split.
    + intros [Hin Hfr]. split; [apply in_mid_intro; exact Hin|].
      destruct (Z.eqb_spec a nw) as [E|E]; [|exact Hfr].
      exfalso. apply (Hlt a); [right; exact Hin|exact E].
    + intros [Hin Hfr]. destruct (Z.eqb_spec a nw) as [E|E]; [congruence|].
      apply in_elt_inv in Hin. destruct Hin as [Hin|Hin]; [congruence|]. split; assumption.
Qed.

Lemma ifx_ensure : forall l A1 A2 prev freq x,
  IFx l (A1 ++ A2) x -> (forall a, In a (A1 ++ A2) -> a < falloc l) ->
  IFx (ens_lfu l prev freq) (A1 ++ falloc l :: A2) x.
Proof.
  intros l A1 A2 prev freq x H HB it a Hne.
  unfold ens_lfu, lf_set; cbn [fh fhead fmap ifreq falloc lerr].
  rewrite (H it a Hne). rewrite ens_heap_items. split.
  - intros [Hin Hit]. split; [apply in_mid_intro; exact Hin|].
    destruct (Z.eqb_spec a (falloc l)) as [E|E]; [|exact Hit].
    specialize (HB a Hin). lia.
  - intros [Hin Hit]. destruct (Z.eqb_spec a (falloc l)) as [E|E]; [destruct Hit|].
    apply in_elt_inv in Hin. destruct Hin as [Hin|Hin]; [congruence|]. split; assumption.
Qed.

(* ---- G3: removeFreqNode *)
Lemma remove_freq_node_eq : forall l n,
  remove_freq_node l n =
  lf_set l (unl_heap (fh l) n) (assoc_del (fmap l) (ffreq (fh l n))) (ifreq l) (falloc l).
Proof. reflexivity. Qed.

Lemma ginv_unlink : forall l A1 n A2 c1 fb c2,
  GInv l (A1 ++ n :: A2) (c1 ++ fb :: c2) -> length A1 = length c1 ->
  GInv (remove_freq_node l n) (A1 ++ A2) (c1 ++ c2).
Proof.
  intros l A1 n A2 c1 fb c2 [HF [HL [HN [HB [HS1 [HS2 [HM HE]]]]]]] Hlen.
  rewrite remove_freq_node_eq.
  unfold GInv, lf_set; cbn [fh fhead fmap ifreq falloc lerr].
  set (h := fh l) in *. set (hd := fhead l) in *.
  destruct (lr_Forall2_unsplit _ _ _ _ _ _ _ _ _ HF Hlen) as [F1 [Fn F2]].
  destruct (@exists_last _ (hd :: A1)) as [Q [p HQ]]; [discriminate|].
  assert (HN' : NoDup ((Q ++ [p]) ++ n :: A2)) by (rewrite <- HQ; exact HN).
  pose proof (NoDup_remove_1 _ _ _ HN') as HN1.
  pose proof (NoDup_remove_2 _ _ _ HN') as HN2.
  apply lr_NoDup_app_iff in HN1. destruct HN1 as [NQ [NA2 Ndis]].
  apply lr_NoDup_app_iff in NQ. destruct NQ as [_ [_ NQp]].
  assert (HL' : clinks h (Q ++ [p]) /\ links h p (n :: A2 ++ [hd])).
  { apply clinks_app. rewrite <- (ring_reassoc hd A1 Q p _ HQ).
    rewrite <- app_assoc in HL. exact HL. }
  destruct HL' as [HLa HLb].
  assert (Hpn : fprev (h n) = p) by (simpl in HLb; tauto).
  assert (HLn : links h n (A2 ++ [hd])) by (simpl in HLb; tauto).
  assert (Hnxt : In (fnext (h n)) (A2 ++ [hd])) by (apply links_head; exact HLn).
  assert (Hdis : forall z, In z (hd :: A1) -> In z A2 -> False).
  { intros z Hz. apply Ndis. rewrite <- HQ. exact Hz. }
  assert (Hhd : ~ In hd (A1 ++ A2)).
  { inversion HN as [|hd' L' Hh _]; subst hd' L'. intro Hi. apply Hh. apply in_mid_intro. exact Hi. }
  split.
  { apply Forall2_app.
    - apply (f2_bucket_ext h); [|exact F1]. intros a _. rewrite unl_heap_freq, unl_heap_items. auto.
    - apply (f2_bucket_ext h); [|exact F2]. intros a _. rewrite unl_heap_freq, unl_heap_items. auto. }
  split.
  { rewrite <- app_assoc.
    change (clinks (unl_heap h n) (hd :: A1 ++ A2 ++ [hd])).
    rewrite (ring_reassoc hd A1 Q p _ HQ). apply clinks_app. split.
    - apply (clinks_frame h); [| |exact HLa].
      + intros z Hz. rewrite unl_heap_next. rewrite Hpn.
        destruct (Z.eqb_spec z p) as [E|E]; [|reflexivity].
        exfalso. apply (NQp z); [exact Hz|left; symmetry; exact E].
      + rewrite <- HQ. cbn [tl]. intros z Hz. rewrite unl_heap_prev.
        destruct (Z.eqb_spec z (fnext (h n))) as [E|E]; [|reflexivity].
        exfalso. rewrite <- E in Hnxt. apply in_app_or in Hnxt.
        destruct Hnxt as [Hn|[Hn|[]]].
        * apply (Hdis z); [right; exact Hz|exact Hn].
        * apply Hhd. rewrite Hn. apply in_or_app. left. exact Hz.
    - apply (links_unlink h (unl_heap h n) p n A2 hd HLb).
      + intro z. apply unl_heap_next.
      + intro z. apply unl_heap_prev.
      + intro Hi. apply (Hdis p); [|exact Hi]. rewrite HQ. apply in_or_app. right. left. reflexivity.
      + intro Hi. apply Hhd. apply in_or_app. right. exact Hi.
      + exact NA2. }
  split.
  { change (NoDup ((hd :: A1) ++ A2)). rewrite HQ. apply lr_NoDup_app_iff. 
    apply lr_NoDup_app_iff in HN'. destruct HN' as [X1 [X2 X3]].
    split; [exact X1|]. split; [exact NA2|exact Ndis]. }
  split.
  { intros a Ha. apply HB. change (In a ((hd :: A1) ++ A2)) in Ha.
    change (In a ((hd :: A1) ++ n :: A2)). apply in_mid_intro. exact Ha. }
  split; [rewrite unl_heap_freq; exact HS1|].
  split; [rewrite unl_heap_items; exact HS2|].
  split; [|exact HE].
  assert (Hnin : ~ In n (A1 ++ A2)).
  { intro Hi. apply HN2. rewrite <- HQ. right. exact Hi. }
  intros g a. rewrite unl_heap_freq.
  destruct (Z.eq_dec g (ffreq (h n))) as [Eg|Eg].
  - subst g. rewrite assoc_del_eq. split; [discriminate|].
    intros [Hin Hfr]. exfalso.
    assert (Hs1 : assoc (fmap l) (ffreq (h n)) = Some a).
    { apply HM. split; [apply in_mid_intro; exact Hin|exact Hfr]. }
    assert (Hs2 : assoc (fmap l) (ffreq (h n)) = Some n).
    { apply HM. split; [apply in_or_app; right; left; reflexivity|reflexivity]. }
    apply Hnin. congruence.
  - rewrite assoc_del_neq by exact Eg. rewrite HM. split.
    + intros [Hin Hfr]. apply in_elt_inv in Hin. destruct Hin as [Hin|Hin]; [|split; assumption].
      exfalso. subst a. congruence.
    + intros [Hin Hfr]. split; [apply in_mid_intro; exact Hin|exact Hfr].
Qed.

Lemma ifx_unlink : forall l A1 n A2 x,
  IFx l (A1 ++ n :: A2) x -> fitems (fh l n) = [] ->
  IFx (remove_freq_node l n) (A1 ++ A2) x.
Proof.
  intros l A1 n A2 x H Hnil it a Hne.
  rewrite remove_freq_node_eq. unfold lf_set; cbn [fh fhead fmap ifreq falloc lerr].
  rewrite (H it a Hne). rewrite unl_heap_items. split.
  - intros [Hin Hit]. apply in_elt_inv in Hin. destruct Hin as [Hin|Hin]; [|split; assumption].
    subst a. rewrite Hnil in Hit. destruct Hit.
  - intros [Hin Hit]. split; [apply in_mid_intro; exact Hin|exact Hit].
Qed.

(* ------------------------------------------------------------------ reading the invariant *)
Lemma ginv_read : forall l A1 n A2 c1 f ks c2,
  GInv l (A1 ++ n :: A2) (c1 ++ (f, ks) :: c2) -> length A1 = length c1 ->
  ffreq (fh l n) = f /\ fitems (fh l n) = ks.
Proof.
  intros l A1 n A2 c1 f ks c2 [HF _] Hlen.
  destruct (lr_Forall2_unsplit _ _ _ _ _ _ _ _ _ HF Hlen) as [_ [Fn _]]. exact Fn.
Qed.

Lemma ginv_split : forall l addrs c a,
  GInv l addrs c -> In a addrs ->
  exists A1 A2 c1 f ks c2, addrs = A1 ++ a :: A2 /\ c = c1 ++ (f, ks) :: c2 /\
    length A1 = length c1 /\ ffreq (fh l a) = f /\ fitems (fh l a) = ks.
Proof.
  intros l addrs c a HG Ha. destruct (in_split _ _ Ha) as [A1 [A2 E]]. subst addrs.
  destruct HG as [HF _].
  destruct (lr_Forall2_split _ _ _ _ _ _ _ HF) as [c1 [[f ks] [c2 [Ec [_ [Fn [_ Hlen]]]]]]].
  exists A1, A2, c1, f, ks, c2. destruct Fn as [E1 E2]. simpl in E1, E2. auto.
Qed.

Lemma linv_tracked_in : forall l addrs b it a,
  LInvA l addrs b -> assoc (ifreq l) it = Some a -> In it (bitems b).
Proof.
  intros l addrs b it a [_ [[HF _] HIF]] H. apply HIF in H. destruct H as [Ha Hi].
  eapply f2_items_in; eassumption.
Qed.

Lemma linv_untracked_notin : forall l addrs b it,
  LInvA l addrs b -> assoc (ifreq l) it = None -> ~ In it (bitems b).
Proof.
  intros l addrs b it [_ [[HF _] HIF]] H Hi.
  destruct (f2_in_items _ _ _ _ HF Hi) as [a [Ha Hx]].
  assert (Hs : assoc (ifreq l) it = Some a) by (apply HIF; split; assumption). congruence.
Qed.

(* lfu_freq is the frequency of the bucket holding the item *)
Theorem linv_freq : forall l b it, LInv l b ->
  (forall a, assoc (ifreq l) it = Some a -> ffreq (fh l a) = lfu_freq b it /\ 1 <= lfu_freq b it) /\
  (assoc (ifreq l) it = None <-> lfu_freq b it = 0).
Proof.
  intros l b it [addrs HI]. split.
  - intros a Ha. pose proof HI as [[Hasc Hnd] [HG HIF]].
    pose proof (proj1 (HIF it a) Ha) as [Hin Hit].
    destruct (ginv_split _ _ _ _ HG Hin) as [A1 [A2 [c1 [f [ks [c2 [EA [Ec [Hlen [Hf Hks]]]]]]]]]].
    subst b. rewrite bitems_app, bitems_cons in Hnd.
    apply lr_NoDup_app_iff in Hnd. destruct Hnd as [_ [_ Hdis]].
    rewrite Hks in Hit.
    assert (Hn1 : ~ In it (bitems c1)).
    { intro Hi. apply (Hdis it Hi). apply in_or_app. left. exact Hit. }
    rewrite (freq_at c1 f ks c2 it Hn1 Hit). split; [exact Hf|].
    apply asc_app in Hasc. lia.
  - pose proof HI as [[Hasc Hnd] [HG HIF]].
    rewrite (freq_zero_iff b 0 it (Z.le_refl 0) Hasc). split.
    + intro Hn. eapply linv_untracked_notin; eassumption.
    + intro Hn. destruct (assoc (ifreq l) it) as [a|] eqn:E; [|reflexivity].
      exfalso. apply Hn. eapply linv_tracked_in; eassumption.
Qed.

Lemma linv_finish_set : forall l addrs c x t,
  bwf c -> GInv l addrs c -> IFx l addrs x ->
  assoc (ifreq l) x = Some t -> In t addrs -> In x (fitems (fh l t)) -> LInvA l addrs c.
Proof.
  intros l addrs c x t Hb HG HX Hs Ht Hx. split; [exact Hb|]. split; [exact HG|].
  apply (IFx_IF l addrs x HX). intro a. rewrite Hs. split.
  - intro E. injection E as E. subst a. auto.
  - intros [Ha Hxa]. f_equal. destruct HG as [HF _]. destruct Hb as [_ Hnd].
    eapply f2_items_unique; eassumption.
Qed.

Lemma linv_finish_del : forall l addrs c x,
  bwf c -> GInv l addrs c -> IFx l addrs x ->
  assoc (ifreq l) x = None -> ~ In x (bitems c) -> LInvA l addrs c.
Proof.
  intros l addrs c x Hb HG HX Hs Hx. split; [exact Hb|]. split; [exact HG|].
  apply (IFx_IF l addrs x HX). intro a. rewrite Hs. split; [discriminate|].
  intros [Ha Hxa]. exfalso. apply Hx. destruct HG as [HF _]. eapply f2_items_in; eassumption.
Qed.

(* prepend x to the items of bucket t and point itemFreq[x] at t *)
Lemma put_step : forall l A1 t A2 c1 f ks c2 x,
  GInv l (A1 ++ t :: A2) (c1 ++ (f, ks) :: c2) -> length A1 = length c1 ->
  IFx l (A1 ++ t :: A2) x -> ~ In x ks ->
  let l' := lf_set l (f_items (fh l) t (x :: remz (fitems (fh l t)) x)) (fmap l)
                   (assoc_set (ifreq l) x t) (falloc l) in
  GInv l' (A1 ++ t :: A2) (c1 ++ (f, x :: ks) :: c2) /\ IFx l' (A1 ++ t :: A2) x /\
  assoc (ifreq l') x = Some t /\ fitems (fh l' t) = x :: ks.
Proof.
  intros l A1 t A2 c1 f ks c2 x HG Hlen HX Hn.
  destruct (ginv_read _ _ _ _ _ _ _ _ HG Hlen) as [Hf Hks].
  rewrite Hks. rewrite (lr_remz_notin ks x Hn). intro l'. subst l'.
  split; [apply (ginv_set_items l A1 t A2 c1 f ks c2 (x :: ks) _ HG Hlen)|].
  split.
  { apply ifx_set_items; [exact HX| |].
    - intros it Hne. apply assoc_set_neq. exact Hne.
    - intros it Hne. rewrite Hks. simpl. split; [intros [E|E]; [congruence|exact E]|auto]. }
  unfold lf_set; cbn [fh fhead fmap ifreq falloc lerr].
  split; [apply assoc_set_eq|]. rewrite f_items_items, Z.eqb_refl. reflexivity.
Qed.

(* ------------------------------------------------------------------ 1. init *)
Theorem lfu_init_inv : LInv lfu_init [].
Proof.
  exists []. split; [split; [exact I|constructor]|]. split.
  - unfold GInv, lfu_init; cbn [fh fhead fmap ifreq falloc lerr].
    split; [constructor|].
    split; [simpl; unfold fupd; simpl; auto|].
    split; [constructor; [intros []|constructor]|].
    split; [intros a [Ha|[]]; lia|].
    split; [reflexivity|]. split; [reflexivity|].
    split; [|reflexivity].
    intros f a. simpl. split; [discriminate|intros [[] _]].
  - intros it a. simpl. split; [discriminate|intros [[] _]].
Qed.

(* ------------------------------------------------------------------ 2. add *)
Lemma Forall2_In_r : forall (A B : Type) (R : A -> B -> Prop) l1 l2 y,
  Forall2 R l1 l2 -> In y l2 -> exists x, In x l1 /\ R x y.
Proof.
  intros A B R l1 l2 y H. induction H as [|a b0 l1 l2 Hab HF IH]; intros Hy; [destruct Hy|].
  destruct Hy as [Hy|Hy].
  - subst. exists a. split; [left; reflexivity|exact Hab].
  - destruct (IH Hy) as [x [Hx HR]]. exists x. split; [right; exact Hx|exact HR].
Qed.

Theorem lfu_add_refinesA : forall l addrs b it,
  LInvA l addrs b -> assoc (ifreq l) it = None ->
  exists addrs', LInvA (lfu_add_p l it) addrs' (lfu_add b it).
Proof.
  intros l addrs b it HI Hnone.
  pose proof (linv_untracked_notin _ _ _ _ HI Hnone) as Hnotin.
  destruct HI as [Hb [HG HIF]].
  assert (Hb' : bwf (lfu_add b it)) by (apply bwf_add_at; [exact Hb|lia|exact Hnotin]).
  pose proof (IF_IFx l addrs it HIF) as HX.
  unfold lfu_add_p.
  destruct (assoc (fmap l) 1) as [n|] eqn:Hm.
  - rewrite (ensure_index_some _ _ _ _ Hm).
    pose proof HG as [_ [_ [_ [_ [_ [_ [HM _]]]]]]].
    apply HM in Hm. destruct Hm as [Hin Hfr].
    destruct (ginv_split _ _ _ _ HG Hin) as [A1 [A2 [c1 [f [ks [c2 [EA [Ec [Hlen [Hf Hks]]]]]]]]]].
    subst addrs b. rewrite Hfr in Hf. subst f.
    destruct Hb as [Hasc Hnd]. apply asc_app in Hasc. destruct Hasc as [Hlow _].
    assert (Ec1 : c1 = []).
    { destruct c1 as [|fb c1]; [reflexivity|]. inversion Hlow; subst. lia. }
    subst c1. destruct A1; [|discriminate]. simpl app in *.
    assert (Hnk : ~ In it ks).
    { intro Hi. apply Hnotin. rewrite bitems_cons. apply in_or_app. left. exact Hi. }
    assert (Eadd : lfu_add ((1, ks) :: c2) it = (1, it :: ks) :: c2) by reflexivity.
    rewrite Eadd in *.
    destruct (put_step l [] n A2 [] 1 ks c2 it HG eq_refl HX Hnk) as [G' [X' [Hs Hi']]].
    exists (n :: A2). simpl app in *.
    eapply linv_finish_set; [exact Hb'|exact G'|exact X'|exact Hs|left; reflexivity|].
    rewrite Hi'. left. reflexivity.
  - rewrite (ensure_index_none _ _ _ Hm).
    assert (Hhi : Forall (fun fb => 1 < fst fb) b).
    { apply Forall_forall. intros fb Hfb.
      destruct Hb as [Hasc _]. apply asc_lower in Hasc.
      pose proof (proj1 (Forall_forall _ _) Hasc fb Hfb) as Hpos. simpl in Hpos.
      assert (Hne : fst fb <> 1); [|lia].
      intro E. destruct HG as [HF [_ [_ [_ [_ [_ [HM _]]]]]]].
      destruct (Forall2_In_r _ _ _ _ _ _ HF Hfb) as [a [Ha [Hfa _]]].
      assert (Hs : assoc (fmap l) 1 = Some a) by (apply HM; split; [exact Ha|congruence]).
      congruence. }
    assert (Eadd : lfu_add b it = (1, [it]) :: b) by (apply add_at_front; exact Hhi).
    rewrite Eadd in *.
    pose proof (ginv_ensure l [] addrs [] b [] (fhead l) 1 HG eq_refl eq_refl Hm) as G1.
    assert (HB : forall a, In a ([] ++ addrs) -> a < falloc l).
    { intros a Ha. destruct HG as [_ [_ [_ [HB _]]]]. specialize (HB a (or_intror Ha)). lia. }
    pose proof (ifx_ensure l [] addrs (fhead l) 1 it HX HB) as X1.
    set (l1 := ens_lfu l (fhead l) 1) in *.
    assert (Hnk : ~ In it []) by (intros []).
    destruct (put_step l1 [] (falloc l) addrs [] 1 [] b it G1 eq_refl X1 Hnk) as [G' [X' [Hs Hi']]].
    exists (falloc l :: addrs). simpl app in *.
    eapply linv_finish_set; [exact Hb'|exact G'|exact X'|exact Hs|left; reflexivity|].
    rewrite Hi'. left. reflexivity.
Qed.

Theorem lfu_add_refines : forall l b it,
  LInv l b -> assoc (ifreq l) it = None -> LInv (lfu_add_p l it) (lfu_add b it).
Proof. intros l b it [addrs HI] Hn. eapply lfu_add_refinesA; eassumption. Qed.

(* ------------------------------------------------------------------ 4. remove *)
Lemma remz_iff_neq : forall ks x it, it <> x -> (In it (remz ks x) <-> In it ks).
Proof.
  intros ks x it Hne. split; [apply lr_remz_In|apply lr_remz_In_neq; exact Hne].
Qed.

Theorem lfu_remove_refinesA : forall l addrs b it,
  LInvA l addrs b -> exists addrs', LInvA (lfu_remove_p l it) addrs' (lfu_remove b it).
Proof.
  intros l addrs b it HI. unfold lfu_remove_p.
  destruct (assoc (ifreq l) it) as [n|] eqn:Hs.
  - pose proof HI as [Hb [HG HIF]].
    assert (Hb' : bwf (lfu_remove b it)) by (apply bwf_remove; exact Hb).
    assert (Hnot' : ~ In it (bitems (lfu_remove b it))).
    { apply bitems_remove_notin. apply Hb. }
    pose proof (proj1 (HIF it n) Hs) as [Hin Hit].
    destruct (ginv_split _ _ _ _ HG Hin) as [A1 [A2 [c1 [f [ks [c2 [EA [Ec [Hlen [Hf Hks]]]]]]]]]].
    subst addrs b. rewrite Hks in *.
    destruct Hb as [Hasc Hnd].
    apply asc_app in Hasc. destruct Hasc as [_ [Hfpos _]].
    rewrite bitems_app, bitems_cons in Hnd.
    apply lr_NoDup_app_iff in Hnd. destruct Hnd as [_ [_ Hdis]].
    assert (Hn1 : ~ In it (bitems c1)).
    { intro Hi. apply (Hdis it Hi). apply in_or_app. left. exact Hit. }
    rewrite (remove_at c1 f ks c2 it Hn1 Hit) in *.
    cbv zeta.
    set (l1 := lf_set l (f_items (fh l) n (remz ks it)) (fmap l) (assoc_del (ifreq l) it) (falloc l)).
    assert (G1 : GInv l1 (A1 ++ n :: A2) (c1 ++ (f, remz ks it) :: c2)).
    { apply (ginv_set_items l A1 n A2 c1 f ks c2 (remz ks it) _ HG Hlen). }
    assert (X1 : IFx l1 (A1 ++ n :: A2) it).
    { apply ifx_set_items; [apply IF_IFx; exact HIF| |].
      - intros it' Hne. apply assoc_del_neq. exact Hne.
      - intros it' Hne. rewrite Hks. apply remz_iff_neq. exact Hne. }
    assert (S1 : assoc (ifreq l1) it = None) by apply assoc_del_eq.
    destruct (ginv_read _ _ _ _ _ _ _ _ G1 Hlen) as [Hf1 Hi1].
    rewrite Hi1, Hf1.
    destruct (remz ks it) as [|z r] eqn:Er.
    + destruct (Z.eqb_spec f 0) as [E|E]; [lia|].
      exists (A1 ++ A2).
      apply (linv_finish_del _ _ _ it Hb').
      * eapply ginv_unlink; eassumption.
      * apply ifx_unlink; assumption.
      * exact S1.
      * exact Hnot'.
    + exists (A1 ++ n :: A2).
      apply (linv_finish_del _ _ _ it Hb' G1 X1 S1 Hnot').
  - exists addrs. rewrite remove_notin; [exact HI|].
    eapply linv_untracked_notin; eassumption.
Qed.

Theorem lfu_remove_refines : forall l b it,
  LInv l b -> LInv (lfu_remove_p l it) (lfu_remove b it).
Proof. intros l b it [addrs HI]. eapply lfu_remove_refinesA; eassumption. Qed.

Theorem lfu_remove_untracked : forall l it, assoc (ifreq l) it = None -> lfu_remove_p l it = l.
Proof. intros l it H. unfold lfu_remove_p. rewrite H. reflexivity. Qed.

(* ------------------------------------------------------------------ 5. removeLFU *)
Lemma linv_first : forall l addrs b,
  LInvA l addrs b ->
  (b = [] /\ addrs = [] /\ fnext (fh l (fhead l)) = fhead l) \/
  (exists a A f ks r, addrs = a :: A /\ b = (f, ks) :: r /\ fnext (fh l (fhead l)) = a /\
     a <> fhead l /\ ffreq (fh l a) = f /\ fitems (fh l a) = ks /\ ks <> [] /\ 0 < f).
Proof.
  intros l addrs b [[Hasc _] [[HF [HL [HN _]]] _]].
  destruct addrs as [|a A].
  - left. inversion HF; subst. simpl in HL. tauto.
  - right. inversion HF as [|a' [f ks] A' r Hab HF']; subst.
    exists a, A, f, ks, r. simpl in HL. destruct HL as [HL1 _].
    destruct Hab as [E1 E2]. simpl in E1, E2. simpl in Hasc. destruct Hasc as [Hpos [Hne _]].
    split; [reflexivity|]. split; [reflexivity|]. split; [exact HL1|].
    split.
    { intro E. inversion HN as [|hd' L' Hhd _]; subst hd' L'. apply Hhd. left. exact E. }
    auto.
Qed.

(* in the accepted case removeLFU is remove of the picked item *)
Lemma remove_lfu_as_remove : forall l addrs b pick,
  LInvA l addrs b -> b <> [] -> memz (lfu_min_bucket b) pick = true ->
  lfu_remove_lfu_p l pick = (lfu_remove_p l pick, pick).
Proof.
  intros l addrs b pick HI Hne Hmem.
  destruct (linv_first _ _ _ HI) as [[Eb _]|[a [A [f [ks [r [EA [Eb [Hn [Hah [Hf [Hks [Hkne Hfpos]]]]]]]]]]]]];
    [contradiction|].
  subst b addrs. simpl in Hmem.
  assert (Hs : assoc (ifreq l) pick = Some a).
  { destruct HI as [_ [_ HIF]]. apply HIF. split; [left; reflexivity|].
    rewrite Hks. apply lr_memz_In. exact Hmem. }
  unfold lfu_remove_lfu_p, lfu_remove_p. rewrite Hs, Hn.
  destruct (Z.eqb_spec a (fhead l)) as [E|E]; [contradiction|].
  rewrite Hks. destruct ks as [|k0 ks0]; [congruence|].
  rewrite Hmem. cbv zeta.
  unfold lf_set; cbn [fh fhead fmap ifreq falloc lerr].
  rewrite f_items_items, f_items_freq, Z.eqb_refl, Hf.
  destruct (remz (k0 :: ks0) pick); [|reflexivity].
  destruct (Z.eqb_spec f 0); [lia|reflexivity].
Qed.

Theorem lfu_remove_lfu_refines : forall l b pick,
  LInv l b ->
  (b = [] /\ lfu_remove_lfu_p l pick = (l, 0)) \/
  (b <> [] /\ memz (lfu_min_bucket b) pick = true /\
     snd (lfu_remove_lfu_p l pick) = pick /\
     LInv (fst (lfu_remove_lfu_p l pick)) (lfu_remove b pick)) \/
  (b <> [] /\ memz (lfu_min_bucket b) pick = false /\
     snd (lfu_remove_lfu_p l pick) = 0 /\ lerr (fst (lfu_remove_lfu_p l pick)) = true).
Proof.
  intros l b pick [addrs HI].
  destruct (linv_first _ _ _ HI) as [[Eb [EA Hn]]|[a [A [f [ks [r [EA [Eb [Hn [Hah [Hf [Hks [Hkne Hfpos]]]]]]]]]]]]].
  - left. split; [exact Eb|]. unfold lfu_remove_lfu_p. rewrite Hn, Z.eqb_refl. reflexivity.
  - right. assert (Hbne : b <> []) by (subst b; discriminate).
    destruct (memz (lfu_min_bucket b) pick) eqn:Hmem.
    + left. split; [exact Hbne|]. split; [reflexivity|].
      rewrite (remove_lfu_as_remove l addrs b pick HI Hbne Hmem). simpl.
      split; [reflexivity|]. eapply lfu_remove_refinesA. exact HI.
    + right. split; [exact Hbne|]. split; [reflexivity|].
      subst b. simpl in Hmem.
      unfold lfu_remove_lfu_p. rewrite Hn.
      destruct (Z.eqb_spec a (fhead l)) as [E|E]; [contradiction|].
      rewrite Hks. destruct ks as [|k0 ks0]; [congruence|].
      rewrite Hmem. simpl. auto.
Qed.

(* the minimum bucket really is the minimum-frequency bucket *)
Theorem min_bucket_is_min : forall b k it,
  bwf b -> In k (lfu_min_bucket b) -> In it (bitems b) -> lfu_freq b k <= lfu_freq b it.
Proof.
  intros [|[f ks] r] k it [Hasc Hnd] Hk Hit; [destruct Hk|].
  simpl in Hk. simpl lfu_freq.
  apply lr_memz_In in Hk. rewrite Hk.
  destruct (memz ks it) eqn:E; [lia|].
  apply lr_memz_false in E. rewrite bitems_cons in Hit. apply in_app_or in Hit.
  destruct Hit as [Hit|Hit]; [contradiction|].
  simpl in Hasc. destruct Hasc as [_ [_ Hasc]].
  pose proof (freq_lower r f it Hasc Hit). lia.
Qed.

(* whenever removeLFU does not flag an error on a non-empty ring, its victim is in the minimum bucket *)
Corollary lfu_remove_lfu_victim : forall l b pick,
  LInv l b -> b <> [] -> lerr (fst (lfu_remove_lfu_p l pick)) = false ->
  snd (lfu_remove_lfu_p l pick) = pick /\ In pick (lfu_min_bucket b) /\
  (forall it, In it (bitems b) -> lfu_freq b pick <= lfu_freq b it).
Proof.
  intros l b pick HI Hne Herr.
  pose proof HI as [addrs [Hb _]].
  destruct (lfu_remove_lfu_refines l b pick HI) as [[E _]|[[_ [Hm [Hs _]]]|[_ [_ [_ He]]]]].
  - contradiction.
  - apply lr_memz_In in Hm. split; [exact Hs|]. split; [exact Hm|].
    intros it Hit. apply min_bucket_is_min; assumption.
  - congruence.
Qed.

(* ------------------------------------------------------------------ 3. increment *)
Lemma increment_at : forall b1 f ks b2 lo it,
  0 <= lo -> asc lo (b1 ++ (f, ks) :: b2) -> ~ In it (bitems b1) -> In it ks ->
  lfu_increment (b1 ++ (f, ks) :: b2) it =
  b1 ++ match remz ks it with
        | [] => lfu_add_at b2 (f + 1) it
        | ks' => (f, ks') :: lfu_add_at b2 (f + 1) it
        end.
Proof.
  intros b1 f ks b2 lo it Hlo Hasc Hn1 Hit.
  apply asc_app in Hasc. destruct Hasc as [Hlow [Hf _]].
  unfold lfu_increment. rewrite (freq_at b1 f ks b2 it Hn1 Hit).
  destruct (Z.eqb_spec f 0) as [E|E]; [lia|].
  rewrite (remove_at b1 f ks b2 it Hn1 Hit).
  rewrite add_at_skip.
  2:{ eapply Forall_impl; [|exact Hlow]. simpl. intros; lia. }
  destruct (remz ks it) as [|z r]; [reflexivity|].
  simpl lfu_add_at.
  destruct (Z.eqb_spec f (f + 1)) as [E1|E1]; [lia|].
  destruct (Z.ltb_spec (f + 1) f) as [L|L]; [lia|]. reflexivity.
Qed.

Lemma bwf_increment : forall b it, bwf b -> bwf (lfu_increment b it).
Proof.
  intros b it Hb. unfold lfu_increment.
  destruct (Z.eqb_spec (lfu_freq b it) 0) as [E|E].
  - apply bwf_add_at; [exact Hb|lia|].
    apply (freq_zero_iff b 0 it (Z.le_refl 0)); [apply Hb|exact E].
  - assert (Hin : In it (bitems b)).
    { destruct (In_dec Z.eq_dec it (bitems b)) as [Hi|Hi]; [exact Hi|].
      exfalso. apply E. apply (freq_zero_iff b 0 it (Z.le_refl 0)); [apply Hb|exact Hi]. }
    pose proof (freq_lower b 0 it (proj1 Hb) Hin) as Hpos.
    apply bwf_add_at; [apply bwf_remove; exact Hb|lia|].
    apply bitems_remove_notin. apply Hb.
Qed.

Lemma freq_absent : forall (b1 : list (Z * list Z)) (f : Z) (ks : list Z) (b2 : list (Z * list Z)) (g : Z),
  Forall (fun fb => fst fb < g) b1 -> f < g -> Forall (fun fb => g < fst fb) b2 ->
  ~ In g (map fst (b1 ++ (f, ks) :: b2)).
Proof.
  intros b1 f ks b2 g H1 Hf H2 Hi. rewrite map_app in Hi. apply in_app_or in Hi.
  destruct Hi as [Hi|[Hi|Hi]].
  - apply in_map_iff in Hi. destruct Hi as [fb [E Hfb]].
    pose proof (proj1 (Forall_forall _ _) H1 fb Hfb) as Hlt. simpl in Hlt. lia.
  - simpl in Hi. lia.
  - apply in_map_iff in Hi. destruct Hi as [fb [E Hfb]].
    pose proof (proj1 (Forall_forall _ _) H2 fb Hfb) as Hlt. simpl in Hlt. lia.
Qed.

(* common tail of increment: unlink cur if it became empty *)
Lemma incr_tail : forall l2 A1 cur T b1 f rk X it t,
  GInv l2 (A1 ++ cur :: T) (b1 ++ (f, rk) :: X) -> length A1 = length b1 ->
  IFx l2 (A1 ++ cur :: T) it ->
  assoc (ifreq l2) it = Some t -> In t T -> In it (fitems (fh l2 t)) -> 0 < f ->
  bwf (b1 ++ match rk with [] => X | z :: r => (f, z :: r) :: X end) ->
  exists addrs',
    LInvA (match fitems (fh l2 cur) with
           | [] => if ffreq (fh l2 cur) =? 0 then l2 else remove_freq_node l2 cur
           | _ :: _ => l2
           end) addrs' (b1 ++ match rk with [] => X | z :: r => (f, z :: r) :: X end).
Proof.
  intros l2 A1 cur T b1 f rk X it t HG Hlen HX Hs Ht Hit Hf Hb.
  destruct (ginv_read _ _ _ _ _ _ _ _ HG Hlen) as [Hf2 Hi2].
  rewrite Hi2, Hf2.
  destruct rk as [|z r].
  - destruct (Z.eqb_spec f 0) as [E|E]; [lia|].
    exists (A1 ++ T).
    apply (linv_finish_set _ _ _ it t Hb).
    + eapply ginv_unlink; eassumption.
    + apply ifx_unlink; assumption.
    + exact Hs.
    + apply in_or_app. right. exact Ht.
    + rewrite remove_freq_node_eq. unfold lf_set; cbn [fh fhead fmap ifreq falloc lerr].
      rewrite unl_heap_items. exact Hit.
  - exists (A1 ++ cur :: T).
    apply (linv_finish_set _ _ _ it t Hb HG HX Hs); [|exact Hit].
    apply in_or_app. right. right. exact Ht.
Qed.

Theorem lfu_increment_tracked_refinesA : forall l addrs b it cur,
  LInvA l addrs b -> assoc (ifreq l) it = Some cur ->
  exists addrs', LInvA (lfu_increment_p l it) addrs' (lfu_increment b it).
Proof.
  intros l addrs b it cur HI Hs.
  pose proof HI as [Hb [HG HIF]].
  pose proof (bwf_increment b it Hb) as Hb'.
  pose proof (proj1 (HIF it cur) Hs) as [Hin Hit].
  destruct (ginv_split _ _ _ _ HG Hin) as [A1 [A2 [b1 [f [ks [b2 [EA [Ec [Hlen [Hf Hks]]]]]]]]]].
  subst addrs b. rewrite Hks in Hit.
  destruct Hb as [Hasc Hnd].
  pose proof (asc_app _ _ _ _ _ Hasc) as [Hlow [Hfpos [Hkne Hasc2]]].
  rewrite bitems_app, bitems_cons in Hnd.
  apply lr_NoDup_app_iff in Hnd. destruct Hnd as [_ [Hnd2 Hdis]].
  apply lr_NoDup_app_iff in Hnd2. destruct Hnd2 as [Hndk [_ Hdis2]].
  assert (Hn1 : ~ In it (bitems b1)).
  { intro Hi. apply (Hdis it Hi). apply in_or_app. left. exact Hit. }
  assert (Hn2 : ~ In it (bitems b2)).
  { intro Hi. exact (Hdis2 it Hit Hi). }
  rewrite (increment_at b1 f ks b2 0 it (Z.le_refl 0) Hasc Hn1 Hit) in *.
  unfold lfu_increment_p. rewrite Hs. cbv zeta. rewrite Hf, Hks.
  set (l0 := lf_set l (f_items (fh l) cur (remz ks it)) (fmap l) (ifreq l) (falloc l)).
  assert (G0 : GInv l0 (A1 ++ cur :: A2) (b1 ++ (f, remz ks it) :: b2)).
  { apply (ginv_set_items l A1 cur A2 b1 f ks b2 (remz ks it) _ HG Hlen). }
  assert (X0 : IFx l0 (A1 ++ cur :: A2) it).
  { apply ifx_set_items; [apply IF_IFx; exact HIF| |].
    - intros it' Hne. reflexivity.
    - intros it' Hne. rewrite Hks. apply remz_iff_neq. exact Hne. }
  (* the successor of cur *)
  assert (HLc : links (fh l0) cur (A2 ++ [fhead l0])).
  { destruct G0 as [_ [HL _]]. rewrite <- app_assoc in HL. simpl in HL.
    apply links_app in HL. tauto. }
  assert (Hlen' : length (A1 ++ [cur]) = length (b1 ++ [(f, remz ks it)])).
  { rewrite !app_length. simpl. lia. }
  assert (RA : forall Y, A1 ++ cur :: Y = (A1 ++ [cur]) ++ Y).
  { intro Y. rewrite <- app_assoc. reflexivity. }
  assert (RB : forall Y, b1 ++ (f, remz ks it) :: Y = (b1 ++ [(f, remz ks it)]) ++ Y).
  { intro Y. rewrite <- app_assoc. reflexivity. }
  (* the two ways of reaching the target bucket *)
  assert (Hens : Forall (fun fb => f + 1 < fst fb) b2 ->
    exists addrs',
      LInvA (let '(l1, target) := ensure_index l0 cur (f + 1) in
             let l2 := lf_set l1 (f_items (fh l1) target (it :: remz (fitems (fh l1 target)) it))
                              (fmap l1) (assoc_set (ifreq l1) it target) (falloc l1) in
             match fitems (fh l2 cur) with
             | [] => if ffreq (fh l2 cur) =? 0 then l2 else remove_freq_node l2 cur
             | _ :: _ => l2
             end) addrs'
        (b1 ++ match remz ks it with
               | [] => lfu_add_at b2 (f + 1) it
               | z :: r => (f, z :: r) :: lfu_add_at b2 (f + 1) it
               end)).
  { intro Hhi.
    assert (Hm : assoc (fmap l0) (f + 1) = None).
    { destruct (assoc (fmap l0) (f + 1)) as [a|] eqn:E; [|reflexivity]. exfalso.
      pose proof G0 as [HF0 [_ [_ [_ [_ [_ [HM0 _]]]]]]].
      apply HM0 in E. destruct E as [Ha Hfa].
      pose proof (f2_freq_in _ _ _ _ HF0 Ha) as Hfi. rewrite Hfa in Hfi.
      revert Hfi. apply freq_absent; [|lia|exact Hhi].
      eapply Forall_impl; [|exact Hlow]. simpl. intros; lia. }
    rewrite (ensure_index_none _ _ _ Hm).
    rewrite (add_at_front b2 (f + 1) it Hhi) in *.
    rewrite RA, RB in G0.
    assert (HQ : fhead l0 :: A1 ++ [cur] = (fhead l0 :: A1) ++ [cur]) by reflexivity.
    pose proof (ginv_ensure l0 (A1 ++ [cur]) A2 (b1 ++ [(f, remz ks it)]) b2
                  (fhead l0 :: A1) cur (f + 1) G0 Hlen' HQ Hm) as G1.
    assert (HB : forall a, In a ((A1 ++ [cur]) ++ A2) -> a < falloc l0).
    { intros a Ha. destruct G0 as [_ [_ [_ [HB _]]]]. specialize (HB a (or_intror Ha)). lia. }
    rewrite RA in X0.
    pose proof (ifx_ensure l0 (A1 ++ [cur]) A2 cur (f + 1) it X0 HB) as X1.
    set (l1 := ens_lfu l0 cur (f + 1)) in *.
    assert (Hnk : ~ In it []) by (intros []).
    destruct (put_step l1 (A1 ++ [cur]) (falloc l0) A2 (b1 ++ [(f, remz ks it)]) (f + 1) [] b2 it
                G1 Hlen' X1 Hnk) as [G2 [X2 [S2 I2]]].
    cbv zeta in G2, X2, S2, I2.
    rewrite <- RA in G2, X2. rewrite <- RB in G2.
    cbv beta iota zeta.
    eapply (incr_tail _ A1 cur (falloc l0 :: A2) b1 f (remz ks it) ((f + 1, [it]) :: b2) it (falloc l0));
      [exact G2|exact Hlen|exact X2|exact S2|left; reflexivity| |exact Hfpos|].
    - rewrite I2. left. reflexivity.
    - destruct (remz ks it); exact Hb'. }
  destruct A2 as [|a2 A2'].
  - (* cur is the last bucket *)
    assert (Eb2 : b2 = []).
    { destruct G0 as [HF0 _]. apply lr_Forall2_unsplit in HF0; [|exact Hlen].
      destruct HF0 as [_ [_ F2]]. inversion F2. reflexivity. }
    subst b2.
    assert (Hnx : fnext (fh l0 cur) = fhead l0) by (simpl in HLc; tauto).
    rewrite Hnx, Z.eqb_refl. cbn [orb].
    apply Hens. constructor.
  - assert (Eb2 : exists g ks2 b3, b2 = (g, ks2) :: b3 /\ ffreq (fh l0 a2) = g /\ fitems (fh l0 a2) = ks2).
    { destruct G0 as [HF0 _]. apply lr_Forall2_unsplit in HF0; [|exact Hlen].
      destruct HF0 as [_ [_ F2]]. inversion F2 as [|x [g ks2] L b3 Hab _]; subst.
      exists g, ks2, b3. destruct Hab as [E1 E2]. simpl in E1, E2. auto. }
    destruct Eb2 as [g [ks2 [b3 [Eb2 [Hg Hk2]]]]]. subst b2.
    assert (Hnx : fnext (fh l0 cur) = a2) by (simpl in HLc; tauto).
    rewrite Hnx. rewrite Hg. clear Hg.
    assert (Ha2 : a2 <> fhead l0).
    { destruct G0 as [_ [_ [HN _]]]. inversion HN as [|hd' L' Hhd _]; subst hd' L'.
      intro E. apply Hhd. apply in_or_app. right. right. left. exact E. }
    destruct (Z.eqb_spec a2 (fhead l0)) as [E|_]; [contradiction|]. cbn [orb].
    simpl in Hasc2. destruct Hasc2 as [Hfg [Hk2ne Hasc3]].
    destruct (Z.eqb_spec g (f + 1)) as [Eg|Eg]; cbn [negb].
    + (* the next bucket has the new frequency *)
      subst g.
      assert (Hnk : ~ In it ks2).
      { intro Hi. apply Hn2. rewrite bitems_cons. apply in_or_app. left. exact Hi. }
      assert (Eadd : lfu_add_at ((f + 1, ks2) :: b3) (f + 1) it = (f + 1, it :: ks2) :: b3).
      { simpl. rewrite Z.eqb_refl. reflexivity. }
      rewrite Eadd in *.
      rewrite RA, RB in G0. rewrite RA in X0.
      destruct (put_step l0 (A1 ++ [cur]) a2 A2' (b1 ++ [(f, remz ks it)]) (f + 1) ks2 b3 it
                  G0 Hlen' X0 Hnk) as [G2 [X2 [S2 I2]]].
      cbv zeta in G2, X2, S2, I2.
      rewrite <- RA in G2, X2. rewrite <- RB in G2.
      cbv beta iota zeta.
      eapply (incr_tail _ A1 cur (a2 :: A2') b1 f (remz ks it) ((f + 1, it :: ks2) :: b3) it a2);
        [exact G2|exact Hlen|exact X2|exact S2|left; reflexivity| |exact Hfpos|].
      * rewrite I2. left. reflexivity.
      * destruct (remz ks it); exact Hb'.
    + apply Hens. constructor; [simpl; lia|].
      apply asc_lower in Hasc3. eapply Forall_impl; [|exact Hasc3]. simpl. intros; lia.
Qed.

Theorem lfu_increment_refinesA : forall l addrs b it,
  LInvA l addrs b -> exists addrs', LInvA (lfu_increment_p l it) addrs' (lfu_increment b it).
Proof.
  intros l addrs b it HI.
  destruct (assoc (ifreq l) it) as [cur|] eqn:Hs.
  - eapply lfu_increment_tracked_refinesA; eassumption.
  - assert (E0 : lfu_freq b it = 0).
    { destruct (linv_freq l b it) as [_ Hz]; [exists addrs; exact HI|]. apply Hz. exact Hs. }
    assert (E1 : lfu_increment_p l it = lfu_add_p l it).
    { unfold lfu_increment_p. rewrite Hs. reflexivity. }
    assert (E2 : lfu_increment b it = lfu_add b it).
    { unfold lfu_increment. rewrite E0. reflexivity. }
    rewrite E1, E2. apply (lfu_add_refinesA l addrs b it HI Hs).
Qed.

Theorem lfu_increment_refines : forall l b it,
  LInv l b -> LInv (lfu_increment_p l it) (lfu_increment b it).
Proof. intros l b it [addrs HI]. eapply lfu_increment_refinesA; eassumption. Qed.

(* ------------------------------------------------------------------ reading the ring back *)
Fixpoint ring_buckets (fuel : nat) (l : lfu) (p : Z) : list (Z * list Z) :=
  match fuel with
  | O => []
  | S k => if p =? fhead l then []
           else (ffreq (fh l p), fitems (fh l p)) :: ring_buckets k l (fnext (fh l p))
  end.

Lemma ring_buckets_links : forall l A c x fuel,
  links (fh l) x (A ++ [fhead l]) -> Forall2 (bucket_at (fh l)) A c -> ~ In (fhead l) A ->
  (length A < fuel)%nat -> ring_buckets fuel l (fnext (fh l x)) = c.
Proof.
  intros l A. induction A as [|a A IH]; intros c x fuel HL HF Hn Hfu.
  - inversion HF; subst. simpl in HL. destruct HL as [E _].
    destruct fuel as [|k]; [simpl in Hfu; lia|]. simpl. rewrite E, Z.eqb_refl. reflexivity.
  - inversion HF as [|a' [f ks] A' c' Hab HF']; subst.
    simpl in HL. destruct HL as [E [_ HL]].
    destruct fuel as [|k]; [simpl in Hfu; lia|]. simpl. rewrite E.
    destruct (Z.eqb_spec a (fhead l)) as [E1|E1]; [exfalso; apply Hn; left; exact E1|].
    destruct Hab as [E2 E3]. simpl in E2, E3. rewrite E2, E3. f_equal.
    apply IH; [exact HL|exact HF'| |simpl in Hfu; lia].
    intro Hi. apply Hn. right. exact Hi.
Qed.

(* walking fnext from the sentinel reads exactly the abstract bucket list *)
Theorem linv_walk : forall l b fuel, LInv l b -> (length b < fuel)%nat ->
  ring_buckets fuel l (fnext (fh l (fhead l))) = b.
Proof.
  intros l b fuel [addrs [_ [[HF [HL [HN _]]] _]]] Hfu.
  apply (ring_buckets_links l addrs b (fhead l) fuel HL HF).
  - inversion HN; assumption.
  - rewrite (lr_Forall2_length _ _ _ _ _ HF). exact Hfu.
Qed.

Theorem linv_no_error : forall l b, LInv l b -> lerr l = false.
Proof. intros l b [addrs [_ [HG _]]]. apply HG. Qed.

(* ------------------------------------------------------------------ 6. operation sequences *)
Inductive lfu_op := LAdd (it : Z) | LInc (it : Z) | LRem (it : Z) | LRemLfu (pick : Z).

Definition lfu_abs_step (b : list (Z * list Z)) (op : lfu_op) : list (Z * list Z) :=
  match op with
  | LAdd it => lfu_add b it
  | LInc it => lfu_increment b it
  | LRem it => lfu_remove b it
  | LRemLfu pick => lfu_remove b pick
  end.

Definition lfu_op_ok (b : list (Z * list Z)) (op : lfu_op) : bool :=
  match op with
  | LAdd it => lfu_freq b it =? 0
  | LRemLfu pick => match b with [] => true | _ :: _ => memz (lfu_min_bucket b) pick end
  | _ => true
  end.

Definition lfu_p_step (l : lfu) (op : lfu_op) : lfu :=
  match op with
  | LAdd it => lfu_add_p l it
  | LInc it => lfu_increment_p l it
  | LRem it => lfu_remove_p l it
  | LRemLfu pick => fst (lfu_remove_lfu_p l pick)
  end.

Fixpoint lfu_ops_ok (b : list (Z * list Z)) (ops : list lfu_op) : bool :=
  match ops with
  | [] => true
  | op :: r => lfu_op_ok b op && lfu_ops_ok (lfu_abs_step b op) r
  end.

Theorem lfu_step_refines : forall l b op,
  LInv l b -> lfu_op_ok b op = true -> LInv (lfu_p_step l op) (lfu_abs_step b op).
Proof.
  intros l b op HI Hok. destruct op as [it|it|it|pick]; simpl in *.
  - apply lfu_add_refines; [exact HI|].
    apply (linv_freq l b it HI). apply Z.eqb_eq. exact Hok.
  - apply lfu_increment_refines. exact HI.
  - apply lfu_remove_refines. exact HI.
  - destruct (lfu_remove_lfu_refines l b pick HI) as [[E1 E2]|[[_ [_ [_ H]]]|[Hne [Hm _]]]].
    + subst b. rewrite E2. simpl. exact HI.
    + exact H.
    + destruct b; [contradiction|congruence].
Qed.

Theorem lfu_ops_refine_from : forall ops l b,
  LInv l b -> lfu_ops_ok b ops = true ->
  LInv (fold_left lfu_p_step ops l) (fold_left lfu_abs_step ops b).
Proof.
  induction ops as [|op r IH]; intros l b HI Hok; simpl in *; [exact HI|].
  apply andb_true_iff in Hok. destruct Hok as [H1 H2].
  apply IH; [|exact H2]. apply lfu_step_refines; assumption.
Qed.

(* the sequence theorem *)
Theorem lfu_ring_refines : forall ops,
  lfu_ops_ok [] ops = true ->
  LInv (fold_left lfu_p_step ops lfu_init) (fold_left lfu_abs_step ops []).
Proof. intros ops H. apply lfu_ops_refine_from; [exact lfu_init_inv|exact H]. Qed.

Lemma lfu_ops_ok_prefix : forall ops1 ops2 b,
  lfu_ops_ok b (ops1 ++ ops2) = true -> lfu_ops_ok b ops1 = true.
Proof.
  induction ops1 as [|op r IH]; intros ops2 b H; simpl in *; [reflexivity|].
  apply andb_true_iff in H. destruct H as [H1 H2]. rewrite H1. simpl. eapply IH. exact H2.
Qed.

(* no reachable state (any prefix of a guarded run) has the error flag set, and walking the
   ring of the reached state reads exactly the abstract bucket list *)
Corollary lfu_ring_no_error : forall ops1 ops2,
  lfu_ops_ok [] (ops1 ++ ops2) = true -> lerr (fold_left lfu_p_step ops1 lfu_init) = false.
Proof.
  intros ops1 ops2 H. eapply linv_no_error. apply lfu_ring_refines.
  eapply lfu_ops_ok_prefix. exact H.
Qed.

Corollary lfu_ring_walk : forall ops,
  lfu_ops_ok [] ops = true ->
  let l := fold_left lfu_p_step ops lfu_init in
  let b := fold_left lfu_abs_step ops [] in
  ring_buckets (S (length b)) l (fnext (fh l (fhead l))) = b.
Proof. intros ops H l b. apply linv_walk; [apply lfu_ring_refines; exact H|lia]. Qed.

(* ------------------------------------------------------------------ 7. non-vacuity *)
(* two items climb, bucket 1 is emptied and unlinked (LInc 2), a new bucket 1 is allocated
   in front (LAdd 3), a bucket is allocated in the middle/end (LInc 1), and the minimum bucket is
   emptied and unlinked by removeLFU *)
Definition lfu_ex_ops6 : list lfu_op := [LAdd 1; LAdd 2; LInc 1; LInc 2; LAdd 3; LInc 1].
Definition lfu_ex_ops : list lfu_op := lfu_ex_ops6 ++ [LRemLfu 3].

Example lfu_ex_guard : lfu_ops_ok [] lfu_ex_ops = true.
Proof. vm_compute. reflexivity. Qed.

Example lfu_ex_abs6 : fold_left lfu_abs_step lfu_ex_ops6 [] = [(1, [3]); (2, [2]); (3, [1])].
Proof. vm_compute. reflexivity. Qed.

Example lfu_ex_abs : fold_left lfu_abs_step lfu_ex_ops [] = [(2, [2]); (3, [1])].
Proof. vm_compute. reflexivity. Qed.

Example lfu_ex_inv6 :
  LInv (fold_left lfu_p_step lfu_ex_ops6 lfu_init) [(1, [3]); (2, [2]); (3, [1])].
Proof.
  rewrite <- lfu_ex_abs6. apply lfu_ring_refines.
  apply (lfu_ops_ok_prefix lfu_ex_ops6 [LRemLfu 3]). exact lfu_ex_guard.
Qed.

Example lfu_ex_inv :
  LInv (fold_left lfu_p_step lfu_ex_ops lfu_init) [(2, [2]); (3, [1])].
Proof. rewrite <- lfu_ex_abs. apply lfu_ring_refines. exact lfu_ex_guard. Qed.

(* the concrete heap of these states, computed: ring walk, full dump, and raw fields
   (address, freq, items, prev, next) of every allocated bucket *)
Example lfu_ex_walk6 :
  let l := fold_left lfu_p_step lfu_ex_ops6 lfu_init in
  ring_buckets 10 l (fnext (fh l (fhead l))) = [(1, [3]); (2, [2]); (3, [1])].
Proof. vm_compute. reflexivity. Qed.

Example lfu_ex_walk :
  let l := fold_left lfu_p_step lfu_ex_ops lfu_init in
  ring_buckets 10 l (fnext (fh l (fhead l))) = [(2, [2]); (3, [1])].
Proof. vm_compute. reflexivity. Qed.

Example lfu_ex_dump6 :
  ldump (fold_left lfu_p_step lfu_ex_ops6 lfu_init) 3 =
  [1; 1; 3;  2; 1; 2;  3; 1; 1;  -2; 3; 2; 1;  -3; 1; 2; 3;  -4; 1; 3; 2; 2; 3; 1;  0].
Proof. vm_compute. reflexivity. Qed.

Example lfu_ex_dump :
  ldump (fold_left lfu_p_step lfu_ex_ops lfu_init) 3 =
  [2; 1; 2;  3; 1; 1;  -2; 3; 2;  -3; 2; 3;  -4; 1; 3; 2; 2;  0].
Proof. vm_compute. reflexivity. Qed.

Example lfu_ex_fields :
  let l := fold_left lfu_p_step lfu_ex_ops lfu_init in
  (fhead l, fmap l, ifreq l, falloc l, lerr l,
   map (fun a => (a, ffreq (fh l a), fitems (fh l a), fprev (fh l a), fnext (fh l a))) [1; 3; 5]) =
  (1, [(3, 5); (2, 3)], [(1, 5); (2, 3)], 6, false,
   [(1, 0, [], 5, 3); (3, 2, [2], 1, 5); (5, 3, [1], 3, 1)]).
Proof. vm_compute. reflexivity. Qed.

(* a pick outside the minimum bucket is refused with the error flag *)
Example lfu_ex_bad_pick :
  let r := lfu_remove_lfu_p (fold_left lfu_p_step lfu_ex_ops6 lfu_init) 2 in
  (snd r, lerr (fst r)) = (0, true).
Proof. vm_compute. reflexivity. Qed.

(* Remark: the guard on LAdd is needed.  add of an item that is already in the
   frequency-1 bucket moves it to the front in the ring (it :: remz items it) but
   duplicates it in the list model (k :: ks); lfu.go only calls add for new items. *)
Example lfu_add_unguarded_refuted :
  let l := lfu_add_p (lfu_add_p lfu_init 5) 5 in
  ring_buckets 3 l (fnext (fh l (fhead l))) = [(1, [5])] /\
  lfu_add (lfu_add [] 5) 5 = [(1, [5; 5])].
Proof. vm_compute. split; reflexivity. Qed.

End LfuRing.

(* ================================================================== assumptions of the main theorems *)
(* A *)
Print Assumptions lru_init_dll.
Print Assumptions lru_add_dll.
Print Assumptions lru_remove_dll.
Print Assumptions lru_move_dll.
Print Assumptions lru_victim_spec.
Print Assumptions lru_sequence.
(* B *)
Print Assumptions pinit_SInv.
Print Assumptions sieve_init_empty.
Print Assumptions sieve_init_partial.
Print Assumptions sieve_init_refuted.
Print Assumptions SInv_disjoint.
Print Assumptions holds_main.
Print Assumptions holds_prob.
Print Assumptions sieve_insert_prob_spec.
Print Assumptions sieve_insert_main_spec.
Print Assumptions prev_main_item_spec.
Print Assumptions prev_main_aprev.
Print Assumptions sieve_remove_main.
Print Assumptions sieve_remove_prob.
Print Assumptions sieve_remove_absent.
Print Assumptions unlink_hand_bridge.
Print Assumptions sieve_unlink_lists.
Print Assumptions sieve_promote_spec.
Print Assumptions sieve_promote_noop.
Print Assumptions promote_hand_bridge.
Print Assumptions sieve_replace_spec.
Print Assumptions sieve_replace_prob.
Print Assumptions sieve_replace_main.
Print Assumptions replace_item_subst.
Print Assumptions main_cand_spec.
Print Assumptions main_candidate_acand.
Print Assumptions find_victim_p_refines.
Print Assumptions find_main_victim_p_spec.
Print Assumptions find_victim_afind.
Print Assumptions find_main_victim_refines.
Print Assumptions prob_tail_spec.
Print Assumptions mark_visited_spec.
Print Assumptions sieve_sequence.
(* D *)
Print Assumptions lru_ex_inv.
Print Assumptions sv_ex_inv.
Print Assumptions sv_ex_victim.
Print Assumptions lru_add_unguarded_refuted.
Print Assumptions sieve_insert_unguarded_refuted.
(* C *)
Print Assumptions LfuRing.lfu_init_inv.
Print Assumptions LfuRing.lfu_add_refines.
Print Assumptions LfuRing.lfu_increment_refines.
Print Assumptions LfuRing.linv_freq.
Print Assumptions LfuRing.lfu_remove_refines.
Print Assumptions LfuRing.lfu_remove_lfu_refines.
Print Assumptions LfuRing.lfu_remove_lfu_victim.
Print Assumptions LfuRing.min_bucket_is_min.
Print Assumptions LfuRing.lfu_step_refines.
Print Assumptions LfuRing.lfu_ring_refines.
Print Assumptions LfuRing.lfu_ring_no_error.
Print Assumptions LfuRing.lfu_ring_walk.
Print Assumptions LfuRing.linv_walk.
Print Assumptions LfuRing.lfu_ex_inv.
Print Assumptions LfuRing.lfu_ex_inv6.
Print Assumptions LfuRing.lfu_ex_dump.
Print Assumptions LfuRing.lfu_add_unguarded_refuted.
