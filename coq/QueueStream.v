(* QueueStream.v — stream wrapper of QueueLts for the cache-level lock-step correspondence ("qc", sid 42).
   Model only, no proofs. A step carries the select choice the implementation was observed to take when
   both branches of a two-way select were ready (Go picks at random; the theorems of QueueLtsProofs hold for
   both choices), and every step's output is followed by a snapshot of the shared queue state that the
   harness reads from the real shard through VerifRingState / VerifLockState. *)
Require Import KV.Base KV.QueueLts.
Open Scope Z_scope.

Definition b2zq (b : bool) : Z := if b then 1 else 0.

Definition qc_snapshot (s : gstate) : list Z :=
  [head s; tail s; wakeState s; b2zq (wakeTok s); b2zq (spaceTok s); b2zq (closeCh s);
   b2zq (match drainMu s with None => true | Some _ => false end)].

Definition qc_step (s : gstate) (o : list Z) : gstate * list Z :=
  match o with
  | [2; tid; c] =>
      match lstepc (negb (c =? 0)) s (Z.to_nat tid) with
      | Some (s1, out) => (s1, out ++ qc_snapshot s1)
      | None => (s, [-2] ++ qc_snapshot s)
      end
  | [3] => (s, [last (applied s) 0])
  | _ => ql_step s o
  end.
