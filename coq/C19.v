(* C19 — the frequency estimator never under-counts within an aging period.
   Only statements closed by `exact`, plus Print Assumptions. *)
Require Import KV.Base KV.Gen.Consts KV.Nibble KV.EstimatorModel KV.EstimatorProofs KV.GhostModel KV.GhostProofs.
Open Scope N_scope.

(* Between aging events: for every sequence of recorded fingerprints and every fingerprint h,
   min(#recordings of h since the last aging, 15) <= estimate h <= 15.  `replay` threads the
   ghost count (reset to 0 by an aging event) next to the model state. *)
Theorem c19_lower_bound : forall hs e cnt, est_wf e -> lower_ok e cnt ->
  let '(e', cnt') := replay e cnt hs in est_wf e' /\ lower_ok e' cnt'.
Proof. exact lower_bound. Qed.

(* Recording one key never lowers another key's estimate (no aging in that step). *)
Theorem c19_monotone : forall e h e', est_wf e -> increment_frequency e h = (e', false) ->
  forall h', estimate e h' <= estimate e' h'.
Proof. exact monotone_between_agings. Qed.

(* An aging event replaces the counted part of every estimate by exactly half of it, rounded
   down, and forgets every first-touch mark. *)
Theorem c19_aging : forall e e', est_wf e -> tick_obs e = (e', true) ->
  est_wf e' /\ samples (sk e') = 0 /\
  forall av, estimate_av e' av = sk_estimate (sk e) av / 2 /\ door_contains (dr e') av = false.
Proof. exact tick_aging. Qed.

(* Every counter index is inside the array, for every well-formed sketch size. *)
Theorem c19_indices_in_range : forall s av, sk_wf s ->
  forall i, In i (sk_indexes s av) -> i < 16 * N.of_nat (length (counters s)).
Proof. exact indexes_in_range. Qed.

(* Sketches built by the constructor (8*2^k words, 2^k' doorkeeper bits) are well-formed. *)
Theorem c19_constructor_wf : forall k k', 6 <= k' -> est_wf (new_estimator (8 * 2 ^ k) (2 ^ (k' - 6))).
Proof. exact new_estimator_wf. Qed.

(* Word-level facts about packed 4-bit counters, for every 64-bit word and nibble position. *)
Theorem c19_nibble_bump : forall w j, w < 18446744073709551616 -> (j < 16)%nat ->
  Nibble.nib w (4 * N.of_nat j) < 15 ->
  let w' := w + N.shiftl 1 (4 * N.of_nat j) in
  w' < 18446744073709551616 /\
  Nibble.nib w' (4 * N.of_nat j) = Nibble.nib w (4 * N.of_nat j) + 1 /\
  (forall k, (k < 16)%nat -> k <> j -> Nibble.nib w' (4 * N.of_nat k) = Nibble.nib w (4 * N.of_nat k)).
Proof. exact nib_bump. Qed.

Theorem c19_nibble_age : forall w j, w < 18446744073709551616 -> (j < 16)%nat ->
  let w' := N.land (N.shiftr w 1) 8608480567731124087 in
  w' < 18446744073709551616 /\ Nibble.nib w' (4 * N.of_nat j) = Nibble.nib w (4 * N.of_nat j) / 2.
Proof. exact nib_age. Qed.


(* ---- ghost lists: the ring + open-addressed index refines an abstract FIFO ring, for every
   capacity n >= 1, every index size 2^k >= 2n, every add/remove/contains/clear sequence, and
   every hash function used for the probe start (avalanche is never unfolded in the proofs) ---- *)
Theorem c19_ghost_refines_ring : forall ops g r, R g r ->
  run_out g_step g ops = run_out a_step r ops /\ R (run_state g_step g ops) (run_state a_step r ops).
Proof. exact run_refines. Qed.

Theorem c19_ghost_new : forall (n : nat) (k : N), (1 <= n)%nat -> 2 * N.of_nat n <= 2 ^ k ->
  R (new_ghost (N.of_nat n) (2 ^ k)) (a_new n).
Proof. exact new_ghost_refines. Qed.

(* index probes always terminate (the fuel never runs out) *)
Theorem c19_ghost_never_errs : forall (n : nat) (k : N) ops, (1 <= n)%nat -> 2 * N.of_nat n <= 2 ^ k ->
  gerr (run_state g_step (new_ghost (N.of_nat n) (2 ^ k)) ops) = false.
Proof. exact ghost_never_errs. Qed.

(* FIFO window: a fingerprint is remembered iff it is among the last n ACCEPTED adds (adds of a
   fingerprint absent at the time) and was not removed since; re-adding a present one does not refresh it *)
Theorem c19_ghost_fifo : forall (n : nat) (k : N) ops h, (1 <= n)%nat -> 2 * N.of_nat n <= 2 ^ k ->
  g_contains (run_state g_step (new_ghost (N.of_nat n) (2 ^ k)) ops) h =
  live_in n (fold_left (h_step n) ops []) h.
Proof. exact ghost_fifo_window. Qed.

Theorem c19_ghost_capacity_zero : forall g h, ghost_disabled g = true ->
  g_contains g h = false /\ g_add g h = g /\ g_remove g h = (g, false).
Proof. exact ghost_disabled_inert. Qed.

(* The constants written into the model are the ones compiled into /repo (T-gen). *)
Theorem c19_constants_as_modelled :
  (Z.of_N agingMask = sketchAgingMaskHi * 2 ^ 32 + sketchAgingMaskLo)%Z /\
  (sketchMaxCounter = 15)%Z /\ (sketchCounterBits = 4)%Z /\ (sketchCountersPerWord = 16)%Z /\
  (sketchBlockWords = 8)%Z /\ (sketchAgingMultiplier = 10)%Z /\ (sketchMinCounters = 1024)%Z.
Proof. exact consts_as_modelled. Qed.

Print Assumptions c19_lower_bound.
Print Assumptions c19_monotone.
Print Assumptions c19_aging.
Print Assumptions c19_indices_in_range.
Print Assumptions c19_constructor_wf.
Print Assumptions c19_nibble_bump.
Print Assumptions c19_nibble_age.
Print Assumptions c19_constants_as_modelled.
Print Assumptions c19_ghost_refines_ring.
Print Assumptions c19_ghost_new.
Print Assumptions c19_ghost_never_errs.
Print Assumptions c19_ghost_fifo.
Print Assumptions c19_ghost_capacity_zero.
