(* TrieProofs.v — machine-checked facts about HttpTrie.v (the path-segment trie behind Invalidate). *)
Require Import KV.Base KV.HttpModel KV.CacheModel KV.HttpTrie.
Require Import Coq.Sorting.Permutation.
Open Scope Z_scope.

(* ------------------------------------------------------------------ strings *)
Lemma str_eqb_eq a b : str_eqb a b = true <-> a = b.
Proof.
  revert b; induction a as [|x a IH]; intros [|y b]; cbn [str_eqb]; split; intros H;
    try reflexivity; try discriminate.
  - apply andb_true_iff in H. destruct H as [H1 H2]. apply Z.eqb_eq in H1. apply IH in H2. congruence.
  - inversion H; subst. apply andb_true_iff; split; [apply Z.eqb_refl | apply IH; reflexivity].
Qed.

Lemma str_eqb_refl a : str_eqb a a = true.
Proof. apply str_eqb_eq; reflexivity. Qed.

Lemma str_eqb_neq a b : str_eqb a b = false <-> a <> b.
Proof.
  split; intros H.
  - intros E. apply str_eqb_eq in E. congruence.
  - destruct (str_eqb a b) eqn:E; [|reflexivity]. apply str_eqb_eq in E. contradiction.
Qed.

Lemma str_eq_dec (a b : str) : {a = b} + {a <> b}.
Proof.
  destruct (str_eqb a b) eqn:E; [left; apply str_eqb_eq; exact E | right; apply str_eqb_neq; exact E].
Defined.

(* segment lists compared with str_eqb elementwise *)
Fixpoint segs_eqb (p q : list str) : bool :=
  match p, q with
  | [], [] => true
  | a :: p', b :: q' => str_eqb a b && segs_eqb p' q'
  | _, _ => false
  end.

Lemma segs_eqb_eq p q : segs_eqb p q = true <-> p = q.
Proof.
  revert q; induction p as [|a p IH]; intros [|b q]; cbn [segs_eqb]; split; intros H;
    try reflexivity; try discriminate.
  - apply andb_true_iff in H. destruct H as [H1 H2]. apply str_eqb_eq in H1. apply IH in H2. congruence.
  - inversion H; subst. apply andb_true_iff; split; [apply str_eqb_refl | apply IH; reflexivity].
Qed.

Lemma segs_eqb_neq p q : segs_eqb p q = false <-> p <> q.
Proof.
  split; intros H.
  - intros E. apply segs_eqb_eq in E. congruence.
  - destruct (segs_eqb p q) eqn:E; [|reflexivity]. apply segs_eqb_eq in E. contradiction.
Qed.

Lemma segs_eq_dec (p q : list str) : {p = q} + {p <> q}.
Proof.
  destruct (segs_eqb p q) eqn:E; [left; apply segs_eqb_eq; exact E | right; apply segs_eqb_neq; exact E].
Defined.

Lemma Z_eqb_eq' (a b : Z) : (a =? b) = true <-> a = b.
Proof. apply Z.eqb_eq. Qed.

(* ------------------------------------------------------------------ induction principle for the nested inductive *)
Section NodeInd.
  Variable P : node -> Prop.
  Hypothesis Hnode : forall ks cs, Forall (fun sc => P (snd sc)) cs -> P (Node ks cs).
  Fixpoint node_ind' (n : node) : P n :=
    match n with
    | Node ks cs =>
      Hnode ks cs
        ((fix go (l : list (str * node)) : Forall (fun sc => P (snd sc)) l :=
            match l as l0 return Forall (fun sc => P (snd sc)) l0 with
            | [] => Forall_nil _
            | (s, c) :: r => @Forall_cons _ (fun sc => P (snd sc)) (s, c) r (node_ind' c) (go r)
            end) cs)
    end.
End NodeInd.

Lemma node_ind_In (P : node -> Prop) :
  (forall ks cs, (forall sg c, In (sg, c) cs -> P c) -> P (Node ks cs)) -> forall n, P n.
Proof.
  intros H. apply node_ind'. intros ks cs HF. apply H. intros sg c Hin.
  rewrite Forall_forall in HF. exact (HF (sg, c) Hin).
Qed.

(* named versions of the inner fixpoints *)
Fixpoint kids_keys (l : list (str * node)) : list Z :=
  match l with [] => [] | (_, c) :: r => subtree_keys c ++ kids_keys r end.
Fixpoint kids_count (l : list (str * node)) : Z :=
  match l with [] => 0 | (_, c) :: r => count_nodes c + kids_count r end.

Lemma subtree_keys_eq ks cs : subtree_keys (Node ks cs) = map fst ks ++ kids_keys cs.
Proof. reflexivity. Qed.
Lemma count_nodes_eq ks cs : count_nodes (Node ks cs) = 1 + kids_count cs.
Proof. reflexivity. Qed.

Lemma NoDup_snoc {A} (l : list A) x : NoDup l -> ~ In x l -> NoDup (l ++ [x]).
Proof.
  induction l as [|a l IH]; cbn [app]; intros ND Hn.
  - constructor; [intros []|constructor].
  - inversion ND as [|? ? Ha ND']; subst. constructor.
    + rewrite in_app_iff. cbn [In]. intros [H | [H | []]]; [exact (Ha H) | subst; apply Hn; left; reflexivity].
    + apply IH; [exact ND' | intros H; apply Hn; right; exact H].
Qed.

(* ------------------------------------------------------------------ generic association lists *)
Section Assoc.
  Context {K V : Type} (eqb : K -> K -> bool).
  Hypothesis eqb_spec : forall a b, eqb a b = true <-> a = b.

  Fixpoint afind (l : list (K * V)) (k : K) : option V :=
    match l with [] => None | (k', v) :: r => if eqb k' k then Some v else afind r k end.
  Definition adel (l : list (K * V)) (k : K) := filter (fun x => negb (eqb (fst x) k)) l.
  Definition aset (l : list (K * V)) (k : K) (v : V) := adel l k ++ [(k, v)].

  Lemma eqb_refl' a : eqb a a = true.
  Proof. apply eqb_spec; reflexivity. Qed.
  Lemma eqb_false a b : eqb a b = false <-> a <> b.
  Proof.
    split; intros H.
    - intros E. apply eqb_spec in E. congruence.
    - destruct (eqb a b) eqn:E; [|reflexivity]. apply eqb_spec in E. contradiction.
  Qed.
  Lemma eqb_sym' a b : eqb a b = eqb b a.
  Proof.
    destruct (eqb a b) eqn:E.
    - apply eqb_spec in E. subst. symmetry; apply eqb_refl'.
    - apply eqb_false in E. symmetry. apply eqb_false. congruence.
  Qed.

  Lemma adel_In l k k' v : In (k', v) (adel l k) <-> In (k', v) l /\ k' <> k.
  Proof.
    unfold adel. rewrite filter_In. cbn [fst]. rewrite negb_true_iff, eqb_false. tauto.
  Qed.

  Lemma adel_In_fst l k k' : In k' (map fst (adel l k)) <-> In k' (map fst l) /\ k' <> k.
  Proof.
    rewrite !in_map_iff. split.
    - intros [[a v] [E H]]. cbn [fst] in E. subst a. apply adel_In in H. destruct H as [H1 H2].
      split; [exists (k', v); split; [reflexivity | exact H1] | exact H2].
    - intros [[[a v] [E H]] N]. cbn [fst] in E. subst a. exists (k', v). split; [reflexivity|].
      apply adel_In. tauto.
  Qed.

  Lemma aset_In l k v k' v' : In (k', v') (aset l k v) <-> (In (k', v') l /\ k' <> k) \/ (k' = k /\ v' = v).
  Proof.
    unfold aset. rewrite in_app_iff, adel_In. cbn [In]. split.
    - intros [H | [H | []]]; [left; exact H | right; inversion H; split; reflexivity].
    - intros [H | [H1 H2]]; [left; exact H | right; left; subst; reflexivity].
  Qed.

  Lemma afind_adel l k k' : afind (adel l k) k' = if eqb k k' then None else afind l k'.
  Proof.
    induction l as [|[a v] l IH]; cbn [adel filter afind fst].
    - destruct (eqb k k'); reflexivity.
    - fold (adel l k). destruct (eqb a k) eqn:E1; cbn [negb].
      + apply eqb_spec in E1. subst a. rewrite IH. destruct (eqb k k'); reflexivity.
      + cbn [afind]. rewrite IH. destruct (eqb a k') eqn:E2; [|reflexivity].
        apply eqb_spec in E2. subst a. rewrite eqb_sym', E1. reflexivity.
  Qed.

  Lemma afind_app l1 l2 k : afind (l1 ++ l2) k = match afind l1 k with Some v => Some v | None => afind l2 k end.
  Proof.
    induction l1 as [|[a v] l1 IH]; cbn [app afind]; [reflexivity|].
    destruct (eqb a k); [reflexivity | exact IH].
  Qed.

  Lemma afind_aset l k v k' : afind (aset l k v) k' = if eqb k k' then Some v else afind l k'.
  Proof.
    unfold aset. rewrite afind_app, afind_adel. cbn [afind].
    destruct (eqb k k') eqn:E; [reflexivity|]. destruct (afind l k'); reflexivity.
  Qed.

  Lemma afind_None l k : afind l k = None <-> ~ In k (map fst l).
  Proof.
    induction l as [|[a v] l IH]; cbn [afind map fst In]; [tauto|].
    destruct (eqb a k) eqn:E.
    - apply eqb_spec in E. split; [discriminate | intros H; exfalso; apply H; left; exact E].
    - apply eqb_false in E. rewrite IH. tauto.
  Qed.

  Lemma afind_Some_In l k v : afind l k = Some v -> In (k, v) l.
  Proof.
    induction l as [|[a w] l IH]; cbn [afind In]; [discriminate|].
    destruct (eqb a k) eqn:E.
    - apply eqb_spec in E. intros H; inversion H; subst. left; reflexivity.
    - intros H; right; apply IH; exact H.
  Qed.

  Lemma In_afind l k v : NoDup (map fst l) -> In (k, v) l -> afind l k = Some v.
  Proof.
    induction l as [|[a w] l IH]; cbn [afind In map fst]; [tauto|].
    intros ND [H | H].
    - inversion H; subst. rewrite eqb_refl'. reflexivity.
    - inversion ND as [|? ? Hn ND']; subst. destruct (eqb a k) eqn:E.
      + apply eqb_spec in E. subst a. exfalso. apply Hn. apply in_map_iff. exists (k, v). split; [reflexivity | exact H].
      + apply IH; assumption.
  Qed.

  Lemma NoDup_map_filter (f : K * V -> bool) l : NoDup (map fst l) -> NoDup (map fst (filter f l)).
  Proof.
    induction l as [|x l IH]; cbn [map filter]; intros ND; [constructor|].
    inversion ND as [|? ? Hn ND']; subst. destruct (f x); cbn [map]; [|apply IH; exact ND'].
    constructor; [|apply IH; exact ND'].
    intros H. apply Hn. apply in_map_iff in H. destruct H as [y [E Hy]]. apply filter_In in Hy.
    apply in_map_iff. exists y. tauto.
  Qed.

  Lemma NoDup_adel l k : NoDup (map fst l) -> NoDup (map fst (adel l k)).
  Proof. apply NoDup_map_filter. Qed.

  Lemma NoDup_aset l k v : NoDup (map fst l) -> NoDup (map fst (aset l k v)).
  Proof.
    intros ND. unfold aset. rewrite map_app. cbn [map fst].
    apply NoDup_snoc; [apply NoDup_adel; exact ND|].
    rewrite adel_In_fst. tauto.
  Qed.
End Assoc.

(* ------------------------------------------------------------------ instances for keys and children *)
Lemma get_key_afind ks k : get_key ks k = afind Z.eqb ks k.
Proof. induction ks as [|[a v] ks IH]; cbn [get_key afind]; [reflexivity|]. rewrite IH. reflexivity. Qed.
Lemma del_key_adel ks k : del_key ks k = adel Z.eqb ks k.
Proof. reflexivity. Qed.
Lemma set_key_aset ks k i : set_key ks k i = aset Z.eqb ks k i.
Proof. reflexivity. Qed.
Lemma find_child_afind cs sg : find_child cs sg = afind str_eqb cs sg.
Proof. induction cs as [|[a v] cs IH]; cbn [find_child afind]; [reflexivity|]. rewrite IH. reflexivity. Qed.
Lemma del_child_adel cs sg : del_child cs sg = adel str_eqb cs sg.
Proof. reflexivity. Qed.
Lemma set_child_aset cs sg c : set_child cs sg c = aset str_eqb cs sg c.
Proof. reflexivity. Qed.

Lemma find_child_set_child cs sg c sg' :
  find_child (set_child cs sg c) sg' = if str_eqb sg sg' then Some c else find_child cs sg'.
Proof. rewrite !find_child_afind, set_child_aset. apply afind_aset. exact str_eqb_eq. Qed.

Lemma find_child_del_child cs sg sg' :
  find_child (del_child cs sg) sg' = if str_eqb sg sg' then None else find_child cs sg'.
Proof. rewrite !find_child_afind, del_child_adel. apply afind_adel. exact str_eqb_eq. Qed.

Lemma find_child_In cs sg c : find_child cs sg = Some c -> In (sg, c) cs.
Proof. rewrite find_child_afind. apply afind_Some_In. exact str_eqb_eq. Qed.

Lemma In_find_child cs sg c : NoDup (map fst cs) -> In (sg, c) cs -> find_child cs sg = Some c.
Proof. rewrite find_child_afind. apply In_afind. exact str_eqb_eq. Qed.

Lemma find_child_None cs sg : find_child cs sg = None <-> ~ In sg (map fst cs).
Proof. rewrite find_child_afind. apply afind_None. exact str_eqb_eq. Qed.

Lemma get_key_set_key ks k i k' : get_key (set_key ks k i) k' = if k =? k' then Some i else get_key ks k'.
Proof. rewrite !get_key_afind, set_key_aset. apply afind_aset. exact Z.eqb_eq. Qed.

Lemma get_key_del_key ks k k' : get_key (del_key ks k) k' = if k =? k' then None else get_key ks k'.
Proof. rewrite !get_key_afind, del_key_adel. apply afind_adel. exact Z.eqb_eq. Qed.

Lemma get_key_In ks k i : get_key ks k = Some i -> In (k, i) ks.
Proof. rewrite get_key_afind. apply afind_Some_In. exact Z.eqb_eq. Qed.

Lemma In_get_key ks k i : NoDup (map fst ks) -> In (k, i) ks -> get_key ks k = Some i.
Proof. rewrite get_key_afind. apply In_afind. exact Z.eqb_eq. Qed.

Lemma get_key_None ks k : get_key ks k = None <-> ~ In k (map fst ks).
Proof. rewrite get_key_afind. apply afind_None. exact Z.eqb_eq. Qed.

(* ------------------------------------------------------------------ abstraction *)
(* the keys (with identities) stored at the node addressed by a segment list; [] when the branch is absent *)
Definition abs (n : node) (p : list str) : list (Z * Z) :=
  match descend n p with Some m => nkeys m | None => [] end.

Lemma abs_nil n : abs n [] = nkeys n.
Proof. reflexivity. Qed.

Lemma abs_cons n sg p :
  abs n (sg :: p) = match find_child (nkids n) sg with Some c => abs c p | None => [] end.
Proof. unfold abs. cbn [descend]. destruct (find_child (nkids n) sg); reflexivity. Qed.

Lemma abs_empty p : abs empty_node p = [].
Proof. destruct p; reflexivity. Qed.

Lemma is_empty_true n : is_empty n = true <-> n = empty_node.
Proof.
  destruct n as [[|x ks] [|y cs]]; cbn [is_empty]; split; intros H; try reflexivity; try discriminate.
Qed.

Lemma is_empty_keys ks cs : ks <> [] -> is_empty (Node ks cs) = false.
Proof. destruct ks; [congruence | reflexivity]. Qed.
Lemma is_empty_kids ks cs : cs <> [] -> is_empty (Node ks cs) = false.
Proof. destruct ks; [|reflexivity]. destruct cs; [congruence | reflexivity]. Qed.
Lemma snoc_not_nil {A} (l : list A) x : l ++ [x] <> [].
Proof. destruct l; discriminate. Qed.

(* ------------------------------------------------------------------ well-formedness *)
(* key lists have distinct keys, sibling segment names are distinct, and no non-root node is empty
   (no keys and no children).  TWF_no_empty_branch below shows that this local condition is the
   pruning invariant: every non-root node has a key or a descendant with a key. *)
Inductive TWF : node -> Prop :=
| TWF_node ks cs :
    NoDup (map fst ks) -> NoDup (map fst cs) ->
    (forall sg c, In (sg, c) cs -> TWF c) ->
    (forall sg c, In (sg, c) cs -> is_empty c = false) ->
    TWF (Node ks cs).

Lemma TWF_empty : TWF empty_node.
Proof. constructor; try constructor; intros ? ? []. Qed.

Lemma TWF_keys n : TWF n -> NoDup (map fst (nkeys n)).
Proof. intros W; inversion W; subst; assumption. Qed.
Lemma TWF_kids n : TWF n -> NoDup (map fst (nkids n)).
Proof. intros W; inversion W; subst; assumption. Qed.
Lemma TWF_child n sg c : TWF n -> find_child (nkids n) sg = Some c -> TWF c /\ is_empty c = false.
Proof.
  intros W F. apply find_child_In in F. inversion W; subst. cbn [nkids] in F. split; eauto.
Qed.

Lemma TWF_descend n p m : TWF n -> descend n p = Some m -> TWF m /\ (p <> [] -> is_empty m = false).
Proof.
  revert n; induction p as [|sg p IH]; intros n W D; cbn [descend] in D.
  - inversion D; subst. split; [exact W | congruence].
  - destruct (find_child (nkids n) sg) as [c|] eqn:F; [|discriminate].
    destruct (TWF_child _ _ _ W F) as [Wc Ec]. destruct (IH c Wc D) as [Wm Em].
    split; [exact Wm|]. intros _. destruct p as [|sg' p'].
    + cbn [descend] in D. inversion D; subst. exact Ec.
    + apply Em. discriminate.
Qed.

(* ------------------------------------------------------------------ 1. add_key *)
Lemma abs_add_key_same n segs k i : abs (add_key n segs k i) segs = set_key (abs n segs) k i.
Proof.
  revert n; induction segs as [|sg rest IH]; intros n.
  - reflexivity.
  - cbn [add_key]. rewrite !abs_cons. cbn [nkids]. rewrite find_child_set_child, str_eqb_refl, IH.
    destruct (find_child (nkids n) sg); [reflexivity | rewrite abs_empty; reflexivity].
Qed.

Lemma abs_add_key_other n segs k i p : p <> segs -> abs (add_key n segs k i) p = abs n p.
Proof.
  revert n p; induction segs as [|sg rest IH]; intros n p Hp.
  - destruct p as [|sg' p']; [congruence|]. reflexivity.
  - destruct p as [|sg' p']; [reflexivity|].
    cbn [add_key]. rewrite !abs_cons. cbn [nkids]. rewrite find_child_set_child.
    destruct (str_eqb sg sg') eqn:E; [|reflexivity].
    apply str_eqb_eq in E. subst sg'. rewrite IH by congruence.
    destruct (find_child (nkids n) sg); [reflexivity | rewrite abs_empty; reflexivity].
Qed.

Lemma add_key_nonempty n segs k i : is_empty (add_key n segs k i) = false.
Proof.
  destruct segs; cbn [add_key].
  - apply is_empty_keys. apply snoc_not_nil.
  - apply is_empty_kids. apply snoc_not_nil.
Qed.

Lemma TWF_add_key n segs k i : TWF n -> TWF (add_key n segs k i).
Proof.
  revert n; induction segs as [|sg rest IH]; intros n W; inversion W as [ks cs Hk Hc Hw He]; subst;
    cbn [add_key nkeys nkids].
  - constructor; try assumption. rewrite set_key_aset. apply NoDup_aset; [exact Z.eqb_eq | exact Hk].
  - constructor; try assumption.
    + rewrite set_child_aset. apply NoDup_aset; [exact str_eqb_eq | exact Hc].
    + intros sg' c'. rewrite set_child_aset, (aset_In str_eqb str_eqb_eq).
      intros [[H _] | [_ H]]; [eapply Hw; exact H|]. subst c'. apply IH.
      destruct (find_child cs sg) as [c|] eqn:F; [|exact TWF_empty].
      apply find_child_In in F. eapply Hw; exact F.
    + intros sg' c'. rewrite set_child_aset, (aset_In str_eqb str_eqb_eq).
      intros [[H _] | [_ H]]; [eapply He; exact H|]. subst c'. apply add_key_nonempty.
Qed.

Theorem add_key_spec n segs k i :
  TWF n ->
  TWF (add_key n segs k i) /\
  abs (add_key n segs k i) segs = set_key (abs n segs) k i /\
  (forall p, p <> segs -> abs (add_key n segs k i) p = abs n p).
Proof.
  intros W. split; [apply TWF_add_key; exact W|]. split; [apply abs_add_key_same|].
  intros p Hp. apply abs_add_key_other; exact Hp.
Qed.

(* the same with the boolean elementwise str_eqb comparison of segment lists *)
Corollary add_key_spec_b n segs k i p :
  abs (add_key n segs k i) p = if segs_eqb p segs then set_key (abs n p) k i else abs n p.
Proof.
  destruct (segs_eqb p segs) eqn:E.
  - apply segs_eqb_eq in E. subst p. apply abs_add_key_same.
  - apply segs_eqb_neq in E. apply abs_add_key_other; exact E.
Qed.

(* ------------------------------------------------------------------ 2. remove_key *)
Lemma remove_key_false n segs k i :
  snd (remove_key n segs k i) = false -> fst (remove_key n segs k i) = n.
Proof.
  revert n; induction segs as [|sg rest IH]; intros n; cbn [remove_key].
  - destruct (get_key (nkeys n) k) as [j|]; [destruct (j =? i)|]; cbn [fst snd]; congruence.
  - destruct (find_child (nkids n) sg) as [c|]; [|reflexivity].
    destruct (remove_key c rest k i) as [c' ok]. destruct ok; [|reflexivity].
    destruct (is_empty c'); cbn [fst snd]; discriminate.
Qed.

Lemma remove_key_ok n segs k i :
  snd (remove_key n segs k i) = true <-> get_key (abs n segs) k = Some i.
Proof.
  revert n; induction segs as [|sg rest IH]; intros n; cbn [remove_key].
  - rewrite abs_nil. destruct (get_key (nkeys n) k) as [j|]; [destruct (j =? i) eqn:E|]; cbn [snd].
    + apply Z.eqb_eq in E. subst. tauto.
    + split; [discriminate|]. intros H; inversion H; subst. rewrite Z.eqb_refl in E. discriminate.
    + split; discriminate.
  - rewrite abs_cons. destruct (find_child (nkids n) sg) as [c|]; [|cbn; split; discriminate].
    specialize (IH c). destruct (remove_key c rest k i) as [c' ok]. cbn [snd] in IH.
    destruct ok; [destruct (is_empty c')|]; cbn [snd]; exact IH.
Qed.

Lemma abs_remove_key n segs k i p :
  snd (remove_key n segs k i) = true ->
  abs (fst (remove_key n segs k i)) p = if segs_eqb p segs then del_key (abs n p) k else abs n p.
Proof.
  revert n p; induction segs as [|sg rest IH]; intros n p; cbn [remove_key].
  - destruct (get_key (nkeys n) k) as [j|]; [destruct (j =? i)|]; cbn [fst snd]; try discriminate.
    intros _. destruct p as [|sg' p']; reflexivity.
  - destruct (find_child (nkids n) sg) as [c|] eqn:F; [|cbn; discriminate].
    specialize (IH c). destruct (remove_key c rest k i) as [c' ok]. cbn [fst snd] in IH.
    destruct ok; [|cbn; discriminate]. intros _.
    destruct p as [|sg' p'].
    { cbn [segs_eqb]. destruct (is_empty c'); reflexivity. }
    cbn [segs_eqb]. specialize (IH p' eq_refl).
    assert (Hn : abs n (sg :: p') = abs c p') by (rewrite abs_cons, F; reflexivity).
    destruct (is_empty c') eqn:Em; cbn [fst]; rewrite abs_cons; cbn [nkids].
    + apply is_empty_true in Em. subst c'. rewrite abs_empty in IH.
      rewrite find_child_del_child. destruct (str_eqb sg sg') eqn:E.
      * apply str_eqb_eq in E. subst sg'. rewrite str_eqb_refl. cbn [andb]. rewrite Hn. exact IH.
      * rewrite (eqb_sym' str_eqb str_eqb_eq), E. cbn [andb]. rewrite abs_cons. reflexivity.
    + rewrite find_child_set_child. destruct (str_eqb sg sg') eqn:E.
      * apply str_eqb_eq in E. subst sg'. rewrite str_eqb_refl. cbn [andb]. rewrite Hn. exact IH.
      * rewrite (eqb_sym' str_eqb str_eqb_eq), E. cbn [andb]. rewrite abs_cons. reflexivity.
Qed.

Lemma TWF_remove_key n segs k i : TWF n -> TWF (fst (remove_key n segs k i)).
Proof.
  revert n; induction segs as [|sg rest IH]; intros n W; inversion W as [ks cs Hk Hc Hw He]; subst;
    cbn [remove_key nkeys nkids].
  - destruct (get_key ks k) as [j|]; [destruct (j =? i)|]; cbn [fst]; try exact W.
    constructor; try assumption. rewrite del_key_adel. apply NoDup_adel. exact Hk.
  - destruct (find_child cs sg) as [c|] eqn:F; [|exact W].
    assert (Wc : TWF c) by (apply find_child_In in F; eapply Hw; exact F).
    specialize (IH c Wc). destruct (remove_key c rest k i) as [c' ok]. cbn [fst] in IH.
    destruct ok; [|exact W]. destruct (is_empty c') eqn:Em; cbn [fst].
    + constructor; try assumption.
      * rewrite del_child_adel. apply NoDup_adel. exact Hc.
      * intros sg' c''. rewrite del_child_adel, (adel_In str_eqb str_eqb_eq). intros [H _]. eapply Hw; exact H.
      * intros sg' c''. rewrite del_child_adel, (adel_In str_eqb str_eqb_eq). intros [H _]. eapply He; exact H.
    + constructor; try assumption.
      * rewrite set_child_aset. apply NoDup_aset; [exact str_eqb_eq | exact Hc].
      * intros sg' c''. rewrite set_child_aset, (aset_In str_eqb str_eqb_eq).
        intros [[H _] | [_ H]]; [eapply Hw; exact H | subst; exact IH].
      * intros sg' c''. rewrite set_child_aset, (aset_In str_eqb str_eqb_eq).
        intros [[H _] | [_ H]]; [eapply He; exact H | subst; exact Em].
Qed.

(* TWF n' states in particular that no empty branch is left: pruning is complete. *)
Theorem remove_key_spec n segs k i :
  TWF n ->
  let '(n', ok) := remove_key n segs k i in
  TWF n' /\
  (ok = true <-> get_key (abs n segs) k = Some i) /\
  abs n' segs = (if ok then del_key (abs n segs) k else abs n segs) /\
  (forall p, p <> segs -> abs n' p = abs n p).
Proof.
  intros W.
  pose proof (TWF_remove_key n segs k i W) as H1.
  pose proof (remove_key_ok n segs k i) as H2.
  pose proof (abs_remove_key n segs k i) as H3.
  pose proof (remove_key_false n segs k i) as H4.
  destruct (remove_key n segs k i) as [n' ok]. cbn [fst snd] in *.
  split; [exact H1|]. split; [exact H2|]. destruct ok.
  - split.
    + rewrite H3 by reflexivity. rewrite (proj2 (segs_eqb_eq segs segs) eq_refl). reflexivity.
    + intros p Hp. rewrite H3 by reflexivity. rewrite (proj2 (segs_eqb_neq p segs) Hp). reflexivity.
  - rewrite H4 by reflexivity. split; reflexivity.
Qed.

(* a stale identity (or an absent key / absent path) changes nothing at all *)
Theorem remove_key_stale n segs k i :
  get_key (abs n segs) k <> Some i -> remove_key n segs k i = (n, false).
Proof.
  intros H. pose proof (remove_key_ok n segs k i) as H2. pose proof (remove_key_false n segs k i) as H4.
  destruct (remove_key n segs k i) as [n' ok]. cbn [fst snd] in *. destruct ok.
  - exfalso. apply H. apply H2. reflexivity.
  - rewrite H4 by reflexivity. reflexivity.
Qed.

Corollary remove_key_stale_id n segs k i j :
  get_key (abs n segs) k = Some j -> j <> i -> remove_key n segs k i = (n, false).
Proof. intros H N. apply remove_key_stale. rewrite H. congruence. Qed.

Corollary remove_key_spec_b n segs k i p :
  abs (fst (remove_key n segs k i)) p =
  if segs_eqb p segs && snd (remove_key n segs k i) then del_key (abs n p) k else abs n p.
Proof.
  destruct (snd (remove_key n segs k i)) eqn:E.
  - rewrite abs_remove_key by exact E. rewrite andb_true_r. reflexivity.
  - rewrite remove_key_false by exact E. rewrite andb_false_r. reflexivity.
Qed.

(* ------------------------------------------------------------------ descend / abs on concatenated paths *)
Lemma descend_app n p q :
  descend n (p ++ q) = match descend n p with Some m => descend m q | None => None end.
Proof.
  revert n; induction p as [|sg p IH]; intros n; cbn [app descend]; [reflexivity|].
  destruct (find_child (nkids n) sg); [apply IH | reflexivity].
Qed.

Lemma abs_app n p q :
  abs n (p ++ q) = match descend n p with Some m => abs m q | None => [] end.
Proof. unfold abs. rewrite descend_app. destruct (descend n p); reflexivity. Qed.

(* the pruning invariant in its semantic form *)
Lemma nonempty_has_key n : TWF n -> is_empty n = false -> exists q k i, In (k, i) (abs n q).
Proof.
  induction n as [ks cs IH] using node_ind_In. intros W E. inversion W as [? ? Hk Hc Hw He]; subst.
  destruct ks as [|[k i] ks].
  - destruct cs as [|[sg c] cs]; [discriminate|].
    destruct (IH sg c (or_introl eq_refl) (Hw sg c (or_introl eq_refl)) (He sg c (or_introl eq_refl)))
      as [q [k [i Hq]]].
    exists (sg :: q), k, i. rewrite abs_cons. cbn [nkids find_child]. rewrite str_eqb_refl. exact Hq.
  - exists [], k, i. left; reflexivity.
Qed.

Theorem TWF_no_empty_branch n p m :
  TWF n -> p <> [] -> descend n p = Some m -> exists q k i, In (k, i) (abs n (p ++ q)).
Proof.
  intros W Hp D. destruct (TWF_descend n p m W D) as [Wm Em].
  destruct (nonempty_has_key m Wm (Em Hp)) as [q [k [i H]]].
  exists q, k, i. rewrite abs_app, D. exact H.
Qed.

(* ------------------------------------------------------------------ subtree_keys versus abs *)
Lemma In_kids_keys k cs :
  In k (kids_keys cs) <-> exists sg c, In (sg, c) cs /\ In k (subtree_keys c).
Proof.
  induction cs as [|[s c] cs IH]; cbn [kids_keys In].
  - split; [intros [] | intros [? [? [[] _]]]].
  - rewrite in_app_iff, IH. split.
    + intros [H | [sg [c' [H1 H2]]]]; [exists s, c; split; [left; reflexivity | exact H]|].
      exists sg, c'. split; [right; exact H1 | exact H2].
    + intros [sg [c' [[H1 | H1] H2]]]; [inversion H1; subst; left; exact H2|].
      right. exists sg, c'. split; assumption.
Qed.

Lemma subtree_keys_abs n :
  TWF n -> forall k, In k (subtree_keys n) <-> exists q, In k (map fst (abs n q)).
Proof.
  induction n as [ks cs IH] using node_ind_In. intros W k. inversion W as [? ? Hk Hc Hw He]; subst.
  rewrite subtree_keys_eq, in_app_iff, In_kids_keys. split.
  - intros [H | [sg [c [H1 H2]]]]; [exists []; exact H|].
    apply (IH sg c H1 (Hw sg c H1)) in H2. destruct H2 as [q Hq].
    exists (sg :: q). rewrite abs_cons. cbn [nkids]. rewrite (In_find_child cs sg c Hc H1). exact Hq.
  - intros [[|sg q] H]; [left; exact H|].
    rewrite abs_cons in H. cbn [nkids] in H. destruct (find_child cs sg) as [c|] eqn:F; [|destruct H].
    apply find_child_In in F. right. exists sg, c. split; [exact F|].
    apply (IH sg c F (Hw sg c F)). exists q. exact H.
Qed.

(* ------------------------------------------------------------------ 3/4. get_matching *)
Lemma wild_test (l : list Z) :
  (match l with 42 :: _ => true | _ => false end) = match l with x :: _ => x =? 42 | [] => false end.
Proof.
  destruct l as [|x r]; [reflexivity|]. destruct (x =? 42) eqn:E.
  - apply Z.eqb_eq in E. subst x. reflexivity.
  - destruct x as [|p|p]; try reflexivity.
    repeat (destruct p as [p|p|]; try reflexivity; try (cbn in E; discriminate E)).
Qed.

Definition prefix (a p : list str) : Prop := exists q, p = a ++ q.

Lemma normalize_slash : normalize [47] = [].
Proof. reflexivity. Qed.
Lemma normalize_nil : normalize [] = [].
Proof. reflexivity. Qed.

Theorem get_matching_exact n pat :
  (forall b, pat <> b ++ [42]) -> get_matching n pat = map fst (abs n (normalize pat)).
Proof.
  intros Hw. unfold get_matching, abs.
  destruct pat as [|c pat'].
  - cbn [rev app]. rewrite normalize_slash, normalize_nil. reflexivity.
  - set (pat := c :: pat') in *. rewrite wild_test.
    destruct (rev pat) as [|x r] eqn:R.
    + destruct (descend n (normalize pat)); reflexivity.
    + destruct (x =? 42) eqn:E.
      * exfalso. apply Z.eqb_eq in E. subst x. apply (Hw (rev r)).
        rewrite <- (rev_involutive pat), R. reflexivity.
      * destruct (descend n (normalize pat)); reflexivity.
Qed.

Lemma get_matching_wild_eq n base :
  get_matching n (base ++ [42]) =
  match descend n (normalize base) with Some m => subtree_keys m | None => [] end.
Proof.
  unfold get_matching.
  replace (match base ++ [42] with [] => [47] | _ :: _ => base ++ [42] end) with (base ++ [42])
    by (destruct base; reflexivity).
  rewrite wild_test, rev_unit, Z.eqb_refl. cbn [tl]. rewrite rev_involutive. reflexivity.
Qed.

Theorem get_matching_wildcard n base k :
  TWF n ->
  (In k (get_matching n (base ++ [42])) <->
   exists p, prefix (normalize base) p /\ In k (map fst (abs n p))).
Proof.
  intros W. rewrite get_matching_wild_eq. destruct (descend n (normalize base)) as [m|] eqn:D.
  - destruct (TWF_descend _ _ _ W D) as [Wm _]. rewrite (subtree_keys_abs m Wm). split.
    + intros [q Hq]. exists (normalize base ++ q). split; [exists q; reflexivity|].
      rewrite abs_app, D. exact Hq.
    + intros [p [[q Hp] H]]. subst p. rewrite abs_app, D in H. exists q. exact H.
  - split; [intros []|]. intros [p [[q Hp] H]]. subst p. rewrite abs_app, D in H. destruct H.
Qed.

(* the empty pattern addresses the root *)
Corollary get_matching_root n : get_matching n [] = map fst (nkeys n).
Proof. rewrite get_matching_exact by (intros b; destruct b; discriminate). reflexivity. Qed.

(* ------------------------------------------------------------------ 5. normalize: equivalent spellings *)
Definition nonempty (sg : str) : bool := match sg with [] => false | _ => true end.
Definition norm_acc (s cur : str) : list str := filter nonempty (split_on 47 s cur).

Lemma normalize_norm_acc s : normalize s = norm_acc s [].
Proof. reflexivity. Qed.

Lemma norm_acc_app_slash a b cur : norm_acc (a ++ 47 :: b) cur = norm_acc a cur ++ normalize b.
Proof.
  revert cur; induction a as [|c a IH]; intros cur; unfold norm_acc in *; cbn [app split_on].
  - rewrite Z.eqb_refl. cbn [filter]. destruct (nonempty (rev cur)); reflexivity.
  - destruct (c =? 47); [|apply IH].
    cbn [filter]. rewrite IH. destruct (nonempty (rev cur)); reflexivity.
Qed.

(* the key fact: a '/' splits the path into two independently normalised halves *)
Theorem normalize_app_slash a b : normalize (a ++ 47 :: b) = normalize a ++ normalize b.
Proof. rewrite !normalize_norm_acc. apply norm_acc_app_slash. Qed.

Theorem normalize_trailing_slash a : normalize (a ++ [47]) = normalize a.
Proof. rewrite normalize_app_slash, normalize_nil, app_nil_r. reflexivity. Qed.

Theorem normalize_leading_slash a : normalize ([47] ++ a) = normalize a.
Proof. change ([47] ++ a) with ([] ++ 47 :: a). rewrite normalize_app_slash. reflexivity. Qed.

Theorem normalize_double_slash a b : normalize (a ++ [47; 47] ++ b) = normalize (a ++ [47] ++ b).
Proof.
  cbn [app]. rewrite !normalize_app_slash.
  (* normalize (47 :: b) and normalize b are convertible *)
  reflexivity.
Qed.

(* any non-empty run of slashes is as good as a single one *)
Theorem normalize_slash_run a b m : normalize (a ++ repeat 47 (S m) ++ b) = normalize (a ++ [47] ++ b).
Proof.
  induction m as [|m IH]; [reflexivity|].
  rewrite <- IH. change (repeat 47 (S (S m)) ++ b) with ([47; 47] ++ repeat 47 m ++ b).
  rewrite normalize_double_slash. reflexivity.
Qed.

Lemma norm_acc_seg sg s cur : ~ In 47 sg -> norm_acc (sg ++ s) cur = norm_acc s (rev sg ++ cur).
Proof.
  revert cur; induction sg as [|c sg IH]; intros cur Hn; [reflexivity|].
  unfold norm_acc in *. cbn [app split_on].
  destruct (c =? 47) eqn:E; [apply Z.eqb_eq in E; exfalso; apply Hn; left; exact E|].
  rewrite IH by (intros H; apply Hn; right; exact H).
  cbn [rev]. rewrite <- app_assoc. reflexivity.
Qed.

(* a good segment: non-empty and slash-free *)
Definition good (sg : str) : Prop := sg <> [] /\ ~ In 47 sg.

Lemma normalize_seg sg : good sg -> normalize sg = [sg].
Proof.
  intros [Hne Hn]. rewrite normalize_norm_acc. rewrite <- (app_nil_r sg) at 1.
  rewrite norm_acc_seg by exact Hn. unfold norm_acc. cbn [split_on filter].
  rewrite app_nil_r, rev_involutive. destruct sg; [congruence | reflexivity].
Qed.

Lemma normalize_seg_slash sg p : good sg -> normalize (sg ++ 47 :: p) = sg :: normalize p.
Proof. intros G. rewrite normalize_app_slash, normalize_seg by exact G. reflexivity. Qed.

Lemma normalize_cons_slash p : normalize (47 :: p) = normalize p.
Proof. apply (normalize_leading_slash p). Qed.

(* "path spells segs": optional slashes, then the segments in order separated by one or more slashes,
   then optional slashes.  With good (non-empty, slash-free) segments these are exactly the maximal
   runs of non-'/' bytes of the path. *)
Inductive Spells : list str -> str -> Prop :=
| Sp_nil : Spells [] []
| Sp_slash segs p : Spells segs p -> Spells segs (47 :: p)
| Sp_last sg : Spells [sg] sg
| Sp_seg sg segs p : Spells segs p -> Spells (sg :: segs) (sg ++ 47 :: p).

Lemma span_slash (s : str) :
  exists sg rest, s = sg ++ rest /\ ~ In 47 sg /\ (rest = [] \/ exists p', rest = 47 :: p').
Proof.
  induction s as [|c s [sg [rest [E [Hn Hr]]]]].
  - exists [], []. split; [reflexivity|]. split; [intros []|left; reflexivity].
  - destruct (Z.eq_dec c 47) as [Ec|Ec].
    + subst c. exists [], (47 :: s). split; [reflexivity|]. split; [intros []|]. right. exists s. reflexivity.
    + exists (c :: sg), rest. split; [cbn [app]; rewrite E; reflexivity|]. split; [|exact Hr].
      intros [H | H]; [congruence | exact (Hn H)].
Qed.

Theorem normalize_Spells path : Forall good (normalize path) /\ Spells (normalize path) path.
Proof.
  remember (length path) as m eqn:Hm. revert path Hm.
  induction m as [m IH] using (well_founded_induction lt_wf). intros path Hm.
  destruct path as [|c path'].
  - split; [constructor | exact Sp_nil].
  - destruct (Z.eq_dec c 47) as [Ec|Ec].
    + subst c. rewrite normalize_cons_slash.
      destruct (IH (length path') ltac:(subst m; cbn [length]; apply Nat.lt_succ_diag_r) path' eq_refl) as [G S].
      split; [exact G | apply Sp_slash; exact S].
    + destruct (span_slash path') as [sg [rest [E [Hn Hr]]]].
      assert (G : good (c :: sg)).
      { split; [discriminate|]. intros [H | H]; [congruence | exact (Hn H)]. }
      destruct Hr as [Hr | [p' Hr]]; subst rest.
      * rewrite app_nil_r in E. subst path'. rewrite normalize_seg by exact G.
        split; [constructor; [exact G | constructor] | apply Sp_last].
      * subst path'. change (c :: sg ++ 47 :: p') with ((c :: sg) ++ 47 :: p').
        rewrite normalize_seg_slash by exact G.
        assert (L : (length p' < m)%nat).
        { subst m. cbn [length]. rewrite app_length. cbn [length]. lia. }
        destruct (IH (length p') L p' eq_refl) as [G' S'].
        split; [constructor; assumption | apply Sp_seg; exact S'].
Qed.

Theorem Spells_normalize segs path : Forall good segs -> Spells segs path -> normalize path = segs.
Proof.
  intros G S. induction S as [|segs p S IH|sg|sg segs p S IH].
  - reflexivity.
  - rewrite normalize_cons_slash. apply IH; exact G.
  - apply normalize_seg. inversion G; assumption.
  - inversion G; subst. rewrite normalize_seg_slash by assumption. f_equal. apply IH; assumption.
Qed.

(* characterisation: normalize path is the unique list of good segments that the path spells *)
Theorem normalize_characterisation path segs :
  normalize path = segs <-> (Forall good segs /\ Spells segs path).
Proof.
  split.
  - intros <-. apply normalize_Spells.
  - intros [G S]. apply Spells_normalize; assumption.
Qed.

(* canonical spelling "/s1/s2/.../sn" *)
Definition join_slash (segs : list str) : str := flat_map (fun sg => 47 :: sg) segs.

Lemma normalize_seg_join sg segs : good sg -> Forall good segs -> normalize (sg ++ join_slash segs) = sg :: segs.
Proof.
  intros G Gs. revert sg G. induction Gs as [|sg2 segs G2 Gs IH]; intros sg G.
  - cbn [join_slash flat_map]. rewrite app_nil_r. apply normalize_seg; exact G.
  - cbn [join_slash flat_map app]. fold (join_slash segs).
    rewrite normalize_seg_slash by exact G. f_equal. apply IH; exact G2.
Qed.

Theorem normalize_join segs : Forall good segs -> normalize (join_slash segs) = segs.
Proof.
  intros G. destruct G as [|sg segs G Gs]; [reflexivity|].
  cbn [join_slash flat_map app]. fold (join_slash segs).
  rewrite normalize_cons_slash. apply normalize_seg_join; assumption.
Qed.

(* every path is an equivalent spelling of its canonical form *)
Corollary normalize_canonical path : normalize (join_slash (normalize path)) = normalize path.
Proof. apply normalize_join. apply normalize_Spells. Qed.

(* --- equivalent spellings address the same node in add / remove / match --- *)
Definition same_path (p q : str) : Prop := normalize p = normalize q.

Lemma same_path_trailing a : same_path (a ++ [47]) a.
Proof. apply normalize_trailing_slash. Qed.
Lemma same_path_leading a : same_path ([47] ++ a) a.
Proof. apply normalize_leading_slash. Qed.
Lemma same_path_double a b : same_path (a ++ [47; 47] ++ b) (a ++ [47] ++ b).
Proof. apply normalize_double_slash. Qed.

Theorem add_key_same_path n p q k i :
  same_path p q -> add_key n (normalize p) k i = add_key n (normalize q) k i.
Proof. unfold same_path; intros ->. reflexivity. Qed.

Theorem remove_key_same_path n p q k i :
  same_path p q -> remove_key n (normalize p) k i = remove_key n (normalize q) k i.
Proof. unfold same_path; intros ->. reflexivity. Qed.

Theorem get_matching_same_path_exact n p q :
  (forall b, p <> b ++ [42]) -> (forall b, q <> b ++ [42]) -> same_path p q ->
  get_matching n p = get_matching n q.
Proof. intros Hp Hq E. rewrite !get_matching_exact by assumption. rewrite E. reflexivity. Qed.

Theorem get_matching_same_path_wild n a b :
  same_path a b -> get_matching n (a ++ [42]) = get_matching n (b ++ [42]).
Proof. intros E. rewrite !get_matching_wild_eq. rewrite E. reflexivity. Qed.

Lemma snoc_inj {A} (a b : list A) x y : a ++ [x] = b ++ [y] -> a = b /\ x = y.
Proof. intros H. apply app_inj_tail in H. exact H. Qed.

Corollary get_matching_trailing_slash n a :
  (forall b, a <> b ++ [42]) -> get_matching n (a ++ [47]) = get_matching n a.
Proof.
  intros Ha. apply get_matching_same_path_exact; [|exact Ha|apply same_path_trailing].
  intros b E. apply snoc_inj in E. destruct E as [_ E]. discriminate.
Qed.

(* ------------------------------------------------------------------ 6. the abstract map and the trace theorem *)

(* --- sort_z only depends on the multiset --- *)
Lemma insert_z_comm x y l : insert_z x (insert_z y l) = insert_z y (insert_z x l).
Proof.
  induction l as [|z l IH]; cbn [insert_z];
    repeat (match goal with |- context [?a <=? ?b] => destruct (Z.leb_spec a b); cbn [insert_z] end);
    try reflexivity; try lia; try (rewrite IH; reflexivity);
    try (assert (x = y) by lia; subst; reflexivity).
Qed.

Lemma sort_z_perm l l' : Permutation l l' -> sort_z l = sort_z l'.
Proof.
  unfold sort_z. induction 1 as [|x l l' P IH|x y l|l l' l'' P1 IH1 P2 IH2]; cbn [fold_right].
  - reflexivity.
  - rewrite IH. reflexivity.
  - apply insert_z_comm.
  - congruence.
Qed.

(* --- small list facts --- *)
Lemma flat_map_map' {A B C} (f : A -> B) (g : B -> list C) l :
  flat_map g (map f l) = flat_map (fun x => g (f x)) l.
Proof. induction l as [|x l IH]; cbn [map flat_map]; [reflexivity | rewrite IH; reflexivity]. Qed.

Lemma flat_map_nil' {A B} (g : A -> list B) l : (forall x, In x l -> g x = []) -> flat_map g l = [].
Proof.
  induction l as [|x l IH]; intros H; cbn [flat_map]; [reflexivity|].
  rewrite (H x (or_introl eq_refl)), IH; [reflexivity|]. intros y Hy. apply H. right; exact Hy.
Qed.

Lemma NoDup_app' {A} (a b : list A) :
  NoDup a -> NoDup b -> (forall x, In x a -> ~ In x b) -> NoDup (a ++ b).
Proof.
  induction a as [|x a IH]; intros Na Nb D; cbn [app]; [exact Nb|].
  inversion Na as [|? ? Hx Na']; subst. constructor.
  - rewrite in_app_iff. intros [H | H]; [exact (Hx H) | exact (D x (or_introl eq_refl) H)].
  - apply IH; [exact Na' | exact Nb|]. intros y Hy. apply D. right; exact Hy.
Qed.

Lemma NoDup_map_inj {A B} (f : A -> B) l :
  (forall x y, f x = f y -> x = y) -> NoDup l -> NoDup (map f l).
Proof.
  intros Inj. induction 1 as [|x l Hx N IH]; cbn [map]; constructor; [|exact IH].
  intros H. apply in_map_iff in H. destruct H as [y [E Hy]]. apply Inj in E. subst y. exact (Hx Hy).
Qed.

(* --- the abstract map: normalized path -> association list key -> identity --- *)
Definition amap := list (list str * list (Z * Z)).

Definition alookup (M : amap) (p : list str) : list (Z * Z) :=
  match afind segs_eqb M p with Some ks => ks | None => [] end.
Definition a_add (M : amap) (p : list str) (k i : Z) : amap :=
  aset segs_eqb M p (set_key (alookup M p) k i).
Definition a_removable (M : amap) (p : list str) (k i : Z) : bool :=
  match get_key (alookup M p) k with Some j => j =? i | None => false end.
Definition a_remove (M : amap) (p : list str) (k i : Z) : amap :=
  if a_removable M p k i then aset segs_eqb M p (del_key (alookup M p) k) else M.

Fixpoint prefixb (a p : list str) : bool :=
  match a, p with
  | [], _ => true
  | x :: a', y :: p' => str_eqb x y && prefixb a' p'
  | _ :: _, [] => false
  end.

Lemma prefixb_prefix a p : prefixb a p = true <-> prefix a p.
Proof.
  unfold prefix. revert p; induction a as [|x a IH]; intros p; cbn [prefixb].
  - split; [intros _; exists p; reflexivity | reflexivity].
  - destruct p as [|y p].
    + split; [discriminate | intros [q H]; discriminate].
    + rewrite andb_true_iff, str_eqb_eq, IH. split.
      * intros [-> [q ->]]. exists q. reflexivity.
      * intros [q H]. cbn [app] in H. inversion H; subst. split; [reflexivity | exists q; reflexivity].
Qed.

(* keys of one map entry if its path lies at or below b *)
Definition keys_under (b : list str) (e : list str * list (Z * Z)) : list Z :=
  if prefixb b (fst e) then map fst (snd e) else [].

(* the answer to a pattern computed on the abstract map *)
Definition a_match (M : amap) (pattern : str) : list Z :=
  if last pattern 0 =? 42
  then flat_map (keys_under (normalize (removelast pattern))) M
  else map fst (alookup M (normalize pattern)).

Fixpoint prefixes_ne (p : list str) : list (list str) :=
  match p with [] => [] | sg :: r => [sg] :: map (cons sg) (prefixes_ne r) end.

(* the distinct non-empty prefixes of the paths that hold keys *)
Definition a_prefixes (M : amap) : list (list str) :=
  nodup segs_eq_dec
    (flat_map (fun e => match snd e with [] => [] | _ :: _ => prefixes_ne (fst e) end) M).

Lemma In_prefixes_ne x p : In x (prefixes_ne p) <-> x <> [] /\ prefix x p.
Proof.
  unfold prefix. revert x; induction p as [|sg r IH]; intros x; cbn [prefixes_ne In].
  - split; [intros [] | intros [Hx [q H]]]. destruct x; [congruence | discriminate].
  - rewrite in_map_iff. split.
    + intros [H | [y [H Hy]]].
      * subst x. split; [discriminate | exists r; reflexivity].
      * subst x. apply IH in Hy. destruct Hy as [_ [q ->]]. split; [discriminate | exists q; reflexivity].
    + intros [Hx [q H]]. destruct x as [|a x]; [congruence|]. cbn [app] in H. inversion H; subst.
      destruct x as [|b x]; [left; reflexivity|]. right. exists (b :: x). split; [reflexivity|].
      apply IH. split; [discriminate | exists q; reflexivity].
Qed.

Lemma alookup_aset M p v q : alookup (aset segs_eqb M p v) q = if segs_eqb p q then v else alookup M q.
Proof.
  unfold alookup. rewrite (afind_aset segs_eqb segs_eqb_eq). destruct (segs_eqb p q); reflexivity.
Qed.

Lemma alookup_In M p ks : NoDup (map fst M) -> In (p, ks) M -> alookup M p = ks.
Proof. intros N H. unfold alookup. rewrite (In_afind segs_eqb segs_eqb_eq M p ks N H). reflexivity. Qed.

Lemma alookup_notin M p : ~ In p (map fst M) -> alookup M p = [].
Proof. intros H. unfold alookup. apply (afind_None segs_eqb segs_eqb_eq) in H. rewrite H. reflexivity. Qed.

Lemma alookup_nonempty_In M p : alookup M p <> [] -> In (p, alookup M p) M.
Proof.
  unfold alookup. destruct (afind segs_eqb M p) as [ks|] eqn:F; [|congruence].
  intros _. apply (afind_Some_In segs_eqb segs_eqb_eq). exact F.
Qed.

Lemma alookup_app_skip A B p ks q :
  q <> p -> alookup (A ++ (p, ks) :: B) q = alookup (A ++ B) q.
Proof.
  intros H. unfold alookup. rewrite !afind_app. cbn [afind].
  rewrite (proj2 (segs_eqb_neq p q)) by congruence. reflexivity.
Qed.

Lemma alookup_cons_skip B p ks q : q <> p -> alookup ((p, ks) :: B) q = alookup B q.
Proof. apply (alookup_app_skip [] B). Qed.

Lemma alookup_cons_same B p ks : alookup ((p, ks) :: B) p = ks.
Proof. unfold alookup. cbn [afind]. rewrite (proj2 (segs_eqb_eq p p) eq_refl). reflexivity. Qed.

(* --- two finite maps with the same lookup function give the same multiset of answers --- *)
Lemma keys_under_nil b p : keys_under b (p, []) = [].
Proof. unfold keys_under. cbn [fst snd map]. destruct (prefixb b p); reflexivity. Qed.

Lemma same_lookup_perm b (L1 L2 : amap) :
  NoDup (map fst L1) -> NoDup (map fst L2) -> (forall p, alookup L1 p = alookup L2 p) ->
  Permutation (flat_map (keys_under b) L1) (flat_map (keys_under b) L2).
Proof.
  revert L2; induction L1 as [|[p ks] L1 IH]; intros L2 N1 N2 HL.
  - cbn [flat_map]. rewrite flat_map_nil'; [constructor|].
    intros [q ks] Hq. rewrite <- (alookup_In L2 q ks N2 Hq), <- HL. apply keys_under_nil.
  - cbn [map fst] in N1. inversion N1 as [|? ? Hp N1']; subst.
    assert (HL1 : forall q, q <> p -> alookup L1 q = alookup ((p, ks) :: L1) q).
    { intros q Hq. rewrite alookup_cons_skip by exact Hq. reflexivity. }
    cbn [flat_map]. destruct ks as [|kv ks].
    + rewrite keys_under_nil. cbn [app]. apply IH; [exact N1' | exact N2|].
      intros q. destruct (segs_eq_dec q p) as [->|Hq].
      * rewrite alookup_notin by exact Hp. rewrite <- HL, alookup_cons_same. reflexivity.
      * rewrite HL1 by exact Hq. apply HL.
    + assert (Hin : In (p, kv :: ks) L2).
      { pose proof (HL p) as E. rewrite alookup_cons_same in E. rewrite E.
        apply alookup_nonempty_In. rewrite <- E. discriminate. }
      apply in_split in Hin. destruct Hin as [A [B ->]].
      rewrite flat_map_app. cbn [flat_map].
      rewrite map_app in N2. cbn [map fst] in N2.
      eapply Permutation_trans; [|apply Permutation_app_swap_app].
      apply Permutation_app_head. rewrite <- flat_map_app.
      apply IH; [exact N1' | rewrite map_app; eapply NoDup_remove_1; exact N2|].
      intros q. destruct (segs_eq_dec q p) as [->|Hq].
      * rewrite alookup_notin by exact Hp. symmetry. apply alookup_notin.
        rewrite map_app. eapply NoDup_remove_2; exact N2.
      * rewrite HL1 by exact Hq. rewrite HL. apply alookup_app_skip; exact Hq.
Qed.

(* --- the map read off the trie (preorder), used only as a bridge in the proofs --- *)
Definition push (s : str) (e : list str * list (Z * Z)) : list str * list (Z * Z) := (s :: fst e, snd e).

Fixpoint to_map (n : node) : amap :=
  match n with
  | Node ks cs => ([], ks) ::
      (fix go (l : list (str * node)) : amap :=
         match l with [] => [] | (s, c) :: r => map (push s) (to_map c) ++ go r end) cs
  end.
Fixpoint kids_map (l : list (str * node)) : amap :=
  match l with [] => [] | (s, c) :: r => map (push s) (to_map c) ++ kids_map r end.

Lemma to_map_eq ks cs : to_map (Node ks cs) = ([], ks) :: kids_map cs.
Proof. reflexivity. Qed.

Lemma In_kids_map p ks cs :
  In (p, ks) (kids_map cs) <-> exists s c p', In (s, c) cs /\ p = s :: p' /\ In (p', ks) (to_map c).
Proof.
  induction cs as [|[s c] r IH]; cbn [kids_map In].
  - split; [intros [] | intros [? [? [? [[] _]]]]].
  - rewrite in_app_iff, in_map_iff, IH. split.
    + intros [[[p' ks'] [E H]] | [s' [c' [p' [H1 [H2 H3]]]]]].
      * unfold push in E. cbn [fst snd] in E. inversion E; subst.
        exists s, c, p'. split; [left; reflexivity | split; [reflexivity | exact H]].
      * exists s', c', p'. split; [right; exact H1 | split; assumption].
    + intros [s' [c' [p' [[H1 | H1] [H2 H3]]]]].
      * inversion H1; subst. left. exists (p', ks). split; [reflexivity | exact H3].
      * right. exists s', c', p'. split; [exact H1 | split; assumption].
Qed.

Lemma kids_map_paths_cons x cs :
  In x (map fst (kids_map cs)) -> exists s p', x = s :: p' /\ In s (map fst cs).
Proof.
  intros H. apply in_map_iff in H. destruct H as [[p ks] [E H]]. cbn [fst] in E. subst p.
  apply In_kids_map in H. destruct H as [s [c [p' [H1 [H2 _]]]]].
  exists s, p'. split; [exact H2|]. apply in_map_iff. exists (s, c). split; [reflexivity | exact H1].
Qed.

(* T1: subtree_keys is the concatenation of all key lists of the map *)
Lemma subtree_keys_to_map n : subtree_keys n = flat_map (fun e => map fst (snd e)) (to_map n).
Proof.
  induction n as [ks cs IH] using node_ind'.
  rewrite subtree_keys_eq, to_map_eq. cbn [flat_map snd]. f_equal.
  induction IH as [|[s c] r Hc Hr IHr]; cbn [kids_keys kids_map flat_map]; [reflexivity|].
  rewrite flat_map_app, flat_map_map', IHr. cbn [snd] in Hc. rewrite Hc. reflexivity.
Qed.

(* T2: count_nodes is the number of map entries *)
Lemma count_nodes_to_map n : count_nodes n = Z.of_nat (length (to_map n)).
Proof.
  induction n as [ks cs IH] using node_ind'.
  rewrite count_nodes_eq, to_map_eq. cbn [length]. rewrite Nat2Z.inj_succ.
  assert (E : kids_count cs = Z.of_nat (length (kids_map cs))); [|lia].
  induction IH as [|[s c] r Hc Hr IHr]; cbn [kids_count kids_map]; [reflexivity|].
  rewrite app_length, map_length, Nat2Z.inj_add, IHr. cbn [snd] in Hc. rewrite Hc. reflexivity.
Qed.

(* T3: the entries of the map are exactly the nodes of the trie *)
Lemma In_to_map n :
  TWF n -> forall p ks, In (p, ks) (to_map n) <-> exists m, descend n p = Some m /\ nkeys m = ks.
Proof.
  induction n as [ks0 cs IH] using node_ind_In. intros W p ks. inversion W as [? ? Hk Hc Hw He]; subst.
  rewrite to_map_eq. cbn [In]. rewrite In_kids_map. split.
  - intros [H | [s [c [p' [H1 [H2 H3]]]]]].
    + inversion H; subst. exists (Node ks cs). split; reflexivity.
    + subst p. apply (IH s c H1 (Hw s c H1)) in H3. destruct H3 as [m [D K]].
      exists m. split; [|exact K]. cbn [descend nkids]. rewrite (In_find_child cs s c Hc H1). exact D.
  - intros [m [D K]]. destruct p as [|s p'].
    + cbn [descend] in D. inversion D; subst. left. reflexivity.
    + right. cbn [descend nkids] in D. destruct (find_child cs s) as [c|] eqn:F; [|discriminate].
      apply find_child_In in F. exists s, c, p'. split; [exact F|]. split; [reflexivity|].
      apply (IH s c F (Hw s c F)). exists m. split; assumption.
Qed.

(* T4: its paths are pairwise distinct *)
Lemma NoDup_to_map n : TWF n -> NoDup (map fst (to_map n)).
Proof.
  induction n as [ks cs IH] using node_ind_In. intros W. inversion W as [? ? Hk Hc Hw He]; subst.
  rewrite to_map_eq. cbn [map fst]. constructor.
  - intros H. apply kids_map_paths_cons in H. destruct H as [s [p' [E _]]]. discriminate.
  - clear W Hk He. induction cs as [|[s c] r IHr]; cbn [kids_map map]; [constructor|].
    cbn [map fst] in Hc. inversion Hc as [|? ? Hs Hc']; subst.
    rewrite map_app, map_map. apply NoDup_app'.
    + change (fun x : list str * list (Z * Z) => fst (push s x)) with (fun x : list str * list (Z * Z) => s :: fst x).
      rewrite <- (map_map fst (cons s)). apply NoDup_map_inj; [intros x y E; inversion E; reflexivity|].
      apply (IH s c (or_introl eq_refl)). apply (Hw s c). left; reflexivity.
    + apply IHr; [|exact Hc'|].
      * intros sg c' H. apply (IH sg c'). right; exact H.
      * intros sg c' H. apply (Hw sg c'). right; exact H.
    + intros x Hx Hx'. apply in_map_iff in Hx. destruct Hx as [e [E _]]. unfold push in E. cbn [fst] in E.
      apply kids_map_paths_cons in Hx'. destruct Hx' as [s' [p' [E' Hs']]]. subst x.
      inversion E'; subst. exact (Hs Hs').
Qed.

(* the map read off the trie has the same lookup function as abs *)
Lemma alookup_to_map n p : TWF n -> alookup (to_map n) p = abs n p.
Proof.
  intros W. unfold abs. destruct (descend n p) as [m|] eqn:D.
  - apply alookup_In; [apply NoDup_to_map; exact W|].
    apply In_to_map; [exact W|]. exists m. split; [exact D | reflexivity].
  - apply alookup_notin. intros H. apply in_map_iff in H. destruct H as [[q ks] [E H]].
    cbn [fst] in E. subst q. apply In_to_map in H; [|exact W]. destruct H as [m [D' _]]. congruence.
Qed.

(* T5: filtering the preorder map by a prefix gives exactly the subtree of that prefix *)
Lemma keys_under_push sg b' s L :
  flat_map (keys_under (sg :: b')) (map (push s) L) =
  if str_eqb sg s then flat_map (keys_under b') L else [].
Proof.
  rewrite flat_map_map'. destruct (str_eqb sg s) eqn:E.
  - apply flat_map_ext. intros e. unfold keys_under, push. cbn [fst snd prefixb]. rewrite E. reflexivity.
  - apply flat_map_nil'. intros e _. unfold keys_under, push. cbn [fst snd prefixb]. rewrite E. reflexivity.
Qed.

Lemma keys_under_kids sg b' cs :
  NoDup (map fst cs) ->
  flat_map (keys_under (sg :: b')) (kids_map cs) =
  match find_child cs sg with Some c => flat_map (keys_under b') (to_map c) | None => [] end.
Proof.
  induction cs as [|[s c] r IH]; intros N; cbn [kids_map find_child flat_map]; [reflexivity|].
  cbn [map fst] in N. inversion N as [|? ? Hs N']; subst.
  rewrite flat_map_app, keys_under_push, (IH N'). rewrite (eqb_sym' str_eqb str_eqb_eq s sg).
  destruct (str_eqb sg s) eqn:E; [|reflexivity].
  apply str_eqb_eq in E. subst s. rewrite (proj2 (find_child_None r sg) Hs). apply app_nil_r.
Qed.

Lemma keys_under_to_map n b :
  TWF n ->
  flat_map (keys_under b) (to_map n) =
  match descend n b with Some m => subtree_keys m | None => [] end.
Proof.
  revert n; induction b as [|sg b' IH]; intros n W.
  - cbn [descend]. rewrite subtree_keys_to_map. apply flat_map_ext. intros e. reflexivity.
  - inversion W as [ks cs Hk Hc Hw He]; subst. rewrite to_map_eq. cbn [flat_map descend nkids].
    rewrite keys_under_kids by exact Hc. unfold keys_under at 1. cbn [fst prefixb app].
    destruct (find_child cs sg) as [c|] eqn:F; [|reflexivity].
    apply IH. apply find_child_In in F. eapply Hw; exact F.
Qed.

(* --- the representation invariant --- *)
Definition Rep (t : node) (M : amap) : Prop :=
  TWF t /\ NoDup (map fst M) /\ forall p, abs t p = alookup M p.

Lemma Rep_empty : Rep empty_node [].
Proof. split; [exact TWF_empty|]. split; [constructor|]. intros p. apply abs_empty. Qed.

Lemma Rep_add t M p k i : Rep t M -> Rep (add_key t p k i) (a_add M p k i).
Proof.
  intros [W [N H]]. split; [apply TWF_add_key; exact W|]. split.
  - apply NoDup_aset; [exact segs_eqb_eq | exact N].
  - intros q. unfold a_add. rewrite add_key_spec_b, alookup_aset.
    rewrite (eqb_sym' segs_eqb segs_eqb_eq p q). destruct (segs_eqb q p) eqn:E.
    + apply segs_eqb_eq in E. subst q. rewrite H. reflexivity.
    + apply H.
Qed.

Lemma Rep_removable t M p k i :
  (forall q, abs t q = alookup M q) -> snd (remove_key t p k i) = a_removable M p k i.
Proof.
  intros H. unfold a_removable. rewrite <- H.
  pose proof (remove_key_ok t p k i) as O. destruct (get_key (abs t p) k) as [j|].
  - destruct (j =? i) eqn:E.
    + apply Z.eqb_eq in E. subst j. apply O. reflexivity.
    + destruct (snd (remove_key t p k i)); [|reflexivity].
      destruct O as [O _]. specialize (O eq_refl). inversion O; subst. rewrite Z.eqb_refl in E. discriminate.
  - destruct (snd (remove_key t p k i)); [|reflexivity]. destruct O as [O _]. specialize (O eq_refl). discriminate.
Qed.

Lemma Rep_remove t M p k i : Rep t M -> Rep (fst (remove_key t p k i)) (a_remove M p k i).
Proof.
  intros [W [N H]]. split; [apply TWF_remove_key; exact W|].
  unfold a_remove. rewrite <- (Rep_removable t M p k i H).
  destruct (snd (remove_key t p k i)) eqn:E.
  - split; [apply NoDup_aset; [exact segs_eqb_eq | exact N]|].
    intros q. rewrite remove_key_spec_b, E, andb_true_r, alookup_aset.
    rewrite (eqb_sym' segs_eqb segs_eqb_eq p q). destruct (segs_eqb q p) eqn:E'.
    + apply segs_eqb_eq in E'. subst q. rewrite H. reflexivity.
    + apply H.
  - split; [exact N|]. rewrite remove_key_false by exact E. exact H.
Qed.

(* --- answers --- *)
Lemma get_matching_dec n pattern :
  get_matching n pattern =
  if last pattern 0 =? 42
  then match descend n (normalize (removelast pattern)) with Some m => subtree_keys m | None => [] end
  else map fst (abs n (normalize pattern)).
Proof.
  destruct (last pattern 0 =? 42) eqn:E.
  - apply Z.eqb_eq in E. assert (Hne : pattern <> []) by (intros ->; cbn in E; discriminate).
    rewrite (app_removelast_last 0 Hne) at 1. rewrite E. apply get_matching_wild_eq.
  - apply get_matching_exact. intros b ->. rewrite last_last, Z.eqb_refl in E. discriminate.
Qed.

Theorem Rep_match_perm t M pattern :
  Rep t M -> Permutation (get_matching t pattern) (a_match M pattern).
Proof.
  intros [W [N H]]. rewrite get_matching_dec. unfold a_match. destruct (last pattern 0 =? 42).
  - rewrite <- (keys_under_to_map t _ W). apply same_lookup_perm; [apply NoDup_to_map; exact W | exact N|].
    intros p. rewrite alookup_to_map by exact W. apply H.
  - rewrite H. apply Permutation_refl.
Qed.

(* exact (non-wildcard) patterns: the very same list, in the same order *)
Theorem Rep_match_exact t M pattern :
  Rep t M -> last pattern 0 <> 42 -> get_matching t pattern = a_match M pattern.
Proof.
  intros [W [N H]] E. rewrite get_matching_dec. unfold a_match.
  rewrite (proj2 (Z.eqb_neq _ _) E). rewrite H. reflexivity.
Qed.

Corollary Rep_match_sorted t M pattern :
  Rep t M -> sort_z (get_matching t pattern) = sort_z (a_match M pattern).
Proof. intros R. apply sort_z_perm. apply Rep_match_perm; exact R. Qed.

(* --- count_nodes = 1 + number of distinct non-empty prefixes of paths that hold keys --- *)
Lemma In_a_prefixes M x :
  In x (a_prefixes M) <-> exists p ks, In (p, ks) M /\ ks <> [] /\ x <> [] /\ prefix x p.
Proof.
  unfold a_prefixes. rewrite nodup_In, in_flat_map. split.
  - intros [[p ks] [Hin Hx]]. cbn [fst snd] in Hx. destruct ks as [|kv ks]; [destruct Hx|].
    apply In_prefixes_ne in Hx. exists p, (kv :: ks). split; [exact Hin|]. split; [discriminate | exact Hx].
  - intros [p [ks [Hin [Hk Hx]]]]. exists (p, ks). split; [exact Hin|]. cbn [fst snd].
    destruct ks as [|kv ks]; [congruence|]. apply In_prefixes_ne. exact Hx.
Qed.

Theorem Rep_count_nodes t M : Rep t M -> count_nodes t = 1 + Z.of_nat (length (a_prefixes M)).
Proof.
  intros [W [N H]]. rewrite count_nodes_to_map.
  pose proof (NoDup_to_map t W) as Nt. pose proof (In_to_map t W) as It.
  destruct t as [ks cs]. rewrite to_map_eq in *. cbn [length]. rewrite Nat2Z.inj_succ.
  cbn [map fst] in Nt. inversion Nt as [|? ? _ Nk]; subst.
  rewrite <- (map_length fst (kids_map cs)).
  rewrite (Permutation_length (l := map fst (kids_map cs)) (l' := a_prefixes M)); [lia|].
  apply NoDup_Permutation; [exact Nk | apply NoDup_nodup|].
  intros x. rewrite In_a_prefixes. split.
  - intros Hx. assert (Hne : x <> []).
    { apply kids_map_paths_cons in Hx. destruct Hx as [s [p' [-> _]]]. discriminate. }
    apply in_map_iff in Hx. destruct Hx as [[x' ksx] [E Hx]]. cbn [fst] in E. subst x'.
    assert (Hx' : In (x, ksx) (([], ks) :: kids_map cs)) by (right; exact Hx).
    apply It in Hx'. destruct Hx' as [m [D _]].
    destruct (TWF_no_empty_branch _ _ _ W Hne D) as [q [k [i Hq]]].
    exists (x ++ q), (alookup M (x ++ q)). rewrite H in Hq.
    split; [apply alookup_nonempty_In; intros E; rewrite E in Hq; destruct Hq|].
    split; [intros E; rewrite E in Hq; destruct Hq|]. split; [exact Hne | exists q; reflexivity].
  - intros [p [ksp [Hin [Hk [Hne [q ->]]]]]].
    pose proof (alookup_In M _ _ N Hin) as E. rewrite <- H, abs_app in E.
    destruct (descend (Node ks cs) x) as [m|] eqn:D; [|congruence].
    assert (Hx : In (x, nkeys m) (([], ks) :: kids_map cs)) by (apply It; exists m; split; [exact D | reflexivity]).
    destruct Hx as [Hx | Hx]; [inversion Hx; congruence|].
    apply in_map_iff. exists (x, nkeys m). split; [reflexivity | exact Hx].
Qed.

(* --- the operation streams --- *)
Inductive top :=
| TAdd (k i : Z) (p : str) | TRemove (k i : Z) (p : str) | TMatch (pat : str) | TClear | TCount | TBad.

Definition decode (op : list Z) : top :=
  match op with
  | 1 :: k :: i :: rest => TAdd k i (fst (read_str rest))
  | 2 :: k :: i :: rest => TRemove k i (fst (read_str rest))
  | 3 :: rest => TMatch (fst (read_str rest))
  | [4] => TClear
  | [5] => TCount
  | _ => TBad
  end.

Definition t_step (t : node) (o : top) : node * list Z :=
  match o with
  | TAdd k i p => (add_key t (normalize p) k i, [])
  | TRemove k i p => (fst (remove_key t (normalize p) k i), [])
  | TMatch pat => (t, sort_z (get_matching t pat))
  | TClear => (empty_node, [])
  | TCount => (t, [count_nodes t])
  | TBad => (t, [-1])
  end.

(* the obvious map operations *)
Definition a_step (M : amap) (o : top) : amap * list Z :=
  match o with
  | TAdd k i p => (a_add M (normalize p) k i, [])
  | TRemove k i p => (a_remove M (normalize p) k i, [])
  | TMatch pat => (M, sort_z (a_match M pat))
  | TClear => ([], [])
  | TCount => (M, [1 + Z.of_nat (length (a_prefixes M))])
  | TBad => (M, [-1])
  end.

Definition a_trie_step (M : amap) (op : list Z) : amap * list Z := a_step M (decode op).

Lemma trie_step_decode t op : trie_step t op = t_step t (decode op).
Proof.
  unfold trie_step, decode.
  repeat (match goal with |- context [match ?x with _ => _ end] => is_var x; destruct x end; cbv beta iota);
    try reflexivity.
  all: cbn [t_step].
  all: try (destruct (read_str op) as [p r]; cbn [fst]).
  all: try (destruct (remove_key _ _ _ _) as [t' ok]; cbn [fst]).
  all: reflexivity.
Qed.

Theorem step_refines t M o :
  Rep t M -> Rep (fst (t_step t o)) (fst (a_step M o)) /\ snd (t_step t o) = snd (a_step M o).
Proof.
  intros R. destruct o as [k i p|k i p|pat| | |]; cbn [t_step a_step fst snd].
  - split; [apply Rep_add; exact R | reflexivity].
  - split; [apply Rep_remove; exact R | reflexivity].
  - split; [exact R | apply Rep_match_sorted; exact R].
  - split; [exact Rep_empty | reflexivity].
  - split; [exact R|]. rewrite (Rep_count_nodes t M R). reflexivity.
  - split; [exact R | reflexivity].
Qed.

Lemma run_refines t M ops :
  Rep t M ->
  Rep (run_state trie_step t ops) (run_state a_trie_step M ops) /\
  run_out trie_step t ops = run_out a_trie_step M ops.
Proof.
  unfold run_state, run_out. revert t M; induction ops as [|op ops IH]; intros t M R; cbn [run].
  - split; [exact R | reflexivity].
  - unfold a_trie_step at 1 3. rewrite trie_step_decode.
    destruct (step_refines t M (decode op) R) as [R' E].
    destruct (t_step t (decode op)) as [t1 o1]. destruct (a_step M (decode op)) as [M1 o1'].
    cbn [fst snd] in R', E. subst o1'. destruct (IH t1 M1 R') as [R'' E''].
    destruct (run trie_step t1 ops) as [t2 os]. destruct (run a_trie_step M1 ops) as [M2 os'].
    cbn [fst snd] in *. split; [exact R'' | congruence].
Qed.

(* Trace theorem: from the cleared index, after ANY sequence of add / remove / match / clear / count
   operations, the trie is well formed, represents the abstract map maintained by the obvious map
   operations, and every output (sorted get_matching answers, node counts) equals the output computed
   on the abstract map.  Since this holds for every sequence it holds for every prefix, i.e. throughout. *)
Theorem trie_trace ops :
  Rep (run_state trie_step empty_node ops) (run_state a_trie_step [] ops) /\
  run_out trie_step empty_node ops = run_out a_trie_step [] ops.
Proof. apply run_refines. exact Rep_empty. Qed.

Corollary trie_trace_TWF ops : TWF (run_state trie_step empty_node ops).
Proof. destruct (trie_trace ops) as [[W _] _]. exact W. Qed.

Corollary trie_trace_match ops pattern :
  Permutation (get_matching (run_state trie_step empty_node ops) pattern)
              (a_match (run_state a_trie_step [] ops) pattern) /\
  (last pattern 0 <> 42 ->
   get_matching (run_state trie_step empty_node ops) pattern = a_match (run_state a_trie_step [] ops) pattern).
Proof.
  destruct (trie_trace ops) as [R _]. split; [apply Rep_match_perm; exact R|].
  intros E. apply Rep_match_exact; assumption.
Qed.

Corollary trie_trace_count ops :
  count_nodes (run_state trie_step empty_node ops) =
  1 + Z.of_nat (length (a_prefixes (run_state a_trie_step [] ops))).
Proof. destruct (trie_trace ops) as [R _]. apply Rep_count_nodes; exact R. Qed.

(* ------------------------------------------------------------------ further corollaries *)

(* the abstract state as a function  path -> key -> option identity *)
Definition lookup (n : node) (p : list str) (k : Z) : option Z := get_key (abs n p) k.

Corollary lookup_add_key n segs k i p k' :
  lookup (add_key n segs k i) p k' = if segs_eqb p segs && (k =? k') then Some i else lookup n p k'.
Proof.
  unfold lookup. rewrite add_key_spec_b. destruct (segs_eqb p segs); cbn [andb]; [|reflexivity].
  apply get_key_set_key.
Qed.

Corollary lookup_remove_key n segs k i p k' :
  lookup (fst (remove_key n segs k i)) p k' =
  if segs_eqb p segs && snd (remove_key n segs k i) && (k =? k') then None else lookup n p k'.
Proof.
  unfold lookup. rewrite remove_key_spec_b.
  destruct (segs_eqb p segs && snd (remove_key n segs k i)); cbn [andb]; [|reflexivity].
  apply get_key_del_key.
Qed.

Corollary remove_key_ok_lookup n segs k i :
  snd (remove_key n segs k i) = true <-> lookup n segs k = Some i.
Proof. apply remove_key_ok. Qed.

(* pruning is complete: after a removal every remaining non-root node still has a key at or below it *)
Corollary remove_key_prunes n segs k i p m :
  TWF n -> p <> [] -> descend (fst (remove_key n segs k i)) p = Some m ->
  exists q k' i', In (k', i') (abs (fst (remove_key n segs k i)) (p ++ q)).
Proof. intros W. apply TWF_no_empty_branch. apply TWF_remove_key. exact W. Qed.

(* removing the last key below the root gives back the cleared index *)
Corollary TWF_no_keys_empty n : TWF n -> (forall p, abs n p = []) -> n = empty_node.
Proof.
  intros W H. apply is_empty_true. destruct (is_empty n) eqn:E; [reflexivity|].
  destruct (nonempty_has_key n W E) as [q [k [i Hq]]]. rewrite H in Hq. destruct Hq.
Qed.

(* the local well-formedness predicate is equivalent to its semantic reading *)
Definition TWF_sem (n : node) : Prop :=
  (forall p m, descend n p = Some m -> NoDup (map fst (nkeys m)) /\ NoDup (map fst (nkids m))) /\
  (forall p m, p <> [] -> descend n p = Some m -> exists q k i, In (k, i) (abs m q)).

Theorem TWF_iff_sem n : TWF n <-> TWF_sem n.
Proof.
  split.
  - intros W. split.
    + intros p m D. destruct (TWF_descend _ _ _ W D) as [Wm _]. split; [apply TWF_keys | apply TWF_kids]; exact Wm.
    + intros p m Hp D. destruct (TWF_descend _ _ _ W D) as [Wm Em]. apply nonempty_has_key; [exact Wm | exact (Em Hp)].
  - induction n as [ks cs IH] using node_ind_In. intros [S1 S2].
    destruct (S1 [] (Node ks cs) eq_refl) as [Hk Hc]. cbn [nkeys nkids] in Hk, Hc.
    assert (Hd : forall sg c, In (sg, c) cs -> forall p, descend (Node ks cs) (sg :: p) = descend c p).
    { intros sg c Hin p. cbn [descend nkids]. rewrite (In_find_child cs sg c Hc Hin). reflexivity. }
    constructor; [exact Hk | exact Hc | |].
    + intros sg c Hin. apply (IH sg c Hin). split.
      * intros p m D. apply (S1 (sg :: p)). rewrite (Hd sg c Hin). exact D.
      * intros p m Hp D. apply (S2 (sg :: p)); [discriminate|]. rewrite (Hd sg c Hin). exact D.
    + intros sg c Hin. destruct (S2 [sg] c ltac:(discriminate)) as [q [k [i Hq]]].
      { rewrite (Hd sg c Hin). reflexivity. }
      destruct (is_empty c) eqn:E; [|reflexivity]. apply is_empty_true in E. subst c.
      rewrite abs_empty in Hq. destruct Hq.
Qed.

(* the encoded stream: equivalent spellings give the same step *)
Lemma take_str_all s : take_str (length s) s = (s, []).
Proof. induction s as [|c s IH]; cbn [length take_str]; [reflexivity | rewrite IH; reflexivity]. Qed.

Lemma read_str_write_str s : read_str (write_str s) = (s, []).
Proof. unfold read_str, write_str. rewrite Nat2Z.id. apply take_str_all. Qed.

Theorem trie_step_add_same_path t k i p q :
  same_path p q -> trie_step t (1 :: k :: i :: write_str p) = trie_step t (1 :: k :: i :: write_str q).
Proof.
  intros E. rewrite !trie_step_decode. unfold decode. rewrite !read_str_write_str. cbn [fst t_step].
  rewrite E. reflexivity.
Qed.

Theorem trie_step_remove_same_path t k i p q :
  same_path p q -> trie_step t (2 :: k :: i :: write_str p) = trie_step t (2 :: k :: i :: write_str q).
Proof.
  intros E. rewrite !trie_step_decode. unfold decode. rewrite !read_str_write_str. cbn [fst t_step].
  rewrite E. reflexivity.
Qed.

Theorem trie_step_match_same_path t p q :
  last p 0 <> 42 -> last q 0 <> 42 -> same_path p q ->
  trie_step t (3 :: write_str p) = trie_step t (3 :: write_str q).
Proof.
  intros Hp Hq E. rewrite !trie_step_decode. unfold decode. rewrite !read_str_write_str. cbn [fst t_step].
  rewrite !get_matching_dec. rewrite (proj2 (Z.eqb_neq _ _) Hp), (proj2 (Z.eqb_neq _ _) Hq), E. reflexivity.
Qed.

(* ------------------------------------------------------------------ 7. non-vacuity examples *)
Module Examples.
  Definition s_api : str := [97; 112; 105].                 (* "api" *)
  Definition s_users : str := [117; 115; 101; 114; 115].    (* "users" *)
  Definition p_users : str := 47 :: s_api ++ 47 :: s_users. (* "/api/users" *)
  Definition p_user1 : str := p_users ++ [47; 49].          (* "/api/users/1" *)
  Definition p_wild : str := 47 :: s_api ++ [47; 42].       (* "/api/*" *)
  Definition p_users_alt : str := [47; 47] ++ s_api ++ [47; 47; 47] ++ s_users ++ [47]. (* "//api///users/" *)

  Definition t1 := add_key empty_node (normalize p_users) 10 100.
  Definition t2 := add_key t1 (normalize p_user1) 11 101.

  Example ex_normalize : normalize p_user1 = [s_api; s_users; [49]].
  Proof. vm_compute. reflexivity. Qed.
  Example ex_normalize_alt : normalize p_users_alt = normalize p_users.
  Proof. vm_compute. reflexivity. Qed.
  Example ex_twf : TWF t2.
  Proof. apply TWF_add_key, TWF_add_key, TWF_empty. Qed.
  Example ex_abs_users : abs t2 [s_api; s_users] = [(10, 100)].
  Proof. vm_compute. reflexivity. Qed.
  Example ex_abs_user1 : abs t2 [s_api; s_users; [49]] = [(11, 101)].
  Proof. vm_compute. reflexivity. Qed.
  Example ex_abs_api : abs t2 [s_api] = [].
  Proof. vm_compute. reflexivity. Qed.
  Example ex_count : count_nodes t2 = 4.
  Proof. vm_compute. reflexivity. Qed.
  (* removing the deeper key keeps the interior node /api/users with its key, prunes only /api/users/1 *)
  Example ex_remove_deeper :
    remove_key t2 (normalize p_user1) 11 101 = (t1, true) /\
    abs t1 [s_api; s_users] = [(10, 100)] /\ count_nodes t1 = 3.
  Proof. vm_compute. repeat split; reflexivity. Qed.
  (* removing the interior key keeps the interior node (it still has a child) *)
  Example ex_remove_interior :
    let '(t, ok) := remove_key t2 (normalize p_users) 10 100 in
    ok = true /\ abs t [s_api; s_users] = [] /\ abs t [s_api; s_users; [49]] = [(11, 101)] /\ count_nodes t = 4.
  Proof. vm_compute. repeat split; reflexivity. Qed.
  (* removing with a stale identity is a no-op *)
  Example ex_remove_stale : remove_key t2 (normalize p_user1) 11 999 = (t2, false).
  Proof. vm_compute. reflexivity. Qed.
  (* removing everything prunes back to the empty root *)
  Example ex_remove_all :
    fst (remove_key (fst (remove_key t2 (normalize p_users) 10 100)) (normalize p_user1) 11 101) = empty_node.
  Proof. vm_compute. reflexivity. Qed.
  Example ex_wildcard : get_matching t2 p_wild = [10; 11].
  Proof. vm_compute. reflexivity. Qed.
  Example ex_exact : get_matching t2 p_users = [10].
  Proof. vm_compute. reflexivity. Qed.
  Example ex_exact_alt : get_matching t2 p_users_alt = [10].
  Proof. vm_compute. reflexivity. Qed.
  Example ex_exact_api : get_matching t2 (47 :: s_api) = [].
  Proof. vm_compute. reflexivity. Qed.
  Example ex_root_wild : get_matching t2 [47; 42] = [10; 11].
  Proof. vm_compute. reflexivity. Qed.
  (* re-adding a key under a new identity makes the old identity stale *)
  Example ex_readd :
    let t3 := add_key t2 (normalize p_user1) 11 202 in
    abs t3 [s_api; s_users; [49]] = [(11, 202)] /\
    remove_key t3 (normalize p_user1) 11 101 = (t3, false).
  Proof. vm_compute. split; reflexivity. Qed.

  (* the trace theorem is not vacuous: a concrete stream, its outputs, and the abstract outputs *)
  Definition ops : list (list Z) :=
    [ 1 :: 10 :: 100 :: write_str p_users;       (* add 10 at /api/users *)
      1 :: 11 :: 101 :: write_str p_user1;       (* add 11 at /api/users/1 *)
      3 :: write_str p_wild;                     (* match /api/* *)
      [5];                                       (* count *)
      2 :: 11 :: 999 :: write_str p_user1;       (* stale remove *)
      [5];
      2 :: 11 :: 101 :: write_str p_user1;       (* real remove *)
      [5];
      3 :: write_str p_users_alt;                (* match //api///users/ *)
      1 :: 10 :: 300 :: write_str (47 :: s_api); (* the same key at another path *)
      3 :: write_str [47; 42];                   (* match /* : key 10 twice *)
      [4];                                       (* clear *)
      [5] ].
  Definition expected : list (list Z) :=
    [ []; []; [10; 11]; [4]; []; [4]; []; [3]; [10]; []; [10; 10]; []; [1] ].
  Example ex_trace_concrete : run_out trie_step empty_node ops = expected.
  Proof. vm_compute. reflexivity. Qed.
  Example ex_trace_abstract : run_out a_trie_step [] ops = expected.
  Proof. vm_compute. reflexivity. Qed.

  (* REFUTED variant of 6: for wildcard patterns the raw (unsorted) answer is NOT the same list as the
     answer computed on the abstract map - only a permutation of it (Rep_match_perm), hence equal after
     sort_z (Rep_match_sorted), which is what trie_step emits.  Keys at /a/x, /b, /a/y: the trie walks
     /b first because set_child re-appends the touched child /a. *)
  Definition sa : str := [97]. Definition sb : str := [98]. Definition sx : str := [120]. Definition sy : str := [121].
  Definition t_ord := add_key (add_key (add_key empty_node [sa; sx] 1 1) [sb] 2 2) [sa; sy] 3 3.
  Definition m_ord := a_add (a_add (a_add [] [sa; sx] 1 1) [sb] 2 2) [sa; sy] 3 3.
  Example wildcard_order_refuted :
    Rep t_ord m_ord /\ get_matching t_ord [47; 42] = [2; 1; 3] /\ a_match m_ord [47; 42] = [1; 2; 3].
  Proof.
    split; [repeat apply Rep_add; exact Rep_empty|]. vm_compute. split; reflexivity.
  Qed.

  (* REFUTED variant of 4 without TWF: with two sibling children of the same name the second one is
     unreachable through descend/abs, but subtree_keys still reports its keys. *)
  Definition t_dup := Node [] [(sa, Node [(1, 1)] []); (sa, Node [(2, 2)] [])].
  Example wildcard_needs_TWF_refuted :
    In 2 (get_matching t_dup [47; 42]) /\ forall p, ~ In 2 (map fst (abs t_dup p)).
  Proof.
    split; [vm_compute; tauto|].
    intros [|s r]; [intros []|]. rewrite abs_cons. cbn [nkids t_dup find_child].
    destruct (str_eqb sa s); [|intros []].
    destruct r as [|s' r']; [cbn; intros [H | []]; discriminate H|].
    rewrite abs_cons. cbn [nkids find_child]. intros [].
  Qed.
End Examples.
