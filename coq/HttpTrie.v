(* HttpTrie.v — httpcache/pattern.go: the path-segment trie behind Middleware.Invalidate.
   Keys and response identities are integers; paths and patterns are byte strings. *)
Require Import KV.Base KV.HttpModel KV.CacheModel.
Open Scope Z_scope.

Inductive node := Node : list (Z * Z) -> list (str * node) -> node.
Definition nkeys (n : node) := match n with Node ks _ => ks end.
Definition nkids (n : node) := match n with Node _ cs => cs end.
Definition empty_node : node := Node [] [].
Definition is_empty (n : node) : bool :=
  match n with Node [] [] => true | _ => false end.

Fixpoint get_key (ks : list (Z * Z)) (k : Z) : option Z :=
  match ks with [] => None | (k', i) :: r => if k' =? k then Some i else get_key r k end.
Definition del_key (ks : list (Z * Z)) (k : Z) := filter (fun ki => negb (fst ki =? k)) ks.
Definition set_key (ks : list (Z * Z)) (k i : Z) := del_key ks k ++ [(k, i)].

Fixpoint find_child (cs : list (str * node)) (sg : str) : option node :=
  match cs with [] => None | (s, c) :: r => if str_eqb s sg then Some c else find_child r sg end.
Definition del_child (cs : list (str * node)) (sg : str) := filter (fun sc => negb (str_eqb (fst sc) sg)) cs.
Definition set_child (cs : list (str * node)) (sg : str) (c : node) := del_child cs sg ++ [(sg, c)].

(* normalizePath: non-empty segments between '/' *)
Definition normalize (path : str) : list str :=
  filter (fun sg => match sg with [] => false | _ => true end) (split_on 47 path []).

Fixpoint add_key (n : node) (segs : list str) (k i : Z) : node :=
  match segs with
  | [] => Node (set_key (nkeys n) k i) (nkids n)
  | sg :: rest =>
    let c := match find_child (nkids n) sg with Some c => c | None => empty_node end in
    Node (nkeys n) (set_child (nkids n) sg (add_key c rest k i))
  end.

(* removeKeyByIdentity with pruning of branches left empty *)
Fixpoint remove_key (n : node) (segs : list str) (k i : Z) : node * bool :=
  match segs with
  | [] => match get_key (nkeys n) k with
          | Some j => if j =? i then (Node (del_key (nkeys n) k) (nkids n), true) else (n, false)
          | None => (n, false)
          end
  | sg :: rest =>
    match find_child (nkids n) sg with
    | None => (n, false)
    | Some c =>
      let '(c', ok) := remove_key c rest k i in
      if ok then
        (if is_empty c' then Node (nkeys n) (del_child (nkids n) sg)
         else Node (nkeys n) (set_child (nkids n) sg c'), true)
      else (n, false)
    end
  end.

Fixpoint subtree_keys (n : node) : list Z :=
  match n with
  | Node ks cs => map fst ks ++
      (fix go (l : list (str * node)) : list Z :=
         match l with [] => [] | (_, c) :: r => subtree_keys c ++ go r end) cs
  end.

Fixpoint descend (n : node) (segs : list str) : option node :=
  match segs with
  | [] => Some n
  | sg :: rest => match find_child (nkids n) sg with Some c => descend c rest | None => None end
  end.

Definition get_matching (root : node) (pattern : str) : list Z :=
  let pat := match pattern with [] => [47] | _ => pattern end in
  let wildcard := match rev pat with 42 :: _ => true | _ => false end in
  let base := if wildcard then rev (tl (rev pat)) else pat in
  match descend root (normalize base) with
  | None => []
  | Some n => if wildcard then subtree_keys n else map fst (nkeys n)
  end.

Fixpoint count_nodes (n : node) : Z :=
  match n with
  | Node _ cs => 1 + (fix go (l : list (str * node)) : Z :=
                        match l with [] => 0 | (_, c) :: r => count_nodes c + go r end) cs
  end.

(* stream "trie": 1 key id path = addKey, 2 key id path = removeKeyByIdentity, 3 pattern = getMatchingKeys (sorted), 4 = clear *)
Definition trie_step (t : node) (op : list Z) : node * list Z :=
  match op with
  | 1 :: k :: i :: rest => let '(p, _) := read_str rest in (add_key t (normalize p) k i, [])
  | 2 :: k :: i :: rest => let '(p, _) := read_str rest in
                           let '(t', ok) := remove_key t (normalize p) k i in (t', [])
  | 3 :: rest => let '(p, _) := read_str rest in (t, sort_z (get_matching t p))
  | [4] => (empty_node, [])
  | [5] => (t, [count_nodes t])
  | _ => (t, [-1])
  end.
