(* C17 — the named-cache registry hands every caller the same live instance. Statements over RegistryLts (RegistryProofs.v): sync.Map operations and the registration RWMutex as atomic steps, any number of concurrent GetCache / GetCacheWithConfig / Register / RegisterCache / Remove / CloseAll callers over any names and type parameters; `reachable s` quantifies over every interleaving. The sequential registry specification used by the `reg` correspondence stream is in KeyHash.v. Only `exact` + Print Assumptions. *)
Require Import KV.Base KV.RegistryLts KV.RegistryProofs.
Open Scope Z_scope.

(* at most one instance per name at any moment; every instance returned was in the map at the call's linearization point; two calls between removals get the same instance *)
Theorem c17_same_instance :
  forall s : state,
         reachable s ->
         (forall (n m : nat) (i : iid),
          lookup n (caches s) = Some i -> lookup m (caches s) = Some i -> n = m) /\
         (forall (post pre : list event) (t : tid) (i : iid),
          trace s = post ++ ERet t (ROk i) :: pre -> exists n : name, In (ELin t n i) pre) /\
         (forall (t : tid) (a : ty) (n : name) (i : iid),
          thr s t = Done (KGet a n) (ROk i) -> In (ELin t n i) (trace s)) /\
         (forall (post pre : list event) (t : tid) (n : name) (i : iid),
          trace s = post ++ ELin t n i :: pre ->
          (forall j : iid, ~ In (EDel n j) post) -> lookup n (caches s) = Some i) /\
         (forall (post mid pre : list event) (t1 t2 : tid) (n : name) (i1 i2 : iid),
          trace s = post ++ ELin t2 n i2 :: mid ++ ELin t1 n i1 :: pre ->
          (forall j : iid, ~ In (EDel n j) (post ++ ELin t2 n i2 :: mid)) -> i1 = i2).
Proof. exact A1_same_instance. Qed.

(* every stored instance is open when no CloseAll is in flight *)
Theorem c17_live_without_closeall :
  forall (s : state) (n : nat) (i : iid),
         reachable s ->
         (forall t : tid, is_ca (thr s t) = false) ->
         lookup n (caches s) = Some i -> i_st (insts s i) = Open.
Proof. exact A1_live_without_closeall. Qed.

(* a stored non-open instance is exactly one that a CloseAll has visited and is about to forget *)
Theorem c17_live_unless_being_closed :
  forall (s : state) (n : nat) (i : iid),
         reachable s ->
         lookup n (caches s) = Some i ->
         i_st (insts s i) <> Open -> exists t : tid, ca_will_delete (thr s t) n i.
Proof. exact A1_live_unless_closeall. Qed.

(* an instance that lost a creation race is closed by the time its creator returns *)
Theorem c17_losers_closed :
  forall (s : state) (i : nat) (k : kind) (x : res),
         reachable s ->
         (i < ninst s)%nat ->
         thr s (i_creator (insts s i)) = Done k x ->
         i_phase (insts s i) <> Private /\ (exists (a : ty) (n : name), k = KGet a n /\ x = ROk i) \/
         i_st (insts s i) = Closed.
Proof. exact A2_losers_closed. Qed.

(* when all calls have returned every instance ever created is in the map or closed (with CloseAll and Remove allowed; this is the statement the CloseAll fix F12 made true) *)
Theorem c17_no_leak :
  forall s : state,
         reachable s ->
         (forall t : tid, thr s t = Idle \/ (exists (k : kind) (x : res), thr s t = Done k x)) ->
         forall i : nat,
         (i < ninst s)%nat ->
         (exists n : nat, lookup n (caches s) = Some i) \/ i_st (insts s i) = Closed.
Proof. exact A2_no_leak. Qed.

(* a successful call gets an instance of its own type parameters *)
Theorem c17_type_safety :
  forall (s : state) (t : tid) (a : ty) (n : name) (i : iid),
         reachable s -> thr s t = Done (KGet a n) (ROk i) -> i_ty (insts s i) = a.
Proof. exact A3_type_safety. Qed.

(* a failing call leaves no second instance behind *)
Theorem c17_failed_call_closes_what_it_created :
  forall (s : state) (t : tid) (a : ty) (n : name) (x : res) (i : nat),
         reachable s ->
         thr s t = Done (KGet a n) x ->
         (i < ninst s)%nat -> i_creator (insts s i) = t -> x <> ROk i -> i_st (insts s i) = Closed.
Proof. exact A3_failed_call_closed_what_it_created. Qed.

(* type parameters differ from the live instance: ErrTypeMismatch, nothing created *)
Theorem c17_mismatch_live :
  forall (s : state) (t : tid) (ch : nat) (wc : bool) (a : ty) (n : name) 
           (ok : bool) (i : iid),
         thr s t = GLoad wc a n ok ->
         lookup n (caches s) = Some i ->
         i_ty (insts s i) <> a ->
         exists s' : state,
           step s (LStep t ch) = Some s' /\
           thr s' t = Done (KGet a n) EMismatch /\
           caches s' = caches s /\ regs s' = regs s /\ insts s' = insts s /\ ninst s' = ninst s.
Proof. exact A3_mismatch_live_instance. Qed.

(* type parameters differ from a typed registration: ErrTypeMismatch, nothing created (finding F8, fixed, for GetCacheWithConfig) *)
Theorem c17_mismatch_typed_registration :
  forall (s : state) (t : tid) (ch : nat) (wc : bool) (a : ty) (n : name) 
           (ok : bool) (rg : reg),
         thr s t = GRUnlock wc a n ok (Some rg) ->
         typed_mismatch rg a = true ->
         exists s' : state,
           step s (LStep t ch) = Some s' /\
           thr s' t = Done (KGet a n) EMismatch /\
           caches s' = caches s /\ regs s' = regs s /\ insts s' = insts s /\ ninst s' = ninst s.
Proof. exact A3_mismatch_typed_registration. Qed.

(* neither instance nor registration: ErrCacheNotRegistered, nothing changed *)
Theorem c17_unregistered :
  forall (s : state) (t : tid) (a : ty) (n : name) (ok : bool),
         thr s t = GLoad false a n ok ->
         lookup n (caches s) = None ->
         regs s n = None ->
         rw_w (mu s) = None ->
         exists s' : state,
           exec s (steps t 4) = Some s' /\
           thr s' t = Done (KGet a n) ENotReg /\
           caches s' = caches s /\ regs s' = regs s /\ insts s' = insts s /\ ninst s' = ninst s.
Proof. exact A4_unregistered. Qed.

(* a registration only ever disappears through Remove *)
Theorem c17_register_never_replaces :
  forall (s : state) (l : label) (s' : state) (n : name) (r : reg),
         reachable s ->
         step s l = Some s' ->
         regs s n = Some r ->
         regs s' n = Some r \/
         regs s' n = None /\ (exists (t : tid) (ch : nat), l = LStep t ch /\ thr s t = RmDel n).
Proof. exact A5_register_never_replaces. Qed.

(* registering a registered name fails with ErrCacheExists and changes nothing *)
Theorem c17_register_existing :
  forall (s : state) (t : tid) (n : name) (rg r0 : reg),
         thr s t = RgStart n rg ->
         r_ok rg = true ->
         regs s n = Some r0 ->
         mu s = {| rw_w := None; rw_r := [] |} ->
         exists s' : state,
           exec s (steps t 4) = Some s' /\
           thr s' t = Done (KReg n) EExists /\
           caches s' = caches s /\ regs s' = regs s /\ insts s' = insts s /\ mu s' = mu s.
Proof. exact A5_register_existing. Qed.

(* Remove returns with the instance closed *)
Theorem c17_remove_closes_and_forgets :
  forall (s : state) (l : label) (s' : state) (t : tid) (n : name) (i : iid),
         reachable s ->
         thr s t = RmClose n i \/ thr s t = RmCloseFin n i ->
         step s l = Some s' -> thr s' t = Done (KRm n) RNil -> i_st (insts s' i) = Closed.
Proof. exact A6_remove_returns_closed. Qed.

(* an instance taken out of the map never comes back *)
Theorem c17_removed_forgotten :
  forall (s : state) (i : nat),
         reachable s ->
         (i < ninst s)%nat ->
         i_phase (insts s i) = Taken ->
         forall (ls : list label) (s' : state),
         exec s ls = Some s' -> forall n : nat, lookup n (caches s') <> Some i.
Proof. exact A6_forgotten. Qed.

(* CloseAll never touches registrations *)
Theorem c17_closeall_keeps_registrations :
  forall (s : state) (t : tid) (ch : nat) (s' : state),
         is_ca (thr s t) = true -> step s (LStep t ch) = Some s' -> regs s' = regs s /\ mu s' = mu s.
Proof. exact A7_closeall_keeps_registrations. Qed.

(* CloseAll forgets only the instance it closed *)
Theorem c17_closeall_conditional_delete :
  forall (s : state) (t : tid) (ch : nat) (todo vis : list name) (n : name) (i : iid),
         thr s t = CADelete todo vis n i ->
         exists s' : state,
           step s (LStep t ch) = Some s' /\
           thr s' t = CARange todo vis /\
           regs s' = regs s /\
           (lookup n (caches s) = Some i ->
            lookup n (caches s') = None /\
            i_phase (insts s' i) = Taken /\
            trace s' = EDel n i :: trace s /\
            (forall m : name, m <> n -> lookup m (caches s') = lookup m (caches s))) /\
           (lookup n (caches s) <> Some i ->
            caches s' = caches s /\ insts s' = insts s /\ trace s' = trace s).
Proof. exact A7_delete_is_conditional. Qed.

(* after CloseAll a GetCache re-creates from the registration *)
Theorem c17_recreate_after_closeall :
  forall (s : state) (t : tid) (a : ty) (n : name) (rg : reg),
         thr s t = GLoad false a n true ->
         lookup n (caches s) = None ->
         regs s n = Some rg ->
         r_ok rg = true ->
         r_fac rg = r_ty rg ->
         typed_mismatch rg a = false ->
         rw_w (mu s) = None ->
         exists s' : state,
           exec s (steps t 6) = Some s' /\
           thr s' t = Done (KGet a n) (ROk (ninst s)) /\
           lookup n (caches s') = Some (ninst s) /\
           i_st (insts s' (ninst s)) = Open /\ i_ty (insts s' (ninst s)) = a /\ regs s' = regs s.
Proof. exact A7_recreate_from_registration. Qed.

(* the schedule that leaked before the fix (two CloseAll + a re-creating caller) no longer leaks *)
Theorem c17_former_leak_schedule :
  option_map (fun s : state => obs s 4 2) (exec init sched_leak) =
         Some
           ([(0%nat, 1%nat)], [Some (ROk 0%nat); Some RNil; Some RNil; Some (ROk 1%nat)],
            [Closed; Open], [Taken; Stored 0%nat]).
Proof. exact A2_former_leak_schedule_no_longer_leaks. Qed.

(* documented ordering fact: a GetCache linearizing before CloseAll's removal may return the instance CloseAll is closing *)
Theorem c17_closed_instance_window :
  option_map (fun s : state => (result_of s 2%nat, st_of s 0%nat, caches s))
           (exec init sched_closed_returned) = Some (Some (ROk 0%nat), Closed, [(0%nat, 0%nat)]).
Proof. exact A1_closed_instance_returned. Qed.

(* non-vacuity: three concurrent callers, two types, a losing creator closed *)
Theorem c17_three_callers :
  option_map (fun s : state => obs s 3 3) (exec init sched_A8) =
         Some
           ([(0%nat, 0%nat)], [Some (ROk 0%nat); Some (ROk 0%nat); Some EMismatch],
            [Open; Closed; Closed], [Stored 0%nat; Private; Private]).
Proof. exact A8_three_callers. Qed.

Print Assumptions c17_same_instance.
Print Assumptions c17_live_without_closeall.
Print Assumptions c17_live_unless_being_closed.
Print Assumptions c17_losers_closed.
Print Assumptions c17_no_leak.
Print Assumptions c17_type_safety.
Print Assumptions c17_failed_call_closes_what_it_created.
Print Assumptions c17_mismatch_live.
Print Assumptions c17_mismatch_typed_registration.
Print Assumptions c17_unregistered.
Print Assumptions c17_register_never_replaces.
Print Assumptions c17_register_existing.
Print Assumptions c17_remove_closes_and_forgets.
Print Assumptions c17_removed_forgotten.
Print Assumptions c17_closeall_keeps_registrations.
Print Assumptions c17_closeall_conditional_delete.
Print Assumptions c17_recreate_after_closeall.
Print Assumptions c17_former_leak_schedule.
Print Assumptions c17_closed_instance_window.
Print Assumptions c17_three_callers.
