(* C20 — expiry callbacks fire at most once, never early and never for a refreshed key. Statements over CallbackLts (CallbackProofs.v): virtual time, one timer thread per SetWithCallback call, arbitrary interleaving with Set/Delete/Clear/expiry/Close. `reachable dflt s` quantifies over every schedule and timing. Only `exact` + Print Assumptions. *)
Require Import KV.Base KV.CallbackLts KV.CallbackProofs.
Open Scope Z_scope.

(* a callback runs at most once per SetWithCallback call *)
Theorem c20_at_most_once :
  forall (dflt : Z) (s : state), reachable dflt s -> NoDup (map ev_owner (events s)).
Proof. exact B1_at_most_once. Qed.

(* only when the clock is strictly past its own deadline *)
Theorem c20_not_early :
  forall (dflt : Z) (s : state) (tk : task) (g : tg) (w : tid) (a : Z),
         reachable dflt s -> In (ECb tk g w a) (events s) -> tk_dl tk < a.
Proof. exact B2_not_early. Qed.

(* never for a timer that elapses after Close has returned (its select happened before Close returned) *)
Theorem c20_not_after_close_returned :
  forall (dflt : Z) (s : state) (tk : task) (g : tg) (w : tid) (a tau : Z),
         reachable dflt s ->
         In (ECb tk g w a) (events s) ->
         close_at s = Some tau -> g_sac g = false /\ g_fire g <= g_sel g <= tau.
Proof. exact B3_not_after_close_returned. Qed.

(* a timer whose select runs after Close returned never calls *)
Theorem c20_after_close_no_call :
  forall (dflt : Z) (s : state) (t : tid) (tk : task) (g : tg),
         reachable dflt s ->
         g_sac g = true ->
         (forall w : tid, thr s t <> TCall tk g w) /\
         (forall r : option tid, thr s t = TRUnlock tk g r -> r = None) /\
         (post_sel (thr s t) = Some (tk, g) -> once s = ODone).
Proof. exact B3_select_after_close_no_call. Qed.

(* it receives the key and value of its own call *)
Theorem c20_own_key_value :
  forall (dflt : Z) (s : state) (tk : task) (g : tg) (w : tid) (a : Z),
         reachable dflt s ->
         In (ECb tk g w a) (events s) ->
         exists (ttl : Z) (accept : bool),
           calls s (tk_owner tk) =
           Some (CSet (tk_key tk) (tk_val tk) ttl (Some (tk_cb tk)) accept false).
Proof. exact B4_own_key_value. Qed.

(* a failed, rejected or non-expiring write schedules nothing *)
Theorem c20_nothing_scheduled :
  forall (dflt : Z) (s : state) (c : tid) (r : mres) (com : bool) (dl : Z) (sched : bool),
         reachable dflt s ->
         thr s c = MDone r com dl sched ->
         r <> ROk \/ com = false \/ dl <= 0 -> sched = false /\ nothing_for s c.
Proof. exact B5_nothing_scheduled. Qed.

(* not when the key was deleted, cleared or rewritten with another deadline (later or none) at validation time *)
Theorem c20_not_for_refreshed :
  forall (s : state) (t : tid) (ch : nat) (tk : task) (g : tg),
         thr s t = TValidate tk g ->
         tab s (tk_key tk) = None \/
         (exists e : entry, tab s (tk_key tk) = Some e /\ e_dl e <> tk_dl tk) ->
         exists s1 : state,
           step s (LStep t ch) = Some s1 /\ thr s1 t = TRUnlock tk g None /\ events s1 = events s.
Proof. exact B6_not_for_refreshed. Qed.

(* under distinct deadlines the entry validated is the call's own write *)
Theorem c20_own_write_only :
  forall (dflt : Z) (s : state) (tk : task) (g : tg) (w : tid) (a : Z),
         reachable dflt s -> distinct_deadlines s -> In (ECb tk g w a) (events s) -> w = tk_owner tk.
Proof. exact B6_own_write. Qed.

(* the callback runs with no cache lock held *)
Theorem c20_no_lock_held :
  forall (dflt : Z) (s : state) (t : tid) (tk : task) (g : tg) (w : tid),
         reachable dflt s ->
         thr s t = TCall tk g w -> rw_w (smu s) <> Some t /\ ~ In t (rw_r (smu s)) /\ dmu s <> Some t.
Proof. exact B7_no_lock_held. Qed.

(* SetWithCallback(100); Delete; Set(10); time passes: no callback (finding F11, fixed) *)
Theorem c20_delete_reset_regression :
  option_map (fun s : state => (fired s, entry_of s 1, thr s 2, now s)) (exec s0 sched_B8) =
         Some
           ([], Some (11%nat, 10),
            TQuiet {| tk_key := 1; tk_val := 10; tk_dl := 100; tk_cb := 7; tk_owner := 1 |}, 101).
Proof. exact B8_delete_reset_no_callback. Qed.

(* residual case kept visible: Delete then a re-Set stamping the SAME deadline is indistinguishable (hence the distinct-deadlines hypothesis) *)
Theorem c20_same_deadline_residual :
  option_map
           (fun s : state =>
            (fired s, entry_of s 1,
             map (fun e : event => match e with
                                   | ECb tk _ w _ => (tk_owner tk, w)
                                   end) (events s), wlog s)) (exec s0 sched_same) =
         Some
           ([(7%nat, 1%nat, 10%nat, 101)], Some (11%nat, 100), [(1%nat, 4%nat)],
            [(4%nat, 1%nat, 11%nat, 100); (1%nat, 1%nat, 10%nat, 100)]).
Proof. exact B6_same_deadline_residual. Qed.

(* a timer that already passed its select may still call after Close returned: Close does not wait for timer goroutines (the property's clause is about timers that ELAPSE after Close returned) *)
Theorem c20_close_window_note :
  option_map (fun s : state => (fired s, once s, close_at s, entry_of s 1))
           (exec s0 sched_late_call) = Some ([(7%nat, 1%nat, 10%nat, 101)], ODone, Some 101, None).
Proof. exact B3_callback_after_close_returned. Qed.

(* non-vacuity: an untouched entry's callback does fire *)
Theorem c20_nonvacuous :
  option_map (fun s : state => (fired s, thr s 2)) (exec s0 sched_fire) =
         Some
           ([(7%nat, 1%nat, 10%nat, 101)],
            TFired {| tk_key := 1; tk_val := 10; tk_dl := 100; tk_cb := 7; tk_owner := 1 |}).
Proof. exact callback_fires. Qed.

Print Assumptions c20_at_most_once.
Print Assumptions c20_not_early.
Print Assumptions c20_not_after_close_returned.
Print Assumptions c20_after_close_no_call.
Print Assumptions c20_own_key_value.
Print Assumptions c20_nothing_scheduled.
Print Assumptions c20_not_for_refreshed.
Print Assumptions c20_own_write_only.
Print Assumptions c20_no_lock_held.
Print Assumptions c20_delete_reset_regression.
Print Assumptions c20_same_deadline_residual.
Print Assumptions c20_close_window_note.
Print Assumptions c20_nonvacuous.
