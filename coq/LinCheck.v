(* LinCheck.v — a verified linearizability checker for per-key histories of a lossy map.
   Stdlib only.  Executable (extracts with ExtrOcamlBasic). *)
From Coq Require Import List ZArith Lia Bool Arith Permutation.
Require Import KV.Base.
Import ListNotations.
Open Scope Z_scope.

(* ------------------------------------------------------------------ *)
(** * 1. Histories and the sequential specification LossyReg          *)
(* ------------------------------------------------------------------ *)

Inductive kop : Type :=
| KSet (v : Z) (err : bool)
| KGet (res : option Z)
| KDelete (ok : bool)
| KExists (ok : bool).

Record call : Type := mkCall { inv : Z; ret : Z; op : kop }.

(* the exact (loss-free) register: state, operation with its observed result, next state *)
Inductive reg_step : option Z -> kop -> option Z -> Prop :=
| rs_set_ok   s v : reg_step s (KSet v false) (Some v)
| rs_set_err  s v : reg_step s (KSet v true) s
| rs_get      s   : reg_step s (KGet s) s
| rs_del_hit  v   : reg_step (Some v) (KDelete true) None
| rs_del_miss     : reg_step None (KDelete false) None
| rs_ex_hit   v   : reg_step (Some v) (KExists true) (Some v)
| rs_ex_miss      : reg_step None (KExists false) None.

(* [le a b]: a is b after zero or one silent loss step (Some v -> None) *)
Definition le (a b : option Z) : Prop := a = b \/ a = None.

(* a LossyReg run over a sequence of calls, from a start content to a final content;
   loss steps may happen before every call and at the end *)
Inductive lrun : option Z -> list call -> option Z -> Prop :=
| lrun_nil s t : le t s -> lrun s [] t
| lrun_cons s s0 s1 c r t :
    le s0 s -> reg_step s0 (op c) s1 -> lrun s1 r t -> lrun s (c :: r) t.

(* a sequence respects real time: nobody placed later returned before an earlier one was invoked *)
Inductive rt_ok : list call -> Prop :=
| rt_nil : rt_ok []
| rt_cons c r : Forall (fun d => ~ ret d < inv c) r -> rt_ok r -> rt_ok (c :: r).

Definition linearizable_to (init : option Z) (h : list call) (t : option Z) : Prop :=
  exists l, Permutation l h /\ rt_ok l /\ lrun init l t.

Definition linearizable (init : option Z) (h : list call) : Prop :=
  exists t, linearizable_to init h t.

(* ------------------------------------------------------------------ *)
(** * 2. Basic facts                                                   *)
(* ------------------------------------------------------------------ *)

Lemma le_refl a : le a a.
Proof. left; reflexivity. Qed.

Lemma le_none a : le None a.
Proof. right; reflexivity. Qed.

Lemma le_trans a b c : le a b -> le b c -> le a c.
Proof. unfold le; intros [-> | ->] [-> | ->]; auto. Qed.

Lemma le_none_inv a : le a None -> a = None.
Proof. intros [H|H]; exact H. Qed.

#[local] Hint Resolve le_refl le_none : core.

(* rt_ok in terms of positions *)
Lemma rt_ok_app_inv l1 l2 : rt_ok (l1 ++ l2) -> rt_ok l1 /\ rt_ok l2.
Proof.
  induction l1 as [|c l1 IH]; cbn [app]; intros H.
  - split; [constructor | exact H].
  - inversion H as [|? ? HF HR]; subst.
    destruct (IH HR) as [H1 H2]. split; [|exact H2].
    constructor; [|exact H1].
    apply Forall_app in HF. apply HF.
Qed.

Lemma rt_ok_remove l1 c l2 : rt_ok (l1 ++ c :: l2) -> rt_ok (l1 ++ l2).
Proof.
  induction l1 as [|d l1 IH]; cbn [app]; intros H.
  - inversion H; assumption.
  - inversion H as [|? ? HF HR]; subst. constructor; [|auto].
    apply Forall_app in HF. destruct HF as [HF1 HF2].
    apply Forall_app. split; [exact HF1|]. inversion HF2; assumption.
Qed.

Lemma rt_ok_mid A b R :
  rt_ok (A ++ b :: R) ->
  (forall a, In a R -> ~ ret a < inv b) /\ (forall a, In a A -> ~ ret b < inv a).
Proof.
  induction A as [|d A IH]; cbn [app]; intros H.
  - inversion H as [|? ? HF HR]; subst. split.
    + intros a Ha. rewrite Forall_forall in HF. exact (HF a Ha).
    + intros a [].
  - inversion H as [|? ? HF HR]; subst. destruct (IH HR) as [H1 H2]. split; [exact H1|].
    intros a [<- | Ha]; [|exact (H2 a Ha)].
    rewrite Forall_forall in HF. apply HF. apply in_or_app. right; left; reflexivity.
Qed.

Lemma rt_ok_iff l :
  rt_ok l <-> (forall l1 a l2 b l3, l = l1 ++ a :: l2 ++ b :: l3 -> ~ ret b < inv a).
Proof.
  split.
  - intros H l1 a l2 b l3 ->.
    apply rt_ok_app_inv in H. destruct H as [_ H].
    inversion H as [|? ? HF _]; subst.
    rewrite Forall_forall in HF. apply HF. apply in_or_app; right; left; reflexivity.
  - induction l as [|c l IH]; intros H; constructor.
    + rewrite Forall_forall. intros d Hd.
      apply in_split in Hd. destruct Hd as [l2 [l3 ->]].
      apply (H [] c l2 d l3). reflexivity.
    + apply IH. intros l1 a l2 b l3 ->.
      apply (H (c :: l1) a l2 b l3). reflexivity.
Qed.

Lemma rt_ok_front c l1 l2 rest :
  rt_ok (l1 ++ c :: l2) -> Permutation (l1 ++ l2) rest ->
  (forall d, In d rest -> ~ ret d < inv c) ->
  rt_ok (c :: l1 ++ l2).
Proof.
  intros H HP Hmin. constructor.
  - rewrite Forall_forall. intros d Hd. apply Hmin. eapply Permutation_in; eauto.
  - eapply rt_ok_remove; eauto.
Qed.

(* runs *)
Lemma lrun_app_inv s A R t : lrun s (A ++ R) t -> exists m, lrun s A m /\ lrun m R t.
Proof.
  revert s; induction A as [|c A IH]; cbn [app]; intros s H.
  - exists s. split; [constructor; auto | exact H].
  - inversion H as [|? s0 s1 ? ? ? Hle Hst Hr]; subst.
    destruct (IH _ Hr) as [m [H1 H2]]. exists m. split; [|exact H2].
    econstructor; eauto.
Qed.

Lemma lrun_weaken_start s s' l t : le s s' -> lrun s l t -> lrun s' l t.
Proof.
  intros Hle H. inversion H; subst.
  - constructor. eapply le_trans; eauto.
  - econstructor; [eapply le_trans; eauto | eauto | eauto].
Qed.

Lemma lrun_weaken_end s l t t' : le t' t -> lrun s l t -> lrun s l t'.
Proof.
  intros Hle H. induction H.
  - constructor. eapply le_trans; eauto.
  - econstructor; eauto.
Qed.

Lemma lrun_app s A m R t : lrun s A m -> lrun m R t -> lrun s (A ++ R) t.
Proof.
  intros H1 H2. induction H1; cbn [app].
  - eapply lrun_weaken_start; eauto.
  - econstructor; eauto.
Qed.

Lemma linearizable_iff_none init h : linearizable init h <-> linearizable_to init h None.
Proof.
  split.
  - intros [t [l [HP [HR HL]]]]. exists l. repeat split; auto.
    eapply lrun_weaken_end; [|exact HL]. auto.
  - intros H. exists None. exact H.
Qed.

(* ------------------------------------------------------------------ *)
(** * 3. The deterministic "best state" semantics                      *)
(* ------------------------------------------------------------------ *)

Definition oz_eqb (a b : option Z) : bool :=
  match a, b with
  | Some x, Some y => x =? y
  | None, None => true
  | _, _ => false
  end.

Lemma oz_eqb_spec a b : oz_eqb a b = true <-> a = b.
Proof.
  destruct a as [x|], b as [y|]; cbn; try (split; congruence).
  rewrite Z.eqb_eq. split; congruence.
Qed.

Lemma oz_eqb_refl a : oz_eqb a a = true.
Proof. apply oz_eqb_spec; reflexivity. Qed.

(* One call under loss: because a loss may precede the call, the best (largest w.r.t. le)
   content after the call is a function of the content before it. *)
Definition lstep (s : option Z) (o : kop) : option (option Z) :=
  match o with
  | KSet v false => Some (Some v)
  | KSet _ true => Some s
  | KGet None => Some None
  | KGet (Some v) => if oz_eqb s (Some v) then Some s else None
  | KDelete true => match s with Some _ => Some None | None => None end
  | KDelete false => Some None
  | KExists true => match s with Some _ => Some s | None => None end
  | KExists false => Some None
  end.

Lemma lstep_sound s o s1 :
  lstep s o = Some s1 -> exists s0, le s0 s /\ reg_step s0 o s1.
Proof.
  destruct o as [v [|]|[v|]|[|]|[|]]; cbn [lstep]; intros H.
  - inversion H; subst. exists s1; split; auto; constructor.
  - inversion H; subst. exists s; split; auto; constructor.
  - destruct (oz_eqb s (Some v)) eqn:E; [|discriminate].
    apply oz_eqb_spec in E. inversion H; subst. exists (Some v); split; auto; constructor.
  - inversion H; subst. exists None; split; auto; constructor.
  - destruct s as [x|]; [|discriminate]. inversion H; subst.
    exists (Some x); split; auto; constructor.
  - inversion H; subst. exists None; split; auto; constructor.
  - destruct s as [x|]; [|discriminate]. inversion H; subst.
    exists (Some x); split; auto; constructor.
  - inversion H; subst. exists None; split; auto; constructor.
Qed.

Lemma lstep_complete s s0 o s1 :
  le s0 s -> reg_step s0 o s1 -> exists s1', lstep s o = Some s1' /\ le s1 s1'.
Proof.
  intros Hle Hst. destruct Hst; cbn [lstep].
  - eexists; split; eauto.
  - eexists; split; eauto.
  - destruct s0 as [v|].
    + destruct Hle as [<- | Hle]; [|discriminate]. rewrite oz_eqb_refl. eexists; split; eauto.
    + eexists; split; eauto.
  - destruct Hle as [<- | Hle]; [|discriminate]. eexists; split; eauto.
  - eexists; split; eauto.
  - destruct Hle as [<- | Hle]; [|discriminate]. eexists; split; eauto.
  - eexists; split; eauto.
Qed.

Lemma lstep_mono a b o a' :
  le a b -> lstep a o = Some a' -> exists b', lstep b o = Some b' /\ le a' b'.
Proof.
  intros Hle H. apply lstep_sound in H. destruct H as [s0 [H0 Hst]].
  eapply lstep_complete; [|exact Hst]. eapply le_trans; eauto.
Qed.

Definition is_ok_set (o : kop) : bool :=
  match o with KSet _ false => true | _ => false end.

(* every call except a successful Set can only shrink the content *)
Lemma lstep_shrinks s o s1 : is_ok_set o = false -> lstep s o = Some s1 -> le s1 s.
Proof.
  destruct o as [v [|]|[v|]|[|]|[|]]; cbn; intros Hn H; try discriminate.
  - inversion H; auto.
  - destruct (oz_eqb s (Some v)); inversion H; auto.
  - inversion H; auto.
  - destruct s; inversion H; auto.
  - inversion H; auto.
  - destruct s; inversion H; auto.
  - inversion H; auto.
Qed.

Fixpoint drun (s : option Z) (l : list call) : option (option Z) :=
  match l with
  | [] => Some s
  | c :: r => match lstep s (op c) with Some s1 => drun s1 r | None => None end
  end.

Lemma drun_mono a b l f :
  le a b -> drun a l = Some f -> exists f', drun b l = Some f' /\ le f f'.
Proof.
  revert a b; induction l as [|c l IH]; cbn [drun]; intros a b Hle H.
  - inversion H; subst. eauto.
  - destruct (lstep a (op c)) as [a1|] eqn:E; [|discriminate].
    destruct (lstep_mono _ _ _ _ Hle E) as [b1 [Eb Hle1]]. rewrite Eb. eauto.
Qed.

Lemma drun_app s A R : drun s (A ++ R) = match drun s A with Some m => drun m R | None => None end.
Proof.
  revert s; induction A as [|c A IH]; cbn [app drun]; intros s; [reflexivity|].
  destruct (lstep s (op c)); auto.
Qed.

Lemma drun_remove s l1 c l2 f :
  is_ok_set (op c) = false ->
  drun s (l1 ++ c :: l2) = Some f -> exists f', drun s (l1 ++ l2) = Some f' /\ le f f'.
Proof.
  intros Hn H. rewrite drun_app in *. destruct (drun s l1) as [m|]; [|discriminate].
  cbn [drun] in H. destruct (lstep m (op c)) as [m1|] eqn:E; [|discriminate].
  eapply drun_mono; [|exact H]. eapply lstep_shrinks; eauto.
Qed.

Lemma lrun_drun s l t : lrun s l t <-> exists f, drun s l = Some f /\ le t f.
Proof.
  split.
  - intros H. induction H as [s t Hle | s s0 s1 c r t Hle Hst Hr IH].
    + exists s. split; [reflexivity | exact Hle].
    + destruct IH as [f [Hf Htf]].
      destruct (lstep_complete _ _ _ _ Hle Hst) as [s1' [E Hle1]].
      destruct (drun_mono _ _ _ _ Hle1 Hf) as [f' [Hf' Hff']].
      exists f'. cbn [drun]. rewrite E. split; [exact Hf' | eapply le_trans; eauto].
  - revert s; induction l as [|c l IH]; cbn [drun]; intros s [f [Hf Htf]].
    + inversion Hf; subst. constructor; exact Htf.
    + destruct (lstep s (op c)) as [s1|] eqn:E; [|discriminate].
      destruct (lstep_sound _ _ _ E) as [s0 [Hle Hst]].
      econstructor; eauto.
Qed.

(* ------------------------------------------------------------------ *)
(** * 4. The checker                                                   *)
(* ------------------------------------------------------------------ *)

(* all ways to pick one element, with the remaining ones (order preserved) *)
Fixpoint picks (l : list call) : list (call * list call) :=
  match l with
  | [] => []
  | c :: r => (c, r) :: map (fun p => (fst p, c :: snd p)) (picks r)
  end.

Lemma picks_perm l c rest : In (c, rest) (picks l) -> Permutation (c :: rest) l.
Proof.
  revert c rest; induction l as [|d l IH]; cbn [picks]; intros c rest H; [destruct H|].
  destruct H as [H|H].
  - inversion H; subst. apply Permutation_refl.
  - apply in_map_iff in H. destruct H as [[c' r'] [E Hin]]. cbn in E. inversion E; subst.
    apply IH in Hin. eapply perm_trans; [apply perm_swap|]. constructor. exact Hin.
Qed.

Lemma picks_in l c : In c l -> exists rest, In (c, rest) (picks l).
Proof.
  induction l as [|d l IH]; cbn [picks]; intros H; [destruct H|].
  destruct H as [-> | H].
  - exists l. left; reflexivity.
  - destruct (IH H) as [rest Hr]. exists (d :: rest). right.
    apply in_map_iff. exists (c, rest). split; [reflexivity | exact Hr].
Qed.

Lemma picks_length l c rest : In (c, rest) (picks l) -> length l = S (length rest).
Proof.
  intros H. apply picks_perm in H. apply Permutation_length in H. cbn in H. congruence.
Qed.

(* c is minimal w.r.t. real time among c :: rest *)
Definition is_min (c : call) (rest : list call) : bool :=
  forallb (fun d => negb (ret d <? inv c)) rest.

Lemma is_min_spec c rest : is_min c rest = true <-> (forall d, In d rest -> ~ ret d < inv c).
Proof.
  unfold is_min. rewrite forallb_forall. split; intros H d Hd; specialize (H d Hd).
  - apply negb_true_iff in H. apply Z.ltb_ge in H. lia.
  - apply negb_true_iff. apply Z.ltb_ge. lia.
Qed.

(* a pick that can be committed to without backtracking: minimal, enabled, not a successful
   Set, and leaving the content unchanged *)
Definition greedy (s : option Z) (p : call * list call) : bool :=
  negb (is_ok_set (op (fst p)))
  && match lstep s (op (fst p)) with Some s1 => oz_eqb s1 s | None => false end
  && is_min (fst p) (snd p).

Section Search.
  Variable fin : option Z -> bool.

  Fixpoint search (fuel : nat) (s : option Z) (rem : list call) : bool :=
    match rem with
    | [] => fin s
    | _ :: _ =>
      match fuel with
      | O => false
      | S f =>
        let ps := picks rem in
        match find (greedy s) ps with
        | Some p => search f s (snd p)
        | None =>
          existsb (fun p =>
                     is_min (fst p) (snd p)
                     && match lstep s (op (fst p)) with
                        | Some s1 => search f s1 (snd p)
                        | None => false
                        end) ps
        end
      end
    end.

  Definition dlin (s : option Z) (rem : list call) : Prop :=
    exists l f, Permutation l rem /\ rt_ok l /\ drun s l = Some f /\ fin f = true.

  Lemma search_sound fuel : forall s rem, search fuel s rem = true -> dlin s rem.
  Proof.
    induction fuel as [|fuel IH]; intros s rem H.
    - destruct rem as [|c rem]; cbn in H; [|discriminate].
      exists [], s. repeat split; auto. constructor.
    - destruct rem as [|c0 rem0]; [cbn in H; exists [], s; repeat split; auto; constructor|].
      remember (c0 :: rem0) as rem eqn:Erem.
      assert (H' : match find (greedy s) (picks rem) with
                   | Some p => search fuel s (snd p)
                   | None => existsb (fun p => is_min (fst p) (snd p)
                               && match lstep s (op (fst p)) with
                                  | Some s1 => search fuel s1 (snd p) | None => false end)
                               (picks rem)
                   end = true).
      { rewrite Erem in *. exact H. }
      clear H Erem c0 rem0.
      destruct (find (greedy s) (picks rem)) as [[c rest]|] eqn:Ef.
      + apply find_some in Ef. destruct Ef as [Hin Hg]. cbn [snd] in H'.
        unfold greedy in Hg. cbn [fst snd] in Hg.
        apply andb_true_iff in Hg. destruct Hg as [Hg Hmin].
        apply andb_true_iff in Hg. destruct Hg as [_ Hst].
        destruct (lstep s (op c)) as [s1|] eqn:E; [|discriminate].
        apply oz_eqb_spec in Hst. subst s1.
        destruct (IH _ _ H') as [l [f [HP [HR [HD HF]]]]].
        exists (c :: l), f. repeat split; auto.
        * eapply perm_trans; [|apply picks_perm; exact Hin]. constructor; exact HP.
        * constructor; [|exact HR]. rewrite Forall_forall. intros d Hd.
          apply (proj1 (is_min_spec c rest) Hmin). eapply Permutation_in; eauto.
        * cbn [drun]. rewrite E. exact HD.
      + apply existsb_exists in H'. destruct H' as [[c rest] [Hin Hb]]. cbn [fst snd] in Hb.
        apply andb_true_iff in Hb. destruct Hb as [Hmin Hs].
        destruct (lstep s (op c)) as [s1|] eqn:E; [|discriminate].
        destruct (IH _ _ Hs) as [l [f [HP [HR [HD HF]]]]].
        exists (c :: l), f. repeat split; auto.
        * eapply perm_trans; [|apply picks_perm; exact Hin]. constructor; exact HP.
        * constructor; [|exact HR]. rewrite Forall_forall. intros d Hd.
          apply (proj1 (is_min_spec c rest) Hmin). eapply Permutation_in; eauto.
        * cbn [drun]. rewrite E. exact HD.
  Qed.

  Hypothesis fin_up : forall a b, le a b -> fin a = true -> fin b = true.

  Lemma search_complete fuel :
    forall s rem, (length rem <= fuel)%nat -> dlin s rem -> search fuel s rem = true.
  Proof.
    induction fuel as [|fuel IH]; intros s rem Hlen [l [f [HP [HR [HD HF]]]]].
    - destruct rem; [|cbn in Hlen; lia].
      apply Permutation_sym, Permutation_nil in HP. subst l. cbn in HD. inversion HD; subst. exact HF.
    - destruct rem as [|c0 rem0].
      { apply Permutation_sym, Permutation_nil in HP. subst l. cbn in HD. inversion HD; subst. exact HF. }
      remember (c0 :: rem0) as rem eqn:Erem.
      assert (G : match find (greedy s) (picks rem) with
                   | Some p => search fuel s (snd p)
                   | None => existsb (fun p => is_min (fst p) (snd p)
                               && match lstep s (op (fst p)) with
                                  | Some s1 => search fuel s1 (snd p) | None => false end)
                               (picks rem)
                   end = true); [| rewrite Erem in *; exact G].
      assert (Hne : rem <> []) by (rewrite Erem; discriminate).
      clear Erem c0 rem0.
      destruct (find (greedy s) (picks rem)) as [[c rest]|] eqn:Ef.
      + apply find_some in Ef. destruct Ef as [Hin Hg]. cbn [snd].
        unfold greedy in Hg. cbn [fst snd] in Hg.
        apply andb_true_iff in Hg. destruct Hg as [Hg Hmin].
        apply andb_true_iff in Hg. destruct Hg as [Hns Hst].
        apply negb_true_iff in Hns.
        destruct (lstep s (op c)) as [s1|] eqn:E; [|discriminate].
        apply oz_eqb_spec in Hst. subst s1.
        pose proof (picks_perm _ _ _ Hin) as HPr.
        assert (Hc : In c l).
        { eapply Permutation_in; [apply Permutation_sym; exact HP|].
          eapply Permutation_in; [exact HPr|]. left; reflexivity. }
        apply in_split in Hc. destruct Hc as [l1 [l2 ->]].
        assert (HP' : Permutation (l1 ++ l2) rest).
        { apply Permutation_cons_inv with (a := c).
          eapply perm_trans; [apply Permutation_middle|].
          eapply perm_trans; [exact HP|]. apply Permutation_sym; exact HPr. }
        destruct (drun_remove _ _ _ _ _ Hns HD) as [f' [HD' Hle]].
        apply IH.
        * apply picks_length in Hin. lia.
        * exists (l1 ++ l2), f'. repeat split; auto.
          -- eapply rt_ok_remove; eauto.
          -- eapply fin_up; eauto.
      + destruct l as [|c l'].
        { apply Permutation_nil in HP. contradiction. }
        assert (Hc : In c rem) by (eapply Permutation_in; [exact HP | left; reflexivity]).
        destruct (picks_in _ _ Hc) as [rest Hin].
        pose proof (picks_perm _ _ _ Hin) as HPr.
        assert (HP' : Permutation l' rest).
        { apply Permutation_cons_inv with (a := c).
          eapply perm_trans; [exact HP | apply Permutation_sym; exact HPr]. }
        apply existsb_exists. exists (c, rest). split; [exact Hin|]. cbn [fst snd].
        inversion HR as [|? ? HFa HR']; subst.
        apply andb_true_iff. split.
        * apply is_min_spec. intros d Hd. rewrite Forall_forall in HFa. apply HFa.
          eapply Permutation_in; [apply Permutation_sym; exact HP' | exact Hd].
        * cbn [drun] in HD. destruct (lstep s (op c)) as [s1|] eqn:E; [|discriminate].
          apply IH.
          -- apply picks_length in Hin. lia.
          -- exists l', f. repeat split; auto.
  Qed.
End Search.

Lemma search_unfold fin f s rem :
  rem <> [] ->
  search fin (S f) s rem =
  match find (greedy s) (picks rem) with
  | Some p => search fin f s (snd p)
  | None => existsb (fun p => is_min (fst p) (snd p)
                      && match lstep s (op (fst p)) with
                         | Some s1 => search fin f s1 (snd p) | None => false end)
                    (picks rem)
  end.
Proof. destruct rem; [congruence | reflexivity]. Qed.

Lemma search_nil fin f s : search fin f s [] = fin s.
Proof. destruct f; reflexivity. Qed.

Lemma search_fuel fin :
  (forall a b, le a b -> fin a = true -> fin b = true) ->
  forall f1 f2 s rem, (length rem <= f1)%nat -> (length rem <= f2)%nat ->
  search fin f1 s rem = search fin f2 s rem.
Proof.
  intros Hup f1 f2 s rem H1 H2. apply eq_true_iff_eq.
  split; intros H; apply search_complete; auto; eapply search_sound; eauto.
Qed.

(* ------------------------------------------------------------------ *)
(** * 4b. The same search with a table of failed configurations        *)
(* ------------------------------------------------------------------ *)

(* The remaining calls are a sub-list of the history h, represented by a mask over h. *)
Fixpoint select (h : list call) (m : list bool) : list call :=
  match h, m with
  | c :: h', true :: m' => c :: select h' m'
  | _ :: h', false :: m' => select h' m'
  | _, _ => []
  end.

Fixpoint picks_m (h : list call) (m : list bool) : list (call * list bool) :=
  match h, m with
  | c :: h', true :: m' =>
      (c, false :: m') :: map (fun p => (fst p, true :: snd p)) (picks_m h' m')
  | _ :: h', false :: m' => map (fun p => (fst p, false :: snd p)) (picks_m h' m')
  | _, _ => []
  end.

Lemma picks_m_spec h : forall m,
  map (fun p => (fst p, select h (snd p))) (picks_m h m) = picks (select h m).
Proof.
  induction h as [|c h IH]; intros m; [destruct m; reflexivity|].
  destruct m as [|[|] m]; cbn [picks_m select picks map fst snd]; [reflexivity| |].
  - f_equal. rewrite <- IH. rewrite !map_map. apply map_ext. intros [d m']; reflexivity.
  - rewrite <- IH. rewrite !map_map. apply map_ext. intros [d m']; reflexivity.
Qed.

Lemma select_all h : select h (repeat true (length h)) = h.
Proof. induction h as [|c h IH]; cbn; [reflexivity | rewrite IH; reflexivity]. Qed.

(* a binary trie from masks to the contents known to fail for that mask *)
Inductive btrie : Type :=
| BLeaf
| BNode (here : list (option Z)) (f t : btrie).

Fixpoint bt_mem (t : btrie) (m : list bool) (s : option Z) : bool :=
  match t with
  | BLeaf => false
  | BNode here f t' =>
    match m with
    | [] => existsb (oz_eqb s) here
    | b :: m' => bt_mem (if b then t' else f) m' s
    end
  end.

Fixpoint bt_add (t : btrie) (m : list bool) (s : option Z) : btrie :=
  match m with
  | [] => match t with
          | BLeaf => BNode [s] BLeaf BLeaf
          | BNode here f t' => BNode (s :: here) f t'
          end
  | b :: m' =>
    match t with
    | BLeaf => if b then BNode [] BLeaf (bt_add BLeaf m' s) else BNode [] (bt_add BLeaf m' s) BLeaf
    | BNode here f t' =>
      if b then BNode here f (bt_add t' m' s) else BNode here (bt_add f m' s) t'
    end
  end.

Lemma bt_mem_leaf m s : bt_mem BLeaf m s = false.
Proof. reflexivity. Qed.

Lemma bt_mem_add : forall m t m' s s',
  bt_mem (bt_add t m s) m' s' = true -> (m' = m /\ s' = s) \/ bt_mem t m' s' = true.
Proof.
  induction m as [|b m IH]; intros t m' s s' H.
  - destruct t as [|here f t']; cbn [bt_add] in H.
    + destruct m' as [|b' m']; cbn in H.
      * rewrite orb_false_r in H. apply oz_eqb_spec in H. left; auto.
      * destruct b'; discriminate.
    + destruct m' as [|b' m']; cbn [bt_mem] in *.
      * cbn [existsb] in H. apply orb_true_iff in H. destruct H as [H|H]; [|right; exact H].
        apply oz_eqb_spec in H. left; auto.
      * right; exact H.
  - destruct t as [|here f t']; cbn [bt_add] in H.
    + destruct b; destruct m' as [|[|] m']; cbn [bt_mem existsb] in H; try discriminate.
      * apply IH in H. destruct H as [[-> ->]|H]; [left; auto | discriminate].
      * apply IH in H. destruct H as [[-> ->]|H]; [left; auto | discriminate].
    + destruct b; destruct m' as [|[|] m']; cbn [bt_mem] in *; auto.
      * apply IH in H. destruct H as [[-> ->]|H]; [left; auto | right; exact H].
      * apply IH in H. destruct H as [[-> ->]|H]; [left; auto | right; exact H].
Qed.

Section Memo.
  Variable fin : option Z -> bool.
  Variable h : list call.

  (* a candidate: (picked call, remaining calls) and the mask of the remaining calls *)
  Definition cand : Type := ((call * list call) * list bool)%type.

  Definition cands (m : list bool) : list cand :=
    map (fun p => ((fst p, select h (snd p)), snd p)) (picks_m h m).

  Lemma cands_fst m : map fst (cands m) = picks (select h m).
  Proof. unfold cands. rewrite map_map. cbn [fst]. apply picks_m_spec. Qed.

  Lemma cands_snd m q : In q (cands m) -> snd (fst q) = select h (snd q).
  Proof.
    unfold cands. intros H. apply in_map_iff in H. destruct H as [p [<- _]]. reflexivity.
  Qed.

  Fixpoint mexists (F : cand -> btrie -> bool * btrie) (l : list cand) (t : btrie)
    : bool * btrie :=
    match l with
    | [] => (false, t)
    | q :: r => let (b, t1) := F q t in if b then (true, t1) else mexists F r t1
    end.

  Fixpoint msearch (fuel : nat) (s : option Z) (m : list bool) (t : btrie) : bool * btrie :=
    match select h m with
    | [] => (fin s, t)
    | _ :: _ =>
      match fuel with
      | O => (false, t)
      | S f =>
        if bt_mem t m s then (false, t) else
        let ps := cands m in
        let (b, t1) :=
          match find (fun q => greedy s (fst q)) ps with
          | Some q => msearch f s (snd q) t
          | None =>
            mexists (fun q t0 =>
                       if is_min (fst (fst q)) (snd (fst q)) then
                         match lstep s (op (fst (fst q))) with
                         | Some s1 => msearch f s1 (snd q) t0
                         | None => (false, t0)
                         end
                       else (false, t0)) ps t
          end in
        if b then (true, t1) else (false, bt_add t1 m s)
      end
    end.

  Hypothesis fin_up : forall a b, le a b -> fin a = true -> fin b = true.

  Definition cache_ok (t : btrie) : Prop :=
    forall m s, bt_mem t m s = true ->
                search fin (length (select h m)) s (select h m) = false.

  Lemma mexists_spec (F : cand -> btrie -> bool * btrie) (G : call * list call -> bool) l :
    (forall q t b t', In q l -> cache_ok t -> F q t = (b, t') -> b = G (fst q) /\ cache_ok t') ->
    forall t b t', cache_ok t -> mexists F l t = (b, t') ->
                   b = existsb G (map fst l) /\ cache_ok t'.
  Proof.
    induction l as [|q r IH]; intros HF t b t' Hok H; cbn [mexists map existsb] in *.
    - inversion H; subst. auto.
    - destruct (F q t) as [b1 t1] eqn:E.
      destruct (HF q t b1 t1 (or_introl eq_refl) Hok E) as [Hb1 Hok1].
      destruct b1.
      + inversion H; subst. rewrite <- Hb1. auto.
      + rewrite <- Hb1. cbn [orb]. eapply IH; eauto.
        intros q' t0 b0 t0' Hin. apply HF. right; exact Hin.
  Qed.

  Lemma find_map_fst (g : call * list call -> bool) (l : list cand) :
    find g (map fst l) = option_map fst (find (fun q => g (fst q)) l).
  Proof.
    induction l as [|q r IH]; cbn [map find option_map]; [reflexivity|].
    destruct (g (fst q)); [reflexivity | exact IH].
  Qed.

  Lemma msearch_spec fuel : forall s m t b t',
    cache_ok t -> (length (select h m) <= fuel)%nat ->
    msearch fuel s m t = (b, t') ->
    b = search fin fuel s (select h m) /\ cache_ok t'.
  Proof.
    induction fuel as [|fuel IH]; intros s m t b t' Hok Hlen H.
    - cbn [msearch] in H. destruct (select h m) as [|c0 r0] eqn:Es.
      + inversion H; subst. auto.
      + cbn in Hlen; lia.
    - cbn [msearch] in H. destruct (select h m) as [|c0 r0] eqn:Es.
      { inversion H; subst. auto. }
      rewrite <- Es in *. assert (Hne : select h m <> []) by (rewrite Es; discriminate).
      clear Es c0 r0.
      destruct (bt_mem t m s) eqn:Ehit.
      { inversion H; subst. split; [|exact Hok].
        symmetry. rewrite <- (Hok _ _ Ehit). apply search_fuel; auto. }
      rewrite search_unfold by exact Hne.
      rewrite <- cands_fst. rewrite find_map_fst.
      match type of H with (let (_, _) := ?X in _) = _ => destruct X as [b1 t1] eqn:E end.
      assert (HI : b1 = match option_map fst (find (fun q => greedy s (fst q)) (cands m)) with
                        | Some p => search fin fuel s (snd p)
                        | None => existsb (fun p => is_min (fst p) (snd p)
                                    && match lstep s (op (fst p)) with
                                       | Some s1 => search fin fuel s1 (snd p) | None => false end)
                                    (map fst (cands m))
                        end /\ cache_ok t1).
      { destruct (find (fun q => greedy s (fst q)) (cands m)) as [q|] eqn:Ef; cbn [option_map].
        - apply find_some in Ef. destruct Ef as [Hin _].
          rewrite (cands_snd _ _ Hin). eapply IH; eauto.
          rewrite <- (cands_snd _ _ Hin).
          assert (Hp : In (fst q) (picks (select h m))).
          { rewrite <- cands_fst. apply in_map; exact Hin. }
          destruct (fst q) as [c rest] eqn:Eq. apply picks_length in Hp. cbn [snd]. lia.
        - eapply mexists_spec; [|exact Hok|exact E].
          intros q t0 b0 t0' Hin Hok0 HF. cbn beta in HF.
          destruct (is_min (fst (fst q)) (snd (fst q))); cbn [andb].
          + destruct (lstep s (op (fst (fst q)))) as [s1|].
            * rewrite (cands_snd _ _ Hin). eapply IH; eauto.
              rewrite <- (cands_snd _ _ Hin).
              assert (Hp : In (fst q) (picks (select h m))).
              { rewrite <- cands_fst. apply in_map; exact Hin. }
              destruct (fst q) as [c rest] eqn:Eq. apply picks_length in Hp. cbn [snd]. lia.
            * inversion HF; subst; auto.
          + inversion HF; subst; auto. }
      destruct HI as [Hb1 Hok1]. rewrite <- Hb1.
      destruct b1; inversion H; subst; split; auto.
      intros m' s' Hm. apply bt_mem_add in Hm. destruct Hm as [[-> ->]|Hm]; [|auto].
      rewrite (search_fuel fin fin_up _ (S fuel)) by lia.
      rewrite search_unfold by exact Hne.
      rewrite <- cands_fst. rewrite find_map_fst. symmetry; exact Hb1.
  Qed.
End Memo.


(* ------------------------------------------------------------------ *)
(** * 5. lin_check and its correctness                                 *)
(* ------------------------------------------------------------------ *)

Definition le_b (a b : option Z) : bool :=
  match a with None => true | Some _ => oz_eqb a b end.

Lemma le_b_spec a b : le_b a b = true <-> le a b.
Proof.
  unfold le_b, le. destruct a as [x|].
  - rewrite oz_eqb_spec. split; [auto | intros [H|H]; [exact H | discriminate]].
  - split; auto.
Qed.

Lemma le_b_up t a b : le a b -> le_b t a = true -> le_b t b = true.
Proof. rewrite !le_b_spec. intros H1 H2. eapply le_trans; eauto. Qed.

(* top-level call of the memoised search: all calls remaining, empty table *)
Definition search_top (fin : option Z -> bool) (init : option Z) (h : list call) : bool :=
  fst (msearch fin h (length h) init (repeat true (length h)) BLeaf).

Lemma search_top_spec fin :
  (forall a b, le a b -> fin a = true -> fin b = true) ->
  forall init h, search_top fin init h = search fin (length h) init h.
Proof.
  intros Hup init h. unfold search_top.
  destruct (msearch fin h (length h) init (repeat true (length h)) BLeaf) as [b t] eqn:E.
  apply msearch_spec in E; auto.
  - cbn [fst]. rewrite select_all in E. apply E.
  - intros m s Hm. discriminate.
  - rewrite select_all. apply Nat.le_refl.
Qed.

(* [lin_check init h]: is h linearizable from content init? *)
Definition lin_check (init : option Z) (h : list call) : bool :=
  search_top (fun _ => true) init h.

(* [lin_check_to init h t]: ... with t a possible content after the last call? *)
Definition lin_check_to (init : option Z) (h : list call) (t : option Z) : bool :=
  search_top (le_b t) init h.

(* the same without the table of failed configurations (reference version) *)
Definition lin_check_simple (init : option Z) (h : list call) : bool :=
  search (fun _ => true) (length h) init h.

Lemma lin_check_simple_eq init h : lin_check init h = lin_check_simple init h.
Proof. apply search_top_spec. auto. Qed.

Lemma dlin_lin_to init h t : dlin (le_b t) init h <-> linearizable_to init h t.
Proof.
  split.
  - intros [l [f [HP [HR [HD HF]]]]]. exists l. repeat split; auto.
    apply lrun_drun. exists f. split; [exact HD | apply le_b_spec; exact HF].
  - intros [l [HP [HR HL]]]. apply lrun_drun in HL. destruct HL as [f [HD Hle]].
    exists l, f. repeat split; auto. apply le_b_spec; exact Hle.
Qed.

Theorem lin_check_to_correct init h t :
  lin_check_to init h t = true <-> linearizable_to init h t.
Proof.
  rewrite <- dlin_lin_to. unfold lin_check_to.
  rewrite search_top_spec by apply le_b_up. split.
  - apply search_sound.
  - apply search_complete; [apply le_b_up | apply Nat.le_refl].
Qed.

Theorem lin_check_correct init h :
  lin_check init h = true <-> linearizable init h.
Proof.
  rewrite lin_check_simple_eq. unfold lin_check_simple. split.
  - intros H. apply search_sound in H. destruct H as [l [f [HP [HR [HD _]]]]].
    exists f, l. repeat split; auto. apply lrun_drun. exists f; split; auto.
  - intros [t [l [HP [HR HL]]]]. apply lrun_drun in HL. destruct HL as [f [HD _]].
    apply search_complete; [auto | apply Nat.le_refl |].
    exists l, f. repeat split; auto.
Qed.

(* monotonicity and permutation invariance of the specification *)
Lemma linearizable_to_mono a b h t : le a b -> linearizable_to a h t -> linearizable_to b h t.
Proof.
  intros Hle [l [HP [HR HL]]]. exists l. repeat split; auto. eapply lrun_weaken_start; eauto.
Qed.

Lemma linearizable_mono a b h : le a b -> linearizable a h -> linearizable b h.
Proof. intros Hle [t H]. exists t. eapply linearizable_to_mono; eauto. Qed.

Lemma linearizable_to_perm init h h' t :
  Permutation h h' -> linearizable_to init h t -> linearizable_to init h' t.
Proof.
  intros HP [l [HP' H]]. exists l. split; [eapply perm_trans; eauto | exact H].
Qed.

Lemma linearizable_perm init h h' : Permutation h h' -> linearizable init h -> linearizable init h'.
Proof. intros HP [t H]. exists t. eapply linearizable_to_perm; eauto. Qed.

Lemma linearizable_to_nil init t : linearizable_to init [] t <-> le t init.
Proof.
  split.
  - intros [l [HP [_ HL]]]. apply Permutation_sym, Permutation_nil in HP. subst l.
    inversion HL; assumption.
  - intros H. exists []. repeat split; auto; constructor. exact H.
Qed.

(* ------------------------------------------------------------------ *)
(** * 6. Where contents come from; the three corollaries               *)
(* ------------------------------------------------------------------ *)

(* a content Some v at the end of a run was there at the start or was written during the run *)
Lemma lrun_origin s l t v :
  lrun s l t -> t = Some v -> s = Some v \/ exists c, In c l /\ op c = KSet v false.
Proof.
  intros H. induction H as [s t Hle | s s0 s1 c r t Hle Hst Hr IH]; intros Ht.
  - destruct Hle as [Hle|Hle]; [left; congruence | congruence].
  - destruct (IH Ht) as [H1|[c' [Hin Hop]]].
    + subst s1.
      assert (Hs0 : s0 = Some v \/ op c = KSet v false).
      { inversion Hst; subst; try discriminate; auto;
          try (right; congruence); try (left; congruence). }
      destruct Hs0 as [Hs0|Hs0].
      * left. destruct Hle as [Hle|Hle]; congruence.
      * right. exists c. split; [left; reflexivity | exact Hs0].
    + right. exists c'. split; [right; exact Hin | exact Hop].
Qed.

Lemma lrun_final s l t :
  lrun s l t -> t = None \/ t = s \/ exists c v, In c l /\ op c = KSet v false /\ t = Some v.
Proof.
  intros H. destruct t as [v|]; [|auto]. right.
  destruct (lrun_origin _ _ _ _ H eq_refl) as [H1|[c [Hin Hop]]]; [auto|].
  right. exists c, v. auto.
Qed.

(* if v is neither the start content nor written during the run, no Get returns it *)
Lemma lrun_no_read s l t v :
  lrun s l t -> s <> Some v -> (forall c, In c l -> op c <> KSet v false) ->
  forall g, In g l -> op g <> KGet (Some v).
Proof.
  intros HL Hs Hw g Hg Hop.
  apply in_split in Hg. destruct Hg as [A [R ->]].
  apply lrun_app_inv in HL. destruct HL as [m [HA HR]].
  inversion HR as [|? s0 s1 ? ? ? Hle Hst Hr]; subst.
  rewrite Hop in Hst. inversion Hst; subst.
  destruct Hle as [Hle|Hle]; [|discriminate]. subst m.
  destruct (lrun_origin _ _ _ _ HA eq_refl) as [H1|[c [Hin Hc]]]; [contradiction|].
  apply (Hw c); [apply in_or_app; left; exact Hin | exact Hc].
Qed.

(* generic barrier argument: after a call b whose outcome cannot leave v in the register,
   and with no write of v linearized after b, a call invoked after b returned cannot read v *)
Lemma after_barrier A b R init t g v :
  rt_ok (A ++ b :: R) -> lrun init (A ++ b :: R) t ->
  In g (A ++ b :: R) -> ret b < inv g ->
  (forall s0 s1, reg_step s0 (op b) s1 -> s1 <> Some v) ->
  (forall c, In c R -> op c <> KSet v false) ->
  op g <> KGet (Some v).
Proof.
  intros HR HL Hg Hbg Hb Hw.
  destruct (rt_ok_mid _ _ _ HR) as [HmR HmA].
  apply in_app_or in Hg. destruct Hg as [Hg|[Hg|Hg]].
  - exfalso. exact (HmA g Hg Hbg).
  - subst g. intros E. apply (Hb (Some v) (Some v)); [|reflexivity]. rewrite E. constructor.
  - apply lrun_app_inv in HL. destruct HL as [m [_ HL]].
    inversion HL as [|? s0 s1 ? ? ? Hle Hst Hr]; subst.
    eapply lrun_no_read; eauto.
Qed.

Definition only_writer (h : list call) (v : Z) (w : call) : Prop :=
  forall c, In c h -> op c = KSet v false -> c = w.

(* (a) no stale read: Set v1 returned before Set v2 was invoked, Set v2 returned before the
   Get was invoked: the Get does not return v1 *)
Theorem no_stale_read init h w1 w2 g v1 v2 :
  linearizable init h ->
  In w2 h -> In g h ->
  op w1 = KSet v1 false -> op w2 = KSet v2 false -> v1 <> v2 ->
  only_writer h v1 w1 ->
  ret w1 < inv w2 -> ret w2 < inv g ->
  op g <> KGet (Some v1).
Proof.
  intros [t [l [HP [HR HL]]]] Hw2 Hg Ho1 Ho2 Hne Huniq H12 H2g.
  assert (Hw2l : In w2 l) by (eapply Permutation_in; [apply Permutation_sym; exact HP | exact Hw2]).
  assert (Hgl : In g l) by (eapply Permutation_in; [apply Permutation_sym; exact HP | exact Hg]).
  apply in_split in Hw2l. destruct Hw2l as [A [R ->]].
  eapply after_barrier; eauto.
  - intros s0 s1 Hst. rewrite Ho2 in Hst. inversion Hst; subst. congruence.
  - intros c Hc Hop.
    assert (c = w1).
    { apply Huniq; [|exact Hop]. eapply Permutation_in; [exact HP|].
      apply in_or_app; right; right; exact Hc. }
    subst c. destruct (rt_ok_mid _ _ _ HR) as [HmR _]. exact (HmR w1 Hc H12).
Qed.

(* (b) a Get invoked after a Delete returned does not return a value whose Set returned
   before the Delete was invoked *)
Theorem no_read_after_delete init h w d g v ok :
  linearizable init h ->
  In d h -> In g h ->
  op w = KSet v false -> op d = KDelete ok ->
  only_writer h v w ->
  ret w < inv d -> ret d < inv g ->
  op g <> KGet (Some v).
Proof.
  intros [t [l [HP [HR HL]]]] Hd Hg How Hod Huniq Hwd Hdg.
  assert (Hdl : In d l) by (eapply Permutation_in; [apply Permutation_sym; exact HP | exact Hd]).
  assert (Hgl : In g l) by (eapply Permutation_in; [apply Permutation_sym; exact HP | exact Hg]).
  apply in_split in Hdl. destruct Hdl as [A [R ->]].
  eapply after_barrier; eauto.
  - intros s0 s1 Hst. rewrite Hod in Hst. inversion Hst; subst; discriminate.
  - intros c Hc Hop.
    assert (c = w).
    { apply Huniq; [|exact Hop]. eapply Permutation_in; [exact HP|].
      apply in_or_app; right; right; exact Hc. }
    subst c. destruct (rt_ok_mid _ _ _ HR) as [HmR _]. exact (HmR w Hc Hwd).
Qed.

(* (c) successive reads never go backwards *)
Theorem monotonic_reads init h w1 w2 g1 g2 v1 v2 :
  linearizable init h ->
  In g1 h -> In g2 h ->
  op w1 = KSet v1 false -> op w2 = KSet v2 false ->
  op g1 = KGet (Some v2) ->
  v1 <> v2 -> init <> Some v2 ->
  only_writer h v1 w1 -> only_writer h v2 w2 ->
  ret w1 < inv w2 -> ret g1 < inv g2 ->
  op g2 <> KGet (Some v1).
Proof.
  intros [t [l [HP [HR HL]]]] Hg1 Hg2 Ho1 Ho2 Hog1 Hne Hinit Hu1 Hu2 H12 Hgg.
  assert (Hg1l : In g1 l) by (eapply Permutation_in; [apply Permutation_sym; exact HP | exact Hg1]).
  assert (Hg2l : In g2 l) by (eapply Permutation_in; [apply Permutation_sym; exact HP | exact Hg2]).
  apply in_split in Hg1l. destruct Hg1l as [A [R ->]].
  eapply after_barrier; eauto.
  - intros s0 s1 Hst. rewrite Hog1 in Hst. inversion Hst; subst. congruence.
  - intros c Hc Hop.
    assert (c = w1).
    { apply Hu1; [|exact Hop]. eapply Permutation_in; [exact HP|].
      apply in_or_app; right; right; exact Hc. }
    subst c.
    (* the write of v2 is linearized before g1 *)
    pose proof HL as HL'. apply lrun_app_inv in HL'. destruct HL' as [m [HA HL']].
    inversion HL' as [|? s0 s1 ? ? ? Hle Hst Hr]; subst.
    rewrite Hog1 in Hst. inversion Hst; subst.
    destruct Hle as [Hle|Hle]; [|discriminate]. subst m.
    destruct (lrun_origin _ _ _ _ HA eq_refl) as [H1|[c [Hin Hcop]]]; [contradiction|].
    assert (c = w2).
    { apply Hu2; [|exact Hcop]. eapply Permutation_in; [exact HP|].
      apply in_or_app; left; exact Hin. }
    subst c. apply in_split in Hin. destruct Hin as [A1 [A2 ->]].
    rewrite <- app_assoc in HR. cbn [app] in HR.
    destruct (rt_ok_mid _ _ _ HR) as [HmR _].
    apply (HmR w1); [|exact H12]. apply in_or_app; right; right; exact Hc.
Qed.

(* ------------------------------------------------------------------ *)
(** * 7. Windows: cutting a history at quiescent points                *)
(* ------------------------------------------------------------------ *)

Definition wf (h : list call) : Prop := forall c, In c h -> inv c < ret c.

(* every call of h1 returned before any call of h2 was invoked *)
Definition before (h1 h2 : list call) : Prop :=
  forall a b, In a h1 -> In b h2 -> ret a < inv b.

(* T is a quiescent point of h: no call is pending at T *)
Definition quiescent_at (T : Z) (h : list call) : Prop :=
  forall c, In c h -> ret c < T \/ T < inv c.

Lemma filter_partition_perm {A} (f : A -> bool) (l : list A) :
  Permutation (filter f l ++ filter (fun x => negb (f x)) l) l.
Proof.
  induction l as [|a l IH]; cbn [filter]; [constructor|].
  destruct (f a); cbn [negb app].
  - constructor; exact IH.
  - apply Permutation_sym, Permutation_cons_app, Permutation_sym, IH.
Qed.

Lemma quiescent_cut T h :
  quiescent_at T h ->
  Permutation (filter (fun c => ret c <? T) h ++ filter (fun c => negb (ret c <? T)) h) h /\
  before (filter (fun c => ret c <? T) h) (filter (fun c => negb (ret c <? T)) h).
Proof.
  intros HQ. split; [apply filter_partition_perm|].
  intros a b Ha Hb. apply filter_In in Ha. apply filter_In in Hb.
  destruct Ha as [_ Ha], Hb as [Hb Hb'].
  apply Z.ltb_lt in Ha. apply negb_true_iff in Hb'. apply Z.ltb_ge in Hb'.
  destruct (HQ b Hb); lia.
Qed.

(* a linearization of h1 ++ h2 with h1 before h2 is a linearization of h1 followed by one of h2 *)
Lemma rt_split l : forall h1 h2,
  Permutation l (h1 ++ h2) -> rt_ok l -> before h1 h2 ->
  exists l1 l2, l = l1 ++ l2 /\ Permutation l1 h1 /\ Permutation l2 h2.
Proof.
  induction l as [|c l IH]; intros h1 h2 HP HR HB.
  - apply Permutation_nil in HP. apply app_eq_nil in HP. destruct HP as [-> ->].
    exists [], []. repeat split; constructor.
  - destruct h1 as [|a h1'].
    { exists [], (c :: l). repeat split; [constructor | exact HP]. }
    inversion HR as [|? ? HF HR']; subst.
    assert (Hc : In c (a :: h1')).
    { assert (Ha : In a (c :: l)).
      { eapply Permutation_in; [apply Permutation_sym; exact HP | left; reflexivity]. }
      destruct Ha as [Ha|Ha]; [left; auto|].
      assert (Hc : In c ((a :: h1') ++ h2)) by (eapply Permutation_in; [exact HP | left; reflexivity]).
      apply in_app_or in Hc. destruct Hc as [Hc|Hc]; [exact Hc|].
      exfalso. rewrite Forall_forall in HF. apply (HF a Ha). apply HB; [left; reflexivity | exact Hc]. }
    apply in_split in Hc. destruct Hc as [p [q Epq]]. rewrite Epq in *.
    rewrite <- app_assoc in HP. cbn [app] in HP.
    apply Permutation_cons_app_inv in HP. rewrite app_assoc in HP.
    destruct (IH (p ++ q) h2 HP HR') as [l1 [l2 [-> [HP1 HP2]]]].
    { intros x y Hx Hy. apply HB; [|exact Hy].
      apply in_app_or in Hx. apply in_or_app. destruct Hx as [Hx|Hx]; [left; exact Hx | right; right; exact Hx]. }
    exists (c :: l1), l2. repeat split; [|exact HP2].
    apply Permutation_cons_app. exact HP1.
Qed.

Lemma rt_ok_app l1 l2 :
  rt_ok l1 -> rt_ok l2 -> (forall a b, In a l1 -> In b l2 -> ~ ret b < inv a) -> rt_ok (l1 ++ l2).
Proof.
  intros H1 H2 H. induction H1 as [|c r HF HR IH]; cbn [app]; [exact H2|].
  constructor.
  - apply Forall_app. split; [exact HF|]. rewrite Forall_forall. intros d Hd.
    apply (H c d); [left; reflexivity | exact Hd].
  - apply IH. intros a b Ha Hb. apply H; [right; exact Ha | exact Hb].
Qed.

(* cutting: a linearization of the whole history induces linearizations of both parts, chained
   through the content m at the cut *)
Theorem lin_cut init h1 h2 t :
  before h1 h2 -> linearizable_to init (h1 ++ h2) t ->
  exists m, linearizable_to init h1 m /\ linearizable_to m h2 t.
Proof.
  intros HB [l [HP [HR HL]]].
  destruct (rt_split l h1 h2 HP HR HB) as [l1 [l2 [-> [HP1 HP2]]]].
  apply lrun_app_inv in HL. destruct HL as [m [HL1 HL2]].
  apply rt_ok_app_inv in HR. destruct HR as [HR1 HR2].
  exists m. split; [exists l1 | exists l2]; auto.
Qed.

(* gluing: the converse, for well-formed calls (inv < ret) *)
Theorem lin_glue init h1 h2 m t :
  wf h1 -> wf h2 -> before h1 h2 ->
  linearizable_to init h1 m -> linearizable_to m h2 t ->
  linearizable_to init (h1 ++ h2) t.
Proof.
  intros W1 W2 HB [l1 [HP1 [HR1 HL1]]] [l2 [HP2 [HR2 HL2]]].
  exists (l1 ++ l2). repeat split.
  - apply Permutation_app; assumption.
  - apply rt_ok_app; auto. intros a b Ha Hb.
    assert (Ha' : In a h1) by (eapply Permutation_in; eauto).
    assert (Hb' : In b h2) by (eapply Permutation_in; eauto).
    pose proof (HB a b Ha' Hb'). pose proof (W1 a Ha'). pose proof (W2 b Hb'). lia.
  - eapply lrun_app; eauto.
Qed.

Theorem lin_cut_iff init h1 h2 t :
  wf h1 -> wf h2 -> before h1 h2 ->
  (linearizable_to init (h1 ++ h2) t <->
   exists m, linearizable_to init h1 m /\ linearizable_to m h2 t).
Proof.
  intros W1 W2 HB. split.
  - apply lin_cut; exact HB.
  - intros [m [H1 H2]]. eapply lin_glue; eauto.
Qed.

(* the values written (by successful Sets) in a history *)
Definition written (h : list call) : list (option Z) :=
  flat_map (fun c => match op c with KSet v false => [Some v] | _ => [] end) h.

Lemma written_app h1 h2 : written (h1 ++ h2) = written h1 ++ written h2.
Proof. unfold written. apply flat_map_app. Qed.

Lemma written_in h v : In (Some v) (written h) <-> exists c, In c h /\ op c = KSet v false.
Proof.
  unfold written. rewrite in_flat_map. split.
  - intros [c [Hc Hv]]. exists c. split; [exact Hc|].
    destruct (op c) as [v' [|]| | |]; cbn in Hv; try contradiction.
    destruct Hv as [Hv|[]]. congruence.
  - intros [c [Hc Hop]]. exists c. split; [exact Hc|]. rewrite Hop. left; reflexivity.
Qed.

(* the content at the end of a linearization: None, the initial content, or a written value *)
Lemma linearizable_to_final init h m :
  linearizable_to init h m -> m = None \/ m = init \/ In m (written h).
Proof.
  intros [l [HP [_ HL]]]. destruct (lrun_final _ _ _ HL) as [H|[H|[c [v [Hc [Hop ->]]]]]]; auto.
  right; right. apply written_in. exists c. split; [eapply Permutation_in; eauto | exact Hop].
Qed.

(* windows: consecutive pieces, each entirely before all later ones *)
Inductive windows_ok : list (list call) -> Prop :=
| wo_nil : windows_ok []
| wo_cons w ws : before w (concat ws) -> windows_ok ws -> windows_ok (w :: ws).

(** ** 7a. The harness check: every window from None or from an earlier-written value *)

Fixpoint lin_check_windows_from (earlier : list (option Z)) (ws : list (list call)) : bool :=
  match ws with
  | [] => true
  | w :: ws' =>
    existsb (fun s => lin_check s w) (None :: earlier)
    && lin_check_windows_from (earlier ++ written w) ws'
  end.

Definition lin_check_windows (init : option Z) (ws : list (list call)) : bool :=
  lin_check_windows_from [init] ws.

(* exactly what it accepts *)
Lemma lin_check_windows_from_spec ws : forall earlier,
  lin_check_windows_from earlier ws = true <->
  (forall pre w post, ws = pre ++ w :: post ->
     exists s, In s (None :: earlier ++ written (concat pre)) /\ linearizable s w).
Proof.
  induction ws as [|w0 ws IH]; intros earlier; cbn [lin_check_windows_from].
  - split; [|reflexivity]. intros _ pre w post E. destruct pre; discriminate.
  - rewrite andb_true_iff, IH, existsb_exists. split.
    + intros [[s [Hs Hl]] Hrest] pre w post E.
      destruct pre as [|w1 pre]; cbn [app] in E; inversion E; subst.
      * exists s. cbn [concat written flat_map]. rewrite app_nil_r. split; [exact Hs|].
        apply lin_check_correct; exact Hl.
      * destruct (Hrest pre w post eq_refl) as [s' [Hs' Hl']]. exists s'. split; [|exact Hl'].
        cbn [concat]. rewrite written_app, app_assoc. exact Hs'.
    + intros H. split.
      * destruct (H [] w0 ws eq_refl) as [s [Hs Hl]]. exists s.
        cbn [concat written flat_map] in Hs. rewrite app_nil_r in Hs. split; [exact Hs|].
        apply lin_check_correct; exact Hl.
      * intros pre w post ->. destruct (H (w0 :: pre) w post eq_refl) as [s [Hs Hl]].
        exists s. split; [|exact Hl]. cbn [concat] in Hs. rewrite written_app, app_assoc in Hs.
        exact Hs.
Qed.

Theorem lin_check_windows_spec init ws :
  lin_check_windows init ws = true <->
  (forall pre w post, ws = pre ++ w :: post ->
     exists s, (s = None \/ s = init \/ In s (written (concat pre))) /\ linearizable s w).
Proof.
  unfold lin_check_windows. rewrite lin_check_windows_from_spec.
  split; intros H pre w post E; destruct (H pre w post E) as [s [Hs Hl]]; exists s; (split; [|exact Hl]).
  - destruct Hs as [Hs|[Hs|Hs]]; auto.
  - destruct Hs as [Hs|[Hs|Hs]]; [left; auto | right; left; auto | right; right; exact Hs].
Qed.

(* no false alarms: a linearizable history passes the window check *)
Lemma lin_check_windows_from_complete ws : forall earlier s,
  windows_ok ws -> In s (None :: earlier) -> linearizable s (concat ws) ->
  lin_check_windows_from earlier ws = true.
Proof.
  induction ws as [|w ws IH]; intros earlier s HW Hs HL; cbn [lin_check_windows_from]; [reflexivity|].
  inversion HW as [|? ? HB HW']; subst.
  destruct HL as [t HL]. cbn [concat] in HL.
  destruct (lin_cut _ _ _ _ HB HL) as [m [H1 H2]].
  apply andb_true_iff. split.
  - apply existsb_exists. exists s. split; [exact Hs|]. apply lin_check_correct. exists m; exact H1.
  - apply (IH _ m HW'); [|exists t; exact H2].
    destruct (linearizable_to_final _ _ _ H1) as [->|[->|Hm]].
    + left; reflexivity.
    + destruct Hs as [Hs|Hs]; [left; exact Hs | right; apply in_or_app; left; exact Hs].
    + right; apply in_or_app; right; exact Hm.
Qed.

Theorem lin_check_windows_complete init ws :
  windows_ok ws -> linearizable init (concat ws) -> lin_check_windows init ws = true.
Proof.
  intros HW HL. eapply lin_check_windows_from_complete; eauto. right; left; reflexivity.
Qed.

(* in the task's words: if the whole history is linearizable, every window is linearizable from
   None, from the initial content, or from a value written in an earlier window *)
Theorem linearizable_windows init ws :
  windows_ok ws -> linearizable init (concat ws) ->
  forall pre w post, ws = pre ++ w :: post ->
    exists s, (s = None \/ s = init \/
               exists c v, In c (concat pre) /\ op c = KSet v false /\ s = Some v)
              /\ linearizable s w.
Proof.
  intros HW HL pre w post E.
  pose proof (lin_check_windows_complete _ _ HW HL) as H.
  destruct (proj1 (lin_check_windows_spec _ _) H pre w post E) as [s [Hs Hl]].
  exists s. split; [|exact Hl].
  destruct Hs as [Hs|[Hs|Hs]]; auto.
  destruct s as [v|].
  - apply written_in in Hs. destruct Hs as [c [Hc Hop]]. right; right. exists c, v. auto.
  - left; reflexivity.
Qed.

(* a sound direction: if the first window is linearizable from init and every later window is
   linearizable from the EMPTY content, the whole history is linearizable *)
Theorem windows_from_none_sound ws : forall init,
  windows_ok ws -> wf (concat ws) ->
  (forall pre w post, ws = pre ++ w :: post ->
     linearizable (match pre with [] => init | _ => None end) w) ->
  linearizable init (concat ws).
Proof.
  induction ws as [|w ws IH]; intros init HW Hwf H.
  - exists init, []. repeat split; constructor. auto.
  - inversion HW as [|? ? HB HW']; subst. cbn [concat] in *.
    assert (W1 : wf w) by (intros c Hc; apply Hwf, in_or_app; left; exact Hc).
    assert (W2 : wf (concat ws)) by (intros c Hc; apply Hwf, in_or_app; right; exact Hc).
    destruct (H [] w ws eq_refl) as [t H1]. cbn in H1.
    assert (H1' : linearizable_to init w None).
    { destruct H1 as [l [HP [HR HL]]]. exists l. repeat split; auto.
      eapply lrun_weaken_end; [|exact HL]. auto. }
    destruct (IH None HW' W2) as [t2 H2].
    { intros pre w' post ->. specialize (H (w :: pre) w' post eq_refl). cbn in H.
      destruct pre; [exact H | exact H]. }
    exists t2. eapply lin_glue; eauto.
Qed.

(** ** 7b. The exact window check: chain the possible contents through the cuts *)

(* the contents possible after window w when it is started from one of [starts] *)
Definition window_finals (starts : list (option Z)) (w : list call) : list (option Z) :=
  filter (fun t => existsb (fun s => lin_check_to s w t) starts)
         (None :: starts ++ written w).

Fixpoint lin_check_chain (starts : list (option Z)) (ws : list (list call)) : bool :=
  match ws with
  | [] => match starts with [] => false | _ :: _ => true end
  | w :: ws' => lin_check_chain (window_finals starts w) ws'
  end.

Definition lin_check_windows_exact (init : option Z) (ws : list (list call)) : bool :=
  lin_check_chain [init] ws.

Lemma window_finals_spec starts w m :
  In m (window_finals starts w) <-> exists s, In s starts /\ linearizable_to s w m.
Proof.
  unfold window_finals. rewrite filter_In, existsb_exists. split.
  - intros [_ [s [Hs Hl]]]. exists s. split; [exact Hs | apply lin_check_to_correct; exact Hl].
  - intros [s [Hs Hl]]. split.
    + destruct (linearizable_to_final _ _ _ Hl) as [->|[->|Hm]].
      * left; reflexivity.
      * right; apply in_or_app; left; exact Hs.
      * right; apply in_or_app; right; exact Hm.
    + exists s. split; [exact Hs | apply lin_check_to_correct; exact Hl].
Qed.

Lemma lin_check_chain_spec ws : forall starts,
  windows_ok ws -> wf (concat ws) ->
  (lin_check_chain starts ws = true <-> exists s, In s starts /\ linearizable s (concat ws)).
Proof.
  induction ws as [|w ws IH]; intros starts HW Hwf; cbn [lin_check_chain concat].
  - split.
    + destruct starts as [|s r]; [discriminate|]. intros _. exists s. split; [left; reflexivity|].
      exists s. apply linearizable_to_nil. auto.
    + intros [s [Hs _]]. destruct starts; [destruct Hs | reflexivity].
  - inversion HW as [|? ? HB HW']; subst. cbn [concat] in Hwf.
    assert (W1 : wf w) by (intros c Hc; apply Hwf, in_or_app; left; exact Hc).
    assert (W2 : wf (concat ws)) by (intros c Hc; apply Hwf, in_or_app; right; exact Hc).
    rewrite (IH _ HW' W2). split.
    + intros [m [Hm [t Hl]]]. apply window_finals_spec in Hm. destruct Hm as [s [Hs Hsm]].
      exists s. split; [exact Hs|]. exists t. eapply lin_glue; eauto.
    + intros [s [Hs [t Hl]]]. destruct (lin_cut _ _ _ _ HB Hl) as [m [H1 H2]].
      exists m. split; [|exists t; exact H2]. apply window_finals_spec. exists s; auto.
Qed.

Theorem lin_check_windows_exact_correct init ws :
  windows_ok ws -> wf (concat ws) ->
  (lin_check_windows_exact init ws = true <-> linearizable init (concat ws)).
Proof.
  intros HW Hwf. unfold lin_check_windows_exact. rewrite lin_check_chain_spec by assumption.
  split.
  - intros [s [[<-|[]] H]]. exact H.
  - intros H. exists init. split; [left; reflexivity | exact H].
Qed.

(* the exact check is at least as strict as the harness check *)
Theorem lin_check_windows_exact_weaker init ws :
  windows_ok ws -> wf (concat ws) ->
  lin_check_windows_exact init ws = true -> lin_check_windows init ws = true.
Proof.
  intros HW Hwf H. apply lin_check_windows_complete; [exact HW|].
  apply lin_check_windows_exact_correct; assumption.
Qed.

(* ------------------------------------------------------------------ *)
(** * 8. Stream interface                                              *)
(* ------------------------------------------------------------------ *)

(* op line: [init_present; init_val; n; then n calls as (inv, ret, kind, a, b)]
   kind 1 Set (a = value, b = err), 2 Get (a = found, b = value), 3 Delete (a = ok),
   4 Exists (a = ok).  Output [1] if linearizable, [0] if not, [2] if the line is malformed. *)

Definition dec_op (k a b : Z) : option kop :=
  if k =? 1 then Some (KSet a (z2b b))
  else if k =? 2 then Some (KGet (if z2b a then Some b else None))
  else if k =? 3 then Some (KDelete (z2b a))
  else if k =? 4 then Some (KExists (z2b a))
  else None.

Fixpoint dec_calls (n : nat) (l : list Z) : option (list call) :=
  match n with
  | O => match l with [] => Some [] | _ :: _ => None end
  | S n' =>
    match l with
    | i :: r :: k :: a :: b :: rest =>
      match dec_op k a b, dec_calls n' rest with
      | Some o, Some cs => Some (mkCall i r o :: cs)
      | _, _ => None
      end
    | _ => None
    end
  end.

Definition dec_window (l : list Z) : option (option Z * list call) :=
  match l with
  | p :: v :: n :: rest =>
    match dec_calls (Z.to_nat n) rest with
    | Some cs => Some (if z2b p then Some v else None, cs)
    | None => None
    end
  | _ => None
  end.

Definition lin_step (_ : unit) (l : list Z) : unit * list Z :=
  match dec_window l with
  | Some (init, h) => (tt, [b2z (lin_check init h)])
  | None => (tt, [2])
  end.

(* the encoding the harness is expected to produce *)
Definition enc_op (o : kop) : list Z :=
  match o with
  | KSet v err => [1; v; b2z err]
  | KGet (Some v) => [2; 1; v]
  | KGet None => [2; 0; 0]
  | KDelete ok => [3; b2z ok; 0]
  | KExists ok => [4; b2z ok; 0]
  end.

Definition enc_call (c : call) : list Z := inv c :: ret c :: enc_op (op c).

Definition enc_window (init : option Z) (h : list call) : list Z :=
  match init with Some v => [1; v] | None => [0; 0] end
  ++ Z.of_nat (length h) :: flat_map enc_call h.

Lemma z2b_b2z b : z2b (b2z b) = b.
Proof. destruct b; reflexivity. Qed.

Lemma dec_enc_calls h : dec_calls (length h) (flat_map enc_call h) = Some h.
Proof.
  induction h as [|[i r o] h IH]; [reflexivity|].
  cbn [length flat_map enc_call inv ret op].
  assert (E : forall rest, dec_calls (S (length h)) (i :: r :: enc_op o ++ rest) =
                           match dec_calls (length h) rest with
                           | Some cs => Some (mkCall i r o :: cs) | None => None end).
  { intros rest. destruct o as [v e|[v|]|ok|ok]; cbn [enc_op app dec_calls].
    - unfold dec_op. cbn [Z.eqb Pos.eqb]. rewrite z2b_b2z. reflexivity.
    - reflexivity.
    - reflexivity.
    - unfold dec_op. cbn [Z.eqb Pos.eqb]. rewrite z2b_b2z. reflexivity.
    - unfold dec_op. cbn [Z.eqb Pos.eqb]. rewrite z2b_b2z. reflexivity. }
  change (enc_call (mkCall i r o)) with (i :: r :: enc_op o).
  cbn [app]. rewrite E, IH. reflexivity.
Qed.

Lemma dec_enc_window init h : dec_window (enc_window init h) = Some (init, h).
Proof.
  unfold enc_window, dec_window. destruct init as [v|]; cbn [app];
    rewrite Nat2Z.id, dec_enc_calls; reflexivity.
Qed.

Theorem lin_step_spec init h :
  lin_step tt (enc_window init h) = (tt, [b2z (lin_check init h)]).
Proof. unfold lin_step. rewrite dec_enc_window. reflexivity. Qed.

Theorem lin_step_accepts init h :
  lin_step tt (enc_window init h) = (tt, [1]) <-> linearizable init h.
Proof.
  rewrite lin_step_spec, <- lin_check_correct.
  destruct (lin_check init h); cbn; split; congruence.
Qed.

Theorem lin_step_rejects init h :
  lin_step tt (enc_window init h) = (tt, [0]) <-> ~ linearizable init h.
Proof.
  rewrite lin_step_spec, <- lin_check_correct.
  destruct (lin_check init h); cbn; split; congruence.
Qed.

(* A stateful variant for the exact window check: the state is the list of contents possible
   at the last cut (start it at [init]); each op line encodes the next window (its two init
   fields are ignored).  Output [1] while the history so far is linearizable, [0] afterwards. *)
Definition lin_chain_step (starts : list (option Z)) (l : list Z) : list (option Z) * list Z :=
  match dec_window l with
  | Some (_, w) =>
    let f := window_finals starts w in
    (f, [match f with [] => 0 | _ :: _ => 1 end])
  | None => (starts, [2])
  end.

Lemma run_out_cons {S I O} (step : S -> I -> S * O) s i r :
  run_out step s (i :: r) = snd (step s i) :: run_out step (fst (step s i)) r.
Proof.
  unfold run_out. cbn [run]. destruct (step s i) as [s1 o]. cbn [fst snd].
  destruct (run step s1 r). reflexivity.
Qed.

Lemma window_finals_nil w : window_finals [] w = [].
Proof.
  unfold window_finals. cbn [existsb].
  induction (None :: [] ++ written w) as [|a l IH]; [reflexivity | exact IH].
Qed.

Lemma lin_check_chain_nil ws : lin_check_chain [] ws = false.
Proof.
  induction ws as [|w ws IH]; cbn [lin_check_chain]; [reflexivity|].
  rewrite window_finals_nil. exact IH.
Qed.

Lemma lin_chain_run x ws : forall starts,
  starts <> [] ->
  ((forall o, In o (run_out lin_chain_step starts (map (enc_window x) ws)) -> o = [1]) <->
   lin_check_chain starts ws = true).
Proof.
  induction ws as [|w ws IH]; intros starts Hne; cbn [map lin_check_chain].
  - destruct starts as [|s0 r0]; [congruence|]. split; [reflexivity | intros _ o []].
  - assert (E1 : lin_chain_step starts (enc_window x w) =
                 (window_finals starts w,
                  [match window_finals starts w with [] => 0 | _ :: _ => 1 end])).
    { unfold lin_chain_step. rewrite dec_enc_window. reflexivity. }
    rewrite run_out_cons, E1. cbn [fst snd].
    destruct (window_finals starts w) as [|m f] eqn:E.
    + rewrite lin_check_chain_nil. split; [|discriminate].
      intros H. specialize (H [0] (or_introl eq_refl)). discriminate.
    + rewrite <- IH by discriminate. split.
      * intros H o Ho. apply H. right; exact Ho.
      * intros H o [<-|Ho]; [reflexivity | apply H; exact Ho].
Qed.

Theorem lin_chain_stream_correct init x ws :
  windows_ok ws -> wf (concat ws) ->
  ((forall o, In o (run_out lin_chain_step [init] (map (enc_window x) ws)) -> o = [1]) <->
   linearizable init (concat ws)).
Proof.
  intros HW Hwf. rewrite lin_chain_run by discriminate.
  apply lin_check_windows_exact_correct; assumption.
Qed.

(* ------------------------------------------------------------------ *)
(** * 9. Examples                                                      *)
(* ------------------------------------------------------------------ *)

Local Notation C := mkCall.

(* accepted: overlapping Set / Get / Delete / Exists *)
Example ex_accept_overlap :
  lin_check None
    [ C 1 10 (KSet 100 false); C 2 6 (KGet None); C 5 12 (KGet (Some 100));
      C 8 15 (KDelete true); C 11 20 (KGet None); C 13 18 (KSet 200 false);
      C 19 25 (KGet (Some 200)); C 21 23 (KExists true); C 3 24 (KSet 300 true) ] = true.
Proof. vm_compute. reflexivity. Qed.

(* accepted: a value may be lost at any time (admission policy / eviction) *)
Example ex_accept_loss :
  lin_check None [ C 1 2 (KSet 1 false); C 3 4 (KGet None); C 5 6 (KDelete false) ] = true.
Proof. vm_compute. reflexivity. Qed.

(* accepted: a Get concurrent with two Sets may see either *)
Example ex_accept_concurrent_sets :
  lin_check None
    [ C 1 10 (KSet 1 false); C 2 9 (KSet 2 false); C 11 12 (KGet (Some 1)) ] = true
  /\ lin_check None
    [ C 1 10 (KSet 1 false); C 2 9 (KSet 2 false); C 11 12 (KGet (Some 2)) ] = true.
Proof. vm_compute. split; reflexivity. Qed.

(* rejected (a): stale read — Set 1 ; Set 2 ; Get = 1 *)
Example ex_reject_stale :
  lin_check None [ C 1 2 (KSet 1 false); C 3 4 (KSet 2 false); C 5 6 (KGet (Some 1)) ] = false.
Proof. vm_compute. reflexivity. Qed.

(* rejected (b): read after delete — Set 1 ; Delete ; Get = 1 (whatever the Delete returned) *)
Example ex_reject_after_delete :
  lin_check None [ C 1 2 (KSet 1 false); C 3 4 (KDelete true); C 5 6 (KGet (Some 1)) ] = false
  /\ lin_check None [ C 1 2 (KSet 1 false); C 3 4 (KDelete false); C 5 6 (KGet (Some 1)) ] = false.
Proof. vm_compute. split; reflexivity. Qed.

(* rejected (c): reads going backwards — Set 1 ; (Set 2 overlapping) Get = 2 ; Get = 1 *)
Example ex_reject_backwards :
  lin_check None
    [ C 1 2 (KSet 1 false); C 3 10 (KSet 2 false);
      C 4 5 (KGet (Some 2)); C 6 7 (KGet (Some 1)) ] = false.
Proof. vm_compute. reflexivity. Qed.

(* ... while the same reads in the other order are fine *)
Example ex_accept_forwards :
  lin_check None
    [ C 1 2 (KSet 1 false); C 3 10 (KSet 2 false);
      C 4 5 (KGet (Some 1)); C 6 7 (KGet (Some 2)) ] = true.
Proof. vm_compute. reflexivity. Qed.

(* rejected: present / absent / present flicker with no intervening write *)
Example ex_reject_flicker :
  lin_check None
    [ C 1 2 (KSet 1 false); C 3 4 (KGet (Some 1)); C 5 6 (KGet None); C 7 8 (KGet (Some 1)) ]
  = false
  /\ lin_check (Some 1)
    [ C 3 4 (KExists true); C 5 6 (KExists false); C 7 8 (KExists true) ] = false
  /\ lin_check (Some 1)
    [ C 3 4 (KGet (Some 1)); C 5 6 (KDelete false); C 7 8 (KGet (Some 1)) ] = false.
Proof. vm_compute. repeat split; reflexivity. Qed.

(* rejected: a value nobody wrote; a Delete hit / Exists hit on a never-written key *)
Example ex_reject_out_of_thin_air :
  lin_check None [ C 1 2 (KSet 1 false); C 3 4 (KGet (Some 7)) ] = false
  /\ lin_check None [ C 1 2 (KDelete true) ] = false
  /\ lin_check None [ C 1 2 (KSet 1 true); C 3 4 (KExists true) ] = false.
Proof. vm_compute. repeat split; reflexivity. Qed.

(* windows: the harness check accepts a stale read ACROSS a cut (it forgets which earlier value
   may survive); the exact chained check and the whole-history check reject it *)
Example ex_windows_weak_vs_exact :
  let w1 := [ C 1 2 (KSet 1 false); C 3 4 (KSet 2 false) ] in
  let w2 := [ C 5 6 (KGet (Some 1)) ] in
  lin_check_windows None [w1; w2] = true
  /\ lin_check_windows_exact None [w1; w2] = false
  /\ lin_check None (w1 ++ w2) = false
  /\ lin_check_windows_exact None [w1; [ C 5 6 (KGet (Some 2)) ]] = true.
Proof. vm_compute. repeat split; reflexivity. Qed.

(* the stream interface on an encoded window *)
Example ex_stream :
  lin_step tt [0; 0; 3;  1; 2; 1; 1; 0;  3; 4; 1; 2; 0;  5; 6; 2; 1; 1] = (tt, [0])
  /\ lin_step tt [0; 0; 3;  1; 2; 1; 1; 0;  3; 4; 1; 2; 0;  5; 6; 2; 1; 2] = (tt, [1])
  /\ lin_step tt [1; 9; 2;  1; 2; 2; 1; 9;  3; 4; 3; 1; 0] = (tt, [1])
  /\ lin_step tt [0; 0; 2;  1; 2; 2; 1; 9] = (tt, [2]).
Proof. vm_compute. repeat split; reflexivity. Qed.

(* fourteen pairwise overlapping calls, not linearizable (the last Get reads an unwritten value):
   decided quickly thanks to the table of failed configurations *)
Example ex_reject_14_overlapping :
  lin_check None
    (map (fun i => C i (100 + i) (KSet i false)) [1; 2; 3; 4; 5; 6; 7]
     ++ map (fun i => C i (100 + i) (KDelete true)) [8; 9; 10; 11; 12; 13]
     ++ [ C 14 114 (KGet (Some 99)) ]) = false.
Proof. vm_compute. reflexivity. Qed.
