(* C10 — Size, Cost and Stats agree with what the cache holds and did. CacheProofs.v. Only `exact` + Print Assumptions. *)
Require Import KV.Base KV.Gen.Consts KV.ConfigModel KV.CacheModel KV.ClassicProofs KV.SieveProofs KV.CacheProofs KV.TtlProofs KV.MutexAtomicity KV.StripedCounter KV.PtrModel KV.PtrProofs KV.ShutdownApply.
Open Scope Z_scope.

(* in every state: total size = number of resident items = table sizes; total cost = sum of item costs when tracked, else size; len(Keys) <= size *)
Theorem c10_size_cost :
  forall (shard_of : Z -> Z) (c : cache),
         CacheInv shard_of c ->
         total_size c = zlen (CacheProofs.all_items c) /\
         total_size c = zlen (flat_map tabk (shards c)) /\
         total_cost c =
         (if trackCost c then sumZ (map cost (CacheProofs.all_items c)) else total_size c) /\
         NoDup (map key (CacheProofs.all_items c)) /\
         (forall k : Z, In k (map key (CacheProofs.all_items c)) <-> In k (flat_map tabk (shards c))) /\
         zlen (op_keys c) <= total_size c.
Proof. exact CacheProofs.c10_size_cost. Qed.

(* per shard: table domain = list members, no duplicates, counters = sizes, lookup finds exactly the items, placement *)
Theorem c10_structures_agree :
  forall (shard_of : Z -> Z) (c : cache) (i : nat) (s : shard),
         CacheInv shard_of c ->
         nth_error (shards c) i = Some s ->
         let l := shard_items s (policy c) in
         NoDup (map key l) /\
         NoDup (tabk s) /\
         (forall k : Z, In k (tabk s) <-> In k (map key l)) /\
         (forall k : Z, In k (tabk s) <-> lookup s (policy c) k <> None) /\
         CacheModel.size s = zlen l /\
         CacheModel.size s = zlen (tabk s) /\
         scost s = sumZ (map cost l) /\
         (forall it : item,
          In it l -> 0 <= cost it /\ unpub it = false /\ lookup s (policy c) (key it) = Some it) /\
         (forall k : Z, In k (tabk s) -> shard_of k = Z.of_nat i) /\
         (if is_sieve s (policy c)
          then
           l = CacheModel.prob s ++ main s /\
           lst s = [] /\
           CacheModel.lfu s = [] /\
           pcap s + mcap s = cap s /\
           (forall h : Z, CacheModel.hand s = Some h -> In h (map key (main s)))
          else
           l = lst s /\
           CacheModel.prob s = [] /\
           main s = [] /\
           CacheModel.hand s = None /\ (policy c = policyLFU -> CP.LfuOK (CacheModel.lfu s) (tabk s))).
Proof. exact CacheProofs.c10_structures_agree. Qed.

(* stats on: hits/misses = ghost counts of Get/GetWithTTL outcomes of the history, evictions = #capacity drops, expirations = #expired drops; stats off: all 0 *)
Theorem c10_counters :
  forall (shard_of : Z -> Z) (ops : list (cop * list Z)) (c : cache),
         CacheInv shard_of c ->
         StatInv c ->
         Forall (fun p : cop * list Z => wf_op shard_of (nshards c) (fst p)) ops ->
         let c' := crun c ops in
         StatInv c' /\
         statsOn c' = statsOn c /\
         (statsOn c = true ->
          hits c' = hits c + fst (ghost_hm (closed c) (chist c ops)) /\
          misses c' = misses c + snd (ghost_hm (closed c) (chist c ops)) /\
          evictions c' = gsum reasonCapacity c' /\ expirations c' = gsum reasonExpired c') /\
         (statsOn c = false -> hits c' = 0 /\ misses c' = 0 /\ evictions c' = 0 /\ expirations c' = 0).
Proof. exact CacheProofs.c10_hits_misses. Qed.

(* one operation: counters move by exactly that operation's outcome *)
Theorem c10_one_step :
  forall (shard_of : Z -> Z) (c : cache) (op : cop) (ev : list Z),
         CacheInv shard_of c ->
         StatInv c ->
         wf_op shard_of (nshards c) op ->
         let c' := fst (cstep_full c op ev) in
         let r := snd (cstep_full c op ev) in
         StatInv c' /\
         closed c' = closed c || is_close op /\
         (statsOn c = true ->
          hits c' = hits c + hit1 (closed c) op r /\ misses c' = misses c + miss1 (closed c) op r).
Proof. exact CacheProofs.stat_step. Qed.

(* CacheInv after every history *)
Theorem c10_invariant_all_histories :
  forall (shard_of : Z -> Z) (ops : list (cop * list Z)) (c : cache),
         CacheInv shard_of c ->
         Forall (fun p : cop * list Z => wf_op shard_of (nshards c) (fst p)) ops ->
         CacheInv shard_of (crun c ops) /\ Cfg c (crun c ops).
Proof. exact CacheProofs.crun_inv. Qed.

(* Sieve write: the eviction counter delta = number of capacity entries dropped (rejections excluded) *)
Theorem c10_sieve_counter_is_capacity_drops :
  forall e : env,
         e_pol e = policySieve ->
         forall (s : shard) (k v ex0 c : Z) (s' : shard) (cm : bool) (d : Z),
         SieveProofs.SInv s ->
         Quiet s ->
         0 <= c ->
         apply_sieve e s k v ex0 c = (s', cm, d) ->
         exists dl : list (item * Z),
           glog s' =
           glog s ++
           match lookup s (e_pol e) k with
           | Some prev => [(1, k, val prev); (0, k, v)]
           | None => [(0, k, v)]
           end ++ map dent dl /\
           nlog s' = nlog s ++ dnots e dl /\
           staged s' = staged s ++ dnots e dl /\
           Forall
             (fun p : item * Z =>
              (snd p = reasonCapacity \/ snd p = reasonRejected) /\
              (unpub (fst p) = true -> snd p = reasonRejected) /\
              (snd p = reasonCapacity -> unpub (fst p) = false)) dl /\
           d =
           (if e_stats e
            then Z.of_nat (length (filter (fun p : item * Z => snd p =? reasonCapacity) dl))
            else 0).
Proof. exact SieveProofs.apply_sieve_reasons. Qed.

(* Cleanup: expirations grow by the number of removed entries *)
Theorem c10_cleanup_counts :
  forall c : cache,
         TInv c ->
         closed c = false ->
         let c' := op_cleanup c in
         (forall (sh : Z) (s' : shard) (k : Z) (it : item),
          get_shard c' sh = Some s' -> lookup s' (policy c) k = Some it -> expired it (now c) = false) /\
         (forall (i : nat) (s : shard),
          nth_error (shards c) i = Some s ->
          exists (s' : shard) (rl : list item),
            nth_error (shards c') i = Some s' /\
            glog s' = glog s ++ map exp_entry rl /\
            nlog s' = nlog s ++ exp_notes (mask c) rl /\
            staged s' = staged s ++ exp_notes (mask c) rl /\
            NoDup (map key rl) /\
            Forall
              (fun it : item => lke (policy c) s (key it) = Some (SP.ess it) /\ 0 < exp it < now c)
              rl /\
            (forall k : Z,
             lke (policy c) s' k = (if memz (map key rl) k then None else lke (policy c) s k))) /\
         evictions c' = evictions c /\
         expirations c' =
         expirations c +
         (if statsOn c
          then
           sumZ
             (map (fun s : shard => zlen (glog (cleanup_of (env_of c) (now c) s)) - zlen (glog s))
                (shards c))
          else 0) /\ shards c' = map (cleanup_of (env_of c) (now c)) (shards c).
Proof. exact TtlProofs.c05_cleanup. Qed.

(* lock-protected updates of the structures are sequentially consistent in lock order *)
Theorem c10_locked_counters_sequential :
  forall (S R : Type) (s0 : S) (scripts : list (list (op S R)))
           (st : MutexAtomicity.state S R),
         MutexAtomicity.reachable s0 scripts st ->
         ((forall t : nat, ~ in_write st t) ->
          sh st = seq_state s0 (map snd (g_acq st)) /\ g_ret st = seq_rets s0 (g_acq st)) /\
         (forall (t : nat) (c : call S R) (rem : list (mstep S R)) (r : R),
          in_w st t c rem r ->
          exists (acq' : list (nat * call S R)) (done : list (mstep S R)),
            g_acq st = acq' ++ [(t, c)] /\
            c_steps c = done ++ rem /\
            (sh st, r) = run_steps done (seq_state s0 (map snd acq'), c_init c) /\
            g_ret st = seq_rets s0 acq').
Proof. exact MutexAtomicity.atomicity. Qed.

(* striped atomic counters: in every reachable state the stripes sum to the number of recordHit calls made, for any number of goroutines and any sharing of stripes *)
Theorem c10_striped_sum_is_count :
  forall (n : nat) (s : state), StripedCounter.reachable n s -> sumf (stripes s) n = done s.
Proof. exact StripedCounter.sum_is_count. Qed.

(* an aggregate running concurrently returns a value between the count when it started and the count when it returned *)
Theorem c10_striped_aggregate_bounds :
  forall (n : nat) (s : state) (a : nat) (c0 r : Z),
         StripedCounter.reachable n s ->
         nth_error (threads s) a = Some (Agg c0 n r) -> c0 <= r <= done s.
Proof. exact StripedCounter.aggregate_bounds. Qed.

(* with no increment between its start and its return (a quiescent moment) aggregate is exact *)
Theorem c10_striped_aggregate_quiescent :
  forall (n : nat) (s0 s' : state) (a : nat) (c0 r : Z),
         StripedCounter.reachable n s0 ->
         nth_error (threads s0) a = Some AggNew ->
         star (quiet_step n)
           {|
             stripes := stripes s0;
             done := done s0;
             threads := set_nth (threads s0) a (Agg (done s0) 0 0)
           |} s' -> nth_error (threads s') a = Some (Agg c0 n r) -> c0 = done s0 /\ r = done s'.
Proof. exact StripedCounter.aggregate_quiescent_trace. Qed.

(* the non-atomic Load/Store variant loses updates when two goroutines share a stripe (seeded change C10d-m2) *)
Theorem c10_load_store_variant_loses_updates :
  option_map (observe 1)
           (exec_ls 1 (StripedCounter.init lu_threads) [0%nat; 1%nat; 0%nat; 1%nat]) =
         Some ([1], 2, [Inc []; Inc []]).
Proof. exact StripedCounter.load_store_loses_updates. Qed.

(* ...and is exact when no stripe is shared, which is why it survives with at least as many stripes as running Ps *)
Theorem c10_load_store_exact_without_sharing :
  forall (n : nat) (ths : list thread) (s : state),
         wf_threads n ths ->
         no_sharing ths -> reachable_ls_from n ths s -> sumf (stripes s) n = done s.
Proof. exact StripedCounter.ls_exact_without_sharing. Qed.

(* non-vacuity: counters of the 24-operation LRU run *)
Theorem c10_example :
  (hits ex_lru_fin, misses ex_lru_fin, evictions ex_lru_fin, expirations ex_lru_fin,
          errs ex_lru_fin, closed ex_lru_fin, total_size ex_lru_fin, map glog (shards ex_lru_fin)) =
         (2, 2, 1, 2, 0, true, 0,
          [[(0, 2, 20); (0, 4, 40); (10, 2, 20); (0, 6, 60); (12, 4, 40); (2, 6, 60)];
           [(0, 1, 10); (12, 1, 10); (0, 3, 30); (0, 5, 50); (1, 3, 30); (
            0, 3, 31); (13, 5, 50); (2, 3, 31)]]) /\
         ghost_hm false (chist ex_lru_init ex_lru_ops) = (2, 2) /\
         gsum reasonCapacity ex_lru_fin = 1 /\
         gsum reasonExpired ex_lru_fin = 2 /\
         map nkey (flat_map nlog (shards ex_lru_fin)) = [2; 4; 1; 5] /\
         map nreason (flat_map nlog (shards ex_lru_fin)) = [0; 2; 2; 3].
Proof. exact CacheProofs.ex_lru_state. Qed.

(* pointer level: along every protocol-respecting sequence of SIEVE queue operations the two queues are doubly linked representations of the abstract (probation, main) lists, the size counters equal their lengths, tags mark exactly the members, the hand is nil or a main member *)
Theorem c10_ptr_sieve_sequence :
  forall (owner mcap : Z) (ops : list sv_op),
         sv_ops_ok mcap ([], []) ops = true ->
         let s := fold_left sv_p_step ops (pinit owner mcap) in
         let st := fold_left (sv_abs_step mcap) ops ([], []) in
         SInv s (fst st) (snd st) /\ perr s = false.
Proof. exact sieve_sequence. Qed.

(* pointer level: freqMap and itemFreq are exactly the ring's buckets and members along every operation sequence *)
Theorem c10_ptr_lfu_ring :
  forall ops : list LfuRing.lfu_op,
         LfuRing.lfu_ops_ok [] ops = true ->
         LfuRing.LInv (fold_left LfuRing.lfu_p_step ops lfu_init)
           (fold_left LfuRing.lfu_abs_step ops []).
Proof. exact LfuRing.lfu_ring_refines. Qed.

(* F15 repaired: whatever calls that began before Close do afterwards (any number of late drainers, every interleaving), once Close has returned the shard is empty and stays empty *)
Theorem c10_closed_cache_stays_empty :
  forall (n0 k : nat) (s : st), reachable true n0 k s -> pcc s = CDone -> size s = 0%nat.
Proof. exact closed_cache_stays_empty. Qed.

(* F15 before the repair: Close runs to completion, a late drainer then applies a command published during shutdown: the closed cache holds an entry *)
Theorem c10_closed_cache_refuted_before_fix :
  exists s : st,
           exec false (init 1 1) [LC; LC; LC; LC; LD 0; LD 0; LD 0] = Some s /\
           pcc s = CDone /\ pcd s = [DDone] /\ size s = 1%nat.
Proof. exact closed_cache_refuted_before_fix. Qed.

Print Assumptions c10_size_cost.
Print Assumptions c10_structures_agree.
Print Assumptions c10_counters.
Print Assumptions c10_one_step.
Print Assumptions c10_invariant_all_histories.
Print Assumptions c10_sieve_counter_is_capacity_drops.
Print Assumptions c10_cleanup_counts.
Print Assumptions c10_locked_counters_sequential.
Print Assumptions c10_striped_sum_is_count.
Print Assumptions c10_striped_aggregate_bounds.
Print Assumptions c10_striped_aggregate_quiescent.
Print Assumptions c10_load_store_variant_loses_updates.
Print Assumptions c10_load_store_exact_without_sharing.
Print Assumptions c10_example.
Print Assumptions c10_ptr_sieve_sequence.
Print Assumptions c10_ptr_lfu_ring.
Print Assumptions c10_closed_cache_stays_empty.
Print Assumptions c10_closed_cache_refuted_before_fix.
