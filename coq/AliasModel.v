(* AliasModel.v: ownership / aliasing model of what the HTTP middleware stores and replays (C14, isolation clause:
   "later mutation of header maps or body slices by the handler or by a client never alters what subsequent hits
   receive").  Value-semantics models cannot express that clause; this one makes sharing explicit.

   Go slices and maps are references.  The model has a heap of arrays (the backing arrays of []string header values
   and of []byte bodies) and a heap of map objects (http.Header values: key -> array).  Every statement of
   httpcache/middleware.go that creates, copies or passes on such a reference is one step:

     responseWriter.WriteHeader   rw.headers = rw.ResponseWriter.Header().Clone()      (new map, new arrays)
     responseWriter.Write         rw.buf.Write(data)                                    (copy into the buffer's array)
     Wrap, after the handler      m.policy(r, status, rw.headers, rw.buf.Bytes())       (the policy SEES both references)
                                  Headers: m.cachedHeaders(rw.headers)                  (new map, slices.Clone per key,
                                                                                        ignored keys dropped)
                                  Body:    bytes.Clone(body)                            (new array)
     serveCached                  w.Header()[k] = slices.Clone(v) ; w.Write(cached.Body)

   The ADVERSARY is everything outside the middleware that may keep references and write through them later: the
   handler (the writer's header map, every slice it put there, every slice it passed to Write), a user-supplied
   policy that retains its arguments, and whatever sits in front of the middleware on a hit (it owns the hit's
   ResponseWriter and therefore every slice serveCached put into its header map).  adv_arr / adv_map list the
   references the adversary holds; its steps write through any of them, at any time, in any order.

   AliasProofs.v proves that no adversary step changes what a hit delivers.  The model is executable: the `al` stream
   runs the real middleware with a retaining policy, a retaining handler and a retaining front, performs the same
   writes through the real references, and compares every hit and the sharing report with this model. *)
From Coq Require Import List ZArith Bool Lia.
Import ListNotations.
Open Scope Z_scope.

Fixpoint zassoc {A} (l : list (Z * A)) (k : Z) : option A :=
  match l with [] => None | (a, b) :: r => if a =? k then Some b else zassoc r k end.
Fixpoint zdel {A} (l : list (Z * A)) (k : Z) : list (Z * A) :=
  match l with [] => [] | (a, b) :: r => if a =? k then zdel r k else (a, b) :: zdel r k end.
Fixpoint zmem (l : list Z) (k : Z) : bool :=
  match l with [] => false | a :: r => (a =? k) || zmem r k end.
(* insertion keeping keys ascending (the observation sorts header names) *)
Fixpoint zins {A} (l : list (Z * A)) (k : Z) (v : A) : list (Z * A) :=
  match l with
  | [] => [(k, v)]
  | (a, b) :: r => if k =? a then (k, v) :: r else if k <? a then (k, v) :: (a, b) :: r else (a, b) :: zins r k v
  end.
Fixpoint set_nth_z (l : list Z) (i : nat) (v : Z) : list Z :=
  match l, i with
  | [], _ => []
  | _ :: r, O => v :: r
  | x :: r, S j => x :: set_nth_z r j v
  end.

Record ast := {
  arr : Z -> list Z;               (* array id -> contents *)
  hmap : Z -> list (Z * Z);        (* map object id -> (header key -> array id), keys ascending *)
  nxt : Z;                         (* next fresh id (arrays and maps share the counter) *)
  wmap : Z;                        (* the miss's ResponseWriter header map (the handler's) *)
  committed : bool;
  rwh : Z;                         (* rw.headers; 0 = nil *)
  status : Z;
  bufarr : Z;                      (* the capture buffer's array *)
  stored : option (Z * Z * Z);     (* status, Headers map object, Body array *)
  adv_arr : list Z;                (* arrays the adversary holds references to *)
  adv_map : list Z;                (* map objects the adversary holds references to *)
  ignored : list Z                 (* ignored header keys *)
}.

Definition aupd (f : Z -> list Z) (k : Z) (v : list Z) : Z -> list Z := fun x => if x =? k then v else f x.
Definition mupd (f : Z -> list (Z * Z)) (k : Z) (v : list (Z * Z)) : Z -> list (Z * Z) :=
  fun x => if x =? k then v else f x.

Definition with_heap (s : ast) a h n : ast :=
  {| arr := a; hmap := h; nxt := n; wmap := wmap s; committed := committed s; rwh := rwh s; status := status s;
     bufarr := bufarr s; stored := stored s; adv_arr := adv_arr s; adv_map := adv_map s; ignored := ignored s |}.
Definition with_adv (s : ast) aa am : ast :=
  {| arr := arr s; hmap := hmap s; nxt := nxt s; wmap := wmap s; committed := committed s; rwh := rwh s;
     status := status s; bufarr := bufarr s; stored := stored s; adv_arr := aa; adv_map := am; ignored := ignored s |}.

(* allocate an array with the given contents *)
Definition alloc_arr (s : ast) (c : list Z) : ast * Z :=
  (with_heap s (aupd (arr s) (nxt s) c) (hmap s) (nxt s + 1), nxt s).
Definition alloc_map (s : ast) (m : list (Z * Z)) : ast * Z :=
  (with_heap s (arr s) (mupd (hmap s) (nxt s) m) (nxt s + 1), nxt s).

(* clone every value array of a map's entries (Header.Clone / cachedHeaders / serveCached), skipping keys in skip *)
Fixpoint clone_entries (s : ast) (es : list (Z * Z)) (skip : list Z) : ast * list (Z * Z) :=
  match es with
  | [] => (s, [])
  | (k, a) :: r =>
      if zmem skip k then clone_entries s r skip
      else let '(s1, a') := alloc_arr s (arr s a) in
           let '(s2, r') := clone_entries s1 r skip in
           (s2, (k, a') :: r')
  end.

Definition init (ign : list Z) : ast :=
  {| arr := fun _ => []; hmap := fun _ => []; nxt := 3; wmap := 1; committed := false; rwh := 0; status := 200;
     bufarr := 2; stored := None; adv_arr := []; adv_map := [1]; ignored := ign |}.

(* handler: w.Header()[k] = []string{v1, v2} *)
Definition h_set (s : ast) (k v1 v2 : Z) : ast :=
  let '(s1, a) := alloc_arr s [v1; v2] in
  let s2 := with_heap s1 (arr s1) (mupd (hmap s1) (wmap s1) (zins (hmap s1 (wmap s1)) k a)) (nxt s1) in
  with_adv s2 (a :: adv_arr s2) (adv_map s2).

(* the committing WriteHeader: rw.headers = Header().Clone() *)
Definition commit (s : ast) (code : Z) : ast :=
  if committed s then s else
  let '(s1, es) := clone_entries s (hmap s (wmap s)) [] in
  let '(s2, m) := alloc_map s1 es in
  {| arr := arr s2; hmap := hmap s2; nxt := nxt s2; wmap := wmap s2; committed := true; rwh := m; status := code;
     bufarr := bufarr s2; stored := stored s2; adv_arr := adv_arr s2; adv_map := adv_map s2; ignored := ignored s2 |}.

(* handler: Write(data) with data = [b1; b2; b3]; the handler keeps the slice *)
Definition h_write (s : ast) (b1 b2 b3 : Z) : ast :=
  let '(s1, d) := alloc_arr s [b1; b2; b3] in
  let s2 := with_adv s1 (d :: adv_arr s1) (adv_map s1) in
  let s3 := commit s2 200 in
  with_heap s3 (aupd (arr s3) (bufarr s3) (arr s3 (bufarr s3) ++ arr s3 d)) (hmap s3) (nxt s3).

(* after the handler: finish, policy call (retain = the policy keeps its arguments), store *)
Definition store (s : ast) (retain : bool) : ast :=
  let s0 := commit s 200 in
  let s1 := if retain
            then with_adv s0 (bufarr s0 :: map snd (hmap s0 (rwh s0)) ++ adv_arr s0) (rwh s0 :: adv_map s0)
            else s0 in
  let '(s2, es) := clone_entries s1 (hmap s1 (rwh s1)) (ignored s1) in
  let '(s3, m) := alloc_map s2 es in
  let '(s4, b) := alloc_arr s3 (arr s3 (bufarr s3)) in
  {| arr := arr s4; hmap := hmap s4; nxt := nxt s4; wmap := wmap s4; committed := committed s4; rwh := rwh s4;
     status := status s4; bufarr := bufarr s4; stored := Some (status s4, m, b);
     adv_arr := adv_arr s4; adv_map := adv_map s4; ignored := ignored s4 |}.

(* adversary: write through the i-th array reference it holds *)
Definition adv_write (s : ast) (i pos v : Z) : ast :=
  match nth_error (adv_arr s) (Z.to_nat i) with
  | Some a => with_heap s (aupd (arr s) a (set_nth_z (arr s a) (Z.to_nat pos) v)) (hmap s) (nxt s)
  | None => s
  end.
(* adversary: m[k] = []string{v} on the i-th map reference it holds *)
Definition adv_mapset (s : ast) (i k v : Z) : ast :=
  match nth_error (adv_map s) (Z.to_nat i) with
  | Some m =>
      let '(s1, a) := alloc_arr s [v] in
      let s2 := with_heap s1 (arr s1) (mupd (hmap s1) m (zins (hmap s1 m) k a)) (nxt s1) in
      with_adv s2 (a :: adv_arr s2) (adv_map s2)
  | None => s
  end.
Definition adv_mapdel (s : ast) (i k : Z) : ast :=
  match nth_error (adv_map s) (Z.to_nat i) with
  | Some m => with_heap s (arr s) (mupd (hmap s) m (zdel (hmap s m) k)) (nxt s)
  | None => s
  end.

(* what a hit delivers: status, headers (ascending keys, each with its values), body *)
Definition view (s : ast) : list Z :=
  match stored s with
  | None => [-1]
  | Some (st, m, b) =>
      st :: flat_map (fun e => fst e :: Z.of_nat (length (arr s (snd e))) :: arr s (snd e)) (hmap s m)
         ++ [-2] ++ arr s b
  end.

(* serveCached: the front's ResponseWriter gets a fresh map whose values are fresh clones; the front keeps them all *)
Definition hit (s : ast) : ast * list Z :=
  match stored s with
  | None => (s, [-1])
  | Some (st, m, b) =>
      let '(s1, es) := clone_entries s (hmap s m) [] in
      let '(s2, mw) := alloc_map s1 es in
      let out := st :: flat_map (fun e => fst e :: Z.of_nat (length (arr s2 (snd e))) :: arr s2 (snd e)) es
                    ++ [-2] ++ arr s2 b in
      (with_adv s2 (map snd es ++ adv_arr s2) (mw :: adv_map s2), out)
  end.

(* sharing report: does the adversary hold a reference into the stored response? *)
Definition shares (s : ast) : list Z :=
  match stored s with
  | None => [0; 0; 0]
  | Some (_, m, b) =>
      [ (if existsb (fun e => zmem (adv_arr s) (snd e)) (hmap s m) then 1 else 0);
        (if zmem (adv_arr s) b then 1 else 0);
        (if zmem (adv_map s) m then 1 else 0) ]
  end.

Definition al_step (s : ast) (op : list Z) : ast * list Z :=
  match op with
  | [1; k; v1; v2] => (h_set s k v1 v2, [0])
  | [2; code] => (commit s code, [0])
  | [3; b1; b2; b3] => (h_write s b1 b2 b3, [0])
  | [4; retain] => let s' := store s (retain =? 1) in (s', shares s')
  | [5; i; pos; v] => (adv_write s i pos v, [0])
  | [6; i; k; v] => (adv_mapset s i k v, [0])
  | [7; i; k] => (adv_mapdel s i k, [0])
  | [8] => let '(s', o) := hit s in (s', o ++ [-3] ++ shares s')
  | _ => (s, [-9])
  end.

Definition al_init (cfg : list Z) : ast := init cfg.
