(* IndexLts.v — executable model of the HTTP middleware's path index vs its backing cache.
   Model only (no proofs).  Theorems are in IndexLtsProofs.v.

   Go code modelled (httpcache/middleware.go):
     store(key,resp):   A: patternIdx.addKey(path,key,resp)         (index: key -> resp, overwrites)
                        B: cache.Set(key,resp)                      (outcome: accepted (+displaced victims) | rejected | error(closed))
                        B': on error: patternIdx.removeKeyByIdentity(path,key,resp)
     onCacheRemove(key,resp): removeKeyByIdentity  — run by ONE notifier goroutine, FIFO  (label LDeliver)
     Invalidate(pattern): 1: snapshot of matching index keys; then one cache.Delete per snapshot key
     Clear():           1: cache.Clear() (silent)   2: patternIdx.clear()
     Close():           cache.Close(): closed flag + silent clear of the cache (Cache.Close -> clearDirect, no notifications)

   Keys and identities are Z.  Path matching is abstracted: OInvalidate carries the list ks of ALL universe keys whose
   path matches the pattern (matching is verified in TrieProofs). *)
From KV Require Import Base.

(* ------------------------------------------------------------------ *)
(* association lists as functional maps (at most one binding per key) *)

Definition amap := list (Z * Z).

Fixpoint get (k : Z) (m : amap) : option Z :=
  match m with
  | [] => None
  | (k', v) :: r => if k' =? k then Some v else get k r
  end.

Definition rem (k : Z) (m : amap) : amap := filter (fun p => negb (fst p =? k)) m.
Definition set (k v : Z) (m : amap) : amap := (k, v) :: rem k m.
Definition dom (m : amap) : list Z := map fst m.

Fixpoint memZ (k : Z) (l : list Z) : bool :=
  match l with [] => false | x :: r => (x =? k) || memZ k r end.

(* removeKeyByIdentity: delete only if the key still holds exactly this identity *)
Definition rem_id (k id : Z) (m : amap) : amap :=
  match get k m with
  | Some v => if v =? id then rem k m else m
  | None => m
  end.

(* ------------------------------------------------------------------ *)
(* scripts, threads, state *)

Inductive op :=
| OStore (k id : Z)
| ODelete (k : Z)
| OInvalidate (ks : list Z)
| OClear
| OClose.

Inductive pc :=
| PIdle                        (* between two operations *)
| PStoreB (k id : Z)           (* store: step A done, step B (cache.Set) pending *)
| PStoreB' (k id : Z)          (* store: Set returned an error, step B' (remove own identity) pending *)
| PInv (snap : list Z)         (* invalidate: snapshot taken, these Deletes pending *)
| PClear2.                     (* clear: cache cleared, index clear pending *)

Record thread := mkT { t_pc : pc; t_script : list op }.

Record state := mkS {
  idx : amap;                  (* pattern index: key -> identity *)
  cache : amap;                (* backing cache: key -> identity *)
  notes : list (Z * Z);        (* FIFO queue of pending removal notifications (key, identity) *)
  closed : bool;
  threads : list thread
}.

Inductive outcome := Accept (victims : list Z) | Reject.

Inductive label :=
| LT (tid : nat) (o : outcome)   (* thread tid performs its next atomic step; o is used only by step B *)
| LEvict (k : Z)                 (* environment: resident k leaves the cache (capacity / expiry) *)
| LDeliver.                      (* environment: the notifier delivers the head of the queue *)

(* ------------------------------------------------------------------ *)
(* primitive effects (shared by the LTS and the stream wrapper) *)

Definition set_threads (s : state) (ts : list thread) : state :=
  mkS (idx s) (cache s) (notes s) (closed s) ts.

(* index: addKey / removeKeyByIdentity / clear *)
Definition do_addkey (k id : Z) (s : state) : state :=
  mkS (set k id (idx s)) (cache s) (notes s) (closed s) (threads s).
Definition do_remid (k id : Z) (s : state) : state :=
  mkS (rem_id k id (idx s)) (cache s) (notes s) (closed s) (threads s).
Definition do_idxclear (s : state) : state :=
  mkS [] (cache s) (notes s) (closed s) (threads s).

(* cache: removal of a resident key with notification (Delete, eviction, expiry, displacement) *)
Definition do_remove (k : Z) (s : state) : state :=
  match get k (cache s) with
  | Some id => mkS (idx s) (rem k (cache s)) (notes s ++ [(k, id)]) (closed s) (threads s)
  | None => s
  end.
Definition resident (k : Z) (s : state) : bool :=
  match get k (cache s) with Some _ => true | None => false end.

(* displacement of the victims of an accepted Set of key k (the key itself is never its own victim) *)
Fixpoint do_displace (k : Z) (vs : list Z) (s : state) : state :=
  match vs with
  | [] => s
  | v :: r => if v =? k then do_displace k r s else do_displace k r (do_remove v s)
  end.

(* cache.Set accepted: victims displaced (notified), key holds id (old identity replaced silently) *)
Definition do_set_accept (k id : Z) (vs : list Z) (s : state) : state :=
  let s1 := do_displace k vs s in
  mkS (idx s1) (set k id (cache s1)) (notes s1) (closed s1) (threads s1).
(* cache.Set rejected by admission: old identity replaced silently, new one dropped with notification *)
Definition do_set_reject (k id : Z) (s : state) : state :=
  mkS (idx s) (rem k (cache s)) (notes s ++ [(k, id)]) (closed s) (threads s).
(* cache.Clear: silent *)
Definition do_cacheclear (s : state) : state :=
  mkS (idx s) [] (notes s) (closed s) (threads s).
(* cache.Close: closed flag, silent clear *)
Definition do_close (s : state) : state :=
  mkS (idx s) [] (notes s) true (threads s).

(* notifier: pop the head, removeKeyByIdentity *)
Definition do_deliver (s : state) : option state :=
  match notes s with
  | [] => None
  | (k, id) :: r => Some (mkS (rem_id k id (idx s)) (cache s) r (closed s) (threads s))
  end.

(* getMatchingKeys: snapshot of the index keys among the matching universe keys *)
Definition snapshot (ks : list Z) (s : state) : list Z :=
  filter (fun k => memZ k ks) (dom (idx s)).

(* ------------------------------------------------------------------ *)
(* the transition function *)

Fixpoint upd {A} (i : nat) (x : A) (l : list A) : list A :=
  match l, i with
  | [], _ => []
  | _ :: r, O => x :: r
  | y :: r, S i' => y :: upd i' x r
  end.

(* one atomic step of a thread: new shared state (threads field untouched) and the thread's new local state *)
Definition tstep (s : state) (t : thread) (o : outcome) : option (state * thread) :=
  match t_pc t with
  | PIdle =>
      match t_script t with
      | [] => None
      | OStore k id :: r => Some (do_addkey k id s, mkT (PStoreB k id) r)          (* step A *)
      | ODelete k :: r => Some (do_remove k s, mkT PIdle r)
      | OInvalidate ks :: r => Some (s, mkT (PInv (snapshot ks s)) r)              (* step 1 *)
      | OClear :: r => Some (do_cacheclear s, mkT PClear2 r)                       (* step 1 *)
      | OClose :: r => Some (do_close s, mkT PIdle r)
      end
  | PStoreB k id =>                                                               (* step B *)
      if closed s then Some (s, mkT (PStoreB' k id) (t_script t))
      else match o with
           | Accept vs => Some (do_set_accept k id vs s, mkT PIdle (t_script t))
           | Reject => Some (do_set_reject k id s, mkT PIdle (t_script t))
           end
  | PStoreB' k id => Some (do_remid k id s, mkT PIdle (t_script t))               (* step B' *)
  | PInv [] => Some (s, mkT PIdle (t_script t))
  | PInv (k :: r) => Some (do_remove k s, mkT (PInv r) (t_script t))              (* one Delete *)
  | PClear2 => Some (do_idxclear s, mkT PIdle (t_script t))                       (* step 2 *)
  end.

Definition step (s : state) (l : label) : option state :=
  match l with
  | LT i o =>
      match nth_error (threads s) i with
      | None => None
      | Some t =>
          match tstep s t o with
          | None => None
          | Some (s1, t1) => Some (set_threads s1 (upd i t1 (threads s)))
          end
      end
  | LEvict k => if resident k s then Some (do_remove k s) else None
  | LDeliver => do_deliver s
  end.

Definition init (scripts : list (list op)) : state :=
  mkS [] [] [] false (map (mkT PIdle) scripts).

Inductive reachable (s0 : state) : state -> Prop :=
| R_init : reachable s0 s0
| R_step s l s' : reachable s0 s -> step s l = Some s' -> reachable s0 s'.

Fixpoint exec (s : state) (ls : list label) : option state :=
  match ls with
  | [] => Some s
  | l :: r => match step s l with Some s' => exec s' r | None => None end
  end.

(* ------------------------------------------------------------------ *)
(* hypothesis H: no two stores of the same key overlap; no store overlaps a Clear's two steps *)

Definition store_key (p : pc) : option Z :=
  match p with PStoreB k _ | PStoreB' k _ => Some k | _ => None end.
Definition is_clear2 (p : pc) : bool := match p with PClear2 => true | _ => false end.

(* p and q (local states of two DIFFERENT threads) violate H *)
Definition conflict (p q : pc) : bool :=
  match store_key p with
  | Some k => match store_key q with Some k' => k =? k' | None => is_clear2 q end
  | None => false
  end.

Definition H (s : state) : Prop :=
  forall i j ti tj, i <> j ->
    nth_error (threads s) i = Some ti -> nth_error (threads s) j = Some tj ->
    conflict (t_pc ti) (t_pc tj) = false.

(* executable version *)
Definition pc_at (s : state) (i : nat) : pc :=
  match nth_error (threads s) i with Some t => t_pc t | None => PIdle end.
Definition Hb (s : state) : bool :=
  let n := length (threads s) in
  forallb (fun i => forallb (fun j => (i =? j)%nat || negb (conflict (pc_at s i) (pc_at s j))) (seq 0 n)) (seq 0 n).

(* reachable through states that all satisfy H *)
Inductive reachableH (s0 : state) : state -> Prop :=
| RH_init : reachableH s0 s0
| RH_step s l s' : reachableH s0 s -> step s l = Some s' -> H s' -> reachableH s0 s'.

(* exec that also checks Hb after every step *)
Fixpoint execH (s : state) (ls : list label) : option state :=
  match ls with
  | [] => Some s
  | l :: r => match step s l with
              | Some s' => if Hb s' then execH s' r else None
              | None => None
              end
  end.

(* no store / invalidate / clear in flight: every thread is between two operations *)
Definition idle_pc (p : pc) : bool := match p with PIdle => true | _ => false end.
Definition all_idle (s : state) : bool := forallb (fun t => idle_pc (t_pc t)) (threads s).
Definition quiescent (s : state) : Prop := all_idle s = true /\ notes s = [].

(* identities are fresh per store *)
Definition op_ids (o : op) : list Z := match o with OStore _ id => [id] | _ => [] end.
Definition script_ids (sc : list op) : list Z := flat_map op_ids sc.
Definition wf_scripts (scripts : list (list op)) : Prop := NoDup (flat_map script_ids scripts).

(* ------------------------------------------------------------------ *)
(* stream wrapper for differential testing (sequential driver, no threads)

   ops:  [1;k;id]  store step A (addKey)                         output []
         [2;k;id]  store step B, outcome Accept []               output []   (on a closed cache: B error + B')
         [3]       deliver ALL pending notifications             output []
         [4;k]     cache.Delete k                                output [1] / [0]  (was resident)
         [5;k1;..] whole Invalidate, matching universe keys k1.. output [n] = number removed
         [6]       whole Clear                                   output []
         [7]       observation                                   output sorted (dom idx) ++ [-1] ++ sorted (dom cache)
         other     state unchanged                               output [-9]                                   *)

Fixpoint insertZ (x : Z) (l : list Z) : list Z :=
  match l with
  | [] => [x]
  | y :: r => if x <=? y then x :: l else y :: insertZ x r
  end.
Fixpoint sortZ (l : list Z) : list Z :=
  match l with [] => [] | x :: r => insertZ x (sortZ r) end.

(* drain the notification queue (fuel = queue length; each delivery pops one) *)
Fixpoint deliver_n (n : nat) (s : state) : state :=
  match n with
  | O => s
  | S n' => match do_deliver s with Some s' => deliver_n n' s' | None => s end
  end.
Definition deliver_all (s : state) : state := deliver_n (length (notes s)) s.

(* Invalidate's delete loop over a snapshot: final state and number removed *)
Fixpoint delete_loop (snap : list Z) (s : state) (n : Z) : state * Z :=
  match snap with
  | [] => (s, n)
  | k :: r => delete_loop r (do_remove k s) (if resident k s then n + 1 else n)
  end.
Definition invalidate (ks : list Z) (s : state) : state * Z := delete_loop (snapshot ks s) s 0.

Definition ix_init (cfg : list Z) : state := mkS [] [] [] false [].

Definition ix_step (s : state) (o : list Z) : state * list Z :=
  match o with
  | [1; k; id] => (do_addkey k id s, [])
  | [2; k; id] => if closed s then (do_remid k id s, []) else (do_set_accept k id [] s, [])
  | [3] => (deliver_all s, [])
  | [4; k] => (do_remove k s, [b2z (resident k s)])
  | 5 :: ks => let '(s', n) := invalidate ks s in (s', [n])
  | [6] => (do_idxclear (do_cacheclear s), [])
  | [7] => (s, sortZ (dom (idx s)) ++ [-1] ++ sortZ (dom (cache s)))
  | _ => (s, [-9])
  end.

Definition ix_run (cfg : list Z) (ops : list (list Z)) : list (list Z) := run_out ix_step (ix_init cfg) ops.
