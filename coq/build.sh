#!/bin/sh
# full .vo build of the Coq development (never -vos/-vok)
set -e
cd "$(dirname "$0")"
[ -f Makefile ] && [ Makefile -nt _CoqProject ] || coq_makefile -f _CoqProject -o Makefile >/dev/null
exec timeout ${COQ_TIMEOUT:-3000} make -j16 "$@"
