(* ClassicProofs.v — machine-checked properties of ONE SHARD of CacheModel.v under the classic
   policies LRU / FIFO / LFU (and Sieve with cap = 0, which takes the same code path):
   shard invariant CInv, ghost-history Ledger, notification log NotifLog, budget, update / insert
   behaviour of apply_classic, and the policy orders (ghost clock, parametric).  Stdlib only. *)
Require Import KV.Base KV.Gen.Consts KV.ConfigModel KV.CacheModel.
From Coq Require Import Permutation Sorted.
Open Scope Z_scope.

(* ================================================================== *)
(** * 0. Small tactics                                                  *)
(* ================================================================== *)

(* reduce projections of the functional record updates *)
Ltac sfld :=
  cbn [cap costcap tabk lst lfu prob main hand pcap mcap pmin pmax size scost staged evs pend
       admits rejects ghosthits promos pevicts mevicts serr glog nlog
       sh_set sh_ghost sh_err sh_evs sh_stats sh_caps sh_lists].
Ltac sfld_in H :=
  cbn [cap costcap tabk lst lfu prob main hand pcap mcap pmin pmax size scost staged evs pend
       admits rejects ghosthits promos pevicts mevicts serr glog nlog
       sh_set sh_ghost sh_err sh_evs sh_stats sh_caps sh_lists] in H.

(* ================================================================== *)
(** * 1. List helpers: memz / remz / find_item / remove_key / replace_item *)
(* ================================================================== *)

Lemma memz_In l k : memz l k = true <-> In k l.
Proof.
  induction l as [|x r IH]; cbn [memz In]; [split; [discriminate|tauto]|].
  rewrite orb_true_iff, IH, Z.eqb_eq. tauto.
Qed.

Lemma memz_false l k : memz l k = false <-> ~ In k l.
Proof. rewrite <- memz_In. destruct (memz l k); split; congruence. Qed.

Lemma remz_In_weak l k x : In x (remz l k) -> In x l.
Proof.
  induction l as [|y r IH]; cbn [remz In]; [tauto|].
  destruct (y =? k); cbn [In]; tauto.
Qed.

Lemma remz_In_other l k x : x <> k -> In x l -> In x (remz l k).
Proof.
  intros Hx. induction l as [|y r IH]; cbn [remz In]; [tauto|].
  destruct (Z.eqb_spec y k) as [E|E]; cbn [In]; intros [H|H]; subst; tauto.
Qed.

Lemma remz_notin l k : ~ In k l -> remz l k = l.
Proof.
  induction l as [|y r IH]; cbn [remz In]; intros H; [reflexivity|].
  destruct (Z.eqb_spec y k) as [E|E]; [tauto|]. rewrite IH by tauto. reflexivity.
Qed.

Lemma remz_NoDup l k : NoDup l -> NoDup (remz l k).
Proof.
  induction 1 as [|y r Hy Hr IH]; cbn [remz]; [constructor|].
  destruct (y =? k); [exact Hr|]. constructor; [|exact IH].
  intros H. apply Hy. eapply remz_In_weak; eauto.
Qed.

Lemma remz_not_self l k : NoDup l -> ~ In k (remz l k).
Proof.
  induction 1 as [|y r Hy Hr IH]; cbn [remz]; [tauto|].
  destruct (Z.eqb_spec y k) as [E|E]; [subst; exact Hy|].
  cbn [In]. tauto.
Qed.

Lemma remz_In l k x : NoDup l -> (In x (remz l k) <-> In x l /\ x <> k).
Proof.
  intros ND. split.
  - intros H. split; [eapply remz_In_weak; eauto|]. intros ->. eapply remz_not_self; eauto.
  - intros [H1 H2]. apply remz_In_other; assumption.
Qed.

Lemma remz_length l k : In k l -> Z.of_nat (length (remz l k)) = Z.of_nat (length l) - 1.
Proof.
  induction l as [|y r IH]; cbn [remz In length]; [tauto|].
  destruct (Z.eqb_spec y k) as [E|E]; intros H; [lia|].
  cbn [length]. destruct H as [H|H]; [congruence|]. specialize (IH H). lia.
Qed.

Lemma remz_length_nat l k : In k l -> S (length (remz l k)) = length l.
Proof. intros H. pose proof (remz_length l k H). lia. Qed.

Lemma memz_remz_other l k x : x <> k -> memz (remz l k) x = memz l x.
Proof.
  intros Hx. destruct (memz l x) eqn:E.
  - apply memz_In. apply remz_In_other; [exact Hx|]. apply memz_In; exact E.
  - apply memz_false. intros H. apply memz_false in E. apply E. eapply remz_In_weak; eauto.
Qed.

Lemma map_key_remove l k : map key (remove_key l k) = remz (map key l) k.
Proof.
  induction l as [|it r IH]; cbn [remove_key map remz]; [reflexivity|].
  destruct (key it =? k); cbn [map]; [reflexivity|]. rewrite IH. reflexivity.
Qed.

Lemma map_key_replace l n : map key (replace_item l n) = map key l.
Proof.
  induction l as [|it r IH]; cbn [replace_item map]; [reflexivity|].
  destruct (Z.eqb_spec (key it) (key n)) as [E|E]; cbn [map]; [congruence|]. rewrite IH. reflexivity.
Qed.

Lemma find_item_Some l k it : find_item l k = Some it -> In it l /\ key it = k.
Proof.
  induction l as [|x r IH]; cbn [find_item In]; [discriminate|].
  destruct (Z.eqb_spec (key x) k) as [E|E]; intros H.
  - inversion H; subst. tauto.
  - specialize (IH H). tauto.
Qed.

Lemma find_item_None l k : find_item l k = None <-> ~ In k (map key l).
Proof.
  induction l as [|x r IH]; cbn [find_item map In]; [tauto|].
  destruct (Z.eqb_spec (key x) k) as [E|E]; [split; [discriminate|tauto]|]. rewrite IH. tauto.
Qed.

Lemma find_item_In_key l k : In k (map key l) -> exists it, find_item l k = Some it.
Proof.
  intros H. destruct (find_item l k) as [it|] eqn:E; [eauto|].
  apply find_item_None in E. tauto.
Qed.

Lemma find_item_NoDup l it : NoDup (map key l) -> In it l -> find_item l (key it) = Some it.
Proof.
  induction l as [|x r IH]; cbn [find_item map In]; [tauto|].
  intros ND [H|H]; [subst; rewrite Z.eqb_refl; reflexivity|].
  inversion ND as [|? ? Hx Hr]; subst.
  destruct (Z.eqb_spec (key x) (key it)) as [E|E]; [|auto].
  exfalso. apply Hx. rewrite E. apply in_map. exact H.
Qed.

Lemma find_remove_other l k k' : k' <> k -> find_item (remove_key l k) k' = find_item l k'.
Proof.
  intros Hk. induction l as [|x r IH]; cbn [remove_key find_item]; [reflexivity|].
  destruct (Z.eqb_spec (key x) k) as [E|E].
  - destruct (Z.eqb_spec (key x) k'); [congruence|reflexivity].
  - cbn [find_item]. rewrite IH. reflexivity.
Qed.

Lemma find_remove_same l k : NoDup (map key l) -> find_item (remove_key l k) k = None.
Proof.
  intros ND. apply find_item_None. rewrite map_key_remove. apply remz_not_self. exact ND.
Qed.

Lemma find_replace_other l n k' : k' <> key n -> find_item (replace_item l n) k' = find_item l k'.
Proof.
  intros Hk. induction l as [|x r IH]; cbn [replace_item find_item]; [reflexivity|].
  destruct (Z.eqb_spec (key x) (key n)) as [E|E]; cbn [find_item].
  - destruct (Z.eqb_spec (key n) k'); [congruence|].
    destruct (Z.eqb_spec (key x) k'); [congruence|reflexivity].
  - rewrite IH. reflexivity.
Qed.

Lemma find_replace_same l n old : find_item l (key n) = Some old -> find_item (replace_item l n) (key n) = Some n.
Proof.
  induction l as [|x r IH]; cbn [replace_item find_item]; [discriminate|].
  destruct (Z.eqb_spec (key x) (key n)) as [E|E]; cbn [find_item]; intros H.
  - rewrite Z.eqb_refl. reflexivity.
  - destruct (Z.eqb_spec (key x) (key n)); [congruence|]. auto.
Qed.

Definition sum_cost (l : list item) : Z := sumZ (map cost l).

Lemma sum_cost_remove l k it : find_item l k = Some it -> sum_cost (remove_key l k) = sum_cost l - cost it.
Proof.
  unfold sum_cost. induction l as [|x r IH]; cbn [find_item remove_key map sumZ]; [discriminate|].
  destruct (key x =? k); intros H.
  - inversion H; subst. lia.
  - cbn [map sumZ]. rewrite IH by exact H. lia.
Qed.

Lemma sum_cost_replace l n old :
  find_item l (key n) = Some old -> sum_cost (replace_item l n) = sum_cost l - cost old + cost n.
Proof.
  unfold sum_cost. induction l as [|x r IH]; cbn [find_item replace_item map sumZ]; [discriminate|].
  destruct (key x =? key n); intros H; cbn [map sumZ].
  - inversion H; subst. lia.
  - rewrite IH by exact H. lia.
Qed.

Lemma zlen_remove l k it : find_item l k = Some it -> zlen (remove_key l k) = zlen l - 1.
Proof.
  unfold zlen. induction l as [|x r IH]; cbn [find_item remove_key length]; [discriminate|].
  destruct (key x =? k); intros H; [lia|]. cbn [length]. specialize (IH H). lia.
Qed.

Lemma length_replace l n : length (replace_item l n) = length l.
Proof.
  induction l as [|x r IH]; cbn [replace_item length]; [reflexivity|].
  destruct (key x =? key n); cbn [length]; [reflexivity|]. rewrite IH. reflexivity.
Qed.

Lemma In_remove_key l k x : In x (remove_key l k) -> In x l.
Proof.
  induction l as [|y r IH]; cbn [remove_key In]; [tauto|].
  destruct (key y =? k); cbn [In]; tauto.
Qed.

Lemma Forall_remove_key (P : item -> Prop) l k : Forall P l -> Forall P (remove_key l k).
Proof.
  intros H. apply Forall_forall. intros x Hx. rewrite Forall_forall in H. apply H.
  eapply In_remove_key; eauto.
Qed.

Lemma Forall_replace_item (P : item -> Prop) l n : P n -> Forall P l -> Forall P (replace_item l n).
Proof.
  intros Hn. induction 1 as [|x r Hx Hr IH]; cbn [replace_item]; [constructor|].
  destruct (key x =? key n); constructor; auto.
Qed.

Lemma last_item_In l it : last_item l = Some it -> In it l.
Proof.
  unfold last_item. intros H. apply in_rev. destruct (rev l) as [|x r]; [discriminate|].
  inversion H; subst. left; reflexivity.
Qed.

Lemma last_item_None l : last_item l = None -> l = [].
Proof.
  unfold last_item. intros H. destruct (rev l) as [|x r] eqn:E; [|discriminate].
  rewrite <- (rev_involutive l), E. reflexivity.
Qed.

Lemma last_item_app l it : last_item (l ++ [it]) = Some it.
Proof. unfold last_item. rewrite rev_app_distr. reflexivity. Qed.

Lemma last_item_split l it : last_item l = Some it -> exists l0, l = l0 ++ [it].
Proof.
  unfold last_item. intros H. destruct (rev l) as [|x r] eqn:E; [discriminate|].
  inversion H; subst. exists (rev r). rewrite <- (rev_involutive l), E. reflexivity.
Qed.

Lemma nodup_app_iff {A} (a b : list A) :
  NoDup (a ++ b) <-> NoDup a /\ NoDup b /\ (forall x, In x a -> ~ In x b).
Proof.
  induction a as [|x a IH]; cbn [app].
  - split; [intros H; repeat split; [constructor|exact H|intros ? []]|tauto].
  - split.
    + intros H. inversion H as [|? ? Hx Hr]; subst. apply IH in Hr. destruct Hr as (Ha & Hb & Hd).
      repeat split.
      * constructor; [|exact Ha]. intros Hi. apply Hx. apply in_or_app; tauto.
      * exact Hb.
      * intros y [Hy|Hy]; [subst; intros Hi; apply Hx; apply in_or_app; tauto|auto].
    + intros (Ha & Hb & Hd). inversion Ha as [|? ? Hx Hr]; subst. constructor.
      * intros Hi. apply in_app_or in Hi. destruct Hi as [Hi|Hi]; [tauto|]. apply (Hd x); [left; reflexivity|exact Hi].
      * apply IH. repeat split; [exact Hr|exact Hb|]. intros y Hy. apply Hd. right; exact Hy.
Qed.

(* ================================================================== *)
(** * 2. LFU buckets                                                    *)
(* ================================================================== *)

Definition lfu_keys (b : list (Z * list Z)) : list Z := concat (map snd b).

Lemma lfu_keys_cons g ks r : lfu_keys ((g, ks) :: r) = ks ++ lfu_keys r.
Proof. reflexivity. Qed.

Record LfuOK (b : list (Z * list Z)) (ks : list Z) : Prop := {
  lo_sorted : StronglySorted Z.lt (map fst b);          (* strictly ascending frequencies *)
  lo_pos : Forall (fun p => 1 <= fst p) b;              (* every frequency >= 1 *)
  lo_nonempty : Forall (fun p => snd p <> []) b;        (* no empty bucket *)
  lo_nodup : NoDup (lfu_keys b);                        (* no key twice in one / in two buckets *)
  lo_union : forall k, In k (lfu_keys b) <-> In k ks    (* union of the buckets = key set *)
}.

Lemma lfu_freq_notin b k : ~ In k (lfu_keys b) -> lfu_freq b k = 0.
Proof.
  induction b as [|[g ks] r IH]; cbn [lfu_freq]; [reflexivity|].
  rewrite lfu_keys_cons. intros H.
  destruct (memz ks k) eqn:E.
  - exfalso. apply H. apply in_or_app. left. apply memz_In. exact E.
  - apply IH. intros Hi. apply H. apply in_or_app. tauto.
Qed.

Lemma lfu_freq_in b k : In k (lfu_keys b) -> In (lfu_freq b k) (map fst b).
Proof.
  induction b as [|[g ks] r IH]; cbn [lfu_freq map fst In]; [intros []|].
  rewrite lfu_keys_cons. intros H. destruct (memz ks k) eqn:E; [left; reflexivity|].
  right. apply IH. apply in_app_or in H. destruct H as [H|H]; [|exact H].
  apply memz_In in H. congruence.
Qed.

Lemma lfu_freq_pos b k : Forall (fun p => 1 <= fst p) b -> In k (lfu_keys b) -> 1 <= lfu_freq b k.
Proof.
  intros HP H. apply lfu_freq_in in H. apply in_map_iff in H. destruct H as (p & Hp & Hi).
  rewrite Forall_forall in HP. specialize (HP p Hi). lia.
Qed.

Lemma lfu_freq_zero_iff b k : Forall (fun p => 1 <= fst p) b -> (lfu_freq b k = 0 <-> ~ In k (lfu_keys b)).
Proof.
  intros HP. split.
  - intros H Hi. pose proof (lfu_freq_pos b k HP Hi). lia.
  - apply lfu_freq_notin.
Qed.

(* --- lfu_remove --- *)
Lemma lfu_remove_keys_weak b k x : In x (lfu_keys (lfu_remove b k)) -> In x (lfu_keys b).
Proof.
  induction b as [|[g ks] r IH]; cbn [lfu_remove]; [tauto|].
  destruct (memz ks k) eqn:E.
  - destruct (remz ks k) as [|y ys] eqn:R; rewrite ?lfu_keys_cons; intros H.
    + apply in_or_app; tauto.
    + apply in_or_app. apply in_app_or in H. destruct H as [H|H]; [|tauto].
      left. apply (remz_In_weak ks k). rewrite R. exact H.
  - rewrite !lfu_keys_cons. intros H. apply in_or_app. apply in_app_or in H. tauto.
Qed.

Lemma lfu_remove_keys_other b k x : x <> k -> In x (lfu_keys b) -> In x (lfu_keys (lfu_remove b k)).
Proof.
  intros Hx. induction b as [|[g ks] r IH]; cbn [lfu_remove]; [tauto|].
  rewrite lfu_keys_cons. intros H. apply in_app_or in H.
  destruct (memz ks k) eqn:E.
  - destruct (remz ks k) as [|y ys] eqn:R; rewrite ?lfu_keys_cons.
    + destruct H as [H|H]; [|exact H]. apply (remz_In_other ks k x Hx) in H. rewrite R in H. destruct H.
    + apply in_or_app. destruct H as [H|H]; [|tauto]. left. rewrite <- R. apply remz_In_other; assumption.
  - rewrite lfu_keys_cons. apply in_or_app. tauto.
Qed.

Lemma lfu_remove_not_self b k : NoDup (lfu_keys b) -> ~ In k (lfu_keys (lfu_remove b k)).
Proof.
  induction b as [|[g ks] r IH]; cbn [lfu_remove]; [tauto|].
  rewrite lfu_keys_cons. intros ND. apply nodup_app_iff in ND. destruct ND as (N1 & N2 & N3).
  destruct (memz ks k) eqn:E.
  - apply memz_In in E.
    assert (Hr : ~ In k (lfu_keys r)) by (apply N3; exact E).
    destruct (remz ks k) as [|y ys] eqn:R; rewrite ?lfu_keys_cons; [exact Hr|].
    intros H. apply in_app_or in H. destruct H as [H|H]; [|tauto].
    rewrite <- R in H. exact (remz_not_self ks k N1 H).
  - rewrite lfu_keys_cons. intros H. apply in_app_or in H. destruct H as [H|H].
    + apply memz_false in E. tauto.
    + apply IH in H; [exact H|exact N2].
Qed.

Lemma lfu_remove_keys b k x : NoDup (lfu_keys b) ->
  (In x (lfu_keys (lfu_remove b k)) <-> In x (lfu_keys b) /\ x <> k).
Proof.
  intros ND. split.
  - intros H. split; [eapply lfu_remove_keys_weak; eauto|]. intros ->. eapply lfu_remove_not_self; eauto.
  - intros [H1 H2]. apply lfu_remove_keys_other; assumption.
Qed.

Lemma lfu_remove_nodup b k : NoDup (lfu_keys b) -> NoDup (lfu_keys (lfu_remove b k)).
Proof.
  induction b as [|[g ks] r IH]; cbn [lfu_remove]; [tauto|].
  rewrite lfu_keys_cons. intros ND. apply nodup_app_iff in ND. destruct ND as (N1 & N2 & N3).
  destruct (memz ks k) eqn:E.
  - destruct (remz ks k) as [|y ys] eqn:R; rewrite ?lfu_keys_cons; [exact N2|].
    apply nodup_app_iff. repeat split; [rewrite <- R; apply remz_NoDup; exact N1|exact N2|].
    intros x Hx. apply N3. apply (remz_In_weak ks k). rewrite R. exact Hx.
  - rewrite lfu_keys_cons. apply nodup_app_iff. repeat split; [exact N1|apply IH; exact N2|].
    intros x Hx Hi. apply (N3 x Hx). eapply lfu_remove_keys_weak; eauto.
Qed.

Lemma lfu_remove_fst_sub b k f : In f (map fst (lfu_remove b k)) -> In f (map fst b).
Proof.
  induction b as [|[g ks] r IH]; cbn [lfu_remove]; [tauto|].
  destruct (memz ks k).
  - destruct (remz ks k) as [|y ys]; cbn [map fst In]; tauto.
  - cbn [map fst In]. tauto.
Qed.

Lemma lfu_remove_sorted b k : StronglySorted Z.lt (map fst b) -> StronglySorted Z.lt (map fst (lfu_remove b k)).
Proof.
  induction b as [|[g ks] r IH]; cbn [lfu_remove]; [tauto|].
  cbn [map fst]. intros H. inversion H as [|? ? Hr Hg]; subst.
  destruct (memz ks k).
  - destruct (remz ks k) as [|y ys]; cbn [map fst]; [exact Hr|constructor; assumption].
  - cbn [map fst]. constructor; [apply IH; exact Hr|].
    apply Forall_forall. intros f Hf. rewrite Forall_forall in Hg. apply Hg. eapply lfu_remove_fst_sub; eauto.
Qed.

Lemma lfu_remove_Forall (P : Z * list Z -> Prop) b k :
  (forall g ks, P (g, ks) -> remz ks k <> [] -> P (g, remz ks k)) ->
  Forall P b -> Forall P (lfu_remove b k).
Proof.
  intros HP. induction 1 as [|[g ks] r Hx Hr IH]; cbn [lfu_remove]; [constructor|].
  destruct (memz ks k).
  - destruct (remz ks k) as [|y ys] eqn:R; [exact Hr|]. constructor; [|exact Hr].
    rewrite <- R. apply HP; [exact Hx|]. rewrite R. discriminate.
  - constructor; assumption.
Qed.

Lemma lfu_remove_notin b k : ~ In k (lfu_keys b) -> lfu_remove b k = b.
Proof.
  induction b as [|[g ks] r IH]; cbn [lfu_remove]; [reflexivity|].
  rewrite lfu_keys_cons. intros H. destruct (memz ks k) eqn:E.
  - exfalso. apply H. apply in_or_app. left. apply memz_In. exact E.
  - rewrite IH; [reflexivity|]. intros Hi. apply H. apply in_or_app. tauto.
Qed.

Lemma LfuOK_remove b ks k : NoDup ks -> LfuOK b ks -> LfuOK (lfu_remove b k) (remz ks k).
Proof.
  intros NDk [H1 H2 H3 H4 H5]. constructor.
  - apply lfu_remove_sorted; exact H1.
  - apply lfu_remove_Forall; [|exact H2]. intros g l Hp _. exact Hp.
  - apply lfu_remove_Forall; [|exact H3]. intros g l _ Hn. exact Hn.
  - apply lfu_remove_nodup; exact H4.
  - intros x. rewrite lfu_remove_keys by exact H4. rewrite remz_In by exact NDk. rewrite H5. tauto.
Qed.

Lemma lfu_freq_remove b k k' : NoDup (lfu_keys b) ->
  lfu_freq (lfu_remove b k) k' = if k' =? k then 0 else lfu_freq b k'.
Proof.
  intros ND. destruct (Z.eqb_spec k' k) as [->|Hk].
  - apply lfu_freq_notin. apply lfu_remove_not_self. exact ND.
  - clear ND. induction b as [|[g ks] r IH]; cbn [lfu_remove lfu_freq]; [reflexivity|].
    destruct (memz ks k) eqn:E.
    + destruct (remz ks k) as [|y ys] eqn:R.
      * assert (M : memz ks k' = false).
        { apply memz_false. intros Hi. apply (remz_In_other ks k k' Hk) in Hi. rewrite R in Hi. destruct Hi. }
        rewrite M. reflexivity.
      * cbn [lfu_freq]. rewrite <- R. rewrite memz_remz_other by exact Hk. reflexivity.
    + cbn [lfu_freq]. rewrite IH. reflexivity.
Qed.

(* --- lfu_add_at --- *)
Lemma lfu_add_at_keys b f k x : In x (lfu_keys (lfu_add_at b f k)) <-> x = k \/ In x (lfu_keys b).
Proof.
  induction b as [|[g ks] r IH]; cbn [lfu_add_at].
  - unfold lfu_keys; cbn. intuition.
  - destruct (g =? f); [rewrite !lfu_keys_cons; cbn [app In]; intuition|].
    destruct (f <? g).
    + rewrite (lfu_keys_cons f [k]). cbn [app In]. intuition.
    + rewrite !lfu_keys_cons, !in_app_iff, IH. tauto.
Qed.

Lemma lfu_add_at_nodup b f k : ~ In k (lfu_keys b) -> NoDup (lfu_keys b) -> NoDup (lfu_keys (lfu_add_at b f k)).
Proof.
  induction b as [|[g ks] r IH]; cbn [lfu_add_at]; intros Hk ND.
  - unfold lfu_keys; cbn. constructor; [intros []|constructor].
  - destruct (g =? f); [rewrite !lfu_keys_cons in *; cbn [app]; constructor; assumption|].
    destruct (f <? g).
    + rewrite (lfu_keys_cons f [k]). cbn [app]. constructor; assumption.
    + rewrite lfu_keys_cons in *. apply nodup_app_iff in ND. destruct ND as (N1 & N2 & N3).
      apply nodup_app_iff. repeat split; [exact N1| |].
      * apply IH; [|exact N2]. intros H. apply Hk. apply in_or_app; tauto.
      * intros x Hx Hi. apply lfu_add_at_keys in Hi. destruct Hi as [->|Hi].
        -- apply Hk. apply in_or_app; tauto.
        -- apply (N3 x Hx Hi).
Qed.

Lemma lfu_add_at_fst b f k x : In x (map fst (lfu_add_at b f k)) -> x = f \/ In x (map fst b).
Proof.
  induction b as [|[g ks] r IH]; cbn [lfu_add_at].
  - cbn. intuition congruence.
  - destruct (Z.eqb_spec g f) as [E|E]; [cbn [map fst In]; intuition congruence|].
    destruct (f <? g); cbn [map fst In]; intuition congruence.
Qed.

Lemma lfu_add_at_sorted b f k : StronglySorted Z.lt (map fst b) -> StronglySorted Z.lt (map fst (lfu_add_at b f k)).
Proof.
  induction b as [|[g ks] r IH]; cbn [lfu_add_at]; intros H.
  - cbn. constructor; [constructor|constructor].
  - cbn [map fst] in H. inversion H as [|? ? Hr Hg]; subst.
    destruct (Z.eqb_spec g f) as [E|E]; [cbn [map fst]; constructor; assumption|].
    destruct (Z.ltb_spec f g) as [L|L].
    + cbn [map fst]. constructor; [exact H|]. constructor; [exact L|].
      eapply Forall_impl; [|exact Hg]. cbn. intros; lia.
    + cbn [map fst]. constructor; [apply IH; exact Hr|].
      apply Forall_forall. intros x Hx. apply lfu_add_at_fst in Hx. destruct Hx as [->|Hx]; [lia|].
      rewrite Forall_forall in Hg. apply Hg; exact Hx.
Qed.

Lemma lfu_add_at_Forall (P : Z * list Z -> Prop) b f k :
  P (f, [k]) -> (forall ks, P (f, ks) -> P (f, k :: ks)) -> Forall P b -> Forall P (lfu_add_at b f k).
Proof.
  intros P1 P2. induction 1 as [|[g ks] r Hx Hr IH]; cbn [lfu_add_at]; [constructor; [exact P1|constructor]|].
  destruct (Z.eqb_spec g f) as [E|E]; [subst; constructor; [apply P2; exact Hx|exact Hr]|].
  destruct (f <? g); constructor; try assumption. constructor; assumption.
Qed.

Lemma LfuOK_add_at b ks f k : 1 <= f -> ~ In k ks -> LfuOK b ks -> LfuOK (lfu_add_at b f k) (k :: ks).
Proof.
  intros Hf Hk [H1 H2 H3 H4 H5]. constructor.
  - apply lfu_add_at_sorted; exact H1.
  - apply lfu_add_at_Forall; [exact Hf|intros; assumption|exact H2].
  - apply lfu_add_at_Forall; [cbn; discriminate|cbn; intros; discriminate|exact H3].
  - apply lfu_add_at_nodup; [rewrite H5; exact Hk|exact H4].
  - intros x. rewrite lfu_add_at_keys. cbn [In]. rewrite H5. intuition.
Qed.

Lemma lfu_freq_add_at b f k k' : ~ In k (lfu_keys b) ->
  lfu_freq (lfu_add_at b f k) k' = if k' =? k then f else lfu_freq b k'.
Proof.
  induction b as [|[g ks] r IH]; cbn [lfu_add_at]; intros Hk.
  - cbn [lfu_freq memz]. rewrite (Z.eqb_sym k k'). destruct (k' =? k); reflexivity.
  - rewrite lfu_keys_cons in Hk.
    assert (Mk : memz ks k = false) by (apply memz_false; intros Hi; apply Hk; apply in_or_app; tauto).
    destruct (Z.eqb_spec g f) as [E|E].
    + cbn [lfu_freq memz]. rewrite (Z.eqb_sym k k'). destruct (Z.eqb_spec k' k) as [Hn|Hn]; cbn [orb]; [exact E|reflexivity].
    + destruct (f <? g).
      * cbn [lfu_freq memz]. rewrite (Z.eqb_sym k k'). destruct (k' =? k); reflexivity.
      * cbn [lfu_freq]. rewrite IH by (intros Hi; apply Hk; apply in_or_app; tauto).
        destruct (Z.eqb_spec k' k) as [Hn|Hn]; [rewrite Hn, Mk; reflexivity|reflexivity].
Qed.

(* an update of a set (as extensional key set) *)
Lemma LfuOK_ext b ks ks' : (forall k, In k ks <-> In k ks') -> LfuOK b ks -> LfuOK b ks'.
Proof.
  intros E [H1 H2 H3 H4 H5]. constructor; try assumption. intros k. rewrite H5. apply E.
Qed.

(* the minimum bucket really is minimal *)
Lemma lfu_min_bucket_min b k vk :
  StronglySorted Z.lt (map fst b) -> In vk (lfu_min_bucket b) -> In k (lfu_keys b) ->
  lfu_freq b vk <= lfu_freq b k.
Proof.
  destruct b as [|[g ks] r]; cbn [lfu_min_bucket]; [intros _ []|].
  intros HS Hv Hk. cbn [lfu_freq]. apply memz_In in Hv. rewrite Hv.
  destruct (memz ks k) eqn:E; [lia|].
  cbn [map fst] in HS. inversion HS as [|? ? Hr Hg]; subst.
  rewrite lfu_keys_cons in Hk. apply in_app_or in Hk. destruct Hk as [Hk|Hk]; [apply memz_In in Hk; congruence|].
  apply lfu_freq_in in Hk. rewrite Forall_forall in Hg. specialize (Hg _ Hk). lia.
Qed.

Lemma lfu_min_bucket_sub b k : In k (lfu_min_bucket b) -> In k (lfu_keys b).
Proof.
  destruct b as [|[g ks] r]; cbn [lfu_min_bucket]; [intros []|]. rewrite lfu_keys_cons. intros H. apply in_or_app; tauto.
Qed.

(* ================================================================== *)
(** * 3. The invariants: CInv, Ledger, NotifLog                         *)
(* ================================================================== *)

Definition item_ok (it : item) : Prop := 0 <= cost it /\ unpub it = false.

Record CInv (pol : Z) (s : shard) : Prop := {
  ci_classic : is_sieve s pol = false;                   (* LRU / LFU / FIFO, or Sieve with cap = 0 *)
  ci_tab_nodup : NoDup (tabk s);
  ci_lst_nodup : NoDup (map key (lst s));
  ci_dom : forall k, In k (tabk s) <-> In k (map key (lst s));
  ci_size : size s = zlen (lst s);
  ci_scost : scost s = sum_cost (lst s);
  ci_items : Forall item_ok (lst s);
  ci_prob : prob s = [];
  ci_main : main s = [];
  ci_hand : hand s = None;
  ci_lfu : pol = policyLFU -> LfuOK (lfu s) (tabk s)
}.

Fixpoint cnt {A} (f : A -> bool) (l : list A) : Z :=
  match l with [] => 0 | x :: r => (if f x then 1 else 0) + cnt f r end.

Lemma cnt_app {A} (f : A -> bool) a b : cnt f (a ++ b) = cnt f a + cnt f b.
Proof. induction a as [|x a IH]; cbn [cnt app]; lia. Qed.

Lemma cnt_nonneg {A} (f : A -> bool) l : 0 <= cnt f l.
Proof. induction l as [|x r IH]; cbn [cnt]; [lia|]. destruct (f x); lia. Qed.

Lemma cnt_le_length {A} (f : A -> bool) l : cnt f l <= Z.of_nat (length l).
Proof. induction l as [|x r IH]; cbn [cnt length]; [lia|]. destruct (f x); lia. Qed.

Definition is_tag (t k v : Z) (x : Z * Z * Z) : bool :=
  let '(t', k', v') := x in (t' =? t) && (k' =? k) && (v' =? v).
Definition is_drop (k v : Z) (x : Z * Z * Z) : bool :=
  let '(t', k', v') := x in (10 <=? t') && (k' =? k) && (v' =? v).
Definition is_kv (k v : Z) (it : item) : bool := (key it =? k) && (val it =? v).

(* every value ever written for k is resident, or was replaced, cleared or dropped *)
Definition Ledger (s : shard) : Prop :=
  forall k v, cnt (is_tag 0 k v) (glog s) =
              cnt (is_kv k v) (lst s) + cnt (is_tag 1 k v) (glog s) + cnt (is_tag 2 k v) (glog s) + cnt (is_drop k v) (glog s).

Definition notif_of (m : Z) (x : Z * Z * Z) : list notif :=
  let '(t, k, v) := x in
  if (10 <=? t) && mask_has m (t - 10) then [{| nkey := k; nval := v; nreason := t - 10 |}] else [].
Definition notifs_of (m : Z) (g : list (Z * Z * Z)) : list notif := flat_map (notif_of m) g.

(* the notification log is exactly the masked dropped entries of the history, in order *)
Definition NotifLog (m : Z) (s : shard) : Prop := nlog s = notifs_of m (glog s).

Lemma notifs_of_app m a b : notifs_of m (a ++ b) = notifs_of m a ++ notifs_of m b.
Proof. unfold notifs_of. apply flat_map_app. Qed.

Lemma cnt_remove f l k it :
  find_item l k = Some it -> cnt f (remove_key l k) = cnt f l - (if f it then 1 else 0).
Proof.
  induction l as [|x r IH]; cbn [find_item remove_key cnt]; [discriminate|].
  destruct (key x =? k); intros H.
  - inversion H; subst. lia.
  - cbn [cnt]. rewrite IH by exact H. lia.
Qed.

Lemma cnt_replace f l n old :
  find_item l (key n) = Some old ->
  cnt f (replace_item l n) = cnt f l - (if f old then 1 else 0) + (if f n then 1 else 0).
Proof.
  induction l as [|x r IH]; cbn [find_item replace_item cnt]; [discriminate|].
  destruct (key x =? key n); intros H; cbn [cnt].
  - inversion H; subst. lia.
  - rewrite IH by exact H. lia.
Qed.

(* ------------------------------------------------------------------ *)
(** ** Frames: transitions that only touch evs / pend / serr / counters / segment caps *)

Record Frame (s s' : shard) : Prop := {
  fr_cap : cap s' = cap s; fr_costcap : costcap s' = costcap s;
  fr_tabk : tabk s' = tabk s; fr_lst : lst s' = lst s; fr_lfu : lfu s' = lfu s;
  fr_prob : prob s' = prob s; fr_main : main s' = main s; fr_hand : hand s' = hand s;
  fr_size : size s' = size s; fr_scost : scost s' = scost s; fr_staged : staged s' = staged s;
  fr_glog : glog s' = glog s; fr_nlog : nlog s' = nlog s
}.

Lemma Frame_refl s : Frame s s.
Proof. constructor; reflexivity. Qed.

Lemma Frame_trans s1 s2 s3 : Frame s1 s2 -> Frame s2 s3 -> Frame s1 s3.
Proof. intros [] []. constructor; congruence. Qed.

Lemma Frame_sym s1 s2 : Frame s1 s2 -> Frame s2 s1.
Proof. intros []. constructor; congruence. Qed.

Lemma Frame_sh_err s c : Frame s (sh_err s c).
Proof. constructor; reflexivity. Qed.
Lemma Frame_sh_evs s e p : Frame s (sh_evs s e p).
Proof. constructor; reflexivity. Qed.
Lemma Frame_sh_caps s p : Frame s (sh_caps s p).
Proof. constructor; reflexivity. Qed.
Lemma Frame_sh_stats s a r g p pe me : Frame s (sh_stats s a r g p pe me).
Proof. constructor; reflexivity. Qed.

Lemma is_sieve_cap s s' pol : cap s' = cap s -> is_sieve s' pol = is_sieve s pol.
Proof. unfold is_sieve. intros ->. reflexivity. Qed.

Lemma CInv_frame pol s s' : Frame s s' -> CInv pol s -> CInv pol s'.
Proof.
  intros [F1 F2 F3 F4 F5 F6 F7 F8 F9 F10 F11 F12 F13] [C1 C2 C3 C4 C5 C6 C7 C8 C9 C10 C11].
  constructor; rewrite ?F3, ?F4, ?F5, ?F6, ?F7, ?F8, ?F9, ?F10; try assumption.
  rewrite (is_sieve_cap s s' pol F1). exact C1.
Qed.

Lemma Ledger_frame s s' : Frame s s' -> Ledger s -> Ledger s'.
Proof. intros F L k v. rewrite (fr_glog _ _ F), (fr_lst _ _ F). apply L. Qed.

Lemma NotifLog_frame m s s' : Frame s s' -> NotifLog m s -> NotifLog m s'.
Proof. unfold NotifLog. intros F L. rewrite (fr_glog _ _ F), (fr_nlog _ _ F). exact L. Qed.

(* ------------------------------------------------------------------ *)
(** ** DropRel: the effect of dropping one resident item (modulo a frame) *)

Definition mk_notif (it : item) (r : Z) : notif := {| nkey := key it; nval := val it; nreason := r |}.

Record DropRel (lf : bool) (m r : Z) (it : item) (s s' : shard) : Prop := {
  dr_cap : cap s' = cap s; dr_costcap : costcap s' = costcap s;
  dr_tabk : tabk s' = remz (tabk s) (key it);
  dr_lst : lst s' = remove_key (lst s) (key it);
  dr_lfu : lfu s' = if lf then lfu_remove (lfu s) (key it) else lfu s;
  dr_prob : prob s' = prob s; dr_main : main s' = main s; dr_hand : hand s' = hand s;
  dr_size : size s' = size s - 1; dr_scost : scost s' = scost s - cost it;
  dr_staged : staged s' = staged s ++ (if mask_has m r then [mk_notif it r] else []);
  dr_glog : glog s' = glog s ++ [(10 + r, key it, val it)];
  dr_nlog : nlog s' = nlog s ++ (if mask_has m r then [mk_notif it r] else [])
}.

Lemma DropRel_frame_r lf m r it s s1 s2 : DropRel lf m r it s s1 -> Frame s1 s2 -> DropRel lf m r it s s2.
Proof. intros [] []. constructor; congruence. Qed.

Lemma DropRel_frame_l lf m r it s0 s s1 : Frame s0 s -> DropRel lf m r it s s1 -> DropRel lf m r it s0 s1.
Proof.
  intros [F1 F2 F3 F4 F5 F6 F7 F8 F9 F10 F11 F12 F13] [D1 D2 D3 D4 D5 D6 D7 D8 D9 D10 D11 D12 D13].
  constructor; try congruence. rewrite <- F5. exact D5.
Qed.

Lemma CInv_drop pol lf m r it s s' :
  (pol = policyLFU -> lf = true) ->
  find_item (lst s) (key it) = Some it -> DropRel lf m r it s s' -> CInv pol s -> CInv pol s'.
Proof.
  intros Hlf Hf [D1 D2 D3 D4 D5 D6 D7 D8 D9 D10 D11 D12 D13] [C1 C2 C3 C4 C5 C6 C7 C8 C9 C10 C11].
  constructor; rewrite ?D3, ?D4, ?D6, ?D7, ?D8, ?D9, ?D10; try assumption.
  - rewrite (is_sieve_cap s s' pol D1). exact C1.
  - apply remz_NoDup; exact C2.
  - rewrite map_key_remove. apply remz_NoDup; exact C3.
  - intros k. rewrite map_key_remove, !remz_In by assumption. rewrite C4. tauto.
  - rewrite (zlen_remove _ _ _ Hf). lia.
  - rewrite (sum_cost_remove _ _ _ Hf). lia.
  - apply Forall_remove_key; exact C7.
  - intros Hp. rewrite D5, (Hlf Hp). apply LfuOK_remove; auto.
Qed.

Lemma Ledger_drop lf m r it s s' :
  0 <= r -> find_item (lst s) (key it) = Some it -> DropRel lf m r it s s' -> Ledger s -> Ledger s'.
Proof.
  intros Hr Hf D L k v. rewrite (dr_glog _ _ _ _ _ _ D), (dr_lst _ _ _ _ _ _ D), !cnt_app.
  rewrite (cnt_remove _ _ _ _ Hf). specialize (L k v).
  cbn [cnt is_tag is_drop]. unfold is_kv in *.
  replace (10 + r =? 0) with false by lia. replace (10 + r =? 1) with false by lia.
  replace (10 + r =? 2) with false by lia. replace (10 <=? 10 + r) with true by lia.
  cbn [andb]. destruct ((key it =? k) && (val it =? v)); lia.
Qed.

Lemma NotifLog_drop lf m r it s s' : DropRel lf m r it s s' -> NotifLog m s -> NotifLog m s'.
Proof.
  unfold NotifLog. intros D L. rewrite (dr_glog _ _ _ _ _ _ D), (dr_nlog _ _ _ _ _ _ D), notifs_of_app, L.
  f_equal. unfold notifs_of. cbn [flat_map notif_of]. rewrite app_nil_r.
  replace (10 + r - 10) with r by lia. unfold mk_notif.
  destruct (Z.leb_spec 10 (10 + r)) as [G|G]; cbn [andb]; [reflexivity|].
  unfold mask_has. rewrite Z.testbit_neg_r by lia. reflexivity.
Qed.

(* ================================================================== *)
(** * 4. lookup, drop_item, evict_one                                   *)
(* ================================================================== *)

(** Theorem 1 *)
Theorem lookup_spec pol s k :
  CInv pol s ->
  lookup s pol k = find_item (lst s) k /\ ((exists it, lookup s pol k = Some it) <-> In k (tabk s)).
Proof.
  intros C. unfold lookup. rewrite (ci_classic _ _ C).
  destruct (memz (tabk s) k) eqn:E; cbn [negb].
  - apply memz_In in E. split; [reflexivity|]. split; [intros _; exact E|]. intros _.
    apply find_item_In_key. apply (ci_dom _ _ C). exact E.
  - apply memz_false in E. split.
    + symmetry. apply find_item_None. rewrite <- (ci_dom _ _ C). exact E.
    + split; [intros [it H]; discriminate|tauto].
Qed.

Lemma lookup_find pol s k : CInv pol s -> lookup s pol k = find_item (lst s) k.
Proof. intros C. apply (lookup_spec pol s k C). Qed.

Lemma lookup_resident pol s k it :
  CInv pol s -> lookup s pol k = Some it ->
  find_item (lst s) (key it) = Some it /\ key it = k /\ In k (tabk s) /\ In it (lst s) /\ item_ok it.
Proof.
  intros C H. rewrite (lookup_find _ _ _ C) in H. destruct (find_item_Some _ _ _ H) as [Hi Hk].
  repeat split; try assumption.
  - rewrite Hk. exact H.
  - apply (ci_dom _ _ C). rewrite <- Hk. apply in_map. exact Hi.
  - pose proof (ci_items _ _ C) as F. rewrite Forall_forall in F. apply (F it Hi).
  - pose proof (ci_items _ _ C) as F. rewrite Forall_forall in F. apply (F it Hi).
Qed.

Lemma resident_ok pol s it :
  CInv pol s -> find_item (lst s) (key it) = Some it -> In (key it) (tabk s) /\ unpub it = false /\ 0 <= cost it.
Proof.
  intros C H. destruct (find_item_Some _ _ _ H) as [Hi _].
  pose proof (ci_items _ _ C) as F. rewrite Forall_forall in F. destruct (F it Hi) as [F1 F2].
  repeat split; try assumption. apply (ci_dom _ _ C). apply in_map. exact Hi.
Qed.

(** drop_item on a published, resident key *)
Lemma drop_item_rel e s it r s' ok d :
  is_sieve s (e_pol e) = false -> unpub it = false -> In (key it) (tabk s) ->
  drop_item e s it r = (s', ok, d) ->
  DropRel (e_pol e =? policyLFU) (e_mask e) r it s s' /\ ok = true /\
  d = (if e_stats e && (r =? reasonCapacity) then 1 else 0) /\ serr s' = serr s /\ evs s' = evs s /\ pend s' = pend s.
Proof.
  intros Hs Hu Hk. apply memz_In in Hk. unfold drop_item. rewrite Hu, Hk, Hs. cbn [andb negb].
  intros H. inversion H; subst; clear H.
  split; [|repeat split; reflexivity].
  constructor; sfld; try reflexivity; unfold mk_notif; destruct (mask_has (e_mask e) r); rewrite ?app_nil_r; reflexivity.
Qed.

(** drop_item on a key that is not in the table does nothing *)
Lemma drop_item_absent e s it r : unpub it = false -> ~ In (key it) (tabk s) -> drop_item e s it r = (s, false, 0).
Proof.
  intros Hu Hk. apply memz_false in Hk. unfold drop_item. rewrite Hu, Hk. reflexivity.
Qed.

Lemma sh_err_serr s c : c <> 0 ->
  serr (sh_err s c) <> 0 /\ (serr (sh_err s c) = serr s \/ serr s = 0 /\ serr (sh_err s c) = c).
Proof. intros Hc. sfld. destruct (Z.eqb_spec (serr s) 0); lia. Qed.

Lemma pop_ev_spec s kind s1 v :
  0 <= kind -> pop_ev s kind = (s1, v) ->
  Frame s s1 /\
  ((exists a, v = Some a /\ serr s1 = serr s) \/
   (v = None /\ serr s1 <> 0 /\ (serr s1 = serr s \/ serr s = 0 /\ (serr s1 = 100 + kind \/ serr s1 = 200 + kind)))).
Proof.
  intros Hk. unfold pop_ev. destruct (evs s) as [|[kd a] r].
  - intros H. inversion H; subst. split; [apply Frame_sh_err|]. right.
    destruct (sh_err_serr s (200 + kind)) as [A B]; [lia|]. split; [reflexivity|]. split; [exact A|]. tauto.
  - destruct (kd =? kind); intros H; inversion H; subst.
    + split; [apply Frame_sh_evs|]. left. exists a. split; reflexivity.
    + split; [apply Frame_sh_err|]. right.
      destruct (sh_err_serr s (100 + kind)) as [A B]; [lia|]. split; [reflexivity|]. split; [exact A|]. tauto.
Qed.

Lemma DropRel_lfu_pre m r it s s3 :
  DropRel false m r it
    (sh_set s (tabk s) (lst s) (lfu_remove (lfu s) (key it)) (prob s) (main s) (hand s) (size s) (scost s) (staged s)) s3 ->
  DropRel true m r it s s3.
Proof.
  intros [D1 D2 D3 D4 D5 D6 D7 D8 D9 D10 D11 D12 D13]. sfld_in D1. sfld_in D2. sfld_in D3. sfld_in D4. sfld_in D5.
  sfld_in D6. sfld_in D7. sfld_in D8. sfld_in D9. sfld_in D10. sfld_in D11. sfld_in D12. sfld_in D13.
  constructor; assumption.
Qed.

Lemma tabk_nonempty_lst pol s : CInv pol s -> tabk s <> [] -> lst s <> [].
Proof.
  intros C H E. destruct (tabk s) as [|k r] eqn:T; [congruence|].
  assert (In k (map key (lst s))) by (apply (ci_dom _ _ C); rewrite T; left; reflexivity).
  rewrite E in H0. destruct H0.
Qed.

(** evict_one: either drops one resident item (the list tail, or an oracle-chosen member of the
    minimum LFU bucket), or — LFU only — refuses the oracle event and sets serr. *)
Lemma evict_one_spec pol e s s1 d :
  e_pol e = pol -> CInv pol s -> tabk s <> [] -> evict_one e s = (s1, d) ->
  (exists it, find_item (lst s) (key it) = Some it /\
              DropRel (pol =? policyLFU) (e_mask e) reasonCapacity it s s1 /\
              serr s1 = serr s /\ d = (if e_stats e then 1 else 0) /\
              (pol <> policyLFU -> last_item (lst s) = Some it) /\
              (pol = policyLFU -> In (key it) (lfu_min_bucket (lfu s))))
  \/ (pol = policyLFU /\ Frame s s1 /\ serr s1 <> 0 /\ d = 0 /\
      (serr s1 = serr s \/ serr s = 0 /\ (serr s1 = 105 \/ serr s1 = 205 \/ serr s1 = 302))).
Proof.
  intros Hp C Hne. unfold evict_one. rewrite Hp.
  destruct (Z.eqb_spec pol policyLFU) as [PL|PL].
  - (* LFU *)
    assert (NE : lfu s <> []).
    { pose proof (ci_lfu _ _ C PL) as LO. intros EL. rewrite EL in LO.
      destruct (tabk s) as [|k r] eqn:T; [congruence|].
      assert (In k (lfu_keys [])) by (apply (lo_union _ _ LO); left; reflexivity). destruct H. }
    destruct (lfu s) as [|b0 br] eqn:EL; [congruence|]. clear NE.
    pose proof (ci_lfu _ _ C PL) as LO.
    destruct (pop_ev s evLfu) as [s0 v] eqn:P.
    apply pop_ev_spec in P; [|unfold evLfu; lia]. destruct P as [F P].
    destruct P as [(a & -> & Se)|(-> & Sn & Sc)].
    + rewrite (fr_lfu _ _ F).
      destruct (memz (lfu_min_bucket (lfu s)) a) eqn:M; cbn [negb].
      * apply memz_In in M.
        assert (Ia : In a (tabk s)) by (apply (lo_union _ _ LO); apply lfu_min_bucket_sub; exact M).
        assert (Il : In a (map key (lst s))) by (apply (ci_dom _ _ C); exact Ia).
        destruct (find_item_In_key _ _ Il) as [it Hit].
        sfld. rewrite (fr_lst _ _ F), Hit.
        destruct (find_item_Some _ _ _ Hit) as [Hin Hka]. subst a.
        destruct (resident_ok _ _ _ C Hit) as (R1 & R2 & R3).
        match goal with |- context [drop_item ?e' ?s2 it reasonCapacity] =>
          destruct (drop_item e' s2 it reasonCapacity) as [[s3 ok] d3] eqn:DI end.
        apply drop_item_rel in DI; [|reflexivity|exact R2|sfld; rewrite (fr_tabk _ _ F); exact R1].
        destruct DI as (DR & _ & Hd & Hserr & _). cbn [e_pol e_stats e_mask] in DR, Hd.
        intros H. injection H as H1 H2. subst s1 d. left. exists it.
        split; [exact Hit|]. split.
        { apply (DropRel_frame_l _ _ _ _ s s0 s3 F). apply DropRel_lfu_pre.
          rewrite <- (fr_lst _ _ F), <- (fr_lfu _ _ F) in DR. exact DR. }
        split; [sfld_in Hserr; lia|]. split; [rewrite Hd, Z.eqb_refl, andb_true_r; reflexivity|].
        split; [congruence|]. intros _. rewrite <- EL. exact M.
      * intros H. inversion H; subst; clear H. right. split; [assumption|].
        destruct (sh_err_serr s0 302) as [A B]; [lia|].
        split; [eapply Frame_trans; [exact F|apply Frame_sh_err]|]. split; [exact A|]. split; [reflexivity|]. lia.
    + intros H. inversion H; subst; clear H. right. split; [assumption|].
      split; [exact F|]. split; [exact Sn|]. split; [reflexivity|]. unfold evLfu in Sc. lia.
  - (* LRU / FIFO / Sieve-with-cap-0: the list tail *)
    destruct (last_item (lst s)) as [it|] eqn:L.
    + pose proof (last_item_In _ _ L) as Hin.
      pose proof (find_item_NoDup _ _ (ci_lst_nodup _ _ C) Hin) as Hit.
      destruct (resident_ok _ _ _ C Hit) as (R1 & R2 & R3).
      match goal with |- context [drop_item ?e' s it reasonCapacity] =>
        destruct (drop_item e' s it reasonCapacity) as [[s3 ok] d3] eqn:DI end.
      apply drop_item_rel in DI; [|reflexivity|exact R2|exact R1].
      destruct DI as (DR & _ & Hd & Hserr & _). cbn [e_pol e_stats e_mask] in DR, Hd.
      intros H. injection H as H1 H2. subst s1 d. left. exists it.
      split; [exact Hit|]. split; [exact DR|]. split; [exact Hserr|].
      split; [rewrite Hd, Z.eqb_refl, andb_true_r; reflexivity|].
      split; [intros _; reflexivity|congruence].
    + exfalso. apply last_item_None in L. eapply tabk_nonempty_lst; eauto.
Qed.

(* ================================================================== *)
(** * 5. Sequences of capacity drops; evict_while                       *)
(* ================================================================== *)

Definition ew_cond (pre : bool) (add : Z) (s : shard) : bool :=
  (if pre then would_over s add else over_capacity s) && (0 <? zlen (tabk s)).

Lemma over_capacity_frame s s' :
  cap s' = cap s -> costcap s' = costcap s -> size s' = size s -> scost s' = scost s ->
  over_capacity s' = over_capacity s.
Proof. unfold over_capacity. intros -> -> -> ->. reflexivity. Qed.

Lemma would_over_frame s s' add :
  cap s' = cap s -> costcap s' = costcap s -> size s' = size s -> scost s' = scost s ->
  would_over s' add = would_over s add.
Proof. unfold would_over. intros -> -> -> ->. reflexivity. Qed.

Lemma ew_cond_frame pre add s s' : Frame s s' -> ew_cond pre add s' = ew_cond pre add s.
Proof.
  intros F. unfold ew_cond. rewrite (fr_tabk _ _ F).
  rewrite (over_capacity_frame s s'), (would_over_frame s s') by apply F. reflexivity.
Qed.

(* Drops G lf m s l s' : from s, the items l are dropped in this order for reason capacity (each one
   resident when dropped, each drop taken in a state where the guard G holds), reaching s'
   (modulo frames: oracle queue, serr). *)
Inductive Drops (G : shard -> bool) (lf : bool) (m : Z) : shard -> list item -> shard -> Prop :=
| Drops_nil s s' : Frame s s' -> Drops G lf m s [] s'
| Drops_cons s it s1 l s' :
    G s = true -> find_item (lst s) (key it) = Some it -> DropRel lf m reasonCapacity it s s1 ->
    Drops G lf m s1 l s' -> Drops G lf m s (it :: l) s'.

Lemma Drops_frame_l G lf m s0 s l s' :
  (forall a b, Frame a b -> G b = G a) -> Frame s0 s -> Drops G lf m s l s' -> Drops G lf m s0 l s'.
Proof.
  intros HG F D. destruct D as [s s' F'|s it s1 l s' g Hf DR D].
  - constructor. eapply Frame_trans; eauto.
  - econstructor.
    + rewrite <- (HG _ _ F). exact g.
    + rewrite <- (fr_lst _ _ F). exact Hf.
    + eapply DropRel_frame_l; eauto.
    + exact D.
Qed.

Lemma Drops_weaken G G' lf m s l s' : (forall a, G a = true -> G' a = true) -> Drops G lf m s l s' -> Drops G' lf m s l s'.
Proof. intros HG. induction 1; [constructor; assumption|econstructor; eauto]. Qed.

Lemma CInv_drops G pol lf m s l s' :
  (pol = policyLFU -> lf = true) -> Drops G lf m s l s' -> CInv pol s -> CInv pol s'.
Proof.
  intros Hlf. induction 1 as [s s' F|s it s1 l s' g Hf DR D IH]; intros C.
  - eapply CInv_frame; eauto.
  - apply IH. eapply CInv_drop; eauto.
Qed.

Lemma Ledger_drops G lf m s l s' : Drops G lf m s l s' -> Ledger s -> Ledger s'.
Proof.
  induction 1 as [s s' F|s it s1 l s' g Hf DR D IH]; intros L.
  - eapply Ledger_frame; eauto.
  - apply IH. eapply Ledger_drop; eauto. unfold reasonCapacity; lia.
Qed.

Lemma NotifLog_drops G lf m s l s' : Drops G lf m s l s' -> NotifLog m s -> NotifLog m s'.
Proof.
  induction 1 as [s s' F|s it s1 l s' g Hf DR D IH]; intros L.
  - eapply NotifLog_frame; eauto.
  - apply IH. eapply NotifLog_drop; eauto.
Qed.

Definition drop_entry (it : item) : Z * Z * Z := (10 + reasonCapacity, key it, val it).

(* the observable effect of a drop sequence *)
Record DropsEff (lf : bool) (m : Z) (s : shard) (l : list item) (s' : shard) : Prop := {
  de_cap : cap s' = cap s; de_costcap : costcap s' = costcap s;
  de_size : size s' = size s - zlen l;
  de_scost : scost s' = scost s - sum_cost l;
  de_glog : glog s' = glog s ++ map drop_entry l;
  de_staged : staged s' = staged s ++ (if mask_has m reasonCapacity then map (fun it => mk_notif it reasonCapacity) l else []);
  de_nlog : nlog s' = nlog s ++ (if mask_has m reasonCapacity then map (fun it => mk_notif it reasonCapacity) l else []);
  de_prob : prob s' = prob s; de_main : main s' = main s; de_hand : hand s' = hand s;
  de_find : forall k, find_item (lst s') k = if memz (map key l) k then None else find_item (lst s) k;
  de_tabk_len : (length (tabk s') + length l = length (tabk s))%nat;
  de_tabk_sub : forall k, In k (tabk s') -> In k (tabk s);
  de_lfu_nolf : lf = false -> lfu s' = lfu s
}.

Lemma Drops_eff G pol lf m s l s' : (pol = policyLFU -> lf = true) -> Drops G lf m s l s' -> CInv pol s -> DropsEff lf m s l s'.
Proof.
  intros Hlf. induction 1 as [s s' F|s it s1 l s' g Hf DR D IH]; intros C.
  - destruct F as [F1 F2 F3 F4 F5 F6 F7 F8 F9 F10 F11 F12 F13].
    constructor; cbn [map memz length]; unfold zlen, sum_cost; cbn [length map sumZ];
      rewrite ?app_nil_r; try assumption; try lia.
    + destruct (mask_has m reasonCapacity); rewrite app_nil_r; assumption.
    + destruct (mask_has m reasonCapacity); rewrite app_nil_r; assumption.
    + intros k. rewrite F4. reflexivity.
    + rewrite F3. lia.
    + intros k. rewrite F3. tauto.
    + intros _. exact F5.
  - assert (C1 : CInv pol s1) by (eapply CInv_drop; eauto).
    specialize (IH C1). destruct IH as [E1 E2 E3 E4 E5 E6 E7 E8 E9 E10 E11 E12 E13 E14].
    destruct (resident_ok _ _ _ C Hf) as (R1 & R2 & R3).
    destruct DR as [D1 D2 D3 D4 D5 D6 D7 D8 D9 D10 D11 D12 D13].
    constructor; try congruence.
    + rewrite E3, D9. unfold zlen. cbn [length]. lia.
    + rewrite E4, D10. unfold sum_cost. cbn [map sumZ]. lia.
    + rewrite E5, D12. cbn [map]. rewrite <- app_assoc. reflexivity.
    + rewrite E6, D11. destruct (mask_has m reasonCapacity); cbn [map]; rewrite <- app_assoc; reflexivity.
    + rewrite E7, D13. destruct (mask_has m reasonCapacity); cbn [map]; rewrite <- app_assoc; reflexivity.
    + intros k. rewrite E11, D4. cbn [map memz].
      destruct (Z.eqb_spec (key it) k) as [Ek|Ek]; cbn [orb].
      * subst k. rewrite find_remove_same by apply (ci_lst_nodup _ _ C). destruct (memz (map key l) (key it)); reflexivity.
      * rewrite find_remove_other by congruence. reflexivity.
    + cbn [length]. rewrite <- (remz_length_nat _ _ R1), <- D3. lia.
    + intros k Hk. apply E13 in Hk. rewrite D3 in Hk. eapply remz_In_weak; eauto.
    + intros ->. rewrite E14 by reflexivity. exact D5.
Qed.

Lemma evict_while_unfold f e s pre add acc :
  evict_while (S f) e s pre add acc =
  if ew_cond pre add s then let '(s1, d) := evict_one e s in evict_while f e s1 pre add (acc + d) else (s, acc).
Proof. reflexivity. Qed.

Lemma ew_cond_tabk pre add s : ew_cond pre add s = true -> tabk s <> [].
Proof.
  unfold ew_cond. intros H E. rewrite E in H. unfold zlen in H. cbn [length] in H.
  rewrite andb_true_iff in H. destruct H as [_ H]. discriminate.
Qed.

(** evict_while: always a guarded drop sequence; when the fuel exceeds the table size (or an LFU oracle
    error is already recorded) the fuel is never the reason it stops: the only new error codes are the
    oracle ones, and when no oracle error occurred the loop condition is false at the end. *)
Lemma evict_while_spec pol e : e_pol e = pol ->
  forall fuel s pre add acc s' acc',
  CInv pol s -> evict_while fuel e s pre add acc = (s', acc') ->
  exists l, Drops (ew_cond pre add) (pol =? policyLFU) (e_mask e) s l s' /\
            acc' = acc + (if e_stats e then zlen l else 0) /\
            (((pol = policyLFU /\ serr s <> 0) \/ (length (tabk s) < fuel)%nat) ->
             (serr s' = serr s \/ serr s = 0 /\ pol = policyLFU /\ (serr s' = 105 \/ serr s' = 205 \/ serr s' = 302)) /\
             ((pol <> policyLFU \/ serr s' = 0) -> ew_cond pre add s' = false)).
Proof.
  intros Hp. induction fuel as [|f IH]; intros s pre add acc s' acc' C H.
  - cbn [evict_while] in H. injection H as <- <-.
    exists []. split; [constructor; apply Frame_sh_err|].
    split; [unfold zlen; cbn [length]; destruct (e_stats e); lia|].
    intros Hfuel. destruct Hfuel as [[PL Hs]|Hl]; [|lia].
    destruct (sh_err_serr s 304) as [A B]; [lia|].
    split; [lia|]. intros [Q|Q]; [congruence|]. lia.
  - rewrite evict_while_unfold in H. destruct (ew_cond pre add s) eqn:Cd.
    + destruct (evict_one e s) as [s1 d] eqn:E1.
      pose proof (ew_cond_tabk _ _ _ Cd) as Hne.
      destruct (evict_one_spec pol e s s1 d Hp C Hne E1) as
        [(it & Hf & DR & Hs & Hd & _)|(PL & F & Hs & Hd & Hc)].
      * assert (C1 : CInv pol s1).
        { eapply CInv_drop; [|exact Hf|exact DR|exact C]. intros ->. reflexivity. }
        destruct (resident_ok _ _ _ C Hf) as (R1 & _).
        destruct (IH s1 pre add (acc + d) s' acc' C1 H) as (l & D & Ha & Hrest).
        exists (it :: l). split; [econstructor; eauto|].
        split; [rewrite Ha, Hd; unfold zlen; cbn [length]; destruct (e_stats e); lia|].
        intros Hfuel.
        assert (Hfuel1 : (pol = policyLFU /\ serr s1 <> 0) \/ (length (tabk s1) < f)%nat).
        { destruct Hfuel as [[PL Hs0]|Hl]; [left; split; [exact PL|congruence]|right].
          rewrite (dr_tabk _ _ _ _ _ _ DR). pose proof (remz_length_nat _ _ R1). lia. }
        destruct (Hrest Hfuel1) as (Hse & Hfin).
        split; [rewrite <- Hs; exact Hse|exact Hfin].
      * assert (C1 : CInv pol s1) by (eapply CInv_frame; eauto).
        destruct (IH s1 pre add (acc + d) s' acc' C1 H) as (l & D & Ha & Hrest).
        exists l. split; [eapply Drops_frame_l; [intros a b Fab; apply ew_cond_frame; exact Fab|exact F|exact D]|].
        split; [rewrite Ha, Hd; lia|]. intros _.
        assert (Hfuel1 : (pol = policyLFU /\ serr s1 <> 0) \/ (length (tabk s1) < f)%nat) by (left; tauto).
        destruct (Hrest Hfuel1) as (Hse & Hfin).
        split; [|exact Hfin]. lia.
    + injection H as <- <-. exists []. split; [constructor; apply Frame_refl|].
      split; [unfold zlen; cbn [length]; destruct (e_stats e); lia|]. intros _. split; [lia|]. intros _. exact Cd.
Qed.

(* ================================================================== *)
(** * 6. Theorem 2: preservation of CInv / Ledger / NotifLog            *)
(* ================================================================== *)

Definition Good (pol m : Z) (s : shard) : Prop := CInv pol s /\ Ledger s /\ NotifLog m s.

Lemma Good_intro pol m s : CInv pol s -> Ledger s -> NotifLog m s -> Good pol m s.
Proof. intros; split; [|split]; assumption. Qed.

Lemma Good_frame pol m s s' : Frame s s' -> Good pol m s -> Good pol m s'.
Proof.
  intros F (C & L & N). apply Good_intro; [eapply CInv_frame|eapply Ledger_frame|eapply NotifLog_frame]; eauto.
Qed.

Lemma Good_drops G pol m s l s' : Drops G (pol =? policyLFU) m s l s' -> Good pol m s -> Good pol m s'.
Proof.
  intros D (C & L & N). apply Good_intro.
  - eapply CInv_drops; [|exact D|exact C]. intros ->. reflexivity.
  - eapply Ledger_drops; eauto.
  - eapply NotifLog_drops; eauto.
Qed.

(** ** drop_item (any reason; the Ledger needs a non-negative reason code, see [drop_item_negative_reason_refuted]) *)
Theorem drop_item_preserves e s it r s' ok d :
  CInv (e_pol e) s -> find_item (lst s) (key it) = Some it -> drop_item e s it r = (s', ok, d) ->
  CInv (e_pol e) s' /\ (0 <= r -> Ledger s -> Ledger s') /\ (NotifLog (e_mask e) s -> NotifLog (e_mask e) s').
Proof.
  intros C Hf H. destruct (resident_ok _ _ _ C Hf) as (R1 & R2 & R3).
  apply drop_item_rel in H; [|apply (ci_classic _ _ C)|exact R2|exact R1]. destruct H as (DR & _).
  split; [|split].
  - eapply CInv_drop; [|exact Hf|exact DR|exact C]. intros ->. reflexivity.
  - intros Hr L. eapply Ledger_drop; eauto.
  - intros N. eapply NotifLog_drop; eauto.
Qed.

Corollary drop_item_good e s it r s' ok d :
  0 <= r -> Good (e_pol e) (e_mask e) s -> find_item (lst s) (key it) = Some it ->
  drop_item e s it r = (s', ok, d) -> Good (e_pol e) (e_mask e) s'.
Proof.
  intros Hr (C & L & N) Hf H. destruct (drop_item_preserves _ _ _ _ _ _ _ C Hf H) as (A & B & D).
  apply Good_intro; auto.
Qed.

(** ** evict_one *)
Lemma lfu_empty_of_tabk b : LfuOK b [] -> b = [].
Proof.
  intros LO. destruct b as [|[g ks] r]; [reflexivity|exfalso].
  pose proof (lo_nonempty _ _ LO) as NE. inversion NE as [|? ? Hk _]; subst. cbn [snd] in Hk.
  destruct ks as [|k ks]; [congruence|].
  apply (lo_union _ _ LO k). rewrite lfu_keys_cons. left; reflexivity.
Qed.

Lemma evict_one_empty pol e s : e_pol e = pol -> CInv pol s -> tabk s = [] -> evict_one e s = (s, 0).
Proof.
  intros Hp C T. unfold evict_one. rewrite Hp. destruct (Z.eqb_spec pol policyLFU) as [PL|PL].
  - pose proof (ci_lfu _ _ C PL) as LO. rewrite T in LO. rewrite (lfu_empty_of_tabk _ LO). reflexivity.
  - assert (E : lst s = []).
    { destruct (lst s) as [|it r] eqn:E; [reflexivity|exfalso].
      assert (In (key it) (tabk s)) by (apply (ci_dom _ _ C); rewrite E; left; reflexivity).
      rewrite T in H. destruct H. }
    rewrite E. reflexivity.
Qed.

Theorem evict_one_good pol m e s s1 d :
  e_pol e = pol -> e_mask e = m -> Good pol m s -> evict_one e s = (s1, d) -> Good pol m s1.
Proof.
  intros Hp Hm G H. destruct (tabk s) as [|k0 r0] eqn:T.
  - rewrite (evict_one_empty pol e s Hp (proj1 G) T) in H. injection H as <- <-. exact G.
  - destruct (evict_one_spec pol e s s1 d Hp (proj1 G)) as [(it & Hf & DR & _)|(_ & F & _)]; [rewrite T; discriminate|exact H| |].
    + subst m. eapply (Good_drops (fun _ => true)); [|exact G].
      econstructor; [reflexivity|exact Hf|exact DR|constructor; apply Frame_refl].
    + eapply Good_frame; eauto.
Qed.

(** ** evict_while, both modes, any fuel *)
Theorem evict_while_good pol m e fuel s pre add acc s' acc' :
  e_pol e = pol -> e_mask e = m -> Good pol m s -> evict_while fuel e s pre add acc = (s', acc') -> Good pol m s'.
Proof.
  intros Hp Hm G H. destruct (evict_while_spec pol e Hp fuel s pre add acc s' acc' (proj1 G) H) as (l & D & _).
  subst m. eapply Good_drops; eauto.
Qed.

(** ** apply_classic *)
Definition new_item (k v ex c : Z) : item :=
  {| key := k; val := v; exp := ex; cost := c; reuse := 0; visited := false; unpub := false |}.

(* state after the in-place update of a resident key, before any eviction *)
Definition upd_state (pol : Z) (s : shard) (old : item) (k v ex c : Z) : shard :=
  sh_ghost (sh_set s (tabk s)
              (if pol =? policyLRU then new_item k v ex c :: remove_key (lst s) k else replace_item (lst s) (new_item k v ex c))
              (if pol =? policyLFU then lfu_add (lfu_remove (lfu s) k) k else lfu s)
              (prob s) (main s) (hand s) (size s) (scost s + (c - cost old)) (staged s))
           [(1, k, val old); (0, k, v)] [].

(* state after inserting a new key into s1 (the state after pre-eviction) *)
Definition ins_state (pol : Z) (s1 : shard) (k v ex c : Z) : shard :=
  sh_ghost (sh_set s1 (k :: tabk s1) (new_item k v ex c :: lst s1)
              (if pol =? policyLFU then lfu_add (lfu s1) k else lfu s1)
              (prob s1) (main s1) (hand s1) (size s1 + 1) (scost s1 + c) (staged s1)) [(0, k, v)] [].

Lemma apply_classic_hit e s k v ex c old :
  lookup s (e_pol e) k = Some old ->
  apply_classic e s k v ex c =
  let s1 := upd_state (e_pol e) s old k v ex c in
  if over_capacity s1
  then let '(s2, d) := evict_while (S (length (tabk s1))) e s1 false 0 0 in (s2, true, d)
  else (s1, true, 0).
Proof. intros H. unfold apply_classic. rewrite H. reflexivity. Qed.

Lemma apply_classic_miss e s k v ex c :
  lookup s (e_pol e) k = None ->
  apply_classic e s k v ex c =
  let '(s1, d) := evict_while (S (length (tabk s))) e s true c 0 in
  (ins_state (e_pol e) s1 k v ex c, true, d).
Proof. intros H. unfold apply_classic. rewrite H. reflexivity. Qed.

Ltac tagsimp :=
  change (0 =? 0) with true; change (1 =? 1) with true; change (2 =? 2) with true;
  change (1 =? 0) with false; change (0 =? 1) with false; change (2 =? 0) with false; change (0 =? 2) with false;
  change (1 =? 2) with false; change (2 =? 1) with false; change (10 <=? 0) with false; change (10 <=? 1) with false;
  change (10 <=? 2) with false; cbn [andb].

Lemma CInv_upd pol s old k v ex c :
  CInv pol s -> find_item (lst s) k = Some old -> 0 <= c -> CInv pol (upd_state pol s old k v ex c).
Proof.
  intros C Hf Hc. destruct (find_item_Some _ _ _ Hf) as [Hin Hk].
  assert (Hkt : In k (tabk s)) by (apply (ci_dom _ _ C); rewrite <- Hk; apply in_map; exact Hin).
  destruct C as [C1 C2 C3 C4 C5 C6 C7 C8 C9 C10 C11].
  assert (Hok : item_ok (new_item k v ex c)) by (split; [exact Hc|reflexivity]).
  unfold upd_state. constructor; sfld; try assumption.
  - destruct (pol =? policyLRU); cbn [map key new_item].
    + constructor; [rewrite map_key_remove; apply remz_not_self; exact C3|].
      rewrite map_key_remove. apply remz_NoDup; exact C3.
    + rewrite map_key_replace. exact C3.
  - intros x. rewrite C4. destruct (pol =? policyLRU); cbn [map key new_item In].
    + rewrite map_key_remove, remz_In by exact C3. rewrite <- C4.
      destruct (Z.eq_dec x k) as [->|N]; [tauto|]. intuition congruence.
    + rewrite map_key_replace. tauto.
  - rewrite C5. destruct (pol =? policyLRU).
    + pose proof (zlen_remove _ _ _ Hf). unfold zlen in *. cbn [length]. lia.
    + unfold zlen. rewrite length_replace. reflexivity.
  - rewrite C6. destruct (pol =? policyLRU).
    + pose proof (sum_cost_remove _ _ _ Hf). unfold sum_cost in *. cbn [map sumZ cost new_item]. lia.
    + rewrite (sum_cost_replace (lst s) (new_item k v ex c) old Hf). cbn [cost new_item]. lia.
  - destruct (pol =? policyLRU).
    + constructor; [exact Hok|apply Forall_remove_key; exact C7].
    + apply Forall_replace_item; assumption.
  - intros PL. rewrite PL. rewrite Z.eqb_refl. specialize (C11 PL).
    apply (LfuOK_ext _ (k :: remz (tabk s) k)).
    + intros x. cbn [In]. rewrite remz_In by exact C2. destruct (Z.eq_dec x k) as [->|N]; [tauto|]. intuition congruence.
    + unfold lfu_add. apply LfuOK_add_at; [lia|apply remz_not_self; exact C2|apply LfuOK_remove; assumption].
Qed.

Lemma Ledger_upd pol s old k v ex c :
  find_item (lst s) k = Some old -> Ledger s -> Ledger (upd_state pol s old k v ex c).
Proof.
  intros Hf L k' v'. destruct (find_item_Some _ _ _ Hf) as [Hin Hk].
  unfold upd_state. sfld. rewrite !cnt_app. specialize (L k' v').
  assert (E : cnt (is_kv k' v') (if pol =? policyLRU then new_item k v ex c :: remove_key (lst s) k else replace_item (lst s) (new_item k v ex c))
              = cnt (is_kv k' v') (lst s) - (if is_kv k' v' old then 1 else 0) + (if is_kv k' v' (new_item k v ex c) then 1 else 0)).
  { destruct (pol =? policyLRU).
    - cbn [cnt]. rewrite (cnt_remove _ _ _ _ Hf). lia.
    - rewrite (cnt_replace _ _ (new_item k v ex c) old Hf). reflexivity. }
  rewrite E. cbn [cnt is_tag is_drop]. tagsimp. unfold is_kv in *. cbn [key val new_item]. rewrite Hk.
  destruct ((k =? k') && (val old =? v')), ((k =? k') && (v =? v')); lia.
Qed.

Lemma NotifLog_upd pol m s old k v ex c : NotifLog m s -> NotifLog m (upd_state pol s old k v ex c).
Proof.
  unfold NotifLog, upd_state. sfld. intros ->. rewrite notifs_of_app. reflexivity.
Qed.

Lemma Good_upd pol m s old k v ex c :
  Good pol m s -> find_item (lst s) k = Some old -> 0 <= c -> Good pol m (upd_state pol s old k v ex c).
Proof.
  intros (C & L & N) Hf Hc. apply Good_intro; [apply CInv_upd|apply Ledger_upd|apply NotifLog_upd]; assumption.
Qed.

Lemma CInv_ins pol s k v ex c :
  CInv pol s -> ~ In k (tabk s) -> 0 <= c -> CInv pol (ins_state pol s k v ex c).
Proof.
  intros [C1 C2 C3 C4 C5 C6 C7 C8 C9 C10 C11] Hk Hc.
  unfold ins_state. constructor; sfld; try assumption.
  - constructor; assumption.
  - cbn [map key new_item]. constructor; [rewrite <- C4; exact Hk|exact C3].
  - intros x. cbn [map key new_item In]. rewrite C4. tauto.
  - rewrite C5. unfold zlen. cbn [length]. lia.
  - rewrite C6. unfold sum_cost. cbn [map sumZ cost new_item]. lia.
  - constructor; [split; [exact Hc|reflexivity]|exact C7].
  - intros PL. rewrite PL, Z.eqb_refl. unfold lfu_add. apply LfuOK_add_at; [lia|exact Hk|auto].
Qed.

Lemma Ledger_ins pol s k v ex c : Ledger s -> Ledger (ins_state pol s k v ex c).
Proof.
  intros L k' v'. unfold ins_state. sfld. rewrite !cnt_app. specialize (L k' v').
  cbn [cnt is_tag is_drop]. tagsimp. unfold is_kv in *. cbn [key val new_item].
  destruct ((k =? k') && (v =? v')); lia.
Qed.

Lemma NotifLog_ins pol m s k v ex c : NotifLog m s -> NotifLog m (ins_state pol s k v ex c).
Proof.
  unfold NotifLog, ins_state. sfld. intros ->. rewrite notifs_of_app. reflexivity.
Qed.

Theorem apply_classic_good pol m e s k v ex c s' cm d :
  e_pol e = pol -> e_mask e = m -> 0 <= c -> Good pol m s ->
  apply_classic e s k v ex c = (s', cm, d) -> Good pol m s'.
Proof.
  intros Hp Hm Hc G H. pose proof G as (C & L & N).
  destruct (lookup s (e_pol e) k) as [old|] eqn:LK.
  - rewrite (apply_classic_hit _ _ _ _ _ _ _ LK) in H. cbv zeta in H. rewrite Hp in *.
    rewrite (lookup_find _ _ _ C) in LK.
    pose proof (Good_upd pol m s old k v ex c G LK Hc) as G1.
    destruct (over_capacity (upd_state pol s old k v ex c)).
    + destruct (evict_while _ e _ false 0 0) as [s2 d2] eqn:EW. injection H as <- <- <-.
      eapply evict_while_good; eauto.
    + injection H as <- <- <-. exact G1.
  - rewrite (apply_classic_miss _ _ _ _ _ _ LK) in H. rewrite Hp in *.
    destruct (evict_while _ e s true c 0) as [s1 d1] eqn:EW. injection H as <- <- <-.
    pose proof (evict_while_good pol m e _ _ _ _ _ _ _ Hp Hm G EW) as (C1 & L1 & N1).
    assert (Hk : ~ In k (tabk s)).
    { intros Hi. apply (lookup_spec pol s k C) in Hi. destruct Hi as [it Hi]. congruence. }
    assert (Hk1 : ~ In k (tabk s1)).
    { destruct (evict_while_spec pol e Hp _ _ _ _ _ _ _ C EW) as (l & D & _).
      intros Hi. apply Hk. eapply (de_tabk_sub _ _ _ _ _ (Drops_eff _ pol _ _ _ _ _ (fun P => eq_trans (f_equal (fun p => p =? policyLFU) P) (Z.eqb_refl _)) D C)). exact Hi. }
    apply Good_intro; [apply CInv_ins|apply Ledger_ins|apply NotifLog_ins]; assumption.
Qed.

(** ** dropping a looked-up item: the shard update of op_get (expired), op_exists (expired), op_delete, cleanup *)
Theorem lookup_drop_good e s k it r s' ok d :
  0 <= r -> Good (e_pol e) (e_mask e) s -> lookup s (e_pol e) k = Some it ->
  drop_item e s it r = (s', ok, d) ->
  Good (e_pol e) (e_mask e) s' /\ ok = true /\ d = (if e_stats e && (r =? reasonCapacity) then 1 else 0).
Proof.
  intros Hr G LK H. destruct (lookup_resident _ _ _ _ (proj1 G) LK) as (Hf & Hk & Hkt & Hin & Hok & Hu).
  split; [exact (drop_item_good e s it r s' ok d Hr G Hf H)|].
  apply drop_item_rel in H; [|apply (ci_classic _ _ (proj1 G))|exact Hu|rewrite Hk; exact Hkt].
  destruct H as (_ & H1 & H2 & _). split; assumption.
Qed.

(** ** the read-hit update of op_get (classic branch) *)
Definition get_hit_upd (pol : Z) (s : shard) (it : item) (k : Z) : shard :=
  if pol =? policyLRU then
    sh_set s (tabk s) (it :: remove_key (lst s) k) (lfu s) (prob s) (main s) (hand s) (size s) (scost s) (staged s)
  else if pol =? policyLFU then
    sh_set s (tabk s) (lst s) (lfu_increment (lfu s) k) (prob s) (main s) (hand s) (size s) (scost s) (staged s)
  else s.

Lemma LfuOK_increment b ks k : NoDup ks -> In k ks -> LfuOK b ks -> LfuOK (lfu_increment b k) ks.
Proof.
  intros ND Hk LO. unfold lfu_increment.
  assert (Hin : In k (lfu_keys b)) by (apply (lo_union _ _ LO); exact Hk).
  pose proof (lfu_freq_pos b k (lo_pos _ _ LO) Hin) as Hp.
  destruct (Z.eqb_spec (lfu_freq b k) 0) as [E|E]; [lia|].
  apply (LfuOK_ext _ (k :: remz ks k)).
  - intros x. cbn [In]. rewrite remz_In by exact ND. destruct (Z.eq_dec x k) as [->|N]; [tauto|]. intuition congruence.
  - apply LfuOK_add_at; [lia|apply remz_not_self; exact ND|apply LfuOK_remove; assumption].
Qed.

Theorem get_hit_good pol m s k it :
  Good pol m s -> lookup s pol k = Some it -> Good pol m (get_hit_upd pol s it k).
Proof.
  intros G LK. pose proof G as (C & L & N).
  destruct (lookup_resident _ _ _ _ C LK) as (Hf & Hk & Hkt & Hin & Hok & Hu). rewrite Hk in Hf.
  unfold get_hit_upd. destruct (Z.eqb_spec pol policyLRU) as [P1|P1].
  - (* LRU: move to head *)
    apply Good_intro.
    + destruct C as [C1 C2 C3 C4 C5 C6 C7 C8 C9 C10 C11]. constructor; sfld; try assumption.
      * cbn [map]. rewrite Hk. constructor; [rewrite map_key_remove; apply remz_not_self; exact C3|].
        rewrite map_key_remove. apply remz_NoDup; exact C3.
      * intros x. rewrite C4. cbn [map In]. rewrite Hk, map_key_remove, remz_In by exact C3. rewrite <- C4.
        destruct (Z.eq_dec x k) as [->|Nx]; [tauto|]. intuition congruence.
      * rewrite C5. pose proof (zlen_remove _ _ _ Hf). unfold zlen in *. cbn [length]. lia.
      * rewrite C6. pose proof (sum_cost_remove _ _ _ Hf). unfold sum_cost in *. cbn [map sumZ]. lia.
      * constructor; [split; assumption|apply Forall_remove_key; exact C7].
    + intros k' v'. sfld. cbn [cnt]. rewrite (cnt_remove _ _ _ _ Hf). specialize (L k' v'). lia.
    + exact N.
  - destruct (Z.eqb_spec pol policyLFU) as [P2|P2]; [|exact G].
    apply Good_intro; [|exact L|exact N].
    destruct C as [C1 C2 C3 C4 C5 C6 C7 C8 C9 C10 C11]. constructor; sfld; try assumption.
    intros _. apply LfuOK_increment; auto.
Qed.

(** ** Cleanup: the fold of cleanup_shard over any key list (in particular over tabk) *)
Lemma cleanup_shard_good e nw s ev ex k s' ev' ex' :
  Good (e_pol e) (e_mask e) s -> cleanup_shard e nw (s, ev, ex) k = (s', ev', ex') -> Good (e_pol e) (e_mask e) s'.
Proof.
  intros G. unfold cleanup_shard. destruct (lookup s (e_pol e) k) as [it|] eqn:LK.
  - destruct (expired it nw).
    + destruct (drop_item e s it reasonExpired) as [[s1 ok] d] eqn:DI. intros H. injection H as <- _ _.
      eapply lookup_drop_good; [|exact G|exact LK|exact DI]. unfold reasonExpired; lia.
    + intros H. injection H as <- _ _. exact G.
  - intros H. injection H as <- _ _. exact G.
Qed.

Theorem cleanup_fold_good e nw ks : forall s ev ex s' ev' ex',
  Good (e_pol e) (e_mask e) s -> fold_left (cleanup_shard e nw) ks (s, ev, ex) = (s', ev', ex') ->
  Good (e_pol e) (e_mask e) s'.
Proof.
  induction ks as [|k r IH]; intros s ev ex s' ev' ex' G H; cbn [fold_left] in H.
  - injection H as <- _ _. exact G.
  - destruct (cleanup_shard e nw (s, ev, ex) k) as [[s1 ev1] ex1] eqn:E.
    eapply IH; [|exact H]. eapply cleanup_shard_good; eauto.
Qed.

(** ** Clear / Close: clear_shard *)
Lemma filter_all {A} (f : A -> bool) l : (forall x, In x l -> f x = true) -> filter f l = l.
Proof.
  induction l as [|x r IH]; cbn [filter]; intros H; [reflexivity|].
  rewrite (H x (or_introl eq_refl)). rewrite IH; [reflexivity|]. intros y Hy. apply H. right; exact Hy.
Qed.

Lemma clear_items pol s : CInv pol s -> filter (fun it => memz (tabk s) (key it)) (shard_items s pol) = lst s.
Proof.
  intros C. unfold shard_items. rewrite (ci_classic _ _ C). apply filter_all.
  intros it Hi. apply memz_In. apply (ci_dom _ _ C). apply in_map. exact Hi.
Qed.

Lemma cnt_cleared k v l :
  cnt (is_tag 2 k v) (map (fun it => (2, key it, val it)) l) = cnt (is_kv k v) l /\
  cnt (is_tag 0 k v) (map (fun it => (2, key it, val it)) l) = 0 /\
  cnt (is_tag 1 k v) (map (fun it => (2, key it, val it)) l) = 0 /\
  cnt (is_drop k v) (map (fun it => (2, key it, val it)) l) = 0.
Proof.
  induction l as [|x r (I1 & I2 & I3 & I4)]; cbn [map cnt]; [repeat split; reflexivity|].
  rewrite I1, I2, I3, I4. cbn [is_tag is_drop]. tagsimp. unfold is_kv. repeat split; reflexivity.
Qed.

Lemma notifs_of_cleared m l : notifs_of m (map (fun it : item => (2, key it, val it)) l) = [].
Proof. induction l as [|x r IH]; [reflexivity|]. unfold notifs_of in *. cbn [map flat_map notif_of]. tagsimp. exact IH. Qed.

Theorem clear_shard_good pol m s : Good pol m s -> Good pol m (clear_shard pol s).
Proof.
  intros (C & L & N). unfold clear_shard. rewrite (clear_items _ _ C). apply Good_intro.
  - assert (LE : LfuOK [] []).
    { constructor; cbn; try (constructor; fail). intros k; tauto. }
    constructor; sfld; try reflexivity; try (constructor; fail); try (intros _; exact LE); try (intros k; cbn; tauto).
    rewrite <- (ci_classic _ _ C). reflexivity.
  - intros k v. sfld. rewrite !cnt_app. specialize (L k v). destruct (cnt_cleared k v (lst s)) as (E1 & E2 & E3 & E4).
    rewrite E1, E2, E3, E4. cbn [cnt]. lia.
  - unfold NotifLog in *. sfld. rewrite notifs_of_app, notifs_of_cleared, N. reflexivity.
Qed.

(** ** adapts (run at the end of every Get, also on classic shards) is a frame *)
Lemma apply_adapts_frame fuel : forall s, Frame s (apply_adapts fuel s).
Proof.
  induction fuel as [|f IH]; intros s; cbn [apply_adapts]; [apply Frame_refl|].
  destruct (evs s) as [|[k a] r]; [apply Frame_refl|].
  destruct (k =? evAdapt); [|apply Frame_refl].
  destruct ((pmin s <=? a) && (a <=? pmax s)).
  - eapply Frame_trans; [|apply IH]. eapply Frame_trans; [apply Frame_sh_evs|apply Frame_sh_caps].
  - eapply Frame_trans; [apply Frame_sh_evs|apply Frame_sh_err].
Qed.

Lemma adapts_good pol m s : Good pol m s -> Good pol m (adapts s).
Proof. apply Good_frame. apply apply_adapts_frame. Qed.

(* ================================================================== *)
(** * 7. Theorem 3: budget and error codes                              *)
(* ================================================================== *)

Lemma empty_not_over pol s : CInv pol s -> tabk s = [] -> over_capacity s = false.
Proof.
  intros C T.
  assert (E : lst s = []).
  { destruct (lst s) as [|it r] eqn:E; [reflexivity|exfalso].
    assert (In (key it) (tabk s)) by (apply (ci_dom _ _ C); rewrite E; left; reflexivity).
    rewrite T in H. destruct H. }
  pose proof (ci_size _ _ C) as S1. pose proof (ci_scost _ _ C) as S2. rewrite E in S1, S2.
  unfold zlen, sum_cost in *. cbn [length map sumZ] in *. unfold over_capacity. lia.
Qed.

Lemma ew_cond_false_post pol s : CInv pol s -> ew_cond false 0 s = false -> over_capacity s = false.
Proof.
  intros C H. unfold ew_cond in H. destruct (over_capacity s) eqn:O; [|reflexivity].
  cbn [andb] in H. destruct (tabk s) as [|k r] eqn:T.
  - rewrite <- O. eapply empty_not_over; eauto.
  - unfold zlen in H. cbn [length] in H. lia.
Qed.

Lemma drops_lf pol : (pol = policyLFU -> (pol =? policyLFU) = true).
Proof. intros ->. reflexivity. Qed.

(** Budget.  Stronger than asked: [over_capacity s = false] is not needed. *)
Theorem apply_classic_budget_strong pol e s k v ex c s' cm d :
  e_pol e = pol -> CInv pol s -> 0 <= c -> (costcap s <= 0 \/ c <= costcap s) -> 0 <= cap s ->
  apply_classic e s k v ex c = (s', cm, d) ->
  (pol <> policyLFU \/ serr s' = 0) ->
  CInv pol s' /\ over_capacity s' = false /\ cm = true.
Proof.
  intros Hp C Hc Hcc Hcap H Herr.
  destruct (lookup s (e_pol e) k) as [old|] eqn:LK.
  - rewrite (apply_classic_hit _ _ _ _ _ _ _ LK) in H. cbv zeta in H. rewrite Hp in *.
    rewrite (lookup_find _ _ _ C) in LK.
    pose proof (CInv_upd pol s old k v ex c C LK Hc) as C1.
    destruct (over_capacity (upd_state pol s old k v ex c)) eqn:O.
    + destruct (evict_while _ e _ false 0 0) as [s2 d2] eqn:EW. injection H as <- <- <-.
      destruct (evict_while_spec pol e Hp _ _ _ _ _ _ _ C1 EW) as (l & D & _ & Hrest).
      destruct Hrest as (_ & Hfin); [right; lia|].
      assert (C2 : CInv pol s2) by (eapply CInv_drops; [apply drops_lf|exact D|exact C1]).
      split; [exact C2|]. split; [|reflexivity]. apply (ew_cond_false_post pol s2 C2). apply Hfin. exact Herr.
    + injection H as <- <- <-. auto.
  - rewrite (apply_classic_miss _ _ _ _ _ _ LK) in H. rewrite Hp in *.
    destruct (evict_while _ e s true c 0) as [s1 d1] eqn:EW. injection H as <- <- <-.
    destruct (evict_while_spec pol e Hp _ _ _ _ _ _ _ C EW) as (l & D & _ & Hrest).
    destruct Hrest as (_ & Hfin); [right; lia|].
    assert (C1 : CInv pol s1) by (eapply CInv_drops; [apply drops_lf|exact D|exact C]).
    pose proof (Drops_eff _ pol _ _ _ _ _ (drops_lf pol) D C) as EF.
    assert (Hk : ~ In k (tabk s)).
    { intros Hi. apply (lookup_spec pol s k C) in Hi. destruct Hi as [it Hi]. congruence. }
    assert (Hk1 : ~ In k (tabk s1)) by (intros Hi; apply Hk; apply (de_tabk_sub _ _ _ _ _ EF); exact Hi).
    split; [apply CInv_ins; assumption|]. split; [|reflexivity].
    assert (Hserr : serr (ins_state pol s1 k v ex c) = serr s1) by reflexivity.
    rewrite Hserr in Herr. specialize (Hfin Herr).
    unfold ins_state, over_capacity. sfld. rewrite (de_cap _ _ _ _ _ EF), (de_costcap _ _ _ _ _ EF).
    unfold ew_cond in Hfin. destruct (would_over s1 c) eqn:W.
    + cbn [andb] in Hfin. destruct (tabk s1) as [|k1 r1] eqn:T; [|unfold zlen in Hfin; cbn [length] in Hfin; lia].
      pose proof (empty_not_over pol s1 C1 T) as O1.
      assert (E : lst s1 = []).
      { destruct (lst s1) as [|it r] eqn:E; [reflexivity|exfalso].
        assert (In (key it) (tabk s1)) by (apply (ci_dom _ _ C1); rewrite E; left; reflexivity).
        rewrite T in H. destruct H. }
      pose proof (ci_size _ _ C1) as S1. pose proof (ci_scost _ _ C1) as S2. rewrite E in S1, S2.
      unfold zlen, sum_cost in *. cbn [length map sumZ] in *. lia.
    + unfold would_over in W. rewrite (de_cap _ _ _ _ _ EF), (de_costcap _ _ _ _ _ EF) in W. lia.
Qed.

(** Budget, in the form asked *)
Theorem apply_classic_budget pol e s k v ex c s' cm d :
  e_pol e = pol -> CInv pol s -> over_capacity s = false -> 0 <= c ->
  (costcap s = 0 \/ c <= costcap s) -> (cap s = 0 \/ 1 <= cap s) ->
  apply_classic e s k v ex c = (s', cm, d) ->
  serr s' = 0 ->
  CInv pol s' /\ over_capacity s' = false /\ cm = true.
Proof.
  intros Hp C _ Hc Hcc Hcap H Herr. eapply apply_classic_budget_strong; eauto; lia.
Qed.

(** Without LFU there is no oracle, so the budget holds unconditionally *)
Corollary apply_classic_budget_no_oracle pol e s k v ex c s' cm d :
  e_pol e = pol -> pol <> policyLFU -> CInv pol s -> 0 <= c ->
  (costcap s = 0 \/ c <= costcap s) -> (cap s = 0 \/ 1 <= cap s) ->
  apply_classic e s k v ex c = (s', cm, d) ->
  CInv pol s' /\ over_capacity s' = false /\ cm = true.
Proof.
  intros Hp PL C Hc Hcc Hcap H. eapply apply_classic_budget_strong; eauto; lia.
Qed.

(** The fuel always suffices: the only new error codes are the LFU oracle ones (missing event 205,
    ill-kinded event 105, victim outside the minimum bucket 302); never 303, never 304. *)
Theorem apply_classic_errors pol e s k v ex c s' cm d :
  e_pol e = pol -> CInv pol s -> 0 <= c ->
  apply_classic e s k v ex c = (s', cm, d) ->
  serr s' = serr s \/ (serr s = 0 /\ pol = policyLFU /\ (serr s' = 105 \/ serr s' = 205 \/ serr s' = 302)).
Proof.
  intros Hp C Hc H.
  destruct (lookup s (e_pol e) k) as [old|] eqn:LK.
  - rewrite (apply_classic_hit _ _ _ _ _ _ _ LK) in H. cbv zeta in H. rewrite Hp in *.
    rewrite (lookup_find _ _ _ C) in LK.
    pose proof (CInv_upd pol s old k v ex c C LK Hc) as C1.
    destruct (over_capacity (upd_state pol s old k v ex c)) eqn:O.
    + destruct (evict_while _ e _ false 0 0) as [s2 d2] eqn:EW. injection H as <- <- <-.
      destruct (evict_while_spec pol e Hp _ _ _ _ _ _ _ C1 EW) as (l & D & _ & Hrest).
      destruct Hrest as (Hse & _); [right; lia|]. exact Hse.
    + injection H as <- <- <-. left; reflexivity.
  - rewrite (apply_classic_miss _ _ _ _ _ _ LK) in H. rewrite Hp in *.
    destruct (evict_while _ e s true c 0) as [s1 d1] eqn:EW. injection H as <- <- <-.
    destruct (evict_while_spec pol e Hp _ _ _ _ _ _ _ C EW) as (l & D & _ & Hrest).
    destruct Hrest as (Hse & _); [right; lia|]. exact Hse.
Qed.

Corollary apply_classic_never_304 pol e s k v ex c s' cm d :
  e_pol e = pol -> CInv pol s -> 0 <= c -> apply_classic e s k v ex c = (s', cm, d) ->
  serr s <> 304 -> serr s' <> 304 /\ (serr s <> 303 -> serr s' <> 303).
Proof.
  intros Hp C Hc H Hs. destruct (apply_classic_errors pol e s k v ex c s' cm d Hp C Hc H) as [E|E]; lia.
Qed.

(** serr is sticky, and without LFU it never changes *)
Corollary apply_classic_no_oracle_no_error pol e s k v ex c s' cm d :
  e_pol e = pol -> pol <> policyLFU -> CInv pol s -> 0 <= c -> apply_classic e s k v ex c = (s', cm, d) ->
  serr s' = serr s.
Proof.
  intros Hp PL C Hc H. destruct (apply_classic_errors pol e s k v ex c s' cm d Hp C Hc H) as [E|E]; [exact E|tauto].
Qed.

(* ================================================================== *)
(** * 8. A complete description of apply_classic                        *)
(* ================================================================== *)

Lemma absent_not_in pol s k : CInv pol s -> find_item (lst s) k = None -> ~ In k (tabk s).
Proof. intros C H Hi. apply (ci_dom _ _ C) in Hi. apply find_item_None in H. tauto. Qed.

Lemma apply_classic_spec pol e s k v ex c s' cm d :
  e_pol e = pol -> CInv pol s -> 0 <= c -> apply_classic e s k v ex c = (s', cm, d) ->
  cm = true /\
  match find_item (lst s) k with
  | Some old =>
      exists l, Drops (ew_cond false 0) (pol =? policyLFU) (e_mask e) (upd_state pol s old k v ex c) l s' /\
                d = (if e_stats e then zlen l else 0) /\
                ((pol <> policyLFU \/ serr s' = 0) -> ew_cond false 0 s' = false)
  | None =>
      exists l s1, Drops (ew_cond true c) (pol =? policyLFU) (e_mask e) s l s1 /\
                   s' = ins_state pol s1 k v ex c /\
                   d = (if e_stats e then zlen l else 0) /\
                   ((pol <> policyLFU \/ serr s' = 0) -> ew_cond true c s1 = false)
  end.
Proof.
  intros Hp C Hc H. rewrite <- (lookup_find pol s k C).
  destruct (lookup s pol k) as [old|] eqn:LK; rewrite <- Hp in LK.
  - rewrite (apply_classic_hit _ _ _ _ _ _ _ LK) in H. cbv zeta in H. rewrite Hp in *.
    rewrite (lookup_find _ _ _ C) in LK.
    pose proof (CInv_upd pol s old k v ex c C LK Hc) as C1.
    destruct (over_capacity (upd_state pol s old k v ex c)) eqn:O.
    + destruct (evict_while _ e _ false 0 0) as [s2 d2] eqn:EW. injection H as <- <- <-.
      destruct (evict_while_spec pol e Hp _ _ _ _ _ _ _ C1 EW) as (l & D & Hd & Hrest).
      destruct Hrest as (_ & Hfin); [right; lia|].
      split; [reflexivity|]. exists l. split; [exact D|]. split; [lia|exact Hfin].
    + injection H as <- <- <-. split; [reflexivity|]. exists []. split; [constructor; apply Frame_refl|].
      split; [destruct (e_stats e); reflexivity|]. intros _. unfold ew_cond. rewrite O. reflexivity.
  - rewrite (apply_classic_miss _ _ _ _ _ _ LK) in H. rewrite Hp in *.
    destruct (evict_while _ e s true c 0) as [s1 d1] eqn:EW. injection H as <- <- <-.
    destruct (evict_while_spec pol e Hp _ _ _ _ _ _ _ C EW) as (l & D & Hd & Hrest).
    destruct Hrest as (_ & Hfin); [right; lia|].
    split; [reflexivity|]. exists l, s1. split; [exact D|]. split; [reflexivity|]. split; [lia|exact Hfin].
Qed.

Theorem apply_classic_cinv pol e s k v ex c s' cm d :
  e_pol e = pol -> CInv pol s -> 0 <= c -> apply_classic e s k v ex c = (s', cm, d) -> CInv pol s'.
Proof.
  intros Hp C Hc H. destruct (apply_classic_spec pol e s k v ex c s' cm d Hp C Hc H) as (_ & S).
  destruct (find_item (lst s) k) as [old|] eqn:Hf.
  - destruct S as (l & D & _). eapply CInv_drops; [apply drops_lf|exact D|]. apply CInv_upd; assumption.
  - destruct S as (l & s1 & D & -> & _).
    pose proof (Drops_eff _ pol _ _ _ _ _ (drops_lf pol) D C) as EF.
    apply CInv_ins; [eapply CInv_drops; [apply drops_lf|exact D|exact C]| |exact Hc].
    intros Hi. apply (absent_not_in pol s k C Hf). apply (de_tabk_sub _ _ _ _ _ EF). exact Hi.
Qed.

Lemma find_upd_state pol s old k v ex c k' :
  find_item (lst s) k = Some old ->
  find_item (lst (upd_state pol s old k v ex c)) k' = if k' =? k then Some (new_item k v ex c) else find_item (lst s) k'.
Proof.
  intros Hf. unfold upd_state. sfld. destruct (Z.eqb_spec k' k) as [->|N].
  - destruct (pol =? policyLRU).
    + cbn [find_item key new_item]. rewrite Z.eqb_refl. reflexivity.
    + apply (find_replace_same (lst s) (new_item k v ex c) old). exact Hf.
  - destruct (pol =? policyLRU).
    + cbn [find_item key new_item]. destruct (Z.eqb_spec k k'); [congruence|]. apply find_remove_other. exact N.
    + apply find_replace_other. cbn [key new_item]. exact N.
Qed.

Lemma find_ins_state pol s1 k v ex c k' :
  find_item (lst (ins_state pol s1 k v ex c)) k' = if k' =? k then Some (new_item k v ex c) else find_item (lst s1) k'.
Proof.
  unfold ins_state. sfld. cbn [find_item key new_item]. rewrite (Z.eqb_sym k k'). reflexivity.
Qed.

Lemma Drops_nil_inv G lf m s l s' : G s = false -> Drops G lf m s l s' -> l = [] /\ Frame s s'.
Proof. intros Hg D. destruct D as [s s' F|s it s1 l s' g Hf DR D]; [tauto|congruence]. Qed.

(* ================================================================== *)
(** * 9. Theorems 4 - 9                                                 *)
(* ================================================================== *)

(** Theorem 4: there is room -> nothing is dropped *)
Theorem room_no_drop pol e s k v ex c s' cm d :
  e_pol e = pol -> CInv pol s -> 0 <= c -> lookup s pol k = None -> would_over s c = false ->
  apply_classic e s k v ex c = (s', cm, d) ->
  staged s' = staged s /\ nlog s' = nlog s /\ glog s' = glog s ++ [(0, k, v)] /\ d = 0 /\
  lst s' = new_item k v ex c :: lst s /\ tabk s' = k :: tabk s /\
  (forall k', k' <> k -> lookup s' pol k' = lookup s pol k') /\
  lookup s' pol k = Some (new_item k v ex c).
Proof.
  intros Hp C Hc LK W H. pose proof (apply_classic_cinv pol e s k v ex c s' cm d Hp C Hc H) as C'.
  destruct (apply_classic_spec pol e s k v ex c s' cm d Hp C Hc H) as (_ & S).
  rewrite (lookup_find pol s k C) in LK. rewrite LK in S. destruct S as (l & s1 & D & -> & Hd & _).
  apply Drops_nil_inv in D; [|unfold ew_cond; rewrite W; reflexivity]. destruct D as [-> F].
  assert (LK' : forall k', lookup (ins_state pol s1 k v ex c) pol k' =
                           if k' =? k then Some (new_item k v ex c) else find_item (lst s) k').
  { intros k'. rewrite (lookup_find _ _ _ C'), find_ins_state, (fr_lst _ _ F). reflexivity. }
  split; [unfold ins_state; sfld; apply (fr_staged _ _ F)|].
  split; [unfold ins_state; sfld; rewrite app_nil_r; apply (fr_nlog _ _ F)|].
  split; [unfold ins_state; sfld; rewrite (fr_glog _ _ F); reflexivity|].
  split; [rewrite Hd; destruct (e_stats e); reflexivity|].
  split; [unfold ins_state; sfld; rewrite (fr_lst _ _ F); reflexivity|].
  split; [unfold ins_state; sfld; rewrite (fr_tabk _ _ F); reflexivity|].
  split.
  - intros k' Hk. rewrite LK', (lookup_find _ _ _ C). destruct (Z.eqb_spec k' k); [congruence|reflexivity].
  - rewrite LK', Z.eqb_refl. reflexivity.
Qed.

(** Theorem 5: without a cost cap, inserting a new key drops at most one entry *)
Theorem unweighted_at_most_one pol e s k v ex c s' cm d :
  e_pol e = pol -> CInv pol s -> 0 <= c -> costcap s <= 0 -> over_capacity s = false -> lookup s pol k = None ->
  apply_classic e s k v ex c = (s', cm, d) ->
  exists l, (length l <= 1)%nat /\ glog s' = glog s ++ map drop_entry l ++ [(0, k, v)] /\
            d = (if e_stats e then zlen l else 0) /\
            (size s = cap s -> 0 < cap s -> (pol <> policyLFU \/ serr s' = 0) -> length l = 1%nat).
Proof.
  intros Hp C Hc Hcc O LK H.
  destruct (apply_classic_spec pol e s k v ex c s' cm d Hp C Hc H) as (_ & S).
  rewrite (lookup_find pol s k C) in LK. rewrite LK in S. destruct S as (l & s1 & D & -> & Hd & Hfin).
  pose proof (Drops_eff _ pol _ _ _ _ _ (drops_lf pol) D C) as EF.
  exists l. split; [|split; [|split; [exact Hd|]]].
  - destruct D as [s s1 F|s it s2 l s1 g Hf DR D]; [cbn; lia|].
    assert (Hg : ew_cond true c s2 = false).
    { unfold ew_cond, would_over. rewrite (dr_cap _ _ _ _ _ _ DR), (dr_costcap _ _ _ _ _ _ DR), (dr_size _ _ _ _ _ _ DR).
      unfold over_capacity in O. destruct (0 <? zlen (tabk s2)); lia. }
    apply Drops_nil_inv in D; [|exact Hg]. destruct D as [-> _]. cbn; lia.
  - unfold ins_state. sfld. rewrite (de_glog _ _ _ _ _ EF), <- app_assoc. reflexivity.
  - intros Hsz Hcap Herr. specialize (Hfin Herr).
    destruct D as [s s1 F|s it s2 l s1 g Hf DR D]; [exfalso|].
    + unfold ew_cond, would_over in Hfin. rewrite (fr_cap _ _ F), (fr_size _ _ F), (fr_tabk _ _ F) in Hfin.
      pose proof (ci_size _ _ C) as S1. pose proof (ci_lst_nodup _ _ C) as ND.
      destruct (tabk s) as [|k0 r0] eqn:T.
      * assert (E : lst s = []).
        { destruct (lst s) as [|it r] eqn:E; [reflexivity|exfalso].
          assert (In (key it) (tabk s)) by (apply (ci_dom _ _ C); rewrite E; left; reflexivity).
          rewrite T in H0. destruct H0. }
        rewrite E in S1. unfold zlen in S1. cbn [length] in S1. lia.
      * unfold zlen in Hfin. cbn [length] in Hfin. lia.
    + assert (Hg : ew_cond true c s2 = false).
      { unfold ew_cond, would_over. rewrite (dr_cap _ _ _ _ _ _ DR), (dr_costcap _ _ _ _ _ _ DR), (dr_size _ _ _ _ _ _ DR).
        destruct (0 <? zlen (tabk s2)); lia. }
      apply Drops_nil_inv in D; [|exact Hg]. destruct D as [-> _]. reflexivity.
Qed.

(** Theorem 6: an update of a resident key is effective (or the key itself was evicted) *)
Theorem update_effective pol e s k v ex c s' cm d old :
  e_pol e = pol -> CInv pol s -> 0 <= c -> lookup s pol k = Some old ->
  apply_classic e s k v ex c = (s', cm, d) ->
  (lookup s' pol k = None \/ lookup s' pol k = Some (new_item k v ex c)) /\
  (over_capacity s = false -> (costcap s <= 0 \/ c <= cost old) -> lookup s' pol k = Some (new_item k v ex c) /\ d = 0).
Proof.
  intros Hp C Hc LK H. pose proof (apply_classic_cinv pol e s k v ex c s' cm d Hp C Hc H) as C'.
  destruct (apply_classic_spec pol e s k v ex c s' cm d Hp C Hc H) as (_ & S).
  rewrite (lookup_find pol s k C) in LK. rewrite LK in S. destruct S as (l & D & Hd & _).
  pose proof (CInv_upd pol s old k v ex c C LK Hc) as C1.
  pose proof (Drops_eff _ pol _ _ _ _ _ (drops_lf pol) D C1) as EF.
  rewrite (lookup_find _ _ _ C'), (de_find _ _ _ _ _ EF), (find_upd_state _ _ _ _ _ _ _ _ LK), Z.eqb_refl.
  split; [destruct (memz (map key l) k); tauto|].
  intros O Hcost.
  assert (Hg : ew_cond false 0 (upd_state pol s old k v ex c) = false).
  { unfold ew_cond, over_capacity, upd_state. sfld. unfold over_capacity in O.
    destruct (0 <? zlen (tabk s)); lia. }
  apply Drops_nil_inv in D; [|exact Hg]. destruct D as [-> _]. cbn [map memz].
  split; [reflexivity|]. rewrite Hd. destruct (e_stats e); reflexivity.
Qed.

(** Theorem 7: every other key is unchanged or lost; nothing new appears *)
Theorem others_unchanged_or_lost pol e s k v ex c s' cm d k' :
  e_pol e = pol -> CInv pol s -> 0 <= c -> k' <> k ->
  apply_classic e s k v ex c = (s', cm, d) ->
  lookup s' pol k' = lookup s pol k' \/ lookup s' pol k' = None.
Proof.
  intros Hp C Hc Hk H. pose proof (apply_classic_cinv pol e s k v ex c s' cm d Hp C Hc H) as C'.
  destruct (apply_classic_spec pol e s k v ex c s' cm d Hp C Hc H) as (_ & S).
  rewrite (lookup_find _ _ _ C'), (lookup_find _ _ _ C).
  destruct (find_item (lst s) k) as [old|] eqn:Hf.
  - destruct S as (l & D & _).
    pose proof (CInv_upd pol s old k v ex c C Hf Hc) as C1.
    pose proof (Drops_eff _ pol _ _ _ _ _ (drops_lf pol) D C1) as EF.
    rewrite (de_find _ _ _ _ _ EF), (find_upd_state _ _ _ _ _ _ _ _ Hf).
    destruct (Z.eqb_spec k' k); [congruence|]. destruct (memz (map key l) k'); tauto.
  - destruct S as (l & s1 & D & -> & _).
    pose proof (Drops_eff _ pol _ _ _ _ _ (drops_lf pol) D C) as EF.
    rewrite find_ins_state, (de_find _ _ _ _ _ EF).
    destruct (Z.eqb_spec k' k); [congruence|]. destruct (memz (map key l) k'); tauto.
Qed.

Corollary nothing_new_appears pol e s k v ex c s' cm d k' it :
  e_pol e = pol -> CInv pol s -> 0 <= c -> k' <> k ->
  apply_classic e s k v ex c = (s', cm, d) -> lookup s' pol k' = Some it -> lookup s pol k' = Some it.
Proof.
  intros Hp C Hc Hk H L. destruct (others_unchanged_or_lost pol e s k v ex c s' cm d k' Hp C Hc Hk H); congruence.
Qed.

(** Theorem 8: an unbounded shard never drops *)
Theorem unbounded_never_drops pol e s k v ex c s' cm d :
  e_pol e = pol -> CInv pol s -> 0 <= c -> cap s = 0 -> costcap s = 0 ->
  apply_classic e s k v ex c = (s', cm, d) ->
  d = 0 /\ staged s' = staged s /\ nlog s' = nlog s /\
  glog s' = glog s ++ match lookup s pol k with Some old => [(1, k, val old); (0, k, v)] | None => [(0, k, v)] end /\
  (forall k', k' <> k -> lookup s' pol k' = lookup s pol k') /\
  lookup s' pol k = Some (new_item k v ex c).
Proof.
  intros Hp C Hc Hcap Hcc H. pose proof (apply_classic_cinv pol e s k v ex c s' cm d Hp C Hc H) as C'.
  destruct (apply_classic_spec pol e s k v ex c s' cm d Hp C Hc H) as (_ & S).
  rewrite (lookup_find pol s k C).
  destruct (find_item (lst s) k) as [old|] eqn:Hf.
  - destruct S as (l & D & Hd & _).
    apply Drops_nil_inv in D.
    2:{ unfold ew_cond, over_capacity, upd_state. sfld. rewrite Hcap, Hcc. reflexivity. }
    destruct D as [-> F]. split; [rewrite Hd; destruct (e_stats e); reflexivity|].
    split; [rewrite (fr_staged _ _ F); reflexivity|].
    split; [rewrite (fr_nlog _ _ F); unfold upd_state; sfld; apply app_nil_r|].
    split; [rewrite (fr_glog _ _ F); reflexivity|].
    split.
    + intros k' Hk. rewrite (lookup_find _ _ _ C'), (lookup_find _ _ _ C), (fr_lst _ _ F), (find_upd_state _ _ _ _ _ _ _ _ Hf).
      destruct (Z.eqb_spec k' k); [congruence|reflexivity].
    + rewrite (lookup_find _ _ _ C'), (fr_lst _ _ F), (find_upd_state _ _ _ _ _ _ _ _ Hf), Z.eqb_refl. reflexivity.
  - destruct S as (l & s1 & D & -> & Hd & _).
    apply Drops_nil_inv in D.
    2:{ unfold ew_cond, would_over. rewrite Hcap, Hcc. reflexivity. }
    destruct D as [-> F]. split; [rewrite Hd; destruct (e_stats e); reflexivity|].
    assert (LK' : forall k', lookup (ins_state pol s1 k v ex c) pol k' =
                             if k' =? k then Some (new_item k v ex c) else find_item (lst s) k').
    { intros k'. rewrite (lookup_find _ _ _ C'), find_ins_state, (fr_lst _ _ F). reflexivity. }
    split; [unfold ins_state; sfld; apply (fr_staged _ _ F)|].
    split; [unfold ins_state; sfld; rewrite app_nil_r; apply (fr_nlog _ _ F)|].
    split; [unfold ins_state; sfld; rewrite (fr_glog _ _ F); reflexivity|].
    split.
    + intros k' Hk. rewrite LK', (lookup_find _ _ _ C). destruct (Z.eqb_spec k' k); [congruence|reflexivity].
    + rewrite LK', Z.eqb_refl. reflexivity.
Qed.

(** Theorem 9: the evictions counter, and every drop of apply_classic is a capacity drop *)
Definition is_dropped (x : Z * Z * Z) : bool := let '(t, _, _) := x in 10 <=? t.

Lemma cnt_dropped_entries l : cnt is_dropped (map drop_entry l) = zlen l.
Proof. unfold zlen. induction l as [|x r IH]; cbn [map cnt length]; [reflexivity|]. rewrite IH. change (is_dropped (drop_entry x)) with true. lia. Qed.

Theorem apply_classic_counters pol e s k v ex c s' cm d :
  e_pol e = pol -> CInv pol s -> 0 <= c -> apply_classic e s k v ex c = (s', cm, d) ->
  exists delta, glog s' = glog s ++ delta /\
                d = (if e_stats e then cnt is_dropped delta else 0) /\
                Forall (fun x => is_dropped x = true -> fst (fst x) = 10 + reasonCapacity) delta /\
                exists l, nlog s' = nlog s ++ (if mask_has (e_mask e) reasonCapacity then map (fun it => mk_notif it reasonCapacity) l else []) /\
                          staged s' = staged s ++ (if mask_has (e_mask e) reasonCapacity then map (fun it => mk_notif it reasonCapacity) l else []) /\
                          cnt is_dropped delta = zlen l.
Proof.
  intros Hp C Hc H.
  destruct (apply_classic_spec pol e s k v ex c s' cm d Hp C Hc H) as (_ & S).
  assert (FD : forall l, Forall (fun x => is_dropped x = true -> fst (fst x) = 10 + reasonCapacity) (map drop_entry l)).
  { intros l. apply Forall_forall. intros x Hx. apply in_map_iff in Hx. destruct Hx as (it & <- & _). reflexivity. }
  destruct (find_item (lst s) k) as [old|] eqn:Hf.
  - destruct S as (l & D & Hd & _).
    pose proof (CInv_upd pol s old k v ex c C Hf Hc) as C1.
    pose proof (Drops_eff _ pol _ _ _ _ _ (drops_lf pol) D C1) as EF.
    exists ([(1, k, val old); (0, k, v)] ++ map drop_entry l).
    assert (E : cnt is_dropped ([(1, k, val old); (0, k, v)] ++ map drop_entry l) = zlen l).
    { rewrite cnt_app, cnt_dropped_entries. cbn. lia. }
    split; [rewrite (de_glog _ _ _ _ _ EF); unfold upd_state; sfld; rewrite <- app_assoc; reflexivity|].
    split; [rewrite E; exact Hd|]. split.
    + apply Forall_app. split; [|apply FD]. repeat constructor; cbn; discriminate.
    + exists l. rewrite (de_nlog _ _ _ _ _ EF), (de_staged _ _ _ _ _ EF). unfold upd_state. sfld. rewrite app_nil_r.
      repeat split; try reflexivity. exact E.
  - destruct S as (l & s1 & D & -> & Hd & _).
    pose proof (Drops_eff _ pol _ _ _ _ _ (drops_lf pol) D C) as EF.
    exists (map drop_entry l ++ [(0, k, v)]).
    assert (E : cnt is_dropped (map drop_entry l ++ [(0, k, v)]) = zlen l).
    { rewrite cnt_app, cnt_dropped_entries. cbn. lia. }
    split; [unfold ins_state; sfld; rewrite (de_glog _ _ _ _ _ EF), <- app_assoc; reflexivity|].
    split; [rewrite E; exact Hd|]. split.
    + apply Forall_app. split; [apply FD|]. repeat constructor; cbn; discriminate.
    + exists l. unfold ins_state. sfld. rewrite (de_nlog _ _ _ _ _ EF), (de_staged _ _ _ _ _ EF), app_nil_r.
      repeat split; try reflexivity. exact E.
Qed.

(* ================================================================== *)
(** * 10. Policy order: ghost clock, parametric invariants              *)
(* ================================================================== *)

Definition upd (f : Z -> Z) (k x : Z) : Z -> Z := fun k' => if k' =? k then x else f k'.

Lemma upd_same f k x : upd f k x k = x.
Proof. unfold upd. rewrite Z.eqb_refl. reflexivity. Qed.
Lemma upd_other f k x k' : k' <> k -> upd f k x k' = f k'.
Proof. unfold upd. intros H. destruct (Z.eqb_spec k' k); [congruence|reflexivity]. Qed.

(* the key list is sorted by strictly decreasing stamp (head = largest stamp) *)
Definition DecBy (f : Z -> Z) (ks : list Z) : Prop := StronglySorted (fun a b => f b < f a) ks.

(* OrdInv f clk s: the shared list of s is in strictly decreasing f-order and every stamp is below the clock *)
Definition OrdInv (f : Z -> Z) (clk : Z) (s : shard) : Prop :=
  DecBy f (map key (lst s)) /\ Forall (fun k => f k < clk) (map key (lst s)).

Lemma Forall_remz (P : Z -> Prop) l k : Forall P l -> Forall P (remz l k).
Proof.
  intros H. apply Forall_forall. intros x Hx. rewrite Forall_forall in H. apply H. eapply remz_In_weak; eauto.
Qed.

Lemma DecBy_remz f ks k : DecBy f ks -> DecBy f (remz ks k).
Proof.
  unfold DecBy. induction 1 as [|x r Hr IH Hx]; cbn [remz]; [constructor|].
  destruct (x =? k); [exact Hr|]. constructor; [exact IH|]. apply Forall_remz. exact Hx.
Qed.

Lemma DecBy_ext f g ks : (forall k, In k ks -> g k = f k) -> DecBy f ks -> DecBy g ks.
Proof.
  unfold DecBy. intros E H. induction H as [|x r Hr IH Hx]; [constructor|].
  constructor.
  - apply IH. intros k Hk. apply E. right; exact Hk.
  - rewrite Forall_forall in *. intros y Hy. rewrite (E x (or_introl eq_refl)), (E y (or_intror Hy)). apply Hx. exact Hy.
Qed.

Lemma DecBy_last_min f l x : DecBy f (l ++ [x]) -> forall y, In y (l ++ [x]) -> f x <= f y.
Proof.
  unfold DecBy. induction l as [|a l IH]; cbn [app]; intros H y Hy.
  - destruct Hy as [<-|[]]. lia.
  - inversion H as [|? ? Hr Ha]; subst. destruct Hy as [<-|Hy].
    + rewrite Forall_forall in Ha. specialize (Ha x). assert (In x (l ++ [x])) by (apply in_or_app; right; left; reflexivity).
      specialize (Ha H0). lia.
    + apply IH; assumption.
Qed.

Lemma OrdInv_frame f clk s s' : Frame s s' -> OrdInv f clk s -> OrdInv f clk s'.
Proof. unfold OrdInv. intros F. rewrite (fr_lst _ _ F). tauto. Qed.

Lemma OrdInv_drop f clk lf m r it s s' : DropRel lf m r it s s' -> OrdInv f clk s -> OrdInv f clk s'.
Proof.
  unfold OrdInv. intros D [H1 H2]. rewrite (dr_lst _ _ _ _ _ _ D), map_key_remove.
  split; [apply DecBy_remz; exact H1|apply Forall_remz; exact H2].
Qed.

Lemma OrdInv_drops G f clk lf m s l s' : Drops G lf m s l s' -> OrdInv f clk s -> OrdInv f clk s'.
Proof.
  induction 1 as [s s' F|s it s1 l s' g Hf DR D IH]; intros O.
  - eapply OrdInv_frame; eauto.
  - apply IH. eapply OrdInv_drop; eauto.
Qed.

Lemma OrdInv_clock f clk clk' s : clk <= clk' -> OrdInv f clk s -> OrdInv f clk' s.
Proof.
  unfold OrdInv. intros Hc [H1 H2]. split; [exact H1|]. eapply Forall_impl; [|exact H2]. cbn. intros; lia.
Qed.

(* a key that is not in the list is stamped with the clock and put at the head *)
Lemma OrdInv_push f clk ks k :
  ~ In k ks -> DecBy f ks -> Forall (fun x => f x < clk) ks ->
  DecBy (upd f k clk) (k :: ks) /\ Forall (fun x => upd f k clk x < clk + 1) (k :: ks).
Proof.
  intros Hk H1 H2.
  assert (E : forall x, In x ks -> upd f k clk x = f x).
  { intros x Hx. apply upd_other. intros ->. tauto. }
  split.
  - constructor; [apply (DecBy_ext f); assumption|].
    rewrite Forall_forall in *. intros y Hy. rewrite upd_same, (E y Hy). apply H2; exact Hy.
  - constructor; [rewrite upd_same; lia|].
    rewrite Forall_forall in *. intros y Hy. rewrite (E y Hy). specialize (H2 y Hy). lia.
Qed.

(** ** Theorem 10 (LRU): [touch k] = clock of the last successful write or read hit of [k] *)

Theorem lru_apply_classic e s k v ex c s' cm d touch clk :
  e_pol e = policyLRU -> CInv policyLRU s -> 0 <= c -> OrdInv touch clk s ->
  apply_classic e s k v ex c = (s', cm, d) ->
  OrdInv (upd touch k clk) (clk + 1) s'.
Proof.
  intros Hp C Hc O H.
  destruct (apply_classic_spec policyLRU e s k v ex c s' cm d Hp C Hc H) as (_ & S).
  destruct O as [O1 O2]. pose proof (ci_lst_nodup _ _ C) as ND.
  destruct (find_item (lst s) k) as [old|] eqn:Hf.
  - destruct S as (l & D & _). eapply OrdInv_drops; [exact D|].
    unfold OrdInv, upd_state. sfld. change (policyLRU =? policyLRU) with true. cbn [map key new_item].
    rewrite map_key_remove. apply OrdInv_push.
    + apply remz_not_self; exact ND.
    + apply DecBy_remz; exact O1.
    + apply Forall_remz; exact O2.
  - destruct S as (l & s1 & D & -> & _).
    pose proof (OrdInv_drops _ _ _ _ _ _ _ _ D (conj O1 O2)) as [P1 P2].
    pose proof (Drops_eff _ policyLRU _ _ _ _ _ (drops_lf policyLRU) D C) as EF.
    unfold OrdInv, ins_state. sfld. cbn [map key new_item]. apply OrdInv_push; [|exact P1|exact P2].
    apply find_item_None. rewrite (de_find _ _ _ _ _ EF), Hf. destruct (memz (map key l) k); reflexivity.
Qed.

Theorem lru_get_hit s k it touch clk :
  CInv policyLRU s -> OrdInv touch clk s -> lookup s policyLRU k = Some it ->
  OrdInv (upd touch k clk) (clk + 1) (get_hit_upd policyLRU s it k).
Proof.
  intros C [O1 O2] LK. destruct (lookup_resident _ _ _ _ C LK) as (Hf & Hk & _).
  unfold OrdInv, get_hit_upd. change (policyLRU =? policyLRU) with true. sfld. cbn [map]. rewrite Hk, map_key_remove.
  apply OrdInv_push.
  - apply remz_not_self. apply (ci_lst_nodup _ _ C).
  - apply DecBy_remz; exact O1.
  - apply Forall_remz; exact O2.
Qed.

(** ** Theorem 11 (FIFO, and in fact every policy but LRU): [born k] = clock of the insertion of [k];
       neither read hits nor updates of a resident key change the list order. *)

Theorem fifo_apply_classic pol e s k v ex c s' cm d born clk :
  e_pol e = pol -> pol <> policyLRU -> CInv pol s -> 0 <= c -> OrdInv born clk s ->
  apply_classic e s k v ex c = (s', cm, d) ->
  OrdInv (match lookup s pol k with Some _ => born | None => upd born k clk end) (clk + 1) s'.
Proof.
  intros Hp PL C Hc O H.
  destruct (apply_classic_spec pol e s k v ex c s' cm d Hp C Hc H) as (_ & S).
  rewrite (lookup_find _ _ _ C).
  destruct (find_item (lst s) k) as [old|] eqn:Hf.
  - destruct S as (l & D & _). eapply OrdInv_drops; [exact D|].
    apply (OrdInv_clock born clk); [lia|].
    unfold OrdInv, upd_state. sfld. destruct (Z.eqb_spec pol policyLRU); [congruence|].
    rewrite map_key_replace. exact O.
  - destruct S as (l & s1 & D & -> & _).
    pose proof (OrdInv_drops _ _ _ _ _ _ _ _ D O) as [P1 P2].
    pose proof (Drops_eff _ pol _ _ _ _ _ (drops_lf pol) D C) as EF.
    unfold OrdInv, ins_state. sfld. cbn [map key new_item]. apply OrdInv_push; [|exact P1|exact P2].
    apply find_item_None. rewrite (de_find _ _ _ _ _ EF), Hf. destruct (memz (map key l) k); reflexivity.
Qed.

Theorem fifo_get_hit pol s k it born clk :
  pol <> policyLRU -> OrdInv born clk s -> OrdInv born clk (get_hit_upd pol s it k).
Proof.
  intros PL O. unfold get_hit_upd. destruct (Z.eqb_spec pol policyLRU); [congruence|].
  destruct (pol =? policyLFU); exact O.
Qed.

(** ** Order-neutral operations (both orders): dropping any looked-up item (Exists / Get on an expired
       entry, Delete, Cleanup), Clear, adapts, failed lookups (which leave the shard untouched) *)

Theorem order_lookup_drop e s k it r s' ok dd f clk :
  CInv (e_pol e) s -> lookup s (e_pol e) k = Some it -> drop_item e s it r = (s', ok, dd) ->
  OrdInv f clk s -> OrdInv f clk s'.
Proof.
  intros C LK H O. destruct (lookup_resident _ _ _ _ C LK) as (Hf & Hk & Hkt & Hin & Hok & Hu).
  apply drop_item_rel in H; [|apply (ci_classic _ _ C)|exact Hu|rewrite Hk; exact Hkt].
  destruct H as (DR & _). eapply OrdInv_drop; eauto.
Qed.

Theorem order_cleanup_fold e nw ks f clk : forall s ev ex s' ev' ex',
  CInv (e_pol e) s -> OrdInv f clk s -> fold_left (cleanup_shard e nw) ks (s, ev, ex) = (s', ev', ex') ->
  OrdInv f clk s'.
Proof.
  induction ks as [|k r IH]; intros s ev ex s' ev' ex' C O H; cbn [fold_left] in H.
  - injection H as <- _ _. exact O.
  - destruct (cleanup_shard e nw (s, ev, ex) k) as [[s1 ev1] ex1] eqn:E.
    assert (C1 : CInv (e_pol e) s1 /\ OrdInv f clk s1).
    { unfold cleanup_shard in E. destruct (lookup s (e_pol e) k) as [it|] eqn:LK.
      - destruct (expired it nw).
        + destruct (drop_item e s it reasonExpired) as [[s2 ok] d] eqn:DI. injection E as <- _ _.
          split; [|eapply order_lookup_drop; eauto].
          destruct (lookup_resident _ _ _ _ C LK) as (Hf & _).
          apply (drop_item_preserves _ _ _ _ _ _ _ C Hf DI).
        + injection E as <- _ _. tauto.
      - injection E as <- _ _. tauto. }
    eapply IH; [apply C1|apply C1|exact H].
Qed.

Lemma order_clear pol s f clk : OrdInv f clk (clear_shard pol s).
Proof. unfold OrdInv, clear_shard. sfld. cbn [map]. split; constructor. Qed.

Lemma order_adapts s f clk : OrdInv f clk s -> OrdInv f clk (adapts s).
Proof. apply OrdInv_frame. apply apply_adapts_frame. Qed.

(** ** The victim of evict_one (every policy but LFU) carries the minimum stamp among the residents:
       LRU evicts the least recently read or written entry, FIFO the earliest inserted one. *)
Theorem tail_victim_min pol e s s1 d f clk :
  e_pol e = pol -> pol <> policyLFU -> CInv pol s -> tabk s <> [] -> OrdInv f clk s ->
  evict_one e s = (s1, d) ->
  exists it, lookup s pol (key it) = Some it /\ lookup s1 pol (key it) = None /\
             (forall k', In k' (tabk s) -> f (key it) <= f k') /\
             (forall k', k' <> key it -> lookup s1 pol k' = lookup s pol k') /\
             glog s1 = glog s ++ [drop_entry it].
Proof.
  intros Hp PL C Hne [O1 O2] H.
  destruct (evict_one_spec pol e s s1 d Hp C Hne H) as [(it & Hf & DR & _ & _ & HL & _)|(Q & _)]; [|congruence].
  specialize (HL PL). exists it.
  assert (C1 : CInv pol s1) by (eapply CInv_drop; [intros ->; congruence|exact Hf|exact DR|exact C]).
  rewrite (lookup_find _ _ _ C), (lookup_find _ _ _ C1), (dr_lst _ _ _ _ _ _ DR).
  split; [exact Hf|]. split; [apply find_remove_same; apply (ci_lst_nodup _ _ C)|]. split; [|split].
  - intros k' Hk'. apply (ci_dom _ _ C) in Hk'.
    destruct (last_item_split _ _ HL) as [l0 E]. rewrite E, map_app in O1, Hk'. cbn [map] in O1, Hk'.
    apply (DecBy_last_min f _ _ O1). exact Hk'.
  - intros k' Hk'. rewrite (lookup_find _ _ _ C1), (lookup_find _ _ _ C), (dr_lst _ _ _ _ _ _ DR).
    apply find_remove_other. exact Hk'.
  - apply (dr_glog _ _ _ _ _ _ DR).
Qed.

(** ** Theorem 12 (LFU): [reads k] = number of read hits of [k] since its last write *)

Definition ReadsInv (reads : Z -> Z) (s : shard) : Prop :=
  forall k, In k (tabk s) -> lfu_freq (lfu s) k = 1 + reads k.

Lemma ReadsInv_frame reads s s' : Frame s s' -> ReadsInv reads s -> ReadsInv reads s'.
Proof. unfold ReadsInv. intros F H k. rewrite (fr_tabk _ _ F), (fr_lfu _ _ F). apply H. Qed.

Lemma ReadsInv_drop reads m r it s s' :
  CInv policyLFU s -> DropRel true m r it s s' -> ReadsInv reads s -> ReadsInv reads s'.
Proof.
  unfold ReadsInv. intros C D H k. rewrite (dr_tabk _ _ _ _ _ _ D), (dr_lfu _ _ _ _ _ _ D).
  rewrite remz_In by apply (ci_tab_nodup _ _ C). intros [Hk Hn].
  rewrite lfu_freq_remove by apply (lo_nodup _ _ (ci_lfu _ _ C eq_refl)).
  destruct (Z.eqb_spec k (key it)); [congruence|]. apply H; exact Hk.
Qed.

Lemma ReadsInv_drops G reads m s l s' :
  Drops G true m s l s' -> CInv policyLFU s -> ReadsInv reads s -> ReadsInv reads s'.
Proof.
  induction 1 as [s s' F|s it s1 l s' g Hf DR D IH]; intros C R.
  - eapply ReadsInv_frame; eauto.
  - apply IH; [eapply CInv_drop; [|exact Hf|exact DR|exact C]; reflexivity|]. eapply ReadsInv_drop; eauto.
Qed.

Theorem lfu_apply_classic e s k v ex c s' cm d reads :
  e_pol e = policyLFU -> CInv policyLFU s -> 0 <= c -> ReadsInv reads s ->
  apply_classic e s k v ex c = (s', cm, d) ->
  ReadsInv (upd reads k 0) s'.
Proof.
  intros Hp C Hc R H.
  destruct (apply_classic_spec policyLFU e s k v ex c s' cm d Hp C Hc H) as (_ & S).
  pose proof (ci_lfu _ _ C eq_refl) as LO.
  destruct (find_item (lst s) k) as [old|] eqn:Hf.
  - destruct S as (l & D & _). change (policyLFU =? policyLFU) with true in D.
    eapply ReadsInv_drops; [exact D|apply CInv_upd; assumption|].
    unfold ReadsInv, upd_state. sfld. change (policyLFU =? policyLFU) with true. cbv iota.
    intros k' Hk'. unfold lfu_add.
    rewrite lfu_freq_add_at by (apply lfu_remove_not_self; apply (lo_nodup _ _ LO)).
    unfold upd. destruct (Z.eqb_spec k' k) as [E|E]; [lia|].
    rewrite lfu_freq_remove by apply (lo_nodup _ _ LO). destruct (Z.eqb_spec k' k); [congruence|]. apply R; exact Hk'.
  - destruct S as (l & s1 & D & -> & _). change (policyLFU =? policyLFU) with true in D.
    pose proof (ReadsInv_drops _ _ _ _ _ _ D C R) as R1.
    assert (C1 : CInv policyLFU s1) by (eapply CInv_drops; [|exact D|exact C]; reflexivity).
    pose proof (Drops_eff _ policyLFU _ _ _ _ _ (fun _ => eq_refl) D C) as EF.
    assert (Hk1 : ~ In k (tabk s1)).
    { intros Hi. apply (absent_not_in _ s k C Hf). apply (de_tabk_sub _ _ _ _ _ EF). exact Hi. }
    pose proof (ci_lfu _ _ C1 eq_refl) as LO1.
    unfold ReadsInv, ins_state. sfld. change (policyLFU =? policyLFU) with true. cbv iota.
    intros k' Hk'. unfold lfu_add.
    rewrite lfu_freq_add_at by (rewrite (lo_union _ _ LO1); exact Hk1).
    unfold upd. destruct (Z.eqb_spec k' k) as [E|E]; [lia|].
    apply R1. destruct Hk' as [Hk'|Hk']; [congruence|exact Hk'].
Qed.

Lemma lfu_freq_increment b ks k k' :
  LfuOK b ks -> In k ks ->
  lfu_freq (lfu_increment b k) k' = if k' =? k then lfu_freq b k + 1 else lfu_freq b k'.
Proof.
  intros LO Hk. unfold lfu_increment.
  assert (Hin : In k (lfu_keys b)) by (apply (lo_union _ _ LO); exact Hk).
  pose proof (lfu_freq_pos b k (lo_pos _ _ LO) Hin) as Hp.
  destruct (Z.eqb_spec (lfu_freq b k) 0) as [E|E]; [lia|].
  rewrite lfu_freq_add_at by (apply lfu_remove_not_self; apply (lo_nodup _ _ LO)).
  destruct (Z.eqb_spec k' k) as [E'|E']; [reflexivity|].
  rewrite lfu_freq_remove by apply (lo_nodup _ _ LO). destruct (Z.eqb_spec k' k); [congruence|reflexivity].
Qed.

Theorem lfu_get_hit s k it reads :
  CInv policyLFU s -> ReadsInv reads s -> lookup s policyLFU k = Some it ->
  ReadsInv (upd reads k (reads k + 1)) (get_hit_upd policyLFU s it k).
Proof.
  intros C R LK. destruct (lookup_resident _ _ _ _ C LK) as (_ & _ & Hkt & _).
  unfold ReadsInv, get_hit_upd. change (policyLFU =? policyLRU) with false. change (policyLFU =? policyLFU) with true.
  cbv iota. sfld. intros k' Hk'.
  rewrite (lfu_freq_increment _ _ _ _ (ci_lfu _ _ C eq_refl) Hkt).
  unfold upd. destruct (Z.eqb_spec k' k) as [E|E]; [|apply R; exact Hk'].
  rewrite (R k Hkt). lia.
Qed.

(** order-neutral operations for the read counts *)
Theorem reads_lookup_drop e s k it r s' ok dd reads :
  e_pol e = policyLFU -> CInv policyLFU s -> lookup s policyLFU k = Some it -> drop_item e s it r = (s', ok, dd) ->
  ReadsInv reads s -> ReadsInv reads s'.
Proof.
  intros Hp C LK H R. destruct (lookup_resident _ _ _ _ C LK) as (Hf & Hk & Hkt & Hin & Hok & Hu).
  apply drop_item_rel in H; [|rewrite Hp; apply (ci_classic _ _ C)|exact Hu|rewrite Hk; exact Hkt].
  destruct H as (DR & _). rewrite Hp in DR. change (policyLFU =? policyLFU) with true in DR.
  eapply ReadsInv_drop; eauto.
Qed.

Lemma reads_clear s reads : ReadsInv reads (clear_shard policyLFU s).
Proof. unfold ReadsInv, clear_shard. sfld. intros k []. Qed.

(** The LFU victim (when the oracle event is accepted, i.e. serr is not set by this call) has the
    fewest reads since its last write among all residents. *)
Theorem lfu_victim_min e s s1 d reads :
  e_pol e = policyLFU -> CInv policyLFU s -> tabk s <> [] -> ReadsInv reads s ->
  evict_one e s = (s1, d) -> serr s1 = 0 ->
  exists it, lookup s policyLFU (key it) = Some it /\ lookup s1 policyLFU (key it) = None /\
             (forall k', In k' (tabk s) -> reads (key it) <= reads k') /\
             (forall k', k' <> key it -> lookup s1 policyLFU k' = lookup s policyLFU k') /\
             glog s1 = glog s ++ [drop_entry it].
Proof.
  intros Hp C Hne R H Hs.
  destruct (evict_one_spec policyLFU e s s1 d Hp C Hne H) as [(it & Hf & DR & _ & _ & _ & HM)|(_ & _ & Q & _)]; [|congruence].
  specialize (HM eq_refl). exists it.
  assert (C1 : CInv policyLFU s1) by (eapply CInv_drop; [|exact Hf|exact DR|exact C]; reflexivity).
  rewrite (lookup_find _ _ _ C), (lookup_find _ _ _ C1), (dr_lst _ _ _ _ _ _ DR).
  destruct (resident_ok _ _ _ C Hf) as (R1 & _).
  pose proof (ci_lfu _ _ C eq_refl) as LO.
  split; [exact Hf|]. split; [apply find_remove_same; apply (ci_lst_nodup _ _ C)|]. split; [|split].
  - intros k' Hk'.
    pose proof (lfu_min_bucket_min (lfu s) k' (key it) (lo_sorted _ _ LO) HM) as Hmin.
    rewrite (R _ Hk'), (R _ R1) in Hmin. specialize (Hmin (proj2 (lo_union _ _ LO k') Hk')). lia.
  - intros k' Hk'. rewrite (lookup_find _ _ _ C1), (lookup_find _ _ _ C), (dr_lst _ _ _ _ _ _ DR).
    apply find_remove_other. exact Hk'.
  - apply (dr_glog _ _ _ _ _ _ DR).
Qed.


Definition empty_shard (cp ccp : Z) (ev : list (Z * Z)) : shard :=
  {| cap := cp; costcap := ccp; tabk := []; lst := []; lfu := []; prob := []; main := []; hand := None;
     pcap := 0; mcap := 0; pmin := 0; pmax := 0; size := 0; scost := 0; staged := []; evs := ev; pend := [];
     admits := 0; rejects := 0; ghosthits := 0; promos := 0; pevicts := 0; mevicts := 0; serr := 0;
     glog := []; nlog := [] |}.

Lemma empty_good pol m cp ccp ev :
  is_sieve (empty_shard cp ccp ev) pol = false -> Good pol m (empty_shard cp ccp ev).
Proof.
  intros HS. apply Good_intro.
  - assert (LE : LfuOK [] []).
    { constructor; cbn; try (constructor; fail). intros k; tauto. }
    constructor; cbn [empty_shard tabk lst lfu prob main hand size scost map];
      try reflexivity; try (constructor; fail); try (intros _; exact LE); try (intros k; cbn; tauto).
    exact HS.
  - intros k v. reflexivity.
  - reflexivity.
Qed.


(** ** Generic induction principle for the Cleanup fold *)
Lemma cleanup_fold_ind e nw (P : shard -> Prop) :
  (forall s k it s' ok d, CInv (e_pol e) s -> P s -> lookup s (e_pol e) k = Some it ->
                          drop_item e s it reasonExpired = (s', ok, d) -> P s') ->
  forall ks s ev ex s' ev' ex',
  CInv (e_pol e) s -> P s -> fold_left (cleanup_shard e nw) ks (s, ev, ex) = (s', ev', ex') ->
  CInv (e_pol e) s' /\ P s'.
Proof.
  intros HP. induction ks as [|k r IH]; intros s ev ex s' ev' ex' C Ps H; cbn [fold_left] in H.
  - injection H as <- _ _. tauto.
  - destruct (cleanup_shard e nw (s, ev, ex) k) as [[s1 ev1] ex1] eqn:E.
    assert (C1 : CInv (e_pol e) s1 /\ P s1).
    { unfold cleanup_shard in E. destruct (lookup s (e_pol e) k) as [it|] eqn:LK.
      - destruct (expired it nw).
        + destruct (drop_item e s it reasonExpired) as [[s2 ok] d] eqn:DI. injection E as <- _ _.
          split; [|eapply HP; eauto].
          destruct (lookup_resident _ _ _ _ C LK) as (Hf & _).
          apply (drop_item_preserves _ _ _ _ _ _ _ C Hf DI).
        + injection E as <- _ _. tauto.
      - injection E as <- _ _. tauto. }
    eapply IH; [apply C1|apply C1|exact H].
Qed.

(* ================================================================== *)
(** * 10b. The ghost-clock wrapper: one shard + ghost stamps, run over arbitrary operation sequences *)
(* ================================================================== *)

Record gstate := { g_sh : shard; g_touch : Z -> Z; g_born : Z -> Z; g_reads : Z -> Z; g_clk : Z }.

Inductive gop :=
| GSet (k v ex c : Z)        (* Set, or a SetAsync command applied by the drain *)
| GGet (k nw : Z)            (* Get / GetWithTTL at time nw *)
| GExists (k nw : Z)
| GDelete (k : Z)
| GCleanup (nw : Z)
| GKeys                      (* Keys / Size / Stats: no state change at all *)
| GClear.

Definition g_with (g : gstate) (s : shard) : gstate :=
  {| g_sh := s; g_touch := g_touch g; g_born := g_born g; g_reads := g_reads g; g_clk := g_clk g |}.

(* the shard updates are exactly the classic branches of op_set / op_get / op_exists / op_delete /
   op_cleanup / op_clear; the ghost fields change ONLY on a write and on a successful read *)
Definition gstep (e : env) (g : gstate) (op : gop) : gstate :=
  let s := g_sh g in
  let pol := e_pol e in
  match op with
  | GSet k v ex c =>
    let resident := match lookup s pol k with Some _ => true | None => false end in
    let '(s', _, _) := apply_classic e s k v ex c in
    {| g_sh := s'; g_touch := upd (g_touch g) k (g_clk g);
       g_born := if resident then g_born g else upd (g_born g) k (g_clk g);
       g_reads := upd (g_reads g) k 0; g_clk := g_clk g + 1 |}
  | GGet k nw =>
    match lookup s pol k with
    | None => g_with g s
    | Some it =>
      if expired it nw then let '(s1, _, _) := drop_item e s it reasonExpired in g_with g (adapts s1)
      else {| g_sh := adapts (get_hit_upd pol s it k); g_touch := upd (g_touch g) k (g_clk g);
              g_born := g_born g; g_reads := upd (g_reads g) k (g_reads g k + 1); g_clk := g_clk g + 1 |}
    end
  | GExists k nw =>
    match lookup s pol k with
    | None => g
    | Some it => if expired it nw then let '(s1, _, _) := drop_item e s it reasonExpired in g_with g s1 else g
    end
  | GDelete k =>
    match lookup s pol k with
    | None => g
    | Some it => let '(s1, _, _) := drop_item e s it reasonDeleted in g_with g s1
    end
  | GCleanup nw => let '(s1, _, _) := fold_left (cleanup_shard e nw) (tabk s) (s, 0, 0) in g_with g s1
  | GKeys => g
  | GClear => g_with g (clear_shard pol s)
  end.

Definition gop_ok (op : gop) : Prop := match op with GSet _ _ _ c => 0 <= c | _ => True end.

Record GInv (pol m : Z) (g : gstate) : Prop := {
  gi_good : Good pol m (g_sh g);
  gi_lru : pol = policyLRU -> OrdInv (g_touch g) (g_clk g) (g_sh g);     (* list sorted by last touch *)
  gi_fifo : pol <> policyLRU -> OrdInv (g_born g) (g_clk g) (g_sh g);    (* list sorted by insertion *)
  gi_lfu : pol = policyLFU -> ReadsInv (g_reads g) (g_sh g)              (* bucket = 1 + reads since last write *)
}.

Lemma GInv_with pol m g s :
  Good pol m s ->
  (forall f, OrdInv f (g_clk g) (g_sh g) -> OrdInv f (g_clk g) s) ->
  (pol = policyLFU -> ReadsInv (g_reads g) (g_sh g) -> ReadsInv (g_reads g) s) ->
  GInv pol m g -> GInv pol m (g_with g s).
Proof.
  intros G HO HR [I1 I2 I3 I4]. constructor; cbn [g_with g_sh g_touch g_born g_reads g_clk]; auto.
Qed.

Lemma GInv_lookup_drop pol m e g k it r s1 ok d :
  e_pol e = pol -> e_mask e = m -> 0 <= r -> GInv pol m g -> lookup (g_sh g) pol k = Some it ->
  drop_item e (g_sh g) it r = (s1, ok, d) -> GInv pol m (g_with g s1).
Proof.
  intros Hp Hm Hr I LK DI. pose proof (gi_good _ _ _ I) as G. subst pol m.
  apply GInv_with; [|intros f O|intros PL R|exact I].
  - eapply lookup_drop_good; eauto.
  - eapply order_lookup_drop; [apply G|exact LK|exact DI|exact O].
  - rewrite PL in *. eapply reads_lookup_drop; [exact PL|apply G|exact LK|exact DI|exact R].
Qed.

Lemma GInv_adapts pol m g : GInv pol m g -> GInv pol m (g_with g (adapts (g_sh g))).
Proof.
  intros I. apply GInv_with; [apply adapts_good; apply I| | |exact I].
  - intros f. apply order_adapts.
  - intros _. apply ReadsInv_frame. apply apply_adapts_frame.
Qed.

Theorem gstep_inv pol m e g op :
  e_pol e = pol -> e_mask e = m -> gop_ok op -> GInv pol m g -> GInv pol m (gstep e g op).
Proof.
  intros Hp Hm Hok I. pose proof (gi_good _ _ _ I) as G. pose proof G as (C & _).
  destruct op as [k v ex c|k nw|k nw|k|nw| |]; cbn [gstep gop_ok] in *; rewrite ?Hp.
  - (* Set *)
    destruct (apply_classic e (g_sh g) k v ex c) as [[s' cm] d] eqn:E.
    constructor; cbn [g_sh g_touch g_born g_reads g_clk].
    + eapply apply_classic_good; eauto.
    + intros PL. rewrite PL in *. eapply lru_apply_classic; eauto. apply (gi_lru _ _ _ I eq_refl).
    + intros PL.
      pose proof (fifo_apply_classic pol e (g_sh g) k v ex c s' cm d (g_born g) (g_clk g) Hp PL C Hok (gi_fifo _ _ _ I PL) E) as O.
      destruct (lookup (g_sh g) pol k); exact O.
    + intros PL. rewrite PL in *. eapply lfu_apply_classic; eauto. apply (gi_lfu _ _ _ I eq_refl).
  - (* Get *)
    destruct (lookup (g_sh g) pol k) as [it|] eqn:LK.
    + destruct (expired it nw).
      * destruct (drop_item e (g_sh g) it reasonExpired) as [[s1 ok] d] eqn:DI.
        pose proof (GInv_lookup_drop pol m e g k it reasonExpired s1 ok d Hp Hm ltac:(unfold reasonExpired; lia) I LK DI) as I1.
        apply (GInv_adapts pol m (g_with g s1)) in I1. exact I1.
      * constructor; cbn [g_sh g_touch g_born g_reads g_clk].
        -- apply adapts_good. apply get_hit_good; assumption.
        -- intros PL. apply order_adapts. rewrite PL in *. apply lru_get_hit; [exact C|apply (gi_lru _ _ _ I eq_refl)|exact LK].
        -- intros PL. apply order_adapts. apply (OrdInv_clock _ (g_clk g)); [lia|].
           apply fifo_get_hit; [exact PL|apply (gi_fifo _ _ _ I PL)].
        -- intros PL. eapply ReadsInv_frame; [apply apply_adapts_frame|]. rewrite PL in *.
           apply lfu_get_hit; [exact C|apply (gi_lfu _ _ _ I eq_refl)|exact LK].
    + destruct g; exact I.
  - (* Exists *)
    destruct (lookup (g_sh g) pol k) as [it|] eqn:LK; [|exact I].
    destruct (expired it nw); [|exact I].
    destruct (drop_item e (g_sh g) it reasonExpired) as [[s1 ok] d] eqn:DI.
    eapply GInv_lookup_drop; eauto. unfold reasonExpired; lia.
  - (* Delete *)
    destruct (lookup (g_sh g) pol k) as [it|] eqn:LK; [|exact I].
    destruct (drop_item e (g_sh g) it reasonDeleted) as [[s1 ok] d] eqn:DI.
    eapply GInv_lookup_drop; eauto. unfold reasonDeleted; lia.
  - (* Cleanup *)
    destruct (fold_left (cleanup_shard e nw) (tabk (g_sh g)) (g_sh g, 0, 0)) as [[s1 ev1] ex1] eqn:E.
    subst pol m. apply GInv_with; [|intros f O|intros PL R|exact I].
    + eapply cleanup_fold_good; eauto.
    + eapply order_cleanup_fold; [exact C|exact O|exact E].
    + apply (cleanup_fold_ind e nw (ReadsInv (g_reads g))) with (ks := tabk (g_sh g)) (s := g_sh g) (ev := 0) (ex := 0) (ev' := ev1) (ex' := ex1); auto.
      intros s0 k0 it0 s0' ok0 d0 C0 R0 LK0 DI0. rewrite PL in *. eapply reads_lookup_drop; eauto.
  - exact I.
  - (* Clear *)
    apply GInv_with; [apply clear_shard_good; exact G| | |exact I].
    + intros f _. apply order_clear.
    + intros PL _. rewrite PL. apply reads_clear.
Qed.

Definition grun (e : env) (g : gstate) (ops : list gop) : gstate := fold_left (gstep e) ops g.

(** The invariants hold along every operation sequence *)
Theorem grun_inv pol m e ops : forall g,
  e_pol e = pol -> e_mask e = m -> Forall gop_ok ops -> GInv pol m g -> GInv pol m (grun e g ops).
Proof.
  unfold grun. induction ops as [|op r IH]; intros g Hp Hm Hok I; cbn [fold_left]; [exact I|].
  inversion Hok as [|? ? H1 H2]; subst. apply IH; auto. eapply gstep_inv; eauto.
Qed.

Definition g_init (s : shard) : gstate :=
  {| g_sh := s; g_touch := fun _ => 0; g_born := fun _ => 0; g_reads := fun _ => 0; g_clk := 0 |}.

Lemma g_init_inv pol m cp ccp ev :
  is_sieve (empty_shard cp ccp ev) pol = false -> GInv pol m (g_init (empty_shard cp ccp ev)).
Proof.
  intros HS. constructor; cbn [g_init g_sh g_touch g_born g_reads g_clk].
  - apply empty_good. exact HS.
  - intros _. split; constructor.
  - intros _. split; constructor.
  - intros _ k [].
Qed.

(** Exists, Keys and failed lookups never change the ghost stamps (hence never the policy order) *)
Theorem gstep_stamps_unchanged e g op :
  match op with
  | GSet _ _ _ _ => True
  | GGet k nw => match lookup (g_sh g) (e_pol e) k with Some it => expired it nw = true | None => True end
  | _ => True
  end ->
  match op with GSet _ _ _ _ => True | _ =>
    g_touch (gstep e g op) = g_touch g /\ g_born (gstep e g op) = g_born g /\
    g_reads (gstep e g op) = g_reads g /\ g_clk (gstep e g op) = g_clk g end.
Proof.
  destruct op as [k v ex c|k nw|k nw|k|nw| |]; cbn [gstep]; intros H; try exact I.
  - destruct (lookup (g_sh g) (e_pol e) k) as [it|]; [|cbn; tauto].
    rewrite H. destruct (drop_item e (g_sh g) it reasonExpired) as [[s1 ok] d]. cbn. tauto.
  - destruct (lookup (g_sh g) (e_pol e) k) as [it|]; [|tauto].
    destruct (expired it nw); [|tauto]. destruct (drop_item e (g_sh g) it reasonExpired) as [[s1 ok] d]. cbn. tauto.
  - destruct (lookup (g_sh g) (e_pol e) k) as [it|]; [|tauto].
    destruct (drop_item e (g_sh g) it reasonDeleted) as [[s1 ok] d]. cbn. tauto.
  - destruct (fold_left (cleanup_shard e nw) (tabk (g_sh g)) (g_sh g, 0, 0)) as [[s1 ev1] ex1]. cbn. tauto.
  - tauto.
  - cbn. tauto.
Qed.

(* ================================================================== *)
(** * 11. Theorem 13: non-vacuity examples and refutations (vm_compute)  *)
(* ================================================================== *)

(* shard-level Set (ttl stamp 0) and read hit *)
Definition cset (e : env) (s : shard) (k v c : Z) : shard := fst (fst (apply_classic e s k v 0 c)).
Definition cget (pol : Z) (s : shard) (k : Z) : shard :=
  match lookup s pol k with Some it => get_hit_upd pol s it k | None => s end.

Lemma cset_good e s k v c : 0 <= c -> Good (e_pol e) (e_mask e) s -> Good (e_pol e) (e_mask e) (cset e s k v c).
Proof.
  intros Hc G. unfold cset. destruct (apply_classic e s k v 0 c) as [[s' cm] d] eqn:E. cbn [fst].
  eapply apply_classic_good; eauto.
Qed.

Lemma cget_good pol m s k : Good pol m s -> Good pol m (cget pol s k).
Proof.
  intros G. unfold cget. destruct (lookup s pol k) as [it|] eqn:E; [|exact G]. apply get_hit_good; assumption.
Qed.

Definition env_of_pol (pol : Z) : env := {| e_pol := pol; e_stats := true; e_mask := 1 |}.

(* Set 1, Set 2, Set 3, Get 1, Set 4 on a shard of capacity 3 *)
Definition ex_run (pol : Z) (ev : list (Z * Z)) : shard :=
  let e := env_of_pol pol in
  cset e (cget pol (cset e (cset e (cset e (empty_shard 3 0 ev) 1 10 1) 2 20 1) 3 30 1) 1) 4 40 1.

Lemma ex_run_good pol ev : (pol =? policySieve) = false -> Good pol 1 (ex_run pol ev).
Proof.
  intros HS. unfold ex_run.
  apply (cset_good (env_of_pol pol)); [lia|]. apply cget_good.
  do 3 (apply (cset_good (env_of_pol pol)); [lia|]).
  cbn [e_pol e_mask env_of_pol]. apply empty_good. unfold is_sieve. rewrite HS. reflexivity.
Qed.

(** LRU: the read of key 1 saves it; key 2 (least recently used) is evicted *)
Example lru_example :
  Good policyLRU 1 (ex_run policyLRU []) /\
  map key (lst (ex_run policyLRU [])) = [4; 1; 3] /\
  glog (ex_run policyLRU []) = [(0, 1, 10); (0, 2, 20); (0, 3, 30); (10, 2, 20); (0, 4, 40)] /\
  nlog (ex_run policyLRU []) = [{| nkey := 2; nval := 20; nreason := 0 |}] /\
  size (ex_run policyLRU []) = 3 /\ serr (ex_run policyLRU []) = 0.
Proof. split; [apply ex_run_good; reflexivity|]. vm_compute. repeat split; reflexivity. Qed.

(** FIFO: the read of key 1 does not matter; key 1 (earliest inserted) is evicted *)
Example fifo_example :
  Good policyFIFO 1 (ex_run policyFIFO []) /\
  map key (lst (ex_run policyFIFO [])) = [4; 3; 2] /\
  glog (ex_run policyFIFO []) = [(0, 1, 10); (0, 2, 20); (0, 3, 30); (10, 1, 10); (0, 4, 40)] /\
  nlog (ex_run policyFIFO []) = [{| nkey := 1; nval := 10; nreason := 0 |}] /\
  size (ex_run policyFIFO []) = 3 /\ serr (ex_run policyFIFO []) = 0.
Proof. split; [apply ex_run_good; reflexivity|]. vm_compute. repeat split; reflexivity. Qed.

(** LFU: key 1 has frequency 2; the oracle picks key 3 inside the minimum bucket {3, 2} *)
Example lfu_example :
  Good policyLFU 1 (ex_run policyLFU [(evLfu, 3)]) /\
  map key (lst (ex_run policyLFU [(evLfu, 3)])) = [4; 2; 1] /\
  lfu (ex_run policyLFU [(evLfu, 3)]) = [(1, [4; 2]); (2, [1])] /\
  glog (ex_run policyLFU [(evLfu, 3)]) = [(0, 1, 10); (0, 2, 20); (0, 3, 30); (10, 3, 30); (0, 4, 40)] /\
  size (ex_run policyLFU [(evLfu, 3)]) = 3 /\ serr (ex_run policyLFU [(evLfu, 3)]) = 0.
Proof. split; [apply ex_run_good; reflexivity|]. vm_compute. repeat split; reflexivity. Qed.

(** LFU refuses a victim outside the minimum bucket (key 1 has frequency 2): serr = 302, nothing dropped *)
Example lfu_bad_oracle_example :
  Good policyLFU 1 (ex_run policyLFU [(evLfu, 1)]) /\
  serr (ex_run policyLFU [(evLfu, 1)]) = 302 /\ size (ex_run policyLFU [(evLfu, 1)]) = 4 /\
  over_capacity (ex_run policyLFU [(evLfu, 1)]) = true.
Proof. split; [apply ex_run_good; reflexivity|]. vm_compute. repeat split; reflexivity. Qed.

(** Weighted (cost cap 10, LRU): updating key 1 from cost 4 to cost 8 grows the total to 12 and evicts key 2 *)
Definition ex_weighted : shard :=
  let e := env_of_pol policyLRU in
  cset e (cset e (cset e (empty_shard 0 10 []) 1 10 4) 2 20 4) 1 11 8.

Example weighted_example :
  Good policyLRU 1 ex_weighted /\
  map key (lst ex_weighted) = [1] /\ scost ex_weighted = 8 /\ size ex_weighted = 1 /\
  glog ex_weighted = [(0, 1, 10); (0, 2, 20); (1, 1, 10); (0, 1, 11); (10, 2, 20)] /\
  over_capacity ex_weighted = false.
Proof.
  split.
  - unfold ex_weighted. repeat (apply (cset_good (env_of_pol policyLRU)); [lia|]). apply empty_good. reflexivity.
  - vm_compute. repeat split; reflexivity.
Qed.

(** Refutation A: "drop_item preserves the Ledger for ANY reason" is false for negative reason codes:
    reason -10 writes tag 0, which reads as a second write of the value.  (NotifLog and CInv still hold.) *)
Example drop_item_negative_reason_refuted :
  let e := env_of_pol policyLRU in
  let s := cset e (empty_shard 3 0 []) 1 10 1 in
  Ledger s /\
  forall it, find_item (lst s) 1 = Some it ->
    let '(s', _, _) := drop_item e s it (-10) in ~ Ledger s'.
Proof.
  cbv zeta. split.
  - assert (G : Good policyLRU 1 (cset (env_of_pol policyLRU) (empty_shard 3 0 []) 1 10 1)).
    { apply (cset_good (env_of_pol policyLRU)); [lia|]. apply empty_good. reflexivity. }
    apply G.
  - intros it H. vm_compute in H. injection H as <-. intros L. specialize (L 1 10). vm_compute in L. discriminate.
Qed.

(** Refutation B: "at most one drop without a cost cap" needs [over_capacity s = false]: CInv alone allows
    a shard holding more than its capacity, and then the insertion drops several entries. *)
Definition recap (s : shard) (cp : Z) : shard :=
  {| cap := cp; costcap := 0; tabk := tabk s; lst := lst s; lfu := lfu s; prob := []; main := []; hand := None;
     pcap := 0; mcap := 0; pmin := 0; pmax := 0; size := size s; scost := scost s; staged := []; evs := []; pend := [];
     admits := 0; rejects := 0; ghosthits := 0; promos := 0; pevicts := 0; mevicts := 0; serr := 0;
     glog := glog s; nlog := nlog s |}.

Lemma CInv_recap pol s cp : (pol =? policySieve) = false -> CInv pol s -> CInv pol (recap s cp).
Proof.
  intros HS [C1 C2 C3 C4 C5 C6 C7 C8 C9 C10 C11]. unfold recap.
  constructor; cbn [cap tabk lst lfu prob main hand size scost]; try assumption; try reflexivity.
  unfold is_sieve. rewrite HS. reflexivity.
Qed.

Definition ex_over : shard :=
  let e := env_of_pol policyLRU in
  recap (cset e (cset e (cset e (empty_shard 0 0 []) 1 10 1) 2 20 1) 3 30 1) 1.

Example at_most_one_needs_not_over_refuted :
  CInv policyLRU ex_over /\ costcap ex_over = 0 /\ lookup ex_over policyLRU 4 = None /\
  over_capacity ex_over = true /\
  cnt is_dropped (glog (cset (env_of_pol policyLRU) ex_over 4 40 1)) = 3.
Proof.
  split; [|vm_compute; repeat split; reflexivity].
  unfold ex_over. apply CInv_recap; [reflexivity|].
  assert (G : Good policyLRU 1 (cset (env_of_pol policyLRU) (cset (env_of_pol policyLRU) (cset (env_of_pol policyLRU) (empty_shard 0 0 []) 1 10 1) 2 20 1) 3 30 1)).
  { repeat (apply (cset_good (env_of_pol policyLRU)); [lia|]). apply empty_good. reflexivity. }
  apply G.
Qed.

(** Refutation C: in the budget theorem "serr s' = serr s" is NOT enough (serr is sticky, so an oracle failure is
    invisible when an error is already recorded): the hypothesis has to be [serr s' = 0]. *)
Example budget_needs_serr_zero_refuted :
  let e := env_of_pol policyLFU in
  let s := sh_err (cset e (empty_shard 1 0 []) 1 10 1) 7 in
  CInv policyLFU s /\ over_capacity s = false /\
  let '(s', _, _) := apply_classic e s 2 20 0 1 in serr s' = serr s /\ over_capacity s' = true.
Proof.
  cbv zeta. split; [|vm_compute; repeat split; reflexivity].
  eapply CInv_frame; [apply Frame_sh_err|].
  assert (G : Good policyLFU 1 (cset (env_of_pol policyLFU) (empty_shard 1 0 []) 1 10 1)).
  { apply (cset_good (env_of_pol policyLFU)); [lia|]. apply empty_good. reflexivity. }
  apply G.
Qed.


(** Refutation D: the second half of [update_effective] ("the update sticks whenever costcap = 0 or the cost does
    not grow") also needs [over_capacity s = false]: on an over-full FIFO shard the updated key may be the tail. *)
Definition ex_over_fifo : shard :=
  let e := env_of_pol policyFIFO in
  recap (cset e (cset e (cset e (empty_shard 0 0 []) 1 10 1) 2 20 1) 3 30 1) 1.

Example update_effective_needs_not_over_refuted :
  CInv policyFIFO ex_over_fifo /\ costcap ex_over_fifo = 0 /\
  (exists old, lookup ex_over_fifo policyFIFO 1 = Some old /\ 1 <= cost old) /\
  lookup (cset (env_of_pol policyFIFO) ex_over_fifo 1 11 1) policyFIFO 1 = None.
Proof.
  split; [|vm_compute; repeat split; try reflexivity; eexists; split; [reflexivity|discriminate]].
  unfold ex_over_fifo. apply CInv_recap; [reflexivity|].
  assert (G : Good policyFIFO 1 (cset (env_of_pol policyFIFO) (cset (env_of_pol policyFIFO) (cset (env_of_pol policyFIFO) (empty_shard 0 0 []) 1 10 1) 2 20 1) 3 30 1)).
  { repeat (apply (cset_good (env_of_pol policyFIFO)); [lia|]). apply empty_good. reflexivity. }
  apply G.
Qed.

(** Sieve with cap = 0 takes the classic (FIFO-like) path: CInv applies, and with costcap = 0 nothing is ever dropped *)
Definition ex_sieve0 : shard :=
  let e := env_of_pol policySieve in
  cset e (cget policySieve (cset e (cset e (empty_shard 0 0 []) 1 10 1) 2 20 1) 1) 1 11 1.

Example sieve_cap0_example :
  Good policySieve 1 ex_sieve0 /\ map key (lst ex_sieve0) = [2; 1] /\
  glog ex_sieve0 = [(0, 1, 10); (0, 2, 20); (1, 1, 10); (0, 1, 11)] /\ nlog ex_sieve0 = [] /\ serr ex_sieve0 = 0.
Proof.
  split; [|vm_compute; repeat split; reflexivity].
  unfold ex_sieve0. apply (cset_good (env_of_pol policySieve)); [lia|]. apply cget_good.
  do 2 (apply (cset_good (env_of_pol policySieve)); [lia|]). apply empty_good. reflexivity.
Qed.

(* ================================================================== *)
(** * 12. Cache level: the classic branches of op_get / op_exists / op_delete / op_set act on their
        shard exactly like the wrapper steps GGet / GExists / GDelete / GSet                      *)
(* ================================================================== *)

Lemma nth_error_set_nth_same {A} (l : list A) i x y :
  nth_error l i = Some y -> nth_error (set_nth l i x) i = Some x.
Proof.
  revert i. induction l as [|a l IH]; intros [|i]; cbn [nth_error set_nth]; try discriminate; auto.
Qed.

Lemma get_put_same c sh s s1 h m ev ex :
  get_shard c sh = Some s -> get_shard (put_shard c sh s1 h m ev ex) sh = Some s1.
Proof. unfold get_shard, put_shard. cbn [shards]. apply nth_error_set_nth_same. Qed.

Theorem op_get_classic c k sh s g :
  closed c = false -> get_shard c sh = Some s -> is_sieve s (policy c) = false -> g_sh g = s ->
  get_shard (fst (fst (fst (op_get c k sh)))) sh = Some (g_sh (gstep (env_of c) g (GGet k (now c)))).
Proof.
  intros Hc Hg Hs Hgs. unfold op_get. rewrite Hc, Hg. cbv zeta. rewrite Hs. cbn [andb]. rewrite Hg.
  cbn [gstep]. change (e_pol (env_of c)) with (policy c). rewrite Hgs.
  destruct (lookup s (policy c) k) as [it|] eqn:LK.
  - destruct (expired it (now c)).
    + destruct (drop_item (env_of c) s it reasonExpired) as [[s1 ok] d] eqn:DI.
      cbn [fst g_with g_sh]. eapply get_put_same; eauto.
    + cbn [fst g_sh]. erewrite get_put_same by eauto. reflexivity.
  - cbn [fst g_with g_sh]. eapply get_put_same; eauto.
Qed.

Theorem op_exists_classic c k sh s g :
  closed c = false -> get_shard c sh = Some s -> g_sh g = s ->
  get_shard (fst (op_exists c k sh)) sh = Some (g_sh (gstep (env_of c) g (GExists k (now c)))).
Proof.
  intros Hc Hg Hgs. unfold op_exists. rewrite Hc, Hg. cbn [gstep]. change (e_pol (env_of c)) with (policy c). rewrite Hgs.
  destruct (lookup s (policy c) k) as [it|] eqn:LK; [|cbn [fst]; rewrite Hg, Hgs; reflexivity].
  destruct (expired it (now c)); [|cbn [fst]; rewrite Hg, Hgs; reflexivity].
  destruct (drop_item (env_of c) s it reasonExpired) as [[s1 ok] d] eqn:DI.
  cbn [fst g_with g_sh]. eapply get_put_same; eauto.
Qed.

Lemma drain_shard_quiescent c sh s : get_shard c sh = Some s -> pend s = [] -> drain_shard c sh = c.
Proof. intros Hg Hp. unfold drain_shard. rewrite Hg, Hp. reflexivity. Qed.

Theorem op_delete_classic c k sh s g :
  closed c = false -> get_shard c sh = Some s -> pend s = [] -> g_sh g = s ->
  get_shard (fst (op_delete c k sh)) sh = Some (g_sh (gstep (env_of c) g (GDelete k))).
Proof.
  intros Hc Hg Hp Hgs. unfold op_delete. rewrite Hc. cbv zeta. rewrite (drain_shard_quiescent c sh s Hg Hp), Hg.
  cbn [gstep]. change (e_pol (env_of c)) with (policy c). rewrite Hgs.
  destruct (lookup s (policy c) k) as [it|] eqn:LK; [|cbn [fst]; rewrite Hg, Hgs; reflexivity].
  destruct (drop_item (env_of c) s it reasonDeleted) as [[s1 ok] d] eqn:DI.
  cbn [fst g_with g_sh]. eapply get_put_same; eauto.
Qed.

Theorem op_set_classic c k v ttl cst sh s g :
  get_shard c sh = Some s -> pend s = [] -> is_sieve s (policy c) = false -> g_sh g = s ->
  set_check c sh cst = 0 ->
  0 <= cst /\
  get_shard (fst (op_set c k v ttl cst sh)) sh =
    Some (g_sh (gstep (env_of c) g (GSet k v (stamp (norm_ttl c ttl) (now c)) cst))).
Proof.
  intros Hg Hp Hs Hgs Hck. split.
  - unfold set_check in Hck. destruct (Z.ltb_spec cst 0); [discriminate|lia].
  - unfold op_set. rewrite Hck. cbn [Z.eqb negb]. rewrite (drain_shard_quiescent c sh s Hg Hp).
    unfold apply_cmd. rewrite Hg. unfold apply_set. change (e_pol (env_of c)) with (policy c). rewrite Hs.
    cbn [gstep]. change (e_pol (env_of c)) with (policy c). rewrite Hgs.
    destruct (apply_classic _ s k v (stamp (norm_ttl c ttl) (now c)) cst) as [[s1 cm] d] eqn:E.
    cbn [fst g_sh]. eapply get_put_same; eauto.
Qed.

(* Cleanup and Clear at cache level *)
Definition cleanup_of (e : env) (nw : Z) (s : shard) : shard :=
  fst (fst (fold_left (cleanup_shard e nw) (tabk s) (s, 0, 0))).

Lemma cleanup_shard_indep e nw s ev ex ev' ex' k :
  fst (fst (cleanup_shard e nw (s, ev, ex) k)) = fst (fst (cleanup_shard e nw (s, ev', ex') k)).
Proof.
  unfold cleanup_shard. destruct (lookup s (e_pol e) k) as [it|]; [|reflexivity].
  destruct (expired it nw); [|reflexivity].
  destruct (drop_item e s it reasonExpired) as [[s1 ok] d]. reflexivity.
Qed.

Lemma cleanup_fold_indep e nw ks : forall s ev ex ev' ex',
  fst (fst (fold_left (cleanup_shard e nw) ks (s, ev, ex))) = fst (fst (fold_left (cleanup_shard e nw) ks (s, ev', ex'))).
Proof.
  induction ks as [|k r IH]; intros s ev ex ev' ex'; cbn [fold_left]; [reflexivity|].
  pose proof (cleanup_shard_indep e nw s ev ex ev' ex' k) as E.
  destruct (cleanup_shard e nw (s, ev, ex) k) as [[s1 a1] b1].
  destruct (cleanup_shard e nw (s, ev', ex') k) as [[s2 a2] b2]. cbn [fst] in E. subst s2. apply IH.
Qed.

Theorem op_cleanup_shards c :
  closed c = false -> shards (op_cleanup c) = map (cleanup_of (env_of c) (now c)) (shards c).
Proof.
  intros Hc. unfold op_cleanup. rewrite Hc.
  set (step := fun (acc : list shard * Z * Z) (s : shard) =>
    let '(l, ev, ex) := acc in
    let '(s1, ev1, ex1) := fold_left (cleanup_shard (env_of c) (now c)) (tabk s) (s, ev, ex) in
    (l ++ [s1], ev1, ex1)).
  assert (K : forall ss l ev ex, fst (fst (fold_left step ss (l, ev, ex))) = l ++ map (cleanup_of (env_of c) (now c)) ss).
  { induction ss as [|s ss IH]; intros l ev ex; cbn [fold_left map]; [rewrite app_nil_r; reflexivity|].
    unfold step at 2.
    pose proof (cleanup_fold_indep (env_of c) (now c) (tabk s) s ev ex 0 0) as E.
    destruct (fold_left (cleanup_shard (env_of c) (now c)) (tabk s) (s, ev, ex)) as [[s1 ev1] ex1].
    rewrite IH. unfold cleanup_of. rewrite <- E. cbn [fst]. rewrite <- app_assoc. reflexivity. }
  specialize (K (shards c) [] (evictions c) (expirations c)).
  destruct (fold_left step (shards c) ([], evictions c, expirations c)) as [[l ev] ex]. cbn [fst] in K.
  cbn [shards]. exact K.
Qed.

Lemma drain_all_quiescent c : (forall s, In s (shards c) -> pend s = []) -> drain_all c = c.
Proof.
  intros H. unfold drain_all.
  assert (K : forall l, fold_left drain_shard l c = c).
  { induction l as [|i l IH]; cbn [fold_left]; [reflexivity|].
    assert (E : drain_shard c i = c).
    { unfold drain_shard. destruct (get_shard c i) as [s|] eqn:G; [|reflexivity].
      rewrite (H s); [reflexivity|]. unfold get_shard in G. eapply nth_error_In; eauto. }
    rewrite E. exact IH. }
  apply K.
Qed.

Theorem op_clear_shards c :
  closed c = false -> (forall s, In s (shards c) -> pend s = []) ->
  shards (op_clear c) = map (clear_shard (policy c)) (shards c).
Proof. intros Hc H. unfold op_clear. rewrite Hc, (drain_all_quiescent c H). reflexivity. Qed.

Lemma gstep_cleanup_shard e g nw : g_sh (gstep e g (GCleanup nw)) = cleanup_of e nw (g_sh g).
Proof.
  cbn [gstep]. unfold cleanup_of.
  destruct (fold_left (cleanup_shard e nw) (tabk (g_sh g)) (g_sh g, 0, 0)) as [[s1 a] b]. reflexivity.
Qed.

Lemma gstep_clear_shard e g : g_sh (gstep e g GClear) = clear_shard (e_pol e) (g_sh g).
Proof. reflexivity. Qed.
