(* HtableLts.v — a labelled transition system for htable.go under concurrency: ONE writer (the holder of
   the shard lock) against any number of lock-free readers.  Executable; no proofs inside.

   Shared memory = a list of slot arrays (a fresh one is appended by every clear / rehash and is never
   reclaimed: readers may still hold the old one) + the index of the current array (t.data).
   A slot is two separately atomic words {ctag, citem}.  Every lstep of a thread runs it from the yield
   point it is parked at to its next yield point (or to the end of its operation), performing exactly
   the shared accesses the Go code performs in between (verifYield(n) markers of /repo/htable.go).

   The writer's own reads (probe loops of store / probe / removeExact / reclaimTombs / rehash) do not
   yield: nobody else writes.  The wrapper's Remove = lookup then removeExact calls the real lock-free
   `lookup`, so the writer parks at 201/202/203 during that lookup like any reader would. *)
Require Import KV.Base KV.Gen.Consts KV.HtableModel.
Open Scope Z_scope.

(* ------------------------------------------------------------------ *)
(** * Shared memory                                                      *)
(* ------------------------------------------------------------------ *)

Record ccell := { ctag : Z; citem : option item }.
Definition cempty : ccell := {| ctag := 0; citem := None |}.

Definition getcc (a : list ccell) (i : nat) : ccell := nth i a cempty.
Fixpoint setcc (a : list ccell) (i : nat) (c : ccell) : list ccell :=
  match a, i with
  | [], _ => []
  | _ :: r, O => c :: r
  | x :: r, S j => x :: setcc r j c
  end.
(* the two atomic stores *)
Definition set_tag (a : list ccell) (i : nat) (t : Z) : list ccell :=
  setcc a i {| ctag := t; citem := citem (getcc a i) |}.
Definition set_item (a : list ccell) (i : nat) (x : option item) : list ccell :=
  setcc a i {| ctag := ctag (getcc a i); citem := x |}.

Record mem := { arrs : list (list ccell); data : nat }.
Definition getarr (m : mem) (d : nat) : list ccell := nth d (arrs m) [].
Definition cur_arr (m : mem) : list ccell := getarr m (data m).

Fixpoint set_nth {A} (l : list A) (i : nat) (x : A) : list A :=
  match l, i with
  | [], _ => []
  | _ :: r, O => x :: r
  | y :: r, S j => y :: set_nth r j x
  end.
Definition upd_arr (m : mem) (d : nat) (a : list ccell) : mem :=
  {| arrs := set_nth (arrs m) d a; data := data m |}.
Definition store_tag (m : mem) (d i : nat) (t : Z) : mem := upd_arr m d (set_tag (getarr m d) i t).
Definition store_item (m : mem) (d i : nat) (x : option item) : mem := upd_arr m d (set_item (getarr m d) i x).
(* t.data.Store(fresh array) *)
Definition store_data (m : mem) (a : list ccell) : mem :=
  {| arrs := arrs m ++ [a]; data := length (arrs m) |}.

Definition ntag (it : item) : Z := norm (ihash it).

(* ------------------------------------------------------------------ *)
(** * The writer's private reads (no yields), on the two-word cells      *)
(* ------------------------------------------------------------------ *)

(* the walk shared by store and probe (htable.go:95-125, 149-169) *)
Fixpoint cwalk (fuel : nat) (a : list ccell) (n i : nat) (ft : option nat) (tag k : Z) : probe_res :=
  match fuel with
  | O => PFuel
  | S f =>
    let c := getcc a i in
    if ctag c =? 0 then match ft with Some j => PEmpty j true | None => PEmpty i false end
    else if ctag c =? 1 then
      cwalk f a n (next_in n i) (match ft with Some _ => ft | None => Some i end) tag k
    else if ctag c =? tag then
      match citem c with
      | Some it => if ikey it =? k then PFound i it else cwalk f a n (next_in n i) ft tag k
      | None => cwalk f a n (next_in n i) ft tag k
      end
    else cwalk f a n (next_in n i) ft tag k
  end.
Definition cwalk_top (a : list ccell) (h k : Z) : probe_res :=
  let n := length a in cwalk n a n (home_in n h) None (norm h) k.

(* removeExact's search (htable.go:212-230); pointer identity = iid identity *)
Fixpoint cfind_exact (fuel : nat) (a : list ccell) (n i : nat) (tag : Z) (it : item) : option (option nat) :=
  match fuel with
  | O => None
  | S f =>
    let c := getcc a i in
    if ctag c =? 0 then Some None
    else if (ctag c =? tag) &&
            match citem c with Some cur => iid cur =? iid it | None => false end
         then Some (Some i)
         else cfind_exact f a n (next_in n i) tag it
  end.

(* rehash (htable.go:303-326): private construction of the new array *)
Fixpoint cfirst_empty (fuel : nat) (a : list ccell) (n i : nat) : option nat :=
  match fuel with
  | O => None
  | S f => if ctag (getcc a i) =? 0 then Some i else cfirst_empty f a n (next_in n i)
  end.
Definition creinsert (n : nat) (acc : list ccell * bool) (c : ccell) : list ccell * bool :=
  if ctag c <=? 1 then acc
  else match citem c with
       | None => acc
       | Some it =>
         match cfirst_empty n (fst acc) n (home_in n (ihash it)) with
         | Some j => (setcc (fst acc) j {| ctag := ntag it; citem := Some it |}, snd acc)
         | None => (fst acc, true)
         end
       end.
Definition crehash (a : list ccell) (newN : nat) : list ccell * bool :=
  fold_left (creinsert newN) a (repeat cempty newN, false).
Definition ccount_live (a : list ccell) : Z :=
  fold_left (fun acc c => if 2 <=? ctag c then acc + 1 else acc) a 0.

(* ------------------------------------------------------------------ *)
(** * Threads                                                            *)
(* ------------------------------------------------------------------ *)

Inductive wop :=
| WStore (it : item) | WRemove (k h : Z) | WProbe (k h : Z) | WPublish (it : item)
| WUnpin | WSwap (it : item) | WClear.
Inductive rop := RLookup (k h : Z).

(* htCursor: d = nil is None *)
Record wcursor := { wcd : option nat; wcslot : nat; wctomb : bool }.
Definition nocursor : wcursor := {| wcd := None; wcslot := O; wctomb := false |}.

(* writer-private state: htable.live/tombs/pinned + the wrapper's cursor and matched slot pointer *)
Record wpriv := {
  wlive : Z; wtombs : Z; wpin : option nat;
  wcur : wcursor;
  wfslot : option (nat * nat);      (* *htslot = (array, index) *)
  werr : bool                       (* a private loop ran out of fuel (never, under the invariant) *)
}.

(* program counters: WB / RB = AtBoundary; otherwise the yield number parked at + locals *)
Inductive wpc :=
| WB
| W201 (k h : Z) | W202 (d i : nat) (k h : Z) | W203 (d i : nat) (k h : Z)   (* Remove's lookup *)
| W211 (dst : nat) (it : item)            (* store: before dst.item.Store(it) *)
| W212 (dst : nat) (it : item)            (* store: before dst.tag.Store(tag) *)
| W213 (s : nat) (it : item) (r1 r2 : Z)  (* store: before the replacing s.item.Store(it) *)
| W214 (a s : nat) (it : item)            (* swapAt: before slot.item.Store(it) *)
| W221 (s : nat) (it : item) (wasTomb : bool)
| W222 (s : nat) (it : item) (wasTomb : bool)
| W231 (i : nat)                          (* removeExact: before s.tag.Store(1) *)
| W232 (i : nat)                          (* removeExact: before s.item.Store(nil) *)
| W233 (i : nat)                          (* reclaimTombs: before slots[i].tag.Store(0) *)
| W241 (n : nat)                          (* clear: before t.data.Store *)
| W251 (nd : list ccell) (lv : Z).        (* rehash: before t.data.Store(nd) *)

Inductive rpc :=
| RB
| R201 (k h : Z) | R202 (d i : nat) (k h : Z) | R203 (d i : nat) (k h : Z).

Record rthread := { rpcof : rpc; rscript : list rop }.

Record gstate := {
  gmem : mem;
  gw : wpriv;
  gwpc : wpc;
  gws : list wop;
  grs : list rthread;
  gnextid : Z                      (* stream interface: next item id *)
}.

(* ------------------------------------------------------------------ *)
(** * lookup (htable.go:69-88), one yield-to-yield segment at a time     *)
(* ------------------------------------------------------------------ *)

Inductive lk_res :=
| LkPark202 (d i : nat) | LkPark203 (d i : nat) | LkMiss | LkHit (it : item).

(* from 201: d := t.data.Load(); i := tag & d.mask; park at 202 *)
Definition lk_from201 (m : mem) (h : Z) : lk_res :=
  let d := data m in LkPark202 d (home_in (length (getarr m d)) h).
(* from 202: switch s.tag.Load() *)
Definition lk_from202 (m : mem) (d i : nat) (h : Z) : lk_res :=
  let a := getarr m d in
  let t := ctag (getcc a i) in
  if t =? 0 then LkMiss
  else if t =? norm h then LkPark203 d i
  else LkPark202 d (next_in (length a) i).
(* from 203: it := s.item.Load() *)
Definition lk_from203 (m : mem) (d i : nat) (k : Z) : lk_res :=
  let a := getarr m d in
  match citem (getcc a i) with
  | Some it => if ikey it =? k then LkHit it else LkPark202 d (next_in (length a) i)
  | None => LkPark202 d (next_in (length a) i)
  end.

(* ------------------------------------------------------------------ *)
(** * Readers                                                            *)
(* ------------------------------------------------------------------ *)

Definition rstep (m : mem) (th : rthread) : option (rthread * list Z) :=
  let park pc p := Some ({| rpcof := pc; rscript := rscript th |}, [p; 0; 0]) in
  let of_res k h r :=
    match r with
    | LkPark202 d i => park (R202 d i k h) 202
    | LkPark203 d i => park (R203 d i k h) 203
    | LkMiss => Some ({| rpcof := RB; rscript := rscript th |}, [0; 0; 0])
    | LkHit it => Some ({| rpcof := RB; rscript := rscript th |}, [0; 1; ival it])
    end in
  match rpcof th with
  | RB =>
    match rscript th with
    | [] => None
    | RLookup k h :: r => Some ({| rpcof := R201 k h; rscript := r |}, [201; 0; 0])
    end
  | R201 k h => of_res k h (lk_from201 m h)
  | R202 d i k h => of_res k h (lk_from202 m d i h)
  | R203 d i k h => of_res k h (lk_from203 m d i k)
  end.

(* ------------------------------------------------------------------ *)
(** * The writer                                                         *)
(* ------------------------------------------------------------------ *)

Definition wp_set (w : wpriv) (lv tb : Z) (p : option nat) : wpriv :=
  {| wlive := lv; wtombs := tb; wpin := p; wcur := wcur w; wfslot := wfslot w; werr := werr w |}.
Definition wp_err (w : wpriv) : wpriv :=
  {| wlive := wlive w; wtombs := wtombs w; wpin := wpin w; wcur := wcur w; wfslot := wfslot w; werr := true |}.
Definition wp_probe (w : wpriv) (p : option nat) (c : wcursor) (fs : option (nat * nat)) : wpriv :=
  {| wlive := wlive w; wtombs := wtombs w; wpin := p; wcur := c; wfslot := fs; werr := werr w |}.
Definition wp_fslot (w : wpriv) (fs : option (nat * nat)) : wpriv :=
  {| wlive := wlive w; wtombs := wtombs w; wpin := wpin w; wcur := wcur w; wfslot := fs; werr := werr w |}.

(* result of a writer segment: new memory, private state, pc, observation *)
Definition wres := (mem * wpriv * wpc * list Z)%type.
Definition wdone (m : mem) (w : wpriv) (r1 r2 : Z) : wres := (m, w, WB, [0; r1; r2]).
Definition wpark (m : mem) (w : wpriv) (pc : wpc) (p : Z) : wres := (m, w, pc, [p; 0; 0]).

(* maybeGrow (htable.go:286-298) up to yield 251, or the end of the operation *)
Definition w_maybe_grow (m : mem) (w : wpriv) (r1 r2 : Z) : wres :=
  let a := cur_arr m in
  let n := Z.of_nat (length a) in
  if (wlive w + wtombs w) * htLoadDen <? n * htLoadNum then wdone m w r1 r2
  else
    let newN := if wlive w * htLoadDen >=? n * htLoadNum then (length a * 2)%nat else length a in
    let '(nd, e) := crehash a newN in
    wpark m (if e then wp_err w else w) (W251 nd (ccount_live nd)) 251.

(* store (htable.go:90-126) from its entry to its first yield; (r1, r2) is what the caller reports on
   the replace path (store itself: 1, previous value; publish's fallback: 0, 0) *)
Definition w_store_entry (m : mem) (w : wpriv) (it : item) (report : bool) : wres :=
  match cwalk_top (cur_arr m) (ihash it) (ikey it) with
  | PEmpty dst tomb =>
    wpark m (if tomb then wp_set w (wlive w) (wtombs w - 1) (wpin w) else w) (W211 dst it) 211
  | PFound s cur =>
    if report then wpark m w (W213 s it 1 (ival cur)) 213 else wpark m w (W213 s it 0 0) 213
  | PFuel => wdone m (wp_err w) 0 0
  end.

(* the loop head of reclaimTombs (htable.go:244): park at 233 or finish the Remove with true *)
Definition w_reclaim_head (m : mem) (w : wpriv) (i : nat) : wres :=
  if negb (is_pin (wpin w) i) && (ctag (getcc (cur_arr m) i) =? 1)
  then wpark m w (W233 i) 233
  else wdone m w 1 0.

(* removeExact (htable.go:208-231) from its entry to yield 231, or its end *)
Definition w_remove_entry (m : mem) (w : wpriv) (it : item) : wres :=
  let a := cur_arr m in
  let n := length a in
  match cfind_exact n a n (home_in n (ihash it)) (ntag it) it with
  | Some (Some i) => wpark m w (W231 i) 231
  | Some None => wdone m w 0 0
  | None => wdone m (wp_err w) 0 0
  end.

(* Remove's lookup phase: continue as removeExact on a hit, finish with false on a miss *)
Definition w_of_lookup (m : mem) (w : wpriv) (k h : Z) (r : lk_res) : wres :=
  match r with
  | LkPark202 d i => wpark m w (W202 d i k h) 202
  | LkPark203 d i => wpark m w (W203 d i k h) 203
  | LkMiss => wdone m w 0 0
  | LkHit it => w_remove_entry m w it
  end.

Definition wstep (m : mem) (w : wpriv) (pc : wpc) (ws : list wop) : option (wres * list wop) :=
  let d := data m in
  let a := cur_arr m in
  let n := length a in
  match pc with
  | WB =>
    match ws with
    | [] => None
    | op :: r =>
      Some (match op with
            | WStore it => w_store_entry m w it true
            | WRemove k h => wpark m w (W201 k h) 201
            | WProbe k h =>
              match cwalk_top a h k with
              | PEmpty j tomb =>
                wdone m (wp_probe w (Some j) {| wcd := Some d; wcslot := j; wctomb := tomb |} None) 0 0
              | PFound s it => wdone m (wp_probe w (wpin w) nocursor (Some (d, s))) 1 (ival it)
              | PFuel => wdone m (wp_probe (wp_err w) (wpin w) nocursor None) 0 0
              end
            | WPublish it =>
              let w0 := wp_set w (wlive w) (wtombs w) None in           (* t.pinned = htNoPin *)
              match wcd (wcur w) with
              | Some cd =>
                if Nat.eqb cd d then
                  let s := wcslot (wcur w) in
                  wpark m w0 (W221 s it (wctomb (wcur w) && (ctag (getcc a s) =? 1))) 221
                else w_store_entry m w0 it false
              | None => w_store_entry m w0 it false
              end
            | WUnpin => wdone m (wp_set w (wlive w) (wtombs w) None) 0 0
            | WSwap it =>
              match wfslot w with
              | Some (fa, fs) => wpark m w (W214 fa fs it) 214
              | None => wdone m w 0 0                                    (* nil slot: protocol violation *)
              end
            | WClear => wpark m w (W241 n) 241
            end, r)
    end
  | W201 k h => Some (w_of_lookup m w k h (lk_from201 m h), ws)
  | W202 dd i k h => Some (w_of_lookup m w k h (lk_from202 m dd i h), ws)
  | W203 dd i k h => Some (w_of_lookup m w k h (lk_from203 m dd i k), ws)
  | W211 dst it => Some (wpark (store_item m d dst (Some it)) w (W212 dst it) 212, ws)
  | W212 dst it =>
    Some (w_maybe_grow (store_tag m d dst (ntag it)) (wp_set w (wlive w + 1) (wtombs w) (wpin w)) 0 0, ws)
  | W213 s it r1 r2 => Some (wdone (store_item m d s (Some it)) w r1 r2, ws)
  | W214 fa fs it => Some (wdone (store_item m fa fs (Some it)) (wp_fslot w None) 0 0, ws)
  | W221 s it wt => Some (wpark (store_item m d s (Some it)) w (W222 s it wt) 222, ws)
  | W222 s it wt =>
    Some (w_maybe_grow (store_tag m d s (ntag it))
            (wp_set w (wlive w + 1) (if wt then wtombs w - 1 else wtombs w) (wpin w)) 0 0, ws)
  | W231 i => Some (wpark (store_tag m d i 1) w (W232 i) 232, ws)
  | W232 i =>
    let m1 := store_item m d i None in
    let w1 := wp_set w (wlive w - 1) (wtombs w + 1) (wpin w) in
    let nx := next_in n i in
    Some (if is_pin (wpin w) nx || negb (ctag (getcc (cur_arr m1) nx) =? 0)
          then wdone m1 w1 1 0
          else w_reclaim_head m1 w1 i, ws)
  | W233 i =>
    let m1 := store_tag m d i 0 in
    let w1 := wp_set w (wlive w) (wtombs w - 1) (wpin w) in
    Some (w_reclaim_head m1 w1 (prev_in n i), ws)
  | W241 n0 => Some (wdone (store_data m (repeat cempty n0)) (wp_set w 0 0 None) 0 0, ws)
  | W251 nd lv => Some (wdone (store_data m nd) (wp_set w lv 0 None) 0 0, ws)
  end.

(* ------------------------------------------------------------------ *)
(** * The global step                                                    *)
(* ------------------------------------------------------------------ *)

Definition lstep (g : gstate) (tid : nat) : option (gstate * list Z) :=
  match tid with
  | O =>
    match wstep (gmem g) (gw g) (gwpc g) (gws g) with
    | Some ((m, w, pc, o), ws) =>
      Some ({| gmem := m; gw := w; gwpc := pc; gws := ws; grs := grs g; gnextid := gnextid g |}, o)
    | None => None
    end
  | S r =>
    match nth_error (grs g) r with
    | Some th =>
      match rstep (gmem g) th with
      | Some (th', o) =>
        Some ({| gmem := gmem g; gw := gw g; gwpc := gwpc g; gws := gws g;
                 grs := set_nth (grs g) r th'; gnextid := gnextid g |}, o)
      | None => None
      end
    | None => None
    end
  end.

(* run a schedule, collecting the observations ([-1] for a thread with nothing to do) *)
Fixpoint lrun (g : gstate) (sch : list nat) : gstate * list (list Z) :=
  match sch with
  | [] => (g, [])
  | t :: r =>
    match lstep g t with
    | Some (g1, o) => let '(g2, os) := lrun g1 r in (g2, o :: os)
    | None => let '(g2, os) := lrun g r in (g2, [-1] :: os)
    end
  end.

(* ------------------------------------------------------------------ *)
(** * Initial states                                                     *)
(* ------------------------------------------------------------------ *)

Definition init_slots (capHint : Z) : nat := length (slots (new_table capHint)).

Definition init_state (capHint : Z) (ws : list wop) (rss : list (list rop)) : gstate :=
  {| gmem := {| arrs := [repeat cempty (init_slots capHint)]; data := O |};
     gw := {| wlive := 0; wtombs := 0; wpin := None; wcur := nocursor; wfslot := None; werr := false |};
     gwpc := WB; gws := ws;
     grs := map (fun s => {| rpcof := RB; rscript := s |}) rss;
     gnextid := 0 |}.

(* ------------------------------------------------------------------ *)
(** * Stream interface "htl"                                             *)
(* ------------------------------------------------------------------ *)

Definition htl_init (cfg : list Z) : gstate :=
  init_state (match cfg with [c] => c | _ => 0 end) [] [].

Definition idle_reader : rthread := {| rpcof := RB; rscript := [] |}.

(* append an op to reader r's script, creating the threads up to r if needed *)
Fixpoint add_rop (rs : list rthread) (r : nat) (op : rop) : list rthread :=
  match r, rs with
  | O, [] => [{| rpcof := RB; rscript := [op] |}]
  | O, th :: rest => {| rpcof := rpcof th; rscript := rscript th ++ [op] |} :: rest
  | S r', [] => idle_reader :: add_rop [] r' op
  | S r', th :: rest => th :: add_rop rest r' op
  end.

Definition add_wop (g : gstate) (op : wop) (newid : bool) : gstate :=
  {| gmem := gmem g; gw := gw g; gwpc := gwpc g; gws := gws g ++ [op]; grs := grs g;
     gnextid := if newid then gnextid g + 1 else gnextid g |}.

Definition htl_step (g : gstate) (op : list Z) : gstate * list Z :=
  match op with
  | [1; tid; kind; k; h; v] =>
    let it := {| ikey := k; ihash := h; ival := v; iid := gnextid g |} in
    if tid =? 0 then
      if kind =? 1 then (add_wop g (WStore it) true, [])
      else if kind =? 2 then (add_wop g (WRemove k h) false, [])
      else if kind =? 3 then (add_wop g (WProbe k h) false, [])
      else if kind =? 4 then (add_wop g (WPublish it) true, [])
      else if kind =? 5 then (add_wop g WUnpin false, [])
      else if kind =? 6 then (add_wop g (WSwap it) true, [])
      else if kind =? 7 then (add_wop g WClear false, [])
      else (g, [-1])
    else if (0 <? tid) && (kind =? 10) then
      ({| gmem := gmem g; gw := gw g; gwpc := gwpc g; gws := gws g;
          grs := add_rop (grs g) (Nat.pred (Z.to_nat tid)) (RLookup k h); gnextid := gnextid g |}, [])
    else (g, [-1])
  | [2; tid] =>
    if tid <? 0 then (g, [-1])
    else match lstep g (Z.to_nat tid) with
         | Some (g', o) => (g', o)
         | None => (g, [-1])
         end
  | _ => (g, [-1])
  end.
