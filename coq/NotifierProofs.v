(* NotifierProofs.v — theorems about the removal-notification LTS of NotifierLts.v.
   Every theorem is about `reachable re n scripts s`: every interleaving of any number of mutators,
   the notifier (with every resolution of its two-way select: the choice bit is in the label) and the
   closer, for every re-entrant listener behaviour `re`, any number of shards.
   Index (task numbering):
     1  at_most_once, at_most_once_pairs, no_fabrication, delivered_was_staged, fifo_per_shard,
        at_most_once_no_fabrication_fifo
     2  conservation, hand_empty
     3  no_lost_wake (true form), no_lost_wake_quiescent, pending_covered, staged_is_covered,
        no_lost_wake_refuted (the literal statement is false), signal_before_flag_loses_wake (order)
     4  eventual_delivery = mutator_mid_op_enabled + notifier_blocked_only_by + notifier_enabled +
        notifier_step_decreases / notifier_measure_decreases + quiescent_all_delivered
     5  close_final_drain, close_final_drain_quiescent, close_final_drain_exactly_once,
        final_drain_accounting, staged_before_final_visit_delivered, late_not_delivered, exited_frozen,
        staged_after_exit_lost, staged_after_final_visit_lost, appended_before_final_visit_lost,
        reentrant_in_final_drain_lost
     6  listener_without_lock, lock_owner_mutator, lock_owner_notifier, reentrant_stage_delivered,
        token_only_consumed_by_select, select_with_token
     7  ex_* examples
   Invariants: conserv, lockinv, closeinv, wakeinv, flaginv, bufinv, lateinv, reentinv. *)
Require Import KV.Base KV.NotifierLts.
Local Open Scope nat_scope.

(* ------------------------------------------------------------------ helpers *)

Lemma fupd_eq {A} (f : nat -> A) i x : fupd f i x i = x.
Proof. unfold fupd. now rewrite Nat.eqb_refl. Qed.

Lemma fupd_neq {A} (f : nat -> A) i x k : k <> i -> fupd f i x k = f k.
Proof. unfold fupd. intros H. destruct (Nat.eqb_spec k i); [contradiction|reflexivity]. Qed.

Lemma proj_app sh a b : proj sh (a ++ b) = proj sh a ++ proj sh b.
Proof. unfold proj. now rewrite filter_app, map_app. Qed.

Lemma proj_snoc sh l j x :
  proj sh (l ++ [(j, x)]) = if j =? sh then proj sh l ++ [x] else proj sh l.
Proof.
  rewrite proj_app. unfold proj at 2. cbn [filter fst].
  destruct (j =? sh); cbn [map snd]; [reflexivity|apply app_nil_r].
Qed.

Ltac dmatch H :=
  match type of H with
  | context [match ?x with _ => _ end] =>
      lazymatch x with
      | context [match _ with _ => _ end] => fail
      | _ => destruct x eqn:?
      end
  end.

Ltac sset :=
  unfold set_shard, set_shards, set_wakeTok, set_closeCh, set_muts, set_npos, set_hand, set_final,
         set_cpos, set_staged, set_delivered, set_late in *;
  cbn [nsh shards wakeTok closeCh muts npos hand final cpos staged delivered late
       buf pending mu script mpos] in *.

(* invert one step into its cases; the post-state becomes an explicit term *)
Ltac step_inv H :=
  unfold step, mut_step, not_step, close_step, stage_step in H;
  cbv beta iota zeta in H;
  repeat (dmatch H; cbv beta iota zeta in H; try discriminate H);
  inversion H; subst; clear H; sset;
  try match goal with E : npos _ = _ |- _ => rewrite E in * end.

(* split on whether an index is the updated one *)
Ltac fsplit :=
  repeat match goal with
  | |- context [fupd _ ?i _ ?k] =>
      destruct (Nat.eq_dec k i);
      [subst; rewrite ?fupd_eq in * | rewrite ?(fupd_neq _ i _ k) in * by assumption]
  | H : context [fupd _ ?i _ ?k] |- _ =>
      destruct (Nat.eq_dec k i);
      [subst; rewrite ?fupd_eq in * | rewrite ?(fupd_neq _ i _ k) in * by assumption]
  end.

(* ------------------------------------------------------------------ Theorem 2: conservation *)

Definition hshard (p : npc) : option nat :=
  match p with
  | NClear i | NUnlock i | NDeliver i | NReent i _ _ _ => Some i
  | _ => None
  end.

(* what the notifier holds in its hand for shard sh *)
Definition inhand (s : state) (sh : nat) : list Z :=
  match hshard (npos s) with
  | Some i => if i =? sh then hand s else []
  | None => []
  end.

Definition conserv (s : state) : Prop :=
  (hshard (npos s) = None -> hand s = []) /\
  forall sh, proj sh (staged s) = proj sh (delivered s) ++ inhand s sh ++ buf (shards s sh).

Lemma conserv_init n scripts : conserv (init n scripts).
Proof. split; [reflexivity|]. intros sh. reflexivity. Qed.

Ltac eqb_simp :=
  repeat match goal with
  | |- context [?a =? ?a] => rewrite (Nat.eqb_refl a)
  | H : context [?a =? ?a] |- _ => rewrite (Nat.eqb_refl a) in H
  | H : ?a <> ?b |- context [?a =? ?b] => rewrite (proj2 (Nat.eqb_neq a b) H)
  | H : ?b <> ?a |- context [?a =? ?b] => rewrite (proj2 (Nat.eqb_neq a b) (not_eq_sym H))
  | H : ?a <> ?b, H1 : context [?a =? ?b] |- _ => rewrite (proj2 (Nat.eqb_neq a b) H) in H1
  | H : ?b <> ?a, H1 : context [?a =? ?b] |- _ => rewrite (proj2 (Nat.eqb_neq a b) (not_eq_sym H)) in H1
  end.

Lemma conserv_step re s l s' : conserv s -> step re s l = Some s' -> conserv s'.
Proof.
  unfold conserv, inhand. intros [Hh Hc] H. destruct l as [t|c|].
  - step_inv H.
    all: split; [exact Hh|]; intros k; specialize (Hc k); sset.
    all: fsplit; cbn [buf]; try assumption.
    all: rewrite ?proj_snoc; eqb_simp; try assumption.
    all: rewrite Hc, <- !app_assoc; reflexivity.
  - step_inv H.
    all: cbn [hshard] in *.
    all: split; [try (intros; first [discriminate | reflexivity | auto]) | intros k; specialize (Hc k); sset;
      fsplit; cbn [buf]; rewrite ?proj_snoc; eqb_simp; try assumption].
    all: repeat match goal with |- context [?a =? ?b] => destruct (Nat.eqb_spec a b); subst end.
    all: try match goal with E : hand _ = _ |- _ => rewrite E in * end.
    all: rewrite ?Hh in * by reflexivity.
    all: rewrite Hc; cbn [app]; rewrite ?app_nil_r, <- ?app_assoc; try reflexivity.
    destruct (i =? k); reflexivity.
  - step_inv H; split; sset; try assumption.
    all: intros k; specialize (Hc k); sset; assumption.
Qed.

Lemma conserv_reachable re n scripts s : reachable re n scripts s -> conserv s.
Proof. induction 1; [apply conserv_init | eapply conserv_step; eauto]. Qed.

(* THEOREM 2.  At every reachable state, for every shard: what was staged on it is what was delivered
   from it, then what the notifier holds in its hand for it, then what still sits in its buffer. *)
Theorem conservation re n scripts s sh :
  reachable re n scripts s ->
  proj sh (staged s) = proj sh (delivered s) ++ inhand s sh ++ buf (shards s sh).
Proof. intros R. apply (conserv_reachable _ _ _ _ R). Qed.

(* the hand is empty whenever the notifier is not between a swap and the end of its listener loop *)
Theorem hand_empty re n scripts s :
  reachable re n scripts s -> hshard (npos s) = None -> hand s = [].
Proof. intros R. apply (conserv_reachable _ _ _ _ R). Qed.

(* ------------------------------------------------------------------ Theorem 1 *)

Definition pair_dec (p q : nat * Z) : {p = q} + {p <> q}.
Proof. decide equality; [apply Z.eq_dec | apply Nat.eq_dec]. Defined.

Lemma count_proj l sh x : count_occ pair_dec l (sh, x) = count_occ Z.eq_dec (proj sh l) x.
Proof.
  induction l as [|[j y] l IH]; [reflexivity|].
  unfold proj in *. cbn [filter fst]. destruct (Nat.eqb_spec j sh) as [->|Hne].
  - cbn [map snd]. destruct (Z.eq_dec y x) as [->|Hy].
    + rewrite !count_occ_cons_eq by reflexivity. now rewrite IH.
    + rewrite !count_occ_cons_neq by congruence. exact IH.
  - rewrite count_occ_cons_neq by congruence. exact IH.
Qed.

Lemma submultiset_nodup_map {A B} (dec : forall a b : A, {a = b} + {a <> b}) (f : A -> B) l1 :
  forall l2, (forall a, count_occ dec l1 a <= count_occ dec l2 a) ->
  NoDup (map f l2) -> NoDup (map f l1).
Proof.
  induction l1 as [|a l1 IH]; intros l2 Hs Hn; [constructor|].
  assert (Hin : In a l2).
  { apply (count_occ_In dec). specialize (Hs a). rewrite count_occ_cons_eq in Hs by reflexivity. lia. }
  destruct (in_split _ _ Hin) as (la & lb & ->).
  assert (Hs' : forall b, count_occ dec l1 b <= count_occ dec (la ++ lb) b).
  { intros b. specialize (Hs b). rewrite count_occ_app in *. cbn [count_occ] in Hs.
    destruct (dec a b); lia. }
  rewrite map_app in Hn. cbn [map] in Hn. apply NoDup_remove in Hn. destruct Hn as [Hn Hni].
  rewrite <- map_app in Hn, Hni.
  cbn [map]. constructor; [|eapply IH; eauto].
  intros Hc. apply in_map_iff in Hc. destruct Hc as (b & Hfb & Hb).
  apply Hni. rewrite <- Hfb. apply in_map.
  apply (count_occ_In dec). specialize (Hs' b). apply (count_occ_In dec) in Hb. lia.
Qed.

(* THEOREM 1a.  No fabrication: `delivered` is a sub-multiset of `staged` (as (shard, id) pairs). *)
Theorem no_fabrication re n scripts s p :
  reachable re n scripts s ->
  count_occ pair_dec (delivered s) p <= count_occ pair_dec (staged s) p.
Proof.
  intros R. destruct p as [sh x]. rewrite !count_proj, (conservation _ _ _ _ sh R), !count_occ_app. lia.
Qed.

Corollary delivered_was_staged re n scripts s p :
  reachable re n scripts s -> In p (delivered s) -> In p (staged s).
Proof.
  intros R Hin. apply (count_occ_In pair_dec). apply (count_occ_In pair_dec) in Hin.
  pose proof (no_fabrication _ _ _ _ p R). lia.
Qed.

(* THEOREM 1b.  At most once: if the staged ids are pairwise distinct, so are the delivered ids. *)
Theorem at_most_once re n scripts s :
  reachable re n scripts s -> NoDup (map snd (staged s)) -> NoDup (map snd (delivered s)).
Proof.
  intros R. apply (submultiset_nodup_map pair_dec). intros a. eapply no_fabrication; eauto.
Qed.

(* same with distinctness of (shard, id) pairs only *)
Theorem at_most_once_pairs re n scripts s :
  reachable re n scripts s -> NoDup (staged s) -> NoDup (delivered s).
Proof.
  intros R Hn. rewrite <- (map_id (delivered s)). rewrite <- (map_id (staged s)) in Hn.
  revert Hn. apply (submultiset_nodup_map pair_dec). intros a. eapply no_fabrication; eauto.
Qed.

(* THEOREM 1c.  FIFO per shard: the delivery order of a shard is a prefix of its staging order. *)
Theorem fifo_per_shard re n scripts s sh :
  reachable re n scripts s -> exists rest, proj sh (staged s) = proj sh (delivered s) ++ rest.
Proof. intros R. eexists. apply (conservation _ _ _ _ sh R). Qed.

(* ------------------------------------------------------------------ locks, bounds *)

(* mutator m is inside a stageRemoval on shard sh (holds, or is about to release, its lock) *)
Definition mholds (m : mutator) (sh : nat) : bool :=
  match mpos m, script m with
  | MIdle, _ => false
  | _, (sh', _) :: _ => sh' =? sh
  | _, [] => false
  end.

(* the notifier holds the lock of shard sh *)
Definition nholds (p : npc) (sh : nat) : bool :=
  match p with
  | NSwap i | NClear i | NUnlock i => i =? sh
  | NReent _ MIdle _ _ => false
  | NReent _ _ j _ => j =? sh
  | _ => false
  end.

Definition nbound (p : npc) (n : nat) : Prop :=
  match p with
  | NCheck i => i <= n
  | NLock i | NSwap i | NClear i | NUnlock i | NDeliver i => i < n
  | NReent i _ j _ => i < n /\ j < n
  | _ => True
  end.

Definition lockinv (s : state) : Prop :=
  (forall sh, nsh s <= sh -> shards s sh = mkShard [] false None) /\
  (forall t, mpos (muts s t) <> MIdle ->
             exists sh id r, script (muts s t) = (sh, id) :: r /\ sh < nsh s) /\
  (forall sh t, mu (shards s sh) = Some (OwMut t) <-> mholds (muts s t) sh = true) /\
  (forall sh, mu (shards s sh) = Some OwNot <-> nholds (npos s) sh = true) /\
  nbound (npos s) (nsh s).

Lemma lockinv_init n scripts : lockinv (init n scripts).
Proof.
  unfold lockinv, init, mholds; cbn. repeat split; intros; try discriminate; try contradiction; auto.
Qed.

Ltac ltb_prop :=
  repeat match goal with
  | H : (_ <? _) = true |- _ => apply Nat.ltb_lt in H
  | H : (_ <? _) = false |- _ => apply Nat.ltb_ge in H
  | H : (_ <=? _) = true |- _ => apply Nat.leb_le in H
  | H : (_ <=? _) = false |- _ => apply Nat.leb_gt in H
  end.

Lemma lockinv_step re s l s' : lockinv s -> step re s l = Some s' -> lockinv s'.
Proof.
  unfold lockinv. intros (H0 & Ha & Hb & Hc & Hd) H. destruct l as [t|c|].
  - step_inv H.
    all: ltb_prop.
    all: pose proof (Hb n t) as Hnt; pose proof (Hc n) as Hcn.
    all: split; [intros sh Hsh; fsplit; first [now apply H0 | lia] |
           split; [intros t0 Ht0; fsplit; cbn [script mpos] in *;
                     first [now apply Ha | now (exfalso; apply Ht0) | exists n, z, l; split; [reflexivity|assumption]] |
           split; [intros sh t0; pose proof (Hb sh t0); pose proof (Hb n t0); pose proof (Hb sh t); fsplit;
                   unfold mholds in *; cbn [script mpos mu] in *;
                   rewrite ?Heql, ?Heqm in *; eqb_simp; intuition (try congruence) |
           split; [intros sh; pose proof (Hc sh); fsplit; unfold mholds in *; cbn [script mpos mu] in *;
                   rewrite ?Heql, ?Heqm in *; eqb_simp; intuition (try congruence) | assumption]]]].
  - step_inv H.
    all: ltb_prop; cbn [nbound nholds] in *.
    all: split; [intros sh Hsh; fsplit; first [now apply H0 | lia] |
           split; [exact Ha |
           split; [intros sh t0; pose proof (Hb sh t0); pose proof (Hc sh); fsplit;
                   cbn [mu nholds] in *; eqb_simp; intuition (try congruence) |
           split; [intros sh; pose proof (Hc sh); fsplit;
                   cbn [mu nholds] in *; eqb_simp; intuition (try congruence) | try lia]]]].
  - step_inv H; repeat apply conj; assumption.
Qed.

Lemma lockinv_reachable re n scripts s : reachable re n scripts s -> lockinv s.
Proof. induction 1; [apply lockinv_init | eapply lockinv_step; eauto]. Qed.

(* mutual exclusion, as a readable corollary *)
Theorem lock_owner_mutator re n scripts s sh t :
  reachable re n scripts s ->
  (mu (shards s sh) = Some (OwMut t) <-> mholds (muts s t) sh = true).
Proof. intros R. apply (lockinv_reachable _ _ _ _ R). Qed.

Theorem lock_owner_notifier re n scripts s sh :
  reachable re n scripts s ->
  (mu (shards s sh) = Some OwNot <-> nholds (npos s) sh = true).
Proof. intros R. apply (lockinv_reachable _ _ _ _ R). Qed.

(* the notifier is inside a listener call: between the invocation and the return of listener(e),
   including every point of a nested stageRemoval *)
Definition in_listener (p : npc) : Prop :=
  match p with NReent _ _ _ _ => True | _ => False end.

(* THEOREM 6a.  The listener is invoked with no shard lock held by the notifier: at the listener loop
   (NDeliver: about to call listener(e)) and on entry of a re-entrant stageRemoval (NReent _ MIdle: about
   to mu.Lock) the notifier owns no shard lock, so the nested Lock cannot self-deadlock; and while it
   is inside the nested stage the only lock it owns is the one that stage took. *)
Theorem listener_without_lock re n scripts s :
  reachable re n scripts s ->
  match npos s with
  | NDeliver _ | NReent _ MIdle _ _ => forall sh, mu (shards s sh) <> Some OwNot
  | NReent _ _ j _ => forall sh, mu (shards s sh) = Some OwNot -> sh = j
  | _ => True
  end.
Proof.
  intros R. pose proof (lockinv_reachable _ _ _ _ R) as (_ & _ & _ & Hc & _).
  destruct (npos s) as [ | | | | | | i | i p j y | ] eqn:E; try exact I.
  - intros sh Hm. apply Hc in Hm. discriminate.
  - destruct p; intros sh Hm; apply Hc in Hm; cbn [nholds] in Hm; try discriminate;
      apply Nat.eqb_eq in Hm; congruence.
Qed.

(* ------------------------------------------------------------------ close / exit bookkeeping *)

Definition closeinv (s : state) : Prop :=
  (final s = true -> closeCh s = true) /\
  (npos s = NExited -> final s = true) /\
  (npos s = NSelect -> final s = false) /\
  (closeCh s = true <-> cpos s <> CStart) /\
  (cpos s = CDone -> npos s = NExited).

Lemma closeinv_init n scripts : closeinv (init n scripts).
Proof. unfold closeinv, init; cbn. repeat split; intros; try discriminate; congruence. Qed.

Lemma closeinv_step re s l s' : closeinv s -> step re s l = Some s' -> closeinv s'.
Proof.
  unfold closeinv. intros (H1 & H2 & H3 & H4 & H5) H. destruct l as [t|c|].
  - step_inv H; repeat apply conj; try assumption; apply H4.
  - step_inv H; repeat apply conj; try assumption; try apply H4; intros; try discriminate; try congruence; auto.
    all: try (exfalso; match goal with Hx : cpos _ = CDone |- _ => apply H5 in Hx; discriminate end).
    all: try (apply H4; first [assumption | reflexivity]).
  - step_inv H; repeat apply conj; try assumption; intros; try discriminate; try congruence; auto.
Qed.

Lemma closeinv_reachable re n scripts s : reachable re n scripts s -> closeinv s.
Proof. induction 1; [apply closeinv_init | eapply closeinv_step; eauto]. Qed.

(* while closeCh is open the notifier has not exited and is not in its final drain *)
Theorem open_not_exited re n scripts s :
  reachable re n scripts s -> closeCh s = false -> final s = false /\ npos s <> NExited.
Proof.
  intros R Hc. destruct (closeinv_reachable _ _ _ _ R) as (H1 & H2 & _).
  assert (final s = false) by (destruct (final s); [rewrite H1 in Hc by reflexivity; discriminate | reflexivity]).
  split; [assumption|]. intros E. rewrite H2 in H by assumption. discriminate.
Qed.

(* ------------------------------------------------------------------ Theorem 3: no lost wake-up *)

(* a mutator has stored removePending(sh) = true and has not yet sent its signal *)
Definition msig (s : state) (sh : nat) : Prop :=
  exists t id r, script (muts s t) = (sh, id) :: r /\ mpos (muts s t) = MFlagged.

(* same for a re-entrant stage on the notifier thread *)
Definition nsig (p : npc) (sh : nat) : Prop :=
  match p with NReent _ MFlagged j _ => j = sh | _ => False end.

(* the drain pass in progress will still load (or is about to clear) the flag of shard sh *)
Definition covers (p : npc) (sh : nat) : Prop :=
  match p with
  | NCheck i | NLock i | NSwap i | NClear i => i <= sh
  | NUnlock i | NDeliver i | NReent i _ _ _ => i < sh
  | _ => False
  end.

Definition wakeinv (s : state) : Prop :=
  closeCh s = false ->
  forall sh, pending (shards s sh) = true ->
             wakeTok s = true \/ msig s sh \/ nsig (npos s) sh \/ covers (npos s) sh.

Lemma wakeinv_init n scripts : wakeinv (init n scripts).
Proof. intros _ sh H. discriminate. Qed.

Lemma wakeinv_step re s l s' : lockinv s -> wakeinv s -> step re s l = Some s' -> wakeinv s'.
Proof.
  unfold wakeinv. intros (H0 & _ & _ & _ & Hd) W H. destruct l as [t|c|].
  - step_inv H.
    all: intros Hcl sh Hp; specialize (W Hcl sh); unfold msig in *; sset; fsplit; cbn [pending] in *.
    all: try (left; reflexivity).
    all: try (right; left; exists t; unfold msig, fupd; rewrite Nat.eqb_refl; cbn [script mpos]; eauto; fail).
    all: specialize (W Hp); destruct W as [W|[(t' & id' & r' & Hs & Hm)|W]]; [left; exact W | | right; right; exact W].
    all: right; left; exists t', id', r'; unfold msig, fupd; destruct (Nat.eqb_spec t' t); [subst; congruence | split; assumption].
  - step_inv H.
    all: intros Hcl sh Hp; sset; try congruence.
    all: specialize (W Hcl sh); unfold msig in *; sset; cbn [nbound] in Hd; ltb_prop.
    all: try (left; reflexivity).
    all: fsplit; cbn [pending nsig covers] in *; try discriminate.
    all: try (right; right; right; lia).
    all: try (right; right; left; reflexivity).
    all: try (specialize (W Hp); destruct W as [W|[W|[W|W]]]; try tauto; try (right; right; right; lia); try contradiction).
    all: try (exfalso; rewrite H0 in Hp by lia; discriminate).
    assert (sh <> i) by (intros ->; congruence). right; right; right; lia.
  - step_inv H; intros Hcl sh Hp; sset; try discriminate. apply W; assumption.
Qed.

Lemma wakeinv_reachable re n scripts s : reachable re n scripts s -> wakeinv s.
Proof.
  induction 1; [apply wakeinv_init | eapply wakeinv_step; eauto using lockinv_reachable].
Qed.

(* THEOREM 3 (true form).  closeCh open, some shard has removePending = true and the notifier is parked
   at its select: then the wake token is present, or a mutator is between its Store(true) and its
   signal on that shard (its very next step sends the token). *)
Theorem no_lost_wake re n scripts s sh :
  reachable re n scripts s ->
  closeCh s = false -> pending (shards s sh) = true -> npos s = NSelect ->
  wakeTok s = true \/ msig s sh.
Proof.
  intros R Hc Hp Hn. destruct (wakeinv_reachable _ _ _ _ R Hc sh Hp) as [W|[W|[W|W]]]; auto.
  all: rewrite Hn in W; contradiction.
Qed.

(* the statement of the task holds whenever no mutator sits between flag and signal *)
Corollary no_lost_wake_quiescent re n scripts s sh :
  reachable re n scripts s ->
  closeCh s = false -> pending (shards s sh) = true -> npos s = NSelect ->
  (forall t, mpos (muts s t) <> MFlagged) ->
  wakeTok s = true.
Proof.
  intros R Hc Hp Hn Hq. destruct (no_lost_wake _ _ _ _ sh R Hc Hp Hn) as [W|(t & id & r & _ & Hm)]; auto.
  elim (Hq t Hm).
Qed.

(* general form, at any point of the notifier's loop *)
Theorem pending_covered re n scripts s sh :
  reachable re n scripts s ->
  closeCh s = false -> pending (shards s sh) = true ->
  wakeTok s = true \/ msig s sh \/ nsig (npos s) sh \/ covers (npos s) sh.
Proof. intros R Hc Hp. exact (wakeinv_reachable _ _ _ _ R Hc sh Hp). Qed.


(* ------------------------------------------------------------------ flags and buffers *)

Definition flaginv (s : state) : Prop :=
  match npos s with
  | NLock i | NSwap i => pending (shards s i) = true
  | NClear i => buf (shards s i) = []
  | NUnlock i => buf (shards s i) = [] /\ pending (shards s i) = false
  | NReent _ MFlagged j _ | NReent _ MSignalled j _ => pending (shards s j) = true
  | _ => True
  end /\
  (forall t sh id r, script (muts s t) = (sh, id) :: r ->
                     mpos (muts s t) = MFlagged \/ mpos (muts s t) = MSignalled ->
                     pending (shards s sh) = true).

Lemma flaginv_init n scripts : flaginv (init n scripts).
Proof. split; [exact I|]. cbn. intros t sh id r _ [H|H]; discriminate. Qed.

Lemma flaginv_step re s l s' : lockinv s -> flaginv s -> step re s l = Some s' -> flaginv s'.
Proof.
  unfold flaginv. intros (H0 & Ha & Hb & Hc & Hd) (F1 & F2) H. destruct l as [t|c|].
  - step_inv H.
    all: pose proof (proj2 (Hb n t)) as Hnt; unfold mholds in Hnt; rewrite Heql, Heqm in Hnt.
    all: try (rewrite Nat.eqb_refl in Hnt; specialize (Hnt eq_refl)).
    all: split.
    all: try (intros t0 sh id r Hs Hm; fsplit; cbn [script mpos pending] in *;
              try (injection Hs as ? ? ?; subst);
              first [reflexivity | congruence | now (eapply F2; eauto) | destruct Hm; discriminate
                    | now (eapply F2; [exact Heql | auto]) ]).
    all: pose proof (proj2 (Hc n)) as Hcn.
    all: destruct (npos s) as [ | | | | | | |? p ? ?| ] eqn:En; try exact I; try destruct p; try exact I.
    all: cbn [nholds] in Hcn; fsplit; cbn [buf pending]; try assumption; try reflexivity.
    all: try (rewrite Nat.eqb_refl in Hcn; specialize (Hcn eq_refl); congruence).
  - step_inv H.
    all: cbn [nholds nbound] in *; split.
    all: try (intros t0 sh id r Hs Hm; pose proof (F2 t0 sh id r Hs Hm); fsplit; cbn [pending]; try assumption; try reflexivity).
    all: try exact I.
    all: fsplit; cbn [buf pending] in *; try assumption; try reflexivity; try tauto.
    exfalso. pose proof (proj2 (Hb i t0)) as Hx. unfold mholds in Hx. rewrite Hs in Hx.
    pose proof (proj2 (Hc i) (Nat.eqb_refl i)) as Hy.
    destruct Hm as [Hm|Hm]; rewrite Hm, Nat.eqb_refl in Hx; specialize (Hx eq_refl); congruence.
  - step_inv H; split; assumption.
Qed.

Lemma flaginv_reachable re n scripts s : reachable re n scripts s -> flaginv s.
Proof.
  induction 1; [apply flaginv_init | eapply flaginv_step; eauto using lockinv_reachable].
Qed.


(* ids appended to the buffer of shard sh whose removePending store has not happened yet
   (at most one: the lock holder's) *)
Definition unfl (s : state) (sh : nat) : list Z :=
  match mu (shards s sh) with
  | Some (OwMut t) =>
      match mpos (muts s t), script (muts s t) with
      | MAppended, (_, id) :: _ => [id]
      | _, _ => []
      end
  | Some OwNot => match npos s with NReent _ MAppended _ y => [y] | _ => [] end
  | None => []
  end.

Definition bufinv (s : state) : Prop :=
  forall sh, pending (shards s sh) = false -> buf (shards s sh) = unfl s sh.

Lemma bufinv_init n scripts : bufinv (init n scripts).
Proof. intros sh _. reflexivity. Qed.

Lemma bufinv_step re s l s' :
  lockinv s -> flaginv s -> bufinv s -> step re s l = Some s' -> bufinv s'.
Proof.
  unfold bufinv. intros (H0 & Ha & Hb & Hc & Hd) (F1 & F2) B H. destruct l as [t|c|].
  - step_inv H.
    all: pose proof (proj2 (Hb n t)) as Hnt; unfold mholds in Hnt; rewrite Heql, Heqm in Hnt.
    all: try (rewrite Nat.eqb_refl in Hnt; specialize (Hnt eq_refl)).
    all: try match type of Hnt with false = true -> _ => clear Hnt; pose proof Heqo as Hnt end.
    all: intros sh Hp; pose proof (B sh) as Bs; unfold unfl in *; sset.
    all: destruct (Nat.eq_dec sh n) as [->|Hne];
         [ rewrite ?fupd_eq in *; cbn [buf pending mu] in *; try discriminate;
           rewrite ?Hnt in *; rewrite ?fupd_eq in *; cbn [script mpos] in *;
           rewrite ?Heql, ?Heqm in *; rewrite ?Bs by assumption; try reflexivity
         | rewrite ?(fupd_neq _ n _ sh) in * by assumption; rewrite Bs by assumption;
           destruct (mu (shards s sh)) as [[t0|]|] eqn:Emu; try reflexivity;
           destruct (Nat.eq_dec t0 t) as [->|Hnt0];
           [ exfalso; apply Hb in Emu; unfold mholds in Emu; rewrite Heql, Heqm in Emu;
             try discriminate; apply Nat.eqb_eq in Emu; congruence
           | rewrite ?(fupd_neq _ t _ t0) by assumption; reflexivity ] ].
  - step_inv H.
    all: cbn [nholds nbound] in *.
    all: intros sh Hp; pose proof (B sh) as Bs; pose proof (Hc sh) as Hcs; unfold unfl in *; sset.
    all: fsplit; cbn [buf pending mu] in *; try discriminate.
    all: try (destruct (mu (shards s sh)) as [[t0|]|] eqn:Emu; try (now apply Bs);
              exfalso; destruct Hcs as [Hcs _]; specialize (Hcs eq_refl); try discriminate;
              apply Nat.eqb_eq in Hcs; congruence).
    all: try rewrite Nat.eqb_refl in Hcs.
    all: try rewrite (proj2 Hcs eq_refl) in *.
    all: try rewrite Heqo in *.
    all: try rewrite Heqn in *.
    all: try (rewrite Bs by assumption); try reflexivity; try (destruct F1; congruence); try congruence.
  - step_inv H; intros sh Hp; unfold unfl in *; sset; try rewrite Heqn in *; now apply B.
Qed.

Lemma bufinv_reachable re n scripts s : reachable re n scripts s -> bufinv s.
Proof.
  induction 1; [apply bufinv_init | eapply bufinv_step; eauto using lockinv_reachable, flaginv_reachable].
Qed.


(* ------------------------------------------------------------------ how `unfl` moves *)

Lemma unfl_mut_step s t s' n z rest :
  lockinv s -> script (muts s t) = (n, z) :: rest -> mut_step s t = Some s' ->
  unfl s n = match mpos (muts s t) with MAppended => [z] | _ => [] end /\
  unfl s' n = match mpos (muts s t) with MLocked => [z] | _ => [] end /\
  forall sh, sh <> n -> unfl s' sh = unfl s sh.
Proof.
  intros (H0 & Ha & Hb & Hc & Hd) Hs H.
  assert (H' : step (fun _ => None) s (LMut t) = Some s') by exact H. clear H.
  revert Hs. step_inv H'.
  all: intros Hs; injection Hs as -> -> ->.
  all: pose proof (proj2 (Hb n t)) as Hnt; unfold mholds in Hnt; rewrite Heql, Heqm in Hnt.
  all: try (rewrite Nat.eqb_refl in Hnt; specialize (Hnt eq_refl)).
  all: try match type of Hnt with false = true -> _ => clear Hnt; pose proof Heqo as Hnt end.
  all: unfold unfl; sset.
  all: repeat apply conj.
  all: try (intros sh Hne; rewrite ?(fupd_neq _ n _ sh) by assumption;
            destruct (mu (shards s sh)) as [[t0|]|] eqn:Emu; try reflexivity;
            destruct (Nat.eq_dec t0 t) as [->|Hnt0];
            [ exfalso; apply Hb in Emu; unfold mholds in Emu; rewrite Heql, Heqm in Emu;
              try discriminate; apply Nat.eqb_eq in Emu; congruence
            | rewrite ?(fupd_neq _ t _ t0) by assumption; reflexivity ]).
  all: rewrite ?fupd_eq; cbn [mu]; rewrite ?Hnt; rewrite ?fupd_eq; cbn [script mpos]; rewrite ?Heql, ?Heqm; reflexivity.
Qed.

Lemma unfl_not_step re c s s' :
  lockinv s -> not_step re c s = Some s' ->
  match npos s with
  | NReent _ p j y =>
      unfl s j = match p with MAppended => [y] | _ => [] end /\
      unfl s' j = match p with MLocked => [y] | _ => [] end /\
      forall sh, sh <> j -> unfl s' sh = unfl s sh
  | _ => forall sh, unfl s' sh = unfl s sh
  end.
Proof.
  intros (H0 & Ha & Hb & Hc & Hd) H.
  assert (H' : step re s (LNot c) = Some s') by exact H. clear H.
  step_inv H'.
  all: cbn [nholds] in Hc.
  all: unfold unfl; sset; try rewrite Heqn.
  all: repeat apply conj.
  all: try (intros sh; try (intros Hne); pose proof (Hc sh) as Hcs; fsplit; cbn [mu]; try rewrite Heqo;
            try (rewrite Nat.eqb_refl in Hcs; rewrite (proj2 Hcs eq_refl));
            try reflexivity; try congruence;
            repeat match goal with
            | |- context [match mu (shards ?s0 ?k) with _ => _ end] =>
                destruct (mu (shards s0 k)) as [[?|]|] eqn:?
            end; try reflexivity).
  all: rewrite ?fupd_eq; cbn [mu]; try rewrite Heqo; try reflexivity.
  all: try (rewrite (proj2 (Hc j) (Nat.eqb_refl j)); reflexivity).
  all: exfalso; destruct Hcs as [Hcs _]; specialize (Hcs eq_refl); apply Nat.eqb_eq in Hcs; congruence.
Qed.


(* ------------------------------------------------------------------ Theorem 5: the final drain *)

Definition lateinv (s : state) : Prop :=
  forall sh, if passed s sh then buf (shards s sh) = proj sh (late s) ++ unfl s sh
             else proj sh (late s) = [].

Lemma lateinv_init n scripts : lateinv (init n scripts).
Proof. intros sh. reflexivity. Qed.

Lemma lateinv_step re s l s' :
  lockinv s -> closeinv s -> bufinv s -> lateinv s -> step re s l = Some s' -> lateinv s'.
Proof.
  unfold lateinv. intros LI CI B L H. destruct l as [t|c|].
  - assert (Hm : mut_step s t = Some s') by exact H.
    step_inv H.
    all: pose proof (unfl_mut_step _ _ _ _ _ _ LI Heql Hm) as (U1 & U2 & U3); rewrite Heqm in U1, U2.
    all: intros sh; specialize (L sh); unfold passed in *; sset.
    all: destruct (Nat.eq_dec sh n) as [->|Hne];
         [ rewrite U2; rewrite U1 in L; rewrite ?fupd_eq; cbn [buf]
         | rewrite (U3 sh Hne); rewrite ?(fupd_neq _ n _ sh) by assumption ].
    all: rewrite ?proj_snoc; eqb_simp.
    all: try rewrite Heqb0 in *; try assumption.
    all: rewrite ?app_nil_r in *; try assumption.
    revert L. match goal with |- (if ?b then _ else _) -> _ => destruct b end; [intros ->; reflexivity | auto].
  - assert (Hm : not_step re c s = Some s') by exact H.
    pose proof (unfl_not_step _ _ _ _ LI Hm) as U.
    destruct LI as (H0 & Ha & Hb & Hc & Hd). destruct CI as (C1 & C2 & C3 & _).
    clear Hm. step_inv H.
    all: intros sh; pose proof (L sh) as Ls; unfold passed in *; sset; cbn [nbound] in Hd.
    all: try rewrite Heqn in *.
    all: first [ rewrite (U sh)
               | destruct U as (U1 & U2 & U3);
                 match type of U2 with
                 | unfl _ ?j = _ =>
                     destruct (Nat.eq_dec sh j) as [->|Hne];
                     [ rewrite U2; rewrite ?U1 in * | rewrite (U3 sh Hne) ]
                 end ].
    all: try rewrite (C3 eq_refl) in *.
    all: destruct (final s) eqn:Ef; cbn [andb] in *; try assumption.
    all: repeat match goal with
         | H : context [?a <? ?b] |- _ => destruct (Nat.ltb_spec a b)
         | H : context [?a <=? ?b] |- _ => destruct (Nat.leb_spec a b)
         | |- context [?a <? ?b] => destruct (Nat.ltb_spec a b)
         | |- context [?a <=? ?b] => destruct (Nat.leb_spec a b)
         end; try lia; try assumption.
    all: ltb_prop.
    all: fsplit; cbn [buf]; rewrite ?proj_snoc; eqb_simp; rewrite ?app_nil_r in *; try assumption; try lia; try congruence.
    + assert (sh = i) by lia. subst sh. rewrite Ls. apply B. assumption.
    + rewrite Ls. unfold unfl. rewrite H0 by lia. reflexivity.
    + rewrite Ls. unfold unfl. rewrite (proj2 (Hc i) (Nat.eqb_refl i)), Heqn. reflexivity.
  - step_inv H; intros sh; specialize (L sh); unfold passed, unfl in *; sset; try rewrite Heqn in *; exact L.
Qed.

Lemma lateinv_reachable re n scripts s : reachable re n scripts s -> lateinv s.
Proof.
  induction 1; [apply lateinv_init | eapply lateinv_step; eauto using lockinv_reachable, closeinv_reachable, bufinv_reachable].
Qed.


Lemma In_proj sh x l : In x (proj sh l) <-> In (sh, x) l.
Proof.
  unfold proj. rewrite in_map_iff. split.
  - intros ([j y] & Hy & Hin). apply filter_In in Hin. destruct Hin as [Hin He].
    cbn in *. apply Nat.eqb_eq in He. subst. exact Hin.
  - intros Hin. exists (sh, x). split; [reflexivity|]. apply filter_In. split; [exact Hin|].
    cbn. apply Nat.eqb_refl.
Qed.

Lemma unfl_quiescent re n scripts s sh :
  reachable re n scripts s ->
  (forall t, mpos (muts s t) = MIdle) ->
  (match npos s with NReent _ _ _ _ => False | _ => True end) ->
  unfl s sh = [].
Proof.
  intros R Hq Hn. unfold unfl.
  destruct (mu (shards s sh)) as [[t|]|] eqn:E; try reflexivity.
  - rewrite Hq. reflexivity.
  - destruct (npos s); try reflexivity. contradiction.
Qed.

(* accounting during and after the final drain, for every shard the final drain has already visited *)
Theorem final_drain_accounting re n scripts s sh :
  reachable re n scripts s -> passed s sh = true ->
  proj sh (staged s) =
  proj sh (delivered s) ++ inhand s sh ++ proj sh (late s) ++ unfl s sh.
Proof.
  intros R Hp. rewrite (conservation _ _ _ _ sh R).
  pose proof (lateinv_reachable _ _ _ _ R sh) as L. rewrite Hp in L. now rewrite L.
Qed.

(* THEOREM 5 (strongest true form).  Once the notifier has exited, for every shard:
   staged = delivered ++ late ++ unflagged, where `late` are exactly the ids whose removePending store
   happened after the final drain's (only) visit of their shard, and `unflagged` is the at most one id
   appended by the current lock holder whose store has not happened yet.  So every id whose staging
   (append + flag) completed before the final visit of its shard has been delivered, in order. *)
Theorem close_final_drain re n scripts s sh :
  reachable re n scripts s -> npos s = NExited ->
  proj sh (staged s) = proj sh (delivered s) ++ proj sh (late s) ++ unfl s sh.
Proof.
  intros R He.
  destruct (closeinv_reachable _ _ _ _ R) as (_ & C2 & _).
  assert (Hp : passed s sh = true) by (unfold passed; rewrite He, (C2 He); reflexivity).
  rewrite (final_drain_accounting _ _ _ _ sh R Hp). unfold inhand. rewrite He. reflexivity.
Qed.

Corollary close_final_drain_quiescent re n scripts s sh :
  reachable re n scripts s -> npos s = NExited -> (forall t, mpos (muts s t) = MIdle) ->
  proj sh (staged s) = proj sh (delivered s) ++ proj sh (late s).
Proof.
  intros R He Hq. rewrite (close_final_drain _ _ _ _ sh R He).
  rewrite (unfl_quiescent _ _ _ _ sh R Hq) by (rewrite He; exact I). now rewrite app_nil_r.
Qed.

(* every staged id that is not late has been delivered when the notifier has exited *)
Corollary staged_before_final_visit_delivered re n scripts s sh x :
  reachable re n scripts s -> npos s = NExited -> (forall t, mpos (muts s t) = MIdle) ->
  In (sh, x) (staged s) -> ~ In (sh, x) (late s) -> In (sh, x) (delivered s).
Proof.
  intros R He Hq Hs Hl. apply In_proj in Hs. rewrite (close_final_drain_quiescent _ _ _ _ sh R He Hq) in Hs.
  apply in_app_or in Hs. destruct Hs as [Hs|Hs]; [now apply In_proj in Hs | apply In_proj in Hs; contradiction].
Qed.

Lemma NoDup_app_disjoint {A} (a b : list A) x : NoDup (a ++ b) -> In x a -> ~ In x b.
Proof.
  induction a as [|y a IH]; cbn; intros Hn Hin; [contradiction|].
  inversion Hn as [|? ? Hny Hn']; subst. destruct Hin as [->|Hin].
  - intros Hb. apply Hny. apply in_or_app. now right.
  - now apply IH.
Qed.

(* ... and the late ones have not been (and will never be) delivered *)
Corollary late_not_delivered re n scripts s sh x :
  reachable re n scripts s -> npos s = NExited -> NoDup (proj sh (staged s)) ->
  In (sh, x) (late s) -> ~ In (sh, x) (delivered s).
Proof.
  intros R He Hn Hl Hd. apply In_proj in Hl. apply In_proj in Hd.
  rewrite (close_final_drain _ _ _ _ sh R He) in Hn.
  apply (NoDup_app_disjoint _ _ x Hn Hd). apply in_or_app. now left.
Qed.

(* once the notifier has exited nothing is delivered any more *)
Theorem exited_frozen re s l s' :
  npos s = NExited -> step re s l = Some s' -> npos s' = NExited /\ delivered s' = delivered s.
Proof.
  intros He H. destruct l as [t|c|].
  - step_inv H; split; auto.
  - step_inv H; congruence.
  - step_inv H; split; auto.
Qed.

(* ------------------------------------------------------------------ Theorem 6b: re-entrant staging *)

(* inside a nested stageRemoval(j, y): once appended, y is the last element of shard j's buffer;
   once signalled, the token is there *)
Definition reentinv (s : state) : Prop :=
  match npos s with
  | NReent _ MAppended j y | NReent _ MFlagged j y => exists pre, buf (shards s j) = pre ++ [y]
  | NReent _ MSignalled j y => (exists pre, buf (shards s j) = pre ++ [y]) /\ wakeTok s = true
  | _ => True
  end.

Lemma reentinv_step re s l s' : lockinv s -> reentinv s -> step re s l = Some s' -> reentinv s'.
Proof.
  unfold reentinv. intros (H0 & Ha & Hb & Hc & Hd) I H. destruct l as [t|c|].
  - step_inv H.
    all: pose proof (proj2 (Hb n t)) as Hnt; unfold mholds in Hnt; rewrite Heql, Heqm in Hnt.
    all: try (rewrite Nat.eqb_refl in Hnt; specialize (Hnt eq_refl)).
    all: destruct (npos s) as [ | | | | | | |? p j y| ] eqn:En; try exact I; destruct p; try exact I.
    all: pose proof (proj2 (Hc j)) as Hcj; cbn [nholds] in Hcj; rewrite Nat.eqb_refl in Hcj; specialize (Hcj eq_refl).
    all: fsplit; cbn [buf]; try assumption; try congruence.
    all: try (destruct I as [I1 I2]; split; [assumption | reflexivity]).
  - step_inv H; try exact I.
    all: rewrite ?fupd_eq; cbn [buf]; eauto.
    all: try (destruct I as [I1 I2]); try split; eauto.
  - step_inv H; exact I.
Qed.

Lemma reentinv_reachable re n scripts s : reachable re n scripts s -> reentinv s.
Proof.
  induction 1; [exact I | eapply reentinv_step; eauto using lockinv_reachable].
Qed.

(* the token is consumed only by the notifier's select, and that starts a full pass over all shards *)
Theorem token_only_consumed_by_select re s l s' :
  wakeTok s = true -> step re s l = Some s' ->
  wakeTok s' = true \/ (npos s = NSelect /\ npos s' = NCheck 0).
Proof.
  intros Hw H. destruct l as [t|c|].
  - step_inv H; auto.
  - step_inv H; auto.
  - step_inv H; auto.
Qed.

(* every id sitting in a buffer while closeCh is open is accounted for: its flag store is still to come
   (lock holder in flight), or the token is present, or a signal is about to be sent, or the pass in
   progress will still visit its shard *)
Theorem staged_is_covered re n scripts s sh x :
  reachable re n scripts s -> closeCh s = false -> In x (buf (shards s sh)) ->
  In x (unfl s sh) \/ wakeTok s = true \/ msig s sh \/ nsig (npos s) sh \/ covers (npos s) sh.
Proof.
  intros R Hc Hin. destruct (pending (shards s sh)) eqn:Hp.
  - right. exact (pending_covered _ _ _ _ sh R Hc Hp).
  - left. rewrite <- (bufinv_reachable _ _ _ _ R sh Hp). exact Hin.
Qed.

(* THEOREM 6b.  When a listener's nested stageRemoval(j, y) returns (the notifier's step out of
   NReent i MSignalled j y), y is the last element of shard j's buffer, removePending(j) is set and the
   wake token is present.  If j comes later in this pass (i < j) the pass in progress still visits j
   (same drain); otherwise the token guarantees another full pass: it can only be consumed by the
   notifier's own select (token_only_consumed_by_select), which, closeCh being open, takes the wake
   branch and starts a pass over all shards (next drain). *)
Theorem reentrant_stage_delivered re n scripts s c s' i j y :
  reachable re n scripts s -> npos s = NReent i MSignalled j y -> step re s (LNot c) = Some s' ->
  npos s' = NDeliver i /\
  (exists pre, buf (shards s' j) = pre ++ [y]) /\
  pending (shards s' j) = true /\
  wakeTok s' = true /\
  (i < j -> covers (npos s') j) /\
  (closeCh s' = false -> npos s' = NDeliver i /\ (i < j \/ wakeTok s' = true)).
Proof.
  intros R Hn H.
  pose proof (reentinv_reachable _ _ _ _ R) as RI. pose proof (flaginv_reachable _ _ _ _ R) as [F1 _].
  unfold reentinv in RI. rewrite Hn in RI, F1. destruct RI as [[pre Hpre] Hw].
  cbn [step] in H. unfold not_step in H. rewrite Hn in H. cbn [stage_step] in H.
  injection H as <-. sset. rewrite fupd_eq. cbn [buf pending covers].
  repeat split; eauto.
Qed.

(* with closeCh open, a notifier parked at the select with the token present takes the wake branch,
   whatever the choice bit *)
Theorem select_with_token re s c :
  npos s = NSelect -> wakeTok s = true -> closeCh s = false ->
  exists s', step re s (LNot c) = Some s' /\ npos s' = NCheck 0 /\ final s' = final s.
Proof.
  intros Hn Hw Hc. cbn [step]. unfold not_step. rewrite Hn, Hw, Hc, andb_false_r. cbn.
  eexists; split; [reflexivity|]. split; reflexivity.
Qed.

(* ------------------------------------------------------------------ Theorem 4: progress *)

(* mutators always release: a mutator inside a stageRemoval always has an enabled step *)
Theorem mutator_mid_op_enabled re n scripts s t :
  reachable re n scripts s -> mpos (muts s t) <> MIdle -> exists s', step re s (LMut t) = Some s'.
Proof.
  intros R Hm. destruct (lockinv_reachable _ _ _ _ R) as (_ & Ha & _).
  destruct (Ha t Hm) as (sh & id & r & Hs & Hlt).
  cbn [step]. unfold mut_step. rewrite Hs. apply Nat.ltb_lt in Hlt. rewrite Hlt.
  unfold stage_step. destruct (mpos (muts s t)); try congruence; eexists; reflexivity.
Qed.

Lemma mholds_not_idle m sh : mholds m sh = true -> mpos m <> MIdle.
Proof. unfold mholds. destruct (mpos m); congruence. Qed.

(* while closeCh is open the notifier can only be blocked at its select with no token, or in a
   mu.Lock() on a shard whose lock is held by a mutator that is mid-operation (and hence enabled) *)
Theorem notifier_blocked_only_by re n scripts s c :
  reachable re n scripts s -> closeCh s = false -> step re s (LNot c) = None ->
  (npos s = NSelect /\ wakeTok s = false) \/
  (exists sh t, mu (shards s sh) = Some (OwMut t) /\ mpos (muts s t) <> MIdle /\
                exists s', step re s (LMut t) = Some s').
Proof.
  intros R Hc H.
  assert (HL : forall sh, mu (shards s sh) <> None -> nholds (npos s) sh = false ->
               exists sh t, mu (shards s sh) = Some (OwMut t) /\ mpos (muts s t) <> MIdle /\
                            exists s', step re s (LMut t) = Some s').
  { intros sh Hne Hnh. destruct (mu (shards s sh)) as [[t|]|] eqn:E; [| |congruence].
    - exists sh, t. split; [exact E|].
      apply (lock_owner_mutator _ _ _ _ sh t R) in E. apply mholds_not_idle in E.
      split; [exact E|]. eapply mutator_mid_op_enabled; eauto.
    - apply (lock_owner_notifier _ _ _ _ sh R) in E. congruence. }
  cbn [step] in H. unfold not_step in H.
  destruct (npos s) as [ |i|i|i|i|i|i|i p j y| ] eqn:En.
  - rewrite Hc, andb_false_r in H. cbn in H. destruct (wakeTok s); [discriminate|]. left; auto.
  - destruct (i <? nsh s); [destruct (pending (shards s i))|]; discriminate.
  - right. apply (HL i); [|reflexivity]. destruct (mu (shards s i)); [congruence|discriminate].
  - discriminate.
  - discriminate.
  - discriminate.
  - destruct (hand s); [discriminate|]. destruct (re z) as [[j y]|]; [destruct (j <? nsh s)|]; discriminate.
  - destruct p; cbn in H; try discriminate.
    right. apply (HL j); [|reflexivity]. destruct (mu (shards s j)); [congruence|discriminate].
  - destruct (open_not_exited _ _ _ _ R Hc) as [_ Hx]. rewrite En in Hx. congruence.
Qed.

Definition quiescent (s : state) : Prop := forall t, mpos (muts s t) = MIdle.

Corollary notifier_enabled_or_parked re n scripts s c :
  reachable re n scripts s -> closeCh s = false -> quiescent s ->
  (exists s', step re s (LNot c) = Some s') \/ (npos s = NSelect /\ wakeTok s = false).
Proof.
  intros R Hc Hq. destruct (step re s (LNot c)) eqn:E; [left; eauto|].
  destruct (notifier_blocked_only_by _ _ _ _ c R Hc E) as [H|(sh & t & _ & Hm & _)]; [right; exact H|].
  elim Hm. apply Hq.
Qed.

(* a non-empty buffer at a quiescent state means its flag is set *)
Lemma quiescent_buf_pending re n scripts s sh :
  reachable re n scripts s -> quiescent s ->
  (match npos s with NReent _ _ _ _ => False | _ => True end) ->
  buf (shards s sh) <> [] -> pending (shards s sh) = true.
Proof.
  intros R Hq Hn Hb. destruct (pending (shards s sh)) eqn:Hp; [reflexivity|].
  rewrite (bufinv_reachable _ _ _ _ R sh Hp), (unfl_quiescent _ _ _ _ sh R Hq Hn) in Hb. congruence.
Qed.

(* THEOREM 4a.  closeCh open, no mutator mid-operation, some buffer non-empty: the notifier has an
   enabled step (for either resolution of the select). *)
Theorem notifier_enabled re n scripts s c sh :
  reachable re n scripts s -> closeCh s = false -> quiescent s -> buf (shards s sh) <> [] ->
  exists s', step re s (LNot c) = Some s'.
Proof.
  intros R Hc Hq Hb.
  destruct (notifier_enabled_or_parked _ _ _ _ c R Hc Hq) as [H|[Hn Hw]]; [exact H|].
  assert (Hp : pending (shards s sh) = true).
  { apply (quiescent_buf_pending _ _ _ _ sh R Hq); [rewrite Hn; exact I | exact Hb]. }
  assert (wakeTok s = true).
  { apply (no_lost_wake_quiescent _ _ _ _ sh R Hc Hp Hn). intros t. rewrite Hq. discriminate. }
  congruence.
Qed.

(* THEOREM 4c.  At a state where closeCh is open, no mutator is mid-operation, the notifier is parked at
   its select and there is no token: every buffer is empty and everything staged has been delivered
   (per shard in order, hence as multisets). *)
Theorem quiescent_all_delivered re n scripts s :
  reachable re n scripts s -> closeCh s = false -> quiescent s ->
  npos s = NSelect -> wakeTok s = false ->
  forall sh, buf (shards s sh) = [] /\ proj sh (staged s) = proj sh (delivered s).
Proof.
  intros R Hc Hq Hn Hw sh.
  assert (Hb : buf (shards s sh) = []).
  { destruct (buf (shards s sh)) eqn:Eb; [reflexivity|]. exfalso.
    assert (Hp : pending (shards s sh) = true).
    { apply (quiescent_buf_pending _ _ _ _ sh R Hq); [rewrite Hn; exact I | congruence]. }
    assert (wakeTok s = true).
    { apply (no_lost_wake_quiescent _ _ _ _ sh R Hc Hp Hn). intros t. rewrite Hq. discriminate. }
    congruence. }
  split; [exact Hb|].
  rewrite (conservation _ _ _ _ sh R), Hb. unfold inhand. rewrite Hn. cbn. now rewrite app_nil_r.
Qed.

Corollary quiescent_delivered_multiset re n scripts s p :
  reachable re n scripts s -> closeCh s = false -> quiescent s ->
  npos s = NSelect -> wakeTok s = false ->
  count_occ pair_dec (delivered s) p = count_occ pair_dec (staged s) p.
Proof.
  intros R Hc Hq Hn Hw. destruct p as [sh x]. rewrite !count_proj.
  destruct (quiescent_all_delivered _ _ _ _ R Hc Hq Hn Hw sh) as [_ ->]. reflexivity.
Qed.

(* ------------------------------------------------------------------ Theorem 7: examples, refutations *)

Lemma exec_reachable re n scripts s ls s' :
  reachable re n scripts s -> exec re s ls = Some s' -> reachable re n scripts s'.
Proof.
  revert s. induction ls as [|l ls IH]; intros s R H; cbn [exec] in H.
  - injection H as <-. exact R.
  - destruct (step re s l) as [s1|] eqn:E; [|discriminate]. eapply IH; [|exact H]. econstructor; eauto.
Qed.

Lemma exited_frozen_exec re s ls s' :
  npos s = NExited -> exec re s ls = Some s' -> npos s' = NExited /\ delivered s' = delivered s.
Proof.
  revert s. induction ls as [|l ls IH]; intros s He H; cbn [exec] in H.
  - injection H as <-. auto.
  - destruct (step re s l) as [s1|] eqn:E; [|discriminate].
    destruct (exited_frozen _ _ _ _ He E) as [He1 Hd1].
    destruct (IH _ He1 H) as [He2 Hd2]. split; congruence.
Qed.

(* observation of a run *)
Definition obs (o : option state) :=
  match o with
  | None => None
  | Some s => Some (bufs s, pendings s, wakeTok s, npos s, delivered s, staged s, late s)
  end.

Definition rep {A : Type} (k : nat) (x : A) : list A := repeat x k.

Definition re_none : Z -> option (nat * Z) := fun _ => None.
(* listener of id 10 stages 11 on shard 1; listener of id 20 stages 21 on shard 0 *)
Definition re_cross : Z -> option (nat * Z) :=
  fun x => if (x =? 10)%Z then Some (1, 11%Z) else if (x =? 20)%Z then Some (0, 21%Z) else None.
(* listener of id 10 stages 11 on its own shard 0 *)
Definition re_self : Z -> option (nat * Z) :=
  fun x => if (x =? 10)%Z then Some (0, 11%Z) else None.

(* 2 shards, 2 mutators: both stagings complete before the notifier runs: two signals, ONE token *)
Example ex_coalesced_tokens :
  obs (exec re_none (init 2 [[(0, 10%Z)]; [(1, 20%Z)]]) (rep 5 (LMut 0) ++ rep 5 (LMut 1)))
  = Some ([[10%Z]; [20%Z]], [true; true], true, NSelect, [], [(0, 10%Z); (1, 20%Z)], []).
Proof. vm_compute. reflexivity. Qed.

(* ... and the single token is enough: one pass delivers both and parks again without a token *)
Example ex_one_token_delivers_both :
  obs (exec re_none (init 2 [[(0, 10%Z)]; [(1, 20%Z)]])
            (rep 5 (LMut 0) ++ rep 5 (LMut 1) ++ rep 16 (LNot false)))
  = Some ([[]; []], [false; false], false, NSelect, [(0, 10%Z); (1, 20%Z)], [(0, 10%Z); (1, 20%Z)], []).
Proof. vm_compute. reflexivity. Qed.

(* interleaved mutators on one shard: the second blocks in mu.Lock while the first holds the lock *)
Example ex_lock_blocks :
  obs (exec re_none (init 1 [[(0, 10%Z)]; [(0, 20%Z)]]) [LMut 0; LMut 1]) = None.
Proof. vm_compute. reflexivity. Qed.

(* THEOREM 3 as literally stated is false: flag stored, signal not yet sent *)
Example no_lost_wake_refuted :
  exists s, reachable re_none 1 [[(0, 10%Z)]] s /\
            closeCh s = false /\ pending (shards s 0) = true /\ npos s = NSelect /\ wakeTok s = false.
Proof.
  destruct (exec re_none (init 1 [[(0, 10%Z)]]) (rep 3 (LMut 0))) as [s|] eqn:E; [|vm_compute in E; discriminate].
  exists s. split; [eapply exec_reachable; [apply reach_init | exact E]|].
  vm_compute in E. injection E as <-. cbn. repeat split.
Qed.

(* re-entrant listener: 10's listener stages 11 on the LATER shard 1 (delivered in the same pass, after
   20); 20's listener stages 21 on the EARLIER shard 0: left in the buffer with flag and token set ... *)
Example ex_reentrant_same_pass :
  obs (exec re_cross (init 2 [[(0, 10%Z)]; [(1, 20%Z)]])
            (rep 5 (LMut 0) ++ rep 5 (LMut 1) ++ rep 26 (LNot false)))
  = Some ([[21%Z]; []], [true; false], true, NCheck 2,
          [(0, 10%Z); (1, 20%Z); (1, 11%Z)], [(0, 10%Z); (1, 20%Z); (1, 11%Z); (0, 21%Z)], []).
Proof. vm_compute. reflexivity. Qed.

(* ... and delivered by the next pass, which that token triggers *)
Example ex_reentrant_next_pass :
  obs (exec re_cross (init 2 [[(0, 10%Z)]; [(1, 20%Z)]])
            (rep 5 (LMut 0) ++ rep 5 (LMut 1) ++ rep 37 (LNot false)))
  = Some ([[]; []], [false; false], false, NSelect,
          [(0, 10%Z); (1, 20%Z); (1, 11%Z); (0, 21%Z)], [(0, 10%Z); (1, 20%Z); (1, 11%Z); (0, 21%Z)], []).
Proof. vm_compute. reflexivity. Qed.

(* a listener re-staging on its own shard does not deadlock and is served by the next pass *)
Example ex_reentrant_own_shard :
  obs (exec re_self (init 1 [[(0, 10%Z)]]) (rep 5 (LMut 0) ++ rep 23 (LNot true)))
  = Some ([[]], [false], false, NSelect, [(0, 10%Z); (0, 11%Z)], [(0, 10%Z); (0, 11%Z)], []).
Proof. vm_compute. reflexivity. Qed.

(* Close with a final drain: staged before close(closeCh), select prefers closeCh although the token is
   there: the final drain delivers it, the notifier exits, the closer's wait returns *)
Example ex_close_final_drain :
  match exec re_none (init 1 [[(0, 10%Z)]]) (rep 5 (LMut 0) ++ [LClose] ++ rep 9 (LNot true) ++ [LClose]) with
  | Some s => (delivered s, staged s, late s, npos s, cpos s)
  | None => ([], [], [], NSelect, CStart)
  end = ([(0, 10%Z)], [(0, 10%Z)], [], NExited, CDone).
Proof. vm_compute. reflexivity. Qed.

(* THEOREM 5, negative part.  A mutator (standing for a write worker's final drain that applies a write
   accepted during shutdown) stages on shard 0 after the notifier has exited: the id sits in the buffer
   with flag and token set and is never delivered, whatever happens afterwards. *)
Example staged_after_exit_lost :
  exists s, exec re_none (init 1 [[(0, 10%Z)]; [(0, 30%Z)]])
                 (rep 5 (LMut 0) ++ [LClose] ++ rep 9 (LNot true) ++ [LClose] ++ rep 5 (LMut 1)) = Some s /\
            npos s = NExited /\ cpos s = CDone /\
            In (0, 30%Z) (staged s) /\ late s = [(0, 30%Z)] /\ buf (shards s 0) = [30%Z] /\
            pending (shards s 0) = true /\ wakeTok s = true /\
            forall ls s', exec re_none s ls = Some s' -> delivered s' = [(0, 10%Z)].
Proof.
  destruct (exec re_none (init 1 [[(0, 10%Z)]; [(0, 30%Z)]])
                 (rep 5 (LMut 0) ++ [LClose] ++ rep 9 (LNot true) ++ [LClose] ++ rep 5 (LMut 1))) as [s|] eqn:E;
    [|vm_compute in E; discriminate].
  exists s. split; [reflexivity|].
  assert (Ho : npos s = NExited /\ cpos s = CDone /\ staged s = [(0, 10%Z); (0, 30%Z)] /\
               late s = [(0, 30%Z)] /\ buf (shards s 0) = [30%Z] /\ pending (shards s 0) = true /\
               wakeTok s = true /\ delivered s = [(0, 10%Z)]).
  { vm_compute in E. injection E as <-. cbn. repeat split. }
  destruct Ho as (H1 & H2 & H3 & H4 & H5 & H6 & H7 & H8).
  repeat split; try assumption.
  - rewrite H3. right. left. reflexivity.
  - intros ls s' Hx. destruct (exited_frozen_exec _ _ _ _ H1 Hx) as [_ Hd]. congruence.
Qed.

(* the same loss while the notifier is still running: its final drain has passed shard 0 (flag loaded as
   false) and is looking at shard 1 when the mutator stages on shard 0 *)
Example staged_after_final_visit_lost :
  obs (exec re_none (init 2 [[(0, 30%Z)]])
            ([LClose] ++ rep 2 (LNot true) ++ rep 5 (LMut 0) ++ rep 2 (LNot true) ++ [LClose]))
  = Some ([[30%Z]; []], [true; false], true, NExited, [], [(0, 30%Z)], [(0, 30%Z)]).
Proof. vm_compute. reflexivity. Qed.

(* ... and even an id APPENDED before the final visit is lost when its flag store comes after it: the
   final drain loads removePending = false between the mutator's append and its Store(true) *)
Example appended_before_final_visit_lost :
  obs (exec re_none (init 1 [[(0, 30%Z)]])
            (rep 2 (LMut 0) ++ [LClose] ++ rep 2 (LNot true) ++ rep 3 (LMut 0) ++ [LNot true; LClose]))
  = Some ([[30%Z]], [true], true, NExited, [], [(0, 30%Z)], [(0, 30%Z)]).
Proof. vm_compute. reflexivity. Qed.

(* a listener that stages during the FINAL drain on a shard already visited loses that notification *)
Example reentrant_in_final_drain_lost :
  obs (exec re_self (init 1 [[(0, 10%Z)]]) (rep 5 (LMut 0) ++ [LClose] ++ rep 14 (LNot true) ++ [LClose]))
  = Some ([[11%Z]], [true], true, NExited, [(0, 10%Z)], [(0, 10%Z); (0, 11%Z)], [(0, 11%Z)]).
Proof. vm_compute. reflexivity. Qed.

(* ------------------------------------------------------------------ Theorem 4b: a measure for the notifier *)

Fixpoint sumn (f : nat -> nat) (n : nat) : nat :=
  match n with O => 0 | S k => sumn f k + f k end.

Lemma sumn_fupd {A} (g : A -> nat) (F : nat -> A) i x n :
  i < n -> sumn (fun k => g (fupd F i x k)) n + g (F i) = sumn (fun k => g (F k)) n + g x.
Proof.
  induction n as [|n IH]; [lia|]. intros Hi. cbn [sumn].
  destruct (Nat.eq_dec i n) as [->|Hne].
  - rewrite fupd_eq.
    assert (E : sumn (fun k => g (fupd F n x k)) n = sumn (fun k => g (F k)) n).
    { clear. assert (G : forall m, m <= n -> sumn (fun k => g (fupd F n x k)) m = sumn (fun k => g (F k)) m).
      { induction m as [|m IHm]; [reflexivity|]. intros Hm. cbn [sumn].
        rewrite IHm by lia. rewrite fupd_neq by lia. reflexivity. }
      apply G. lia. }
    lia.
  - rewrite (fupd_neq F i x n) by lia. specialize (IH ltac:(lia)). lia.
Qed.

Section Measure.
  (* well-foundedness of re-entrant staging: the id a listener stages has a smaller rank *)
  Variable rank : Z -> nat.

  Fixpoint wl (l : list Z) : nat :=
    match l with [] => 0 | x :: r => S (rank x) + wl r end.

  Lemma wl_app a b : wl (a ++ b) = wl a + wl b.
  Proof. induction a as [|x a IH]; cbn [wl app]; lia. Qed.

  (* weight of a nested stage that has not appended yet *)
  Definition rpend (p : npc) : nat :=
    match p with
    | NReent _ MIdle _ y | NReent _ MLocked _ y => S (rank y)
    | _ => 0
    end.

  (* undelivered work: everything in the buffers, in the hand, or about to be appended by a listener *)
  Definition work (s : state) : nat :=
    sumn (fun k => wl (buf (shards s k))) (nsh s) + wl (hand s) + rpend (npos s).

  (* token present, or a nested stage that will still send it *)
  Definition tokpot (s : state) : nat :=
    if wakeTok s then 1 else
    match npos s with
    | NReent _ MIdle _ _ | NReent _ MLocked _ _ | NReent _ MAppended _ _ | NReent _ MFlagged _ _ => 1
    | _ => 0
    end.

  Definition spos (p : mpc) : nat :=
    match p with MIdle => 5 | MLocked => 4 | MAppended => 3 | MFlagged => 2 | MSignalled => 1 end.

  (* position inside the pass *)
  Definition ppos (n : nat) (p : npc) : nat :=
    match p with
    | NSelect | NExited => 0
    | NCheck i => (n - i) * 8 + 7
    | NLock i => (n - i) * 8 + 6
    | NSwap i => (n - i) * 8 + 5
    | NClear i => (n - i) * 8 + 4
    | NUnlock i => (n - i) * 8 + 3
    | NDeliver i => (n - i) * 8 + 2
    | NReent i p _ _ => (n - i) * 8 + 2 + spos p
    end.

  Lemma ppos_bound n p : ppos n p < 8 * n + 8.
  Proof. destruct p as [ | | | | | | |? p ? ?| ]; cbn [ppos]; try destruct p; cbn [spos]; lia. Qed.

  (* lexicographic decrease of (work, tokpot, ppos) *)
  Definition lexlt (s' s : state) : Prop :=
    work s' < work s \/
    (work s' <= work s /\ tokpot s' < tokpot s) \/
    (work s' <= work s /\ tokpot s' <= tokpot s /\ ppos (nsh s') (npos s') < ppos (nsh s) (npos s)).

  (* the same as a single natural number *)
  Definition measure (s : state) : nat :=
    (work s * 2 + tokpot s) * (8 * nsh s + 8) + ppos (nsh s) (npos s).

  Lemma tokpot_le1 s : tokpot s <= 1.
  Proof. unfold tokpot. destruct (wakeTok s); [lia|]. destruct (npos s) as [ | | | | | | |? p ? ?| ]; try lia. destruct p; lia. Qed.

  Lemma lexlt_measure s' s : nsh s' = nsh s -> lexlt s' s -> measure s' < measure s.
  Proof.
    unfold lexlt, measure. intros En H. rewrite En in *.
    pose proof (ppos_bound (nsh s) (npos s')) as B1. pose proof (ppos_bound (nsh s) (npos s)) as B2.
    pose proof (tokpot_le1 s') as T1. pose proof (tokpot_le1 s) as T2.
    set (K := 8 * nsh s + 8) in *.
    destruct H as [H|[[G1 G2]|(G1 & G2 & G3)]]; nia.
  Qed.
End Measure.

(* THEOREM 4b.  While closeCh is open every notifier step strictly decreases the lexicographic measure
   (undelivered work, token-or-signal-to-come, position in the pass), provided re-entrant staging is
   well founded (the id staged by a listener has a smaller rank than the id being delivered). *)
Theorem notifier_step_decreases re rank n scripts s c s' :
  (forall x j y, re x = Some (j, y) -> rank y < rank x) ->
  reachable re n scripts s -> closeCh s = false -> step re s (LNot c) = Some s' ->
  lexlt rank s' s.
Proof.
  intros Hr R Hc H. destruct (lockinv_reachable _ _ _ _ R) as (_ & _ & _ & _ & Hd).
  step_inv H; cbn [nbound] in Hd; ltb_prop.
  all: try congruence.
  all: unfold lexlt, work, tokpot; sset.
  all: try match goal with
       | |- context [fupd (shards ?s0) ?i ?d] =>
           pose proof (sumn_fupd (fun d0 => wl rank (buf d0)) (shards s0) i d (nsh s0) ltac:(lia)) as HS;
           cbn beta in HS; cbn [buf] in HS
       end.
  all: try match goal with Hre : ?re0 ?x = Some (?j, ?y) |- _ => pose proof (Hr x j y Hre) end.
  all: try match goal with E : npos _ = _ |- _ => rewrite E in * end.
  all: try match goal with E : hand _ = _ |- _ => rewrite E in * end.
  all: rewrite ?wl_app in *; cbn [wl rpend ppos spos] in *.
  all: destruct (wakeTok s); lia.
Qed.

Corollary notifier_measure_decreases re rank n scripts s c s' :
  (forall x j y, re x = Some (j, y) -> rank y < rank x) ->
  reachable re n scripts s -> closeCh s = false -> step re s (LNot c) = Some s' ->
  measure rank s' < measure rank s.
Proof.
  intros Hr R Hc H. apply lexlt_measure; [|eapply notifier_step_decreases; eauto].
  cbn [step] in H. assert (H' : step re s (LNot c) = Some s') by exact H. clear H.
  step_inv H'; reflexivity.
Qed.

(* without well-foundedness the notifier need not come to rest: every delivery stages a new id *)
Definition re_forever : Z -> option (nat * Z) := fun x => Some (0, (x + 1)%Z).


Example ex_unbounded_reentrance :
  obs (exec re_forever (init 1 [[(0, 10%Z)]]) (rep 5 (LMut 0) ++ rep 42 (LNot false)))
  = Some ([[13%Z]], [true], true, NSelect,
          [(0, 10%Z); (0, 11%Z); (0, 12%Z)], [(0, 10%Z); (0, 11%Z); (0, 12%Z); (0, 13%Z)], []).
Proof. vm_compute. reflexivity. Qed.

(* ------------------------------------------------------------------ does the order matter? *)

(* Mutator side: YES.  With the signal sent before the flag store (mutant `step_sigfirst`) the wake-up
   is lost: the notifier consumes the token, loads removePending = false, parks again; then the flag
   is stored.  The id sits in the buffer, flag set, no token, no mutator mid-operation, notifier parked,
   closeCh open: nobody can move (the statement of no_lost_wake, and of quiescent_all_delivered, fail). *)
Example signal_before_flag_loses_wake :
  exists s, exec_sigfirst re_none (init 1 [[(0, 10%Z)]])
              (rep 3 (LMut 0) ++ rep 3 (LNot false) ++ rep 2 (LMut 0)) = Some s /\
            closeCh s = false /\ npos s = NSelect /\ wakeTok s = false /\
            pending (shards s 0) = true /\ buf (shards s 0) = [10%Z] /\ delivered s = [] /\
            mpos (muts s 0) = MIdle /\ script (muts s 0) = [] /\
            step_sigfirst re_none s (LNot false) = None /\ step_sigfirst re_none s (LNot true) = None /\
            step_sigfirst re_none s (LMut 0) = None.
Proof.
  destruct (exec_sigfirst re_none (init 1 [[(0, 10%Z)]])
              (rep 3 (LMut 0) ++ rep 3 (LNot false) ++ rep 2 (LMut 0))) as [s|] eqn:E;
    [|vm_compute in E; discriminate].
  exists s. split; [reflexivity|]. vm_compute in E. injection E as <-. cbn. repeat split.
Qed.

(* the same schedule on the real order: the mutator's third step is the flag store, so the notifier's
   Load sees it, blocks in mu.Lock until the mutator unlocks, then delivers *)
Example flag_before_signal_same_schedule :
  obs (exec re_none (init 1 [[(0, 10%Z)]]) (rep 4 (LMut 0) ++ rep 2 (LNot false) ++ [LMut 0] ++ rep 7 (LNot false)))
  = Some ([[]], [false], false, NSelect, [(0, 10%Z)], [(0, 10%Z)], []).
Proof. vm_compute. reflexivity. Qed.

(* Notifier side: swap-then-clear versus clear-then-swap makes no difference: both happen under the shard
   lock, and every append/flag pair of a stager also happens under that lock (lock_owner_mutator,
   lock_owner_notifier), so no other thread observes the intermediate state.  What matters there is that
   the flag is cleared under the lock (flaginv: a stager past its flag store keeps the flag true until
   the notifier, holding the lock, clears it) and that the token is taken before the flags are loaded. *)

(* ------------------------------------------------------------------ summary statements *)

(* THEOREM 5, positive part in one statement: when the notifier has exited (and no mutator is mid-
   operation), every staged id whose flag store was not later than the final visit of its shard has
   been delivered exactly once (ids pairwise distinct). *)
Theorem close_final_drain_exactly_once re n scripts s sh x :
  reachable re n scripts s -> npos s = NExited -> quiescent s ->
  NoDup (map snd (staged s)) ->
  In (sh, x) (staged s) -> ~ In (sh, x) (late s) ->
  count_occ pair_dec (delivered s) (sh, x) = 1.
Proof.
  intros R He Hq Hn Hs Hl.
  pose proof (staged_before_final_visit_delivered _ _ _ _ sh x R He Hq Hs Hl) as Hin.
  pose proof (at_most_once _ _ _ _ R Hn) as Hd. apply NoDup_map_inv in Hd.
  apply (count_occ_In pair_dec) in Hin.
  pose proof (proj1 (NoDup_count_occ pair_dec (delivered s)) Hd (sh, x)). lia.
Qed.

(* THEOREM 4 in one statement (enabledness + measure + rest state), closeCh open. *)
Theorem eventual_delivery re rank n scripts s :
  (forall x j y, re x = Some (j, y) -> rank y < rank x) ->
  reachable re n scripts s -> closeCh s = false ->
  (* mutators always release *)
  (forall t, mpos (muts s t) <> MIdle -> exists s', step re s (LMut t) = Some s') /\
  (* the notifier is blocked only at the select without token or by a mutator that is mid-operation *)
  (forall c, step re s (LNot c) = None ->
     (npos s = NSelect /\ wakeTok s = false) \/
     (exists sh t, mu (shards s sh) = Some (OwMut t) /\ mpos (muts s t) <> MIdle /\
                   exists s', step re s (LMut t) = Some s')) /\
  (* with the mutators at rest a non-empty buffer enables the notifier *)
  (quiescent s -> forall sh, buf (shards s sh) <> [] -> forall c, exists s', step re s (LNot c) = Some s') /\
  (* every notifier step decreases the measure *)
  (forall c s', step re s (LNot c) = Some s' -> measure rank s' < measure rank s) /\
  (* at rest everything has been delivered *)
  (quiescent s -> npos s = NSelect -> wakeTok s = false ->
   forall sh, buf (shards s sh) = [] /\ proj sh (staged s) = proj sh (delivered s)).
Proof.
  intros Hr R Hc. repeat split.
  - intros t Ht. eapply mutator_mid_op_enabled; eauto.
  - intros c Hn. eapply notifier_blocked_only_by; eauto.
  - intros Hq sh Hb c. eapply notifier_enabled; eauto.
  - intros c s' H. eapply notifier_measure_decreases; eauto.
  - eapply quiescent_all_delivered; eauto.
  - eapply quiescent_all_delivered; eauto.
Qed.

(* THEOREM 1 in one statement. *)
Theorem at_most_once_no_fabrication_fifo re n scripts s :
  reachable re n scripts s ->
  (NoDup (map snd (staged s)) -> NoDup (map snd (delivered s))) /\
  (forall p, count_occ pair_dec (delivered s) p <= count_occ pair_dec (staged s) p) /\
  (forall sh, exists rest, proj sh (staged s) = proj sh (delivered s) ++ rest).
Proof.
  intros R. split; [apply (at_most_once _ _ _ _ R)|]. split.
  - intros p. apply (no_fabrication _ _ _ _ p R).
  - intros sh. apply (fifo_per_shard _ _ _ _ sh R).
Qed.
