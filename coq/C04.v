(* C04 — async writes are applied once, in real-time order, fenced by Sync/Clear. Theorems over QueueLts (atomic-step LTS of the Vyukov ring, write worker, inline/sync/barrier/close/miss-helper paths; every thread count, ring size n>=2, batch size, schedule and select choice). Only `exact` + Print Assumptions. *)
Require Import KV.Base KV.QueueLts KV.QueueLtsProofs KV.MutexAtomicity KV.CacheProofs.
Open Scope Z_scope.

(* ring invariant at every reachable state: tail <= head <= tail+n, every cell is free, reserved by exactly one producer, published, or in the consumer's hand *)
Theorem c04_ring_shape :
  forall (f : bool) (n B : Z) (scripts : list (list QueueLts.op)) (s : gstate),
         2 <= n ->
         wf_scripts scripts -> QueueLtsProofs.reachable (init_scripts f n B scripts) s -> invB s.
Proof. exact QueueLtsProofs.ring_shape. Qed.

(* no published command is ever overwritten before it was consumed (laps and back-pressure included) *)
Theorem c04_no_overwrite :
  forall (f : bool) (n B : Z) (scripts : list (list QueueLts.op)) (s : gstate),
         2 <= n ->
         wf_scripts scripts ->
         QueueLtsProofs.reachable (init_scripts f n B scripts) s ->
         overwrote s = false /\
         (forall (tid : nat) (th : QueueLts.thread),
          QueueLtsProofs.thr s tid th -> pc th = P104 -> ccmd (cell_at s (epos th)) = None).
Proof. exact QueueLtsProofs.no_overwrite. Qed.

(* the minimum ring of 2 is necessary: with one cell a command is overwritten *)
Theorem c04_two_cells_needed :
  overwrote
           (run_sched (init_scripts true 1 1 [[OEnqueue 1]; [OEnqueue 2]])
              [0%nat; 0%nat; 0%nat; 0%nat; 0%nat; 0%nat; 0%nat; 1%nat; 1%nat; 1%nat; 1%nat; 1%nat]) =
         true.
Proof. exact QueueLtsProofs.no_overwrite_needs_two_cells. Qed.

(* queue-applied commands are a prefix of the reservation order, each once; applied = merge of queue-applied and directly applied; every nil-returned enqueue is published, in the consumer's batch, or applied *)
Theorem c04_exactly_once_fifo :
  forall (f : bool) (n B : Z) (scripts : list (list QueueLts.op)) (s : gstate),
         2 <= n ->
         wf_scripts scripts ->
         QueueLtsProofs.reachable (init_scripts f n B scripts) s ->
         qlog s = firstn (length (qlog s)) (resv s) /\
         Merge (wids (qlog s)) (dlog s) (applied s) /\
         (NoDup (wids (resv s) ++ dlog s) -> NoDup (applied s)) /\
         (forall p : Z,
          In p (accd s) ->
          0 <= p < head s /\
          (gtail s <= p -> published s p) /\
          (p < gtail s ->
           (drainMu s = None -> (Z.to_nat p < length (qlog s))%nat) /\
           (forall (tid : nat) (th : QueueLts.thread),
            QueueLtsProofs.thr s tid th ->
            holder (pc th) = true -> (Z.to_nat p < length (qlog s ++ dbuf th))%nat))).
Proof. exact QueueLtsProofs.exactly_once_fifo. Qed.

(* distinct write ids in the scripts => no id is applied twice (unconditional exactly-once) *)
Theorem c04_exactly_once :
  forall (f : bool) (n B : Z) (scripts : list (list QueueLts.op)) (s : gstate),
         2 <= n ->
         wf_scripts scripts ->
         NoDup (all_script_ids scripts) ->
         QueueLtsProofs.reachable (init_scripts f n B scripts) s -> NoDup (applied s).
Proof. exact QueueLtsProofs.exactly_once. Qed.

(* repaired code: if write a returned nil before write b was invoked, every application of b is preceded by an application of a (any mix of SetAsync / Set / Delete) *)
Theorem c04_realtime_order :
  forall (n B : Z) (scripts : list (list QueueLts.op)) (s : gstate) (a b : Z),
         2 <= n ->
         wf_scripts scripts ->
         QueueLtsProofs.reachable (init_scripts true n B scripts) s ->
         In (EInv b) (trace s) -> In a (rets_before b (trace s)) -> before a b (applied s).
Proof. exact QueueLtsProofs.realtime_order. Qed.

(* the same in trace-splitting form *)
Theorem c04_realtime_order_trace :
  forall (n B : Z) (scripts : list (list QueueLts.op)) (s : gstate) 
           (a b : Z) (t1 t2 t3 : list event) (l1 l2 : list Z),
         2 <= n ->
         wf_scripts scripts ->
         QueueLtsProofs.reachable (init_scripts true n B scripts) s ->
         trace s = t1 ++ ERet a :: t2 ++ EInv b :: t3 ->
         ~ In (EInv b) (t1 ++ ERet a :: t2) -> applied s = l1 ++ b :: l2 -> In a l1.
Proof. exact QueueLtsProofs.realtime_order_trace. Qed.

(* the ORIGINAL syncMutate violates it (finding F13): trace [Inv 1; Inv 3; Ret 1; Inv 5; App 5; Ret 5; Ret 3; App 3; App 1] *)
Theorem c04_realtime_order_old_code_refuted :
  let s := run_sched (init_scripts false 2 1 rt_scripts) rt_sched in
         trace s = [EInv 1; EInv 3; ERet 1; EInv 5; EApp 5; ERet 5; ERet 3; EApp 3; EApp 1] /\
         applied s = [5; 3; 1] /\
         In (EInv 5) (trace s) /\ In 1 (rets_before 5 (trace s)) /\ ~ before 1 5 (applied s).
Proof. exact QueueLtsProofs.realtime_order_refuted. Qed.

(* the same schedule on the repaired code parks the Set at 333 and applies [3;1;5] *)
Theorem c04_realtime_order_fixed_run :
  let s := run_sched (init_scripts true 2 1 rt_scripts) (rt_sched ++ repeat 3%nat 32) in
         applied s = [3; 1; 5] /\
         trace s = [EInv 1; EInv 3; ERet 1; EInv 5; ERet 3; EApp 3; EApp 1; EApp 5; ERet 5].
Proof. exact QueueLtsProofs.realtime_order_fixed_run. Qed.

(* when a barrier/clear acknowledgement exists, every write reserved before that barrier has been applied (Sync and Clear fence every SetAsync that returned before them) *)
Theorem c04_sync_fence :
  forall (f : bool) (n B : Z) (scripts : list (list QueueLts.op)) (s : gstate) (a : Z),
         2 <= n ->
         wf_scripts scripts ->
         QueueLtsProofs.reachable (init_scripts f n B scripts) s ->
         In a (ackTok s) ->
         exists k : nat,
           (k < length (qlog s))%nat /\
           (nth k (resv s) (Write 0) = Barrier a \/ nth k (resv s) (Write 0) = ClearCmd a) /\
           (forall (j : nat) (id : Z),
            (j < k)%nat -> nth j (resv s) (Write 0) = Write id -> In id (applied s)).
Proof. exact QueueLtsProofs.sync_fence. Qed.

(* whenever a command is published at tail, the token is free and the cache open, a wake token is pending or a worker is in its drain/re-arm section or the publishing producer is about to signal: an accepted SetAsync is never stranded *)
Theorem c04_no_lost_wake :
  forall (f : bool) (n B : Z) (scripts : list (list QueueLts.op)) (s : gstate),
         2 <= n ->
         1 <= B ->
         wf_scripts scripts ->
         QueueLtsProofs.reachable (init_scripts f n B scripts) s ->
         cseq (cell_at s (tail s)) = tail s + 1 ->
         drainMu s = None ->
         closeCh s = false ->
         wakeTok s = true \/
         (exists (tid : nat) (th : QueueLts.thread),
            QueueLtsProofs.thr s tid th /\ cur th = Some OWorker /\ wsetN (pc th) = true) \/
         (exists (tid : nat) (th : QueueLts.thread),
            QueueLtsProofs.thr s tid th /\ pc th = P106 /\ epos th = tail s).
Proof. exact QueueLtsProofs.no_lost_wake. Qed.

(* in that situation some responsible thread has an enabled step (visible within bounded time with no further calls, given a fair scheduler) *)
Theorem c04_progress :
  forall (f : bool) (n B : Z) (scripts : list (list QueueLts.op)) (s : gstate) (c : bool),
         2 <= n ->
         1 <= B ->
         wf_scripts scripts ->
         QueueLtsProofs.reachable (init_scripts f n B scripts) s ->
         ready s ->
         closeCh s = false ->
         (exists (tid : nat) (th : QueueLts.thread),
            QueueLtsProofs.thr s tid th /\ cur th = Some OWorker) -> can_step c s.
Proof. exact QueueLtsProofs.progress. Qed.

(* the repaired syncMutate's wait (yield 333) only waits for producers between reserve and publish, whose steps are always enabled *)
Theorem c04_set_wait_bounded :
  forall (f : bool) (n B : Z) (scripts : list (list QueueLts.op)) 
           (s : gstate) (tid : nat) (th : QueueLts.thread),
         2 <= n ->
         1 <= B ->
         wf_scripts scripts ->
         QueueLtsProofs.reachable (init_scripts f n B scripts) s ->
         QueueLtsProofs.thr s tid th ->
         pc th = P333 ->
         tail s < starget th /\
         starget th <= head s /\
         (published s (tail s) \/
          (exists (t' : nat) (th' : QueueLts.thread),
             QueueLtsProofs.thr s t' th' /\
             ownpc (pc th') = true /\ epos th' = tail s /\ (forall c : bool, lstepc c s t' <> None))).
Proof. exact QueueLtsProofs.set_wait_bounded. Qed.

(* non-vacuity: ring of 2, producer blocked at the full ring, released by the space token, laps the ring without overwriting *)
Theorem c04_backpressure_example :
  let r := run_sched_obs (init_scripts true 2 1 ex_scripts) ex_sched_backpressure in
         snd r =
         [[101; 0; 0]; [102; 0; 0]; [103; 0; 0]; [104; 0; 0]; [105; 0; 0]; [
          106; 0; 0]; [0; 0; 0]; [101; 0; 0]; [102; 0; 0]; [103; 0; 0]; [
          104; 0; 0]; [105; 0; 0]; [106; 0; 0]; [0; 0; 0]; [101; 0; 0]; [
          102; 0; 0]; [108; 0; 0]; [-2]; [301; 0; 0]; [302; 0; 0]; [311; 0; 0]; [
          121; 0; 0]; [122; 0; 0]; [123; 0; 0]; [124; 0; 0]; [125; 0; 0]; [
          126; 0; 0]; [312; 0; 0]; [313; 0; 0]; [121; 0; 0]; [101; 0; 0]; [
          102; 0; 0]; [103; 0; 0]; [104; 0; 0]; [105; 0; 0]; [106; 0; 0]; [
          0; 0; 0]] /\
         head (fst r) = 3 /\ tail (fst r) = 1 /\ applied (fst r) = [1] /\ overwrote (fst r) = false.
Proof. exact QueueLtsProofs.backpressure_and_lap. Qed.

(* functional level: a SetAsync batch followed by Sync equals the same Sets applied synchronously *)
Theorem c04_async_then_sync_is_sync :
  forall (shard_of : Z -> Z) (reqs : list req) (c : CacheModel.cache),
         CacheInv shard_of c ->
         Forall (wf_req shard_of (CacheModel.nshards c)) reqs ->
         CacheModel.drain_all (async_all c reqs) = sync_all (CacheModel.drain_all c) reqs.
Proof. exact CacheProofs.c01_async_then_sync. Qed.

(* the apply steps under the shard lock are atomic in lock order *)
Theorem c04_locked_sections_atomic :
  forall (S R : Type) (s0 : S) (scripts : list (list (op S R))) (st : state S R),
         reachable s0 scripts st ->
         ((forall t : nat, ~ in_write st t) ->
          sh st = seq_state s0 (map snd (g_acq st)) /\ g_ret st = seq_rets s0 (g_acq st)) /\
         (forall (t : nat) (c : call S R) (rem : list (mstep S R)) (r : R),
          in_w st t c rem r ->
          exists (acq' : list (nat * call S R)) (done : list (mstep S R)),
            g_acq st = acq' ++ [(t, c)] /\
            c_steps c = done ++ rem /\
            (sh st, r) = run_steps done (seq_state s0 (map snd acq'), c_init c) /\
            g_ret st = seq_rets s0 acq').
Proof. exact MutexAtomicity.atomicity. Qed.

Print Assumptions c04_ring_shape.
Print Assumptions c04_no_overwrite.
Print Assumptions c04_two_cells_needed.
Print Assumptions c04_exactly_once_fifo.
Print Assumptions c04_exactly_once.
Print Assumptions c04_realtime_order.
Print Assumptions c04_realtime_order_trace.
Print Assumptions c04_realtime_order_old_code_refuted.
Print Assumptions c04_realtime_order_fixed_run.
Print Assumptions c04_sync_fence.
Print Assumptions c04_no_lost_wake.
Print Assumptions c04_progress.
Print Assumptions c04_set_wait_bounded.
Print Assumptions c04_backpressure_example.
Print Assumptions c04_async_then_sync_is_sync.
Print Assumptions c04_locked_sections_atomic.
