(* GENERATED from /repo/internal/keyhash/hasher.go by `harness kindtable`. Do not edit. *)
From Coq Require Import ZArith List String.
Import ListNotations. Open Scope Z_scope. Open Scope string_scope.
(* (kind, hasher: 1 string 2 integer 3 fallback, read type, read width in bits, read signed) *)
Definition kind_table : list (string * Z * string * Z * Z) := [
  ("Int", 2, "int", 64, 1);
  ("Int16", 2, "int16", 16, 1);
  ("Int32", 2, "int32", 32, 1);
  ("Int64", 2, "int64", 64, 1);
  ("Int8", 2, "int8", 8, 1);
  ("String", 1, "", 0, 0);
  ("Uint", 2, "uint", 64, 0);
  ("Uint16", 2, "uint16", 16, 0);
  ("Uint32", 2, "uint32", 32, 0);
  ("Uint64", 2, "uint64", 64, 0);
  ("Uint8", 2, "uint8", 8, 0);
  ("Uintptr", 2, "uintptr", 64, 0)
].
Definition kind_default : Z := 3.
