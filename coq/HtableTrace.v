(* HtableTrace.v — whole-history refinement: every protocol-respecting sequence of table operations,
   run on the concrete open-addressing table from [new_table c], is simulated step by step by an abstract
   association map with a probe/publish protocol phase.  Lifts the per-operation theorems of
   HtableProofs.v to every reachable table.  Stdlib only. *)
Require Import KV.Base KV.Gen.Consts KV.HtableModel KV.HtableProofs.
Require Import Lia List Arith ZArith Bool.
Import ListNotations.
Local Open Scope Z_scope.

(* ------------------------------------------------------------------ *)
(** * Operations and outputs                                             *)
(* ------------------------------------------------------------------ *)

Inductive top :=
| TStore (it : item) | TLookup (k : Z) | TProbe (k : Z) | TSwap (it : item)
| TPublish (it : item) | TUnpin | TRemove (it : item) | TClear.

Inductive tout :=
| OStore (prev : option item) | OLookup (r : option item) | OProbe (r : option item)
| ORemove (ok : bool) | OUnit.

(* ------------------------------------------------------------------ *)
(** * The abstract map: duplicate-free association list keyed by ikey    *)
(* ------------------------------------------------------------------ *)

Definition aget (m : list item) (k : Z) : option item := find (fun it => ikey it =? k) m.
Definition adel (m : list item) (k : Z) : list item := filter (fun it => negb (ikey it =? k)) m.
Definition aset (m : list item) (it : item) : list item := it :: adel m (ikey it).

Lemma aget_adel m kk k : aget (adel m kk) k = if k =? kk then None else aget m k.
Proof.
  unfold aget, adel. induction m as [|x m IH]; cbn [filter find].
  - destruct (k =? kk); reflexivity.
  - destruct (Z.eqb_spec (ikey x) kk) as [E|E]; cbn [negb].
    + rewrite IH. destruct (Z.eqb_spec k kk) as [F|F]; [reflexivity|].
      destruct (Z.eqb_spec (ikey x) k) as [G|G]; [lia|reflexivity].
    + cbn [find]. destruct (Z.eqb_spec (ikey x) k) as [G|G].
      * destruct (Z.eqb_spec k kk) as [F|F]; [lia|reflexivity].
      * exact IH.
Qed.

Lemma aget_aset m it k : aget (aset m it) k = if k =? ikey it then Some it else aget m k.
Proof.
  unfold aset. change (aget (it :: adel m (ikey it)) k)
    with (if ikey it =? k then Some it else aget (adel m (ikey it)) k).
  rewrite aget_adel. destruct (Z.eqb_spec (ikey it) k) as [E|E]; destruct (Z.eqb_spec k (ikey it)) as [F|F];
    try reflexivity; lia.
Qed.

Lemma In_adel m k x : In x (adel m k) -> In x m /\ ikey x <> k.
Proof.
  unfold adel. intros H. apply filter_In in H. destruct H as [I N]. split; [exact I|].
  apply negb_true_iff in N. apply Z.eqb_neq. exact N.
Qed.

Lemma NoDup_adel m k : NoDup (map ikey m) -> NoDup (map ikey (adel m k)).
Proof.
  unfold adel. induction m as [|x m IH]; cbn [map filter]; intros N; [constructor|].
  inversion N as [|? ? NI N']; subst.
  destruct (negb (ikey x =? k)); [|apply IH; exact N'].
  cbn [map]. constructor; [|apply IH; exact N'].
  intros I. apply NI. apply in_map_iff in I. destruct I as (y & Ky & Iy).
  apply filter_In in Iy. destruct Iy as [Iy _]. rewrite <- Ky. apply in_map. exact Iy.
Qed.

Lemma NoDup_aset m it : NoDup (map ikey m) -> NoDup (map ikey (aset m it)).
Proof.
  intros N. unfold aset. cbn [map]. constructor; [|apply NoDup_adel; exact N].
  intros I. apply in_map_iff in I. destruct I as (y & Ky & Iy).
  apply In_adel in Iy. destruct Iy as [_ Ny]. apply Ny. exact Ky.
Qed.

Lemma In_aset m it x : In x (aset m it) -> x = it \/ In x m.
Proof.
  unfold aset. intros [H|H]; [left; symmetry; exact H|right]. apply (In_adel _ _ _ H).
Qed.

Lemma aget_some m k x : aget m k = Some x -> In x m /\ ikey x = k.
Proof.
  unfold aget. intros H. apply find_some in H. destruct H as [I K]. split; [exact I|].
  apply Z.eqb_eq. exact K.
Qed.

Lemma aget_in_nodup m x : NoDup (map ikey m) -> In x m -> aget m (ikey x) = Some x.
Proof.
  unfold aget. induction m as [|y m IH]; cbn [map find]; intros N I; [destruct I|].
  inversion N as [|? ? NI N']; subst.
  destruct (Z.eqb_spec (ikey y) (ikey x)) as [E|E].
  - destruct I as [I|I]; [subst y; reflexivity|].
    exfalso. apply NI. rewrite E. apply in_map. exact I.
  - destruct I as [I|I]; [subst y; contradiction|]. apply IH; assumption.
Qed.

(* two duplicate-free keyed lists with the same lookup function have the same length *)
Lemma keyed_same_length (m1 m2 : list item) :
  NoDup (map ikey m1) -> NoDup (map ikey m2) ->
  (forall k, aget m1 k = aget m2 k) -> length m1 = length m2.
Proof.
  intros N1 N2 H.
  assert (I12 : forall a b, NoDup (map ikey a) -> (forall k, aget a k = aget b k) -> incl a b).
  { intros a b Na Hab x Ix. pose proof (aget_in_nodup a x Na Ix) as G. rewrite Hab in G.
    apply (aget_some b _ x G). }
  apply Nat.le_antisymm.
  - apply NoDup_incl_length; [apply (NoDup_map_inv ikey); exact N1|apply I12; assumption].
  - apply NoDup_incl_length; [apply (NoDup_map_inv ikey); exact N2|].
    apply I12; [exact N2|]. intros k. symmetry. apply H.
Qed.

(* ------------------------------------------------------------------ *)
(** * Monotone array generation                                          *)
(* ------------------------------------------------------------------ *)

Lemma gen_maybe_grow_ge t : gen t <= gen (maybe_grow t).
Proof.
  unfold maybe_grow. destruct (_ <? _); [lia|].
  unfold rehash. destruct (fold_left _ _ _) as [nl e]. cbn [gen]. lia.
Qed.

Lemma gen_store_ge t it : gen t <= gen (fst (store t it)).
Proof.
  unfold store. destruct (walk t (ihash it) (ikey it)) as [j tomb|s cur|]; cbn [fst].
  - eapply Z.le_trans; [|apply gen_maybe_grow_ge]. cbn [with_slots gen]. lia.
  - cbn [with_slots gen]. lia.
  - cbn [set_err gen]. lia.
Qed.

Lemma gen_publish_ge t it cur : gen t <= gen (publish t it cur).
Proof.
  unfold publish. destruct (negb (cgen cur =? gen t)).
  - eapply Z.le_trans; [|apply gen_store_ge]. cbn [with_slots gen]. lia.
  - eapply Z.le_trans; [|apply gen_maybe_grow_ge]. cbn [with_slots gen]. lia.
Qed.

Lemma gen_remove t it : gen (fst (remove_exact t it)) = gen t.
Proof.
  unfold remove_exact. destruct (find_exact _ _ _ _ _) as [[i|]|]; cbn [fst]; try reflexivity.
  destruct (reclaim_tombs _ _ _ _ _) as [l2 tb]. reflexivity.
Qed.

Lemma probe_found_cursor t h k t' x cur : probe t h k = (t', Some x, cur) -> cgen cur = -1.
Proof.
  unfold probe. destruct (walk t h k) as [j tomb|s c0|]; intros E; inversion E. reflexivity.
Qed.

(* ------------------------------------------------------------------ *)
(** * The two machines                                                   *)
(* ------------------------------------------------------------------ *)

Section Trace.
Variable hashf : Z -> Z.

(* --- concrete: the model functions, as the cache calls them under the shard lock --- *)
Record cstate := { ctab : htable; ccur : cursor; cfnd : option (nat * item) }.

Definition cstep (c : cstate) (op : top) : cstate * tout :=
  match op with
  | TStore it =>
      let '(t', prev) := store (ctab c) it in
      ({| ctab := t'; ccur := ccur c; cfnd := cfnd c |}, OStore prev)
  | TLookup k => (c, OLookup (lookup (ctab c) (hashf k) k))
  | TProbe k =>
      let '(t', found, cur) := probe (ctab c) (hashf k) k in
      ({| ctab := t'; ccur := cur; cfnd := found |}, OProbe (option_map snd found))
  | TSwap it =>
      ({| ctab := swap_at (ctab c) (match cfnd c with Some (s, _) => s | None => O end) it;
          ccur := ccur c; cfnd := cfnd c |}, OUnit)
  | TPublish it => ({| ctab := publish (ctab c) it (ccur c); ccur := ccur c; cfnd := cfnd c |}, OUnit)
  | TUnpin => ({| ctab := unpin (ctab c); ccur := ccur c; cfnd := cfnd c |}, OUnit)
  | TRemove it =>
      let '(t', ok) := remove_exact (ctab c) it in
      ({| ctab := t'; ccur := ccur c; cfnd := cfnd c |}, ORemove ok)
  | TClear => ({| ctab := clear (ctab c); ccur := ccur c; cfnd := cfnd c |}, OUnit)
  end.

Definition cinit (cap : Z) : cstate :=
  {| ctab := new_table cap; ccur := {| cgen := -1; cslot := O; ctomb := false |}; cfnd := None |}.

Definition crun (c : cstate) (ops : list top) : cstate * list tout := run cstep c ops.

(* --- abstract: association map + protocol phase + ghost history of issued item objects --- *)
Inductive phase := Idle | Pending (kc : Z) | Found (k : Z).

Record astate := {
  am : list item;          (* the map *)
  aph : phase;
  astale : bool;           (* ghost: the remembered cursor is known to be stale *)
  aissued : list item      (* ghost: every item object ever inserted *)
}.

Definition item_eqb (a b : item) : bool :=
  (ikey a =? ikey b) && (ihash a =? ihash b) && (ival a =? ival b) && (iid a =? iid b).

Definition consb (it : item) : bool := ihash it =? hashf (ikey it).
(* a new object: its iid was never issued before *)
Definition fresh_iid (issued : list item) (it : item) : bool :=
  forallb (fun x => negb (iid x =? iid it)) issued.
(* an argument of remove: any issued object with its iid is that very object *)
Definition ident_ok (issued : list item) (it : item) : bool :=
  forallb (fun x => negb (iid x =? iid it) || item_eqb x it) issued.

Definition ins_ok (a : astate) (it : item) : bool := consb it && fresh_iid (aissued a) it.

Definition a_insert (a : astate) (it : item) (st : bool) : astate :=
  {| am := aset (am a) it; aph := Idle; astale := st; aissued := it :: aissued a |}.

Definition rem_ok (m : list item) (it : item) : bool :=
  match aget m (ikey it) with Some cur => iid cur =? iid it | None => false end.

Definition astep (a : astate) (op : top) : option (astate * tout) :=
  match op with
  | TLookup k => Some (a, OLookup (aget (am a) k))
  | TStore it =>
      match aph a with
      | Idle => if ins_ok a it then Some (a_insert a it (astale a), OStore (aget (am a) (ikey it))) else None
      | _ => None
      end
  | TProbe k =>
      match aph a with
      | Idle =>
          match aget (am a) k with
          | Some it => Some ({| am := am a; aph := Found k; astale := true; aissued := aissued a |},
                             OProbe (Some it))
          | None => Some ({| am := am a; aph := Pending k; astale := false; aissued := aissued a |},
                          OProbe None)
          end
      | _ => None
      end
  | TSwap it =>
      match aph a with
      | Found k => if ins_ok a it && (ikey it =? k) then Some (a_insert a it (astale a), OUnit) else None
      | _ => None
      end
  | TPublish it =>
      match aph a with
      | Pending kc => if ins_ok a it && (ikey it =? kc) then Some (a_insert a it false, OUnit) else None
      | Idle => (* defensive path of the Go code: a stale cursor degrades to a plain store *)
          if astale a && ins_ok a it then Some (a_insert a it true, OUnit) else None
      | Found _ => None
      end
  | TUnpin => Some ({| am := am a; aph := Idle; astale := astale a; aissued := aissued a |}, OUnit)
  | TRemove it =>
      match aph a with
      | Found _ => None
      | _ =>
          if consb it && ident_ok (aissued a) it then
            let ok := rem_ok (am a) it in
            Some ({| am := if ok then adel (am a) (ikey it) else am a; aph := aph a;
                     astale := astale a; aissued := aissued a |}, ORemove ok)
          else None
      end
  | TClear => Some ({| am := []; aph := Idle; astale := true; aissued := aissued a |}, OUnit)
  end.

Definition ainit : astate := {| am := []; aph := Idle; astale := true; aissued := [] |}.

Fixpoint arun (a : astate) (ops : list top) : option (astate * list tout) :=
  match ops with
  | [] => Some (a, [])
  | op :: r =>
      match astep a op with
      | None => None
      | Some (a1, o) =>
          match arun a1 r with
          | None => None
          | Some (a2, os) => Some (a2, o :: os)
          end
      end
  end.

(* a trace respects the protocol iff the abstract machine accepts it *)
Definition protocol_ok (ops : list top) : Prop := exists a outs, arun ainit ops = Some (a, outs).

(* ------------------------------------------------------------------ *)
(** * Boolean side conditions                                            *)
(* ------------------------------------------------------------------ *)

Lemma item_eqb_eq a b : item_eqb a b = true -> a = b.
Proof.
  unfold item_eqb. intros H.
  apply andb_true_iff in H. destruct H as [H H4].
  apply andb_true_iff in H. destruct H as [H H3].
  apply andb_true_iff in H. destruct H as [H1 H2].
  apply Z.eqb_eq in H1, H2, H3, H4.
  destruct a, b. cbn in *. subst. reflexivity.
Qed.

Lemma consb_true it : consb it = true -> consistent hashf it.
Proof. unfold consb, consistent. apply Z.eqb_eq. Qed.

Lemma fresh_iid_spec l it : fresh_iid l it = true -> forall x, In x l -> iid x <> iid it.
Proof.
  unfold fresh_iid. intros H x I. rewrite forallb_forall in H. specialize (H x I).
  apply negb_true_iff in H. apply Z.eqb_neq. exact H.
Qed.

Lemma ident_ok_spec l it : ident_ok l it = true -> forall x, In x l -> iid x = iid it -> x = it.
Proof.
  unfold ident_ok. intros H x I E. rewrite forallb_forall in H. specialize (H x I).
  apply orb_true_iff in H. destruct H as [H|H].
  - apply negb_true_iff in H. apply Z.eqb_neq in H. contradiction.
  - apply item_eqb_eq. exact H.
Qed.

Lemma ins_ok_spec a it :
  ins_ok a it = true -> consistent hashf it /\ (forall x, In x (aissued a) -> iid x <> iid it).
Proof.
  unfold ins_ok. intros H. apply andb_true_iff in H. destruct H as [H1 H2].
  split; [apply consb_true; exact H1|apply fresh_iid_spec; exact H2].
Qed.

(* ------------------------------------------------------------------ *)
(** * The refinement relation                                            *)
(* ------------------------------------------------------------------ *)

Definition phase_inv (c : cstate) (ph : phase) : Prop :=
  match ph with
  | Idle => WF hashf (ctab c)
  | Found k =>
      WF hashf (ctab c) /\
      exists s it, cfnd c = Some (s, it) /\ getc (slots (ctab c)) s = Live it /\ ikey it = k
  | Pending kc =>
      WFpin hashf (ctab c) kc (cslot (ccur c)) /\ cgen (ccur c) = gen (ctab c) /\
      (getc (slots (ctab c)) (cslot (ccur c)) = Tomb -> ctomb (ccur c) = true)
  end.

Record Rel (c : cstate) (a : astate) : Prop := {
  r_phase : phase_inv c (aph a);
  r_map : forall k, amap (ctab c) k = aget (am a) k;
  r_nodup : NoDup (map ikey (am a));
  r_sub : forall x, In x (am a) -> In x (aissued a);
  r_ids : forall x y, In x (aissued a) -> In y (aissued a) -> iid x = iid y -> x = y;
  r_gen0 : 0 <= gen (ctab c);
  r_gen : cgen (ccur c) <= gen (ctab c);
  r_stale : astale a = true -> cgen (ccur c) < gen (ctab c)
}.

Lemma phase_core c ph : phase_inv c ph -> WFcore hashf (ctab c) /\ load_ok (ctab c).
Proof.
  destruct ph as [|kc|k]; cbn [phase_inv].
  - intros W. split; [apply (wf_core _ _ W)|apply (wf_load _ _ W)].
  - intros [W _]. split; [apply (wp_core _ _ _ _ W)|apply (wp_load _ _ _ _ W)].
  - intros [W _]. split; [apply (wf_core _ _ W)|apply (wf_load _ _ W)].
Qed.

Lemma Rel_core c a : Rel c a -> WFcore hashf (ctab c).
Proof. intros R. apply (phase_core c (aph a) (r_phase _ _ R)). Qed.

(* fuel always suffices *)
Lemma Rel_herr c a : Rel c a -> herr (ctab c) = false.
Proof. intros R. apply (wc_err _ _ (Rel_core c a R)). Qed.

(* counts match contents *)
Lemma Rel_live c a : Rel c a -> live (ctab c) = Z.of_nat (length (am a)).
Proof.
  intros R. pose proof (Rel_core c a R) as C.
  rewrite (counts_match hashf (ctab c) C). f_equal.
  apply keyed_same_length.
  - rewrite contents_lives. apply uniq_NoDup. apply (lwf_uniq _ _ _ (wc_l _ _ C)).
  - apply (r_nodup _ _ R).
  - intros k. rewrite <- (r_map _ _ R k). reflexivity.
Qed.

Lemma Rel_lookup c a k : Rel c a -> lookup (ctab c) (hashf k) k = aget (am a) k.
Proof.
  intros R. destruct (phase_core c (aph a) (r_phase _ _ R)) as [C L].
  rewrite (lookup_core hashf (ctab c) k C L). apply (r_map _ _ R).
Qed.

Lemma Rel_iid_ok c a it : Rel c a -> ident_ok (aissued a) it = true -> iid_ok (ctab c) it.
Proof.
  intros R H cur Rc I. pose proof (Rel_core c a R) as C.
  pose proof (amapl_present (slots (ctab c)) cur (lwf_uniq _ _ _ (wc_l _ _ C)) Rc) as A.
  fold (amap (ctab c) (ikey cur)) in A. rewrite (r_map _ _ R) in A.
  apply aget_some in A. destruct A as [Im _].
  rewrite (ident_ok_spec _ _ H cur (r_sub _ _ R cur Im) I). reflexivity.
Qed.

Lemma Rel_init cap : Rel (cinit cap) ainit.
Proof.
  destruct (new_table_WF hashf cap) as [W A].
  constructor; cbn [cinit ainit ctab ccur am aph astale aissued phase_inv cgen].
  - exact W.
  - intros k. rewrite A. reflexivity.
  - constructor.
  - intros x [].
  - intros x y [].
  - unfold new_table. cbn [gen]. lia.
  - unfold new_table. cbn [gen]. lia.
  - intros _. unfold new_table. cbn [gen]. lia.
Qed.

(* every insertion-like step (store, swap, publish, stale publish) *)
Lemma Rel_insert c a t' it st :
  Rel c a -> ins_ok a it = true -> WF hashf t' ->
  (forall k, amap t' k = if k =? ikey it then Some it else amap (ctab c) k) ->
  gen (ctab c) <= gen t' -> (st = true -> astale a = true) ->
  Rel {| ctab := t'; ccur := ccur c; cfnd := cfnd c |} (a_insert a it st).
Proof.
  intros R Hi W A G St. destruct (ins_ok_spec a it Hi) as [_ Fr].
  pose proof (r_gen0 _ _ R) as G0. pose proof (r_gen _ _ R) as G1.
  constructor; cbn [a_insert ctab ccur cfnd am aph astale aissued phase_inv].
  - exact W.
  - intros k. rewrite A, aget_aset, (r_map _ _ R). reflexivity.
  - apply NoDup_aset. apply (r_nodup _ _ R).
  - intros x I. apply In_aset in I. destruct I as [I|I]; [left; symmetry; exact I|right].
    apply (r_sub _ _ R x I).
  - intros x y [Ix|Ix] [Iy|Iy] E.
    + subst x y. reflexivity.
    + subst x. exfalso. apply (Fr y Iy). symmetry. exact E.
    + subst y. exfalso. apply (Fr x Ix). exact E.
    + apply (r_ids _ _ R x y Ix Iy E).
  - lia.
  - lia.
  - intros S. pose proof (r_stale _ _ R (St S)). lia.
Qed.

(* every step that keeps the map and the issued set *)
Lemma Rel_keep c a c' ph st :
  Rel c a -> phase_inv c' ph ->
  (forall k, amap (ctab c') k = amap (ctab c) k) ->
  0 <= gen (ctab c') -> cgen (ccur c') <= gen (ctab c') ->
  (st = true -> cgen (ccur c') < gen (ctab c')) ->
  Rel c' {| am := am a; aph := ph; astale := st; aissued := aissued a |}.
Proof.
  intros R P A G0 G1 St. constructor; cbn [am aph astale aissued]; try assumption.
  - intros k. rewrite A. apply (r_map _ _ R).
  - apply (r_nodup _ _ R).
  - apply (r_sub _ _ R).
  - apply (r_ids _ _ R).
Qed.

Lemma rem_ok_iff c a it :
  Rel c a ->
  (rem_ok (am a) it = true <-> exists cur, amap (ctab c) (ikey it) = Some cur /\ iid cur = iid it).
Proof.
  intros R. unfold rem_ok. rewrite (r_map _ _ R).
  destruct (aget (am a) (ikey it)) as [cur|].
  - split.
    + intros H. exists cur. split; [reflexivity|apply Z.eqb_eq; exact H].
    + intros (cur' & E & I). injection E as E. subst cur'. apply Z.eqb_eq. exact I.
  - split; [discriminate|]. intros (cur' & E & _). discriminate E.
Qed.

Lemma bool_iff_eq (b1 b2 : bool) (P : Prop) : (b1 = true <-> P) -> (b2 = true <-> P) -> b1 = b2.
Proof.
  intros H1 H2. destruct b1, b2; try reflexivity.
  - symmetry. apply H2. apply H1. reflexivity.
  - apply H1. apply H2. reflexivity.
Qed.

(* ------------------------------------------------------------------ *)
(** * One step                                                           *)
(* ------------------------------------------------------------------ *)

Lemma step_store c a it a' o :
  Rel c a -> astep a (TStore it) = Some (a', o) ->
  snd (cstep c (TStore it)) = o /\ Rel (fst (cstep c (TStore it))) a'.
Proof.
  intros R S. unfold astep in S. destruct (aph a) eqn:Ph; try discriminate S.
  destruct (ins_ok a it) eqn:Hi; [|discriminate S]. injection S as S1 S2. subst a' o.
  pose proof (r_phase _ _ R) as W. rewrite Ph in W. cbn [phase_inv] in W.
  destruct (ins_ok_spec a it Hi) as [Cit _].
  pose proof (store_spec hashf (ctab c) it W Cit) as SS.
  pose proof (gen_store_ge (ctab c) it) as G.
  unfold cstep. destruct (store (ctab c) it) as [t' prev]. cbn [fst snd] in *.
  destruct SS as (W' & P & A). split.
  - rewrite P, (r_map _ _ R). reflexivity.
  - apply Rel_insert; try assumption. intros H; exact H.
Qed.

Lemma step_lookup c a k a' o :
  Rel c a -> astep a (TLookup k) = Some (a', o) ->
  snd (cstep c (TLookup k)) = o /\ Rel (fst (cstep c (TLookup k))) a'.
Proof.
  intros R S. unfold astep in S. injection S as S1 S2. subst a' o. cbn [cstep fst snd].
  split; [|exact R]. rewrite (Rel_lookup c a k R). reflexivity.
Qed.

Lemma step_probe c a k a' o :
  Rel c a -> astep a (TProbe k) = Some (a', o) ->
  snd (cstep c (TProbe k)) = o /\ Rel (fst (cstep c (TProbe k))) a'.
Proof.
  intros R S. unfold astep in S. destruct (aph a) eqn:Ph; try discriminate S.
  pose proof (r_phase _ _ R) as W. rewrite Ph in W. cbn [phase_inv] in W.
  pose proof (probe_spec hashf (ctab c) k W) as PS.
  pose proof (r_gen0 _ _ R) as G0.
  unfold cstep. destruct (probe (ctab c) (hashf k) k) as [[t' found] cur] eqn:E. cbn [fst snd].
  destruct found as [[s x]|].
  - destruct PS as (Et & A & G). subst t'.
    rewrite (r_map _ _ R) in A. rewrite A in S. injection S as S1 S2. subst a' o.
    split; [reflexivity|].
    pose proof (probe_found_cursor _ _ _ _ _ _ E) as Gc.
    apply (Rel_keep c a); cbn [ctab ccur cfnd phase_inv]; try assumption.
    + split; [exact W|]. exists s, x. repeat split; try assumption.
      apply (aget_some _ _ _ A).
    + intros k'. reflexivity.
    + lia.
    + intros _. lia.
  - destruct PS as (Wp & Gc & Gt & Ct & A).
    assert (N : aget (am a) k = None).
    { rewrite <- (r_map _ _ R), <- A.
      apply (absent_iff_amapl _ _ (lwf_uniq _ _ _ (wc_l _ _ (wp_core _ _ _ _ Wp)))).
      apply (wp_absent _ _ _ _ Wp). }
    rewrite N in S. injection S as S1 S2. subst a' o.
    split; [reflexivity|].
    apply (Rel_keep c a); cbn [ctab ccur cfnd phase_inv]; try assumption.
    + split; [exact Wp|]. split; [exact Gc|]. intros T. rewrite Ct, T. reflexivity.
    + lia.
    + lia.
    + discriminate.
Qed.

Lemma step_swap c a it a' o :
  Rel c a -> astep a (TSwap it) = Some (a', o) ->
  snd (cstep c (TSwap it)) = o /\ Rel (fst (cstep c (TSwap it))) a'.
Proof.
  intros R S. unfold astep in S. destruct (aph a) as [|kc|k] eqn:Ph; try discriminate S.
  destruct (ins_ok a it && (ikey it =? k))%bool eqn:Hc; [|discriminate S].
  apply andb_true_iff in Hc. destruct Hc as [Hi Hk]. apply Z.eqb_eq in Hk.
  injection S as S1 S2. subst a' o.
  pose proof (r_phase _ _ R) as W. rewrite Ph in W. cbn [phase_inv] in W.
  destruct W as (W & s & old & Ef & G & Ko).
  destruct (ins_ok_spec a it Hi) as [Cit _].
  destruct (swap_at_spec hashf (ctab c) s old it W G ltac:(rewrite Ko; exact Hk) Cit) as [W' A].
  unfold cstep. cbn [fst snd]. split; [reflexivity|].
  replace (match cfnd c with Some (s0, _) => s0 | None => O end) with s by (rewrite Ef; reflexivity).
  apply Rel_insert; try assumption.
  - unfold swap_at. cbn [with_slots gen]. lia.
  - intros H; exact H.
Qed.

Lemma step_publish c a it a' o :
  Rel c a -> astep a (TPublish it) = Some (a', o) ->
  snd (cstep c (TPublish it)) = o /\ Rel (fst (cstep c (TPublish it))) a'.
Proof.
  intros R S. unfold astep in S. destruct (aph a) as [|kc|k] eqn:Ph; try discriminate S.
  - (* stale cursor: behaves as store *)
    destruct (astale a && ins_ok a it)%bool eqn:Hc; [|discriminate S].
    apply andb_true_iff in Hc. destruct Hc as [Hs Hi].
    injection S as S1 S2. subst a' o.
    pose proof (r_phase _ _ R) as W. rewrite Ph in W. cbn [phase_inv] in W.
    destruct (ins_ok_spec a it Hi) as [Cit _].
    pose proof (r_stale _ _ R Hs) as Lt.
    destruct (publish_stale_spec hashf (ctab c) it (ccur c) W ltac:(lia) Cit) as [W' A].
    cbn [cstep fst snd]. split; [reflexivity|].
    apply Rel_insert; try assumption.
    + apply gen_publish_ge.
    + intros _. exact Hs.
  - destruct (ins_ok a it && (ikey it =? kc))%bool eqn:Hc; [|discriminate S].
    apply andb_true_iff in Hc. destruct Hc as [Hi Hk]. apply Z.eqb_eq in Hk.
    injection S as S1 S2. subst a' o.
    pose proof (r_phase _ _ R) as W. rewrite Ph in W. cbn [phase_inv] in W.
    destruct W as (Wp & Gc & Ct).
    destruct (ins_ok_spec a it Hi) as [Cit _].
    destruct (publish_spec hashf (ctab c) kc (ccur c) it Wp Gc Ct Cit Hk) as [W' A].
    cbn [cstep fst snd]. split; [reflexivity|].
    apply Rel_insert; try assumption.
    + intros k. rewrite A, Hk. reflexivity.
    + apply gen_publish_ge.
    + discriminate.
Qed.

Lemma step_unpin c a a' o :
  Rel c a -> astep a TUnpin = Some (a', o) ->
  snd (cstep c TUnpin) = o /\ Rel (fst (cstep c TUnpin)) a'.
Proof.
  intros R S. unfold astep in S. injection S as S1 S2. subst a' o.
  cbn [cstep fst snd]. split; [reflexivity|].
  pose proof (r_phase _ _ R) as W.
  pose proof (r_gen0 _ _ R) as G0. pose proof (r_gen _ _ R) as G1. pose proof (r_stale _ _ R) as G2.
  assert (Gu : gen (unpin (ctab c)) = gen (ctab c)) by reflexivity.
  apply (Rel_keep c a); cbn [ctab ccur cfnd phase_inv]; rewrite ?Gu; try assumption.
  - destruct (aph a) as [|kc|k]; cbn [phase_inv] in W.
    + rewrite (unpin_WF hashf _ W). exact W.
    + destruct W as (Wp & _). apply (unpin_spec hashf _ _ _ Wp).
    + destruct W as (W & _). rewrite (unpin_WF hashf _ W). exact W.
  - intros k. reflexivity.
Qed.

Lemma step_remove c a it a' o :
  Rel c a -> astep a (TRemove it) = Some (a', o) ->
  snd (cstep c (TRemove it)) = o /\ Rel (fst (cstep c (TRemove it))) a'.
Proof.
  intros R S. unfold astep in S.
  assert (S' : aph a <> Found (match aph a with Found k => k | _ => 0 end) /\
               (if (consb it && ident_ok (aissued a) it)%bool
                then Some ({| am := if rem_ok (am a) it then adel (am a) (ikey it) else am a;
                              aph := aph a; astale := astale a; aissued := aissued a |},
                           ORemove (rem_ok (am a) it))
                else None) = Some (a', o)).
  { destruct (aph a); [split; [discriminate|exact S]|split; [discriminate|exact S]|discriminate S]. }
  clear S. destruct S' as [NF S].
  destruct (consb it && ident_ok (aissued a) it)%bool eqn:Hc; [|discriminate S].
  apply andb_true_iff in Hc. destruct Hc as [Hcons Hid].
  injection S as S1 S2. subst a' o.
  pose proof (consb_true it Hcons) as Cit.
  pose proof (Rel_iid_ok c a it R Hid) as IO.
  pose proof (rem_ok_iff c a it R) as RI.
  pose proof (gen_remove (ctab c) it) as Gr.
  pose proof (r_gen0 _ _ R) as G0. pose proof (r_gen _ _ R) as G1. pose proof (r_stale _ _ R) as G2.
  pose proof (r_phase _ _ R) as W.
  assert (Main : forall t' ok,
            remove_exact (ctab c) it = (t', ok) ->
            phase_inv {| ctab := t'; ccur := ccur c; cfnd := cfnd c |} (aph a) /\
            (ok = true <-> exists cur, amap (ctab c) (ikey it) = Some cur /\ iid cur = iid it) /\
            (forall k, amap t' k = if (ok && (k =? ikey it))%bool then None else amap (ctab c) k)).
  { intros t' ok E. destruct (aph a) as [|kc|k] eqn:Ph; cbn [phase_inv] in *.
    - pose proof (remove_exact_spec hashf (ctab c) it W Cit IO) as RS. rewrite E in RS. exact RS.
    - destruct W as (Wp & Gc & Ct).
      pose proof (remove_exact_pin hashf (ctab c) kc _ it Wp Cit IO) as RS. rewrite E in RS.
      destruct RS as (Wp' & Gq & Gg & Iff & A). cbn [ctab ccur]. 
      split; [|split; assumption]. split; [exact Wp'|]. split; [lia|]. rewrite Gq. exact Ct.
    - exfalso. apply NF. reflexivity. }
  unfold cstep. destruct (remove_exact (ctab c) it) as [t' ok] eqn:E. cbn [fst snd] in *.
  destruct (Main t' ok eq_refl) as (P & Iff & A).
  assert (Eok : ok = rem_ok (am a) it) by (apply (bool_iff_eq _ _ _ Iff RI)).
  split; [rewrite Eok; reflexivity|]. rewrite <- Eok.
  constructor; cbn [ctab ccur cfnd am aph astale aissued]; rewrite ?Gr; try assumption.
  - intros k. rewrite A, (r_map _ _ R). destruct ok; cbn [andb]; [|reflexivity].
    rewrite aget_adel. reflexivity.
  - destruct ok; [apply NoDup_adel|]; apply (r_nodup _ _ R).
  - intros x I. apply (r_sub _ _ R). destruct ok; [apply (In_adel _ _ _ I)|exact I].
  - apply (r_ids _ _ R).
Qed.

Lemma step_clear c a a' o :
  Rel c a -> astep a TClear = Some (a', o) ->
  snd (cstep c TClear) = o /\ Rel (fst (cstep c TClear)) a'.
Proof.
  intros R S. unfold astep in S. injection S as S1 S2. subst a' o.
  cbn [cstep fst snd]. split; [reflexivity|].
  destruct (clear_core hashf (ctab c) (Rel_core c a R)) as (W & A & G).
  pose proof (r_gen0 _ _ R) as G0. pose proof (r_gen _ _ R) as G1.
  constructor; cbn [ctab ccur cfnd am aph astale aissued phase_inv]; rewrite ?G.
  - exact W.
  - intros k. rewrite A. reflexivity.
  - constructor.
  - intros x [].
  - apply (r_ids _ _ R).
  - lia.
  - lia.
  - intros _. lia.
Qed.

Theorem step_refines c a op a' o :
  Rel c a -> astep a op = Some (a', o) ->
  snd (cstep c op) = o /\ Rel (fst (cstep c op)) a'.
Proof.
  destruct op as [it|k|k|it|it| |it| ].
  - apply step_store.
  - apply step_lookup.
  - apply step_probe.
  - apply step_swap.
  - apply step_publish.
  - apply step_unpin.
  - apply step_remove.
  - apply step_clear.
Qed.

(* ------------------------------------------------------------------ *)
(** * Whole histories                                                    *)
(* ------------------------------------------------------------------ *)

Lemma run_refines : forall ops c a a' outs,
  Rel c a -> arun a ops = Some (a', outs) ->
  snd (crun c ops) = outs /\ Rel (fst (crun c ops)) a'.
Proof.
  unfold crun. induction ops as [|op r IH]; intros c a a' outs R S; cbn [arun run] in *.
  - injection S as S1 S2. subst a' outs. cbn [fst snd]. split; [reflexivity|exact R].
  - destruct (astep a op) as [[a1 o]|] eqn:St; [|discriminate S].
    destruct (arun a1 r) as [[a2 os]|] eqn:Rn; [|discriminate S].
    injection S as S1 S2. subst a' outs.
    destruct (step_refines c a op a1 o R St) as [Eo R1].
    destruct (cstep c op) as [c1 o1]. cbn [fst snd] in Eo, R1. subst o1.
    destruct (IH c1 a1 a2 os R1 Rn) as [Eos R2].
    destruct (run cstep c1 r) as [c2 os2]. cbn [fst snd] in *. subst os2.
    split; [reflexivity|exact R2].
Qed.

(* what the refinement relation gives, in the property's words *)
Definition refined (c : cstate) (a : astate) : Prop :=
  (forall k, amap (ctab c) k = aget (am a) k) /\
  (forall k, lookup (ctab c) (hashf k) k = aget (am a) k) /\
  herr (ctab c) = false /\
  phase_inv c (aph a) /\
  live (ctab c) = Z.of_nat (length (am a)) /\
  NoDup (map ikey (am a)).

Lemma Rel_refined c a : Rel c a -> refined c a.
Proof.
  intros R. unfold refined. split; [apply (r_map _ _ R)|]. split; [intros k; apply Rel_lookup; exact R|].
  split; [apply (Rel_herr c a R)|]. split; [apply (r_phase _ _ R)|].
  split; [apply (Rel_live c a R)|apply (r_nodup _ _ R)].
Qed.

Theorem trace_refines cap ops a' outs :
  arun ainit ops = Some (a', outs) ->
  snd (crun (cinit cap) ops) = outs /\ refined (fst (crun (cinit cap) ops)) a'.
Proof.
  intros S. destruct (run_refines ops (cinit cap) ainit a' outs (Rel_init cap) S) as [E R].
  split; [exact E|apply Rel_refined; exact R].
Qed.

Lemma arun_app a : forall l1 l2 a2 outs,
  arun a (l1 ++ l2) = Some (a2, outs) ->
  exists a1 o1 o2, arun a l1 = Some (a1, o1) /\ arun a1 l2 = Some (a2, o2) /\ outs = o1 ++ o2.
Proof.
  intros l1. revert a. induction l1 as [|op r IH]; intros a l2 a2 outs S.
  - exists a, [], outs. cbn [app arun] in *. repeat split. exact S.
  - cbn [app arun] in *. destruct (astep a op) as [[a1 o]|]; [|discriminate S].
    destruct (arun a1 (r ++ l2)) as [[a3 os]|] eqn:Rn; [|discriminate S].
    injection S as S1 S2. subst a3 outs.
    destruct (IH a1 l2 a2 os Rn) as (a1' & o1 & o2 & E1 & E2 & E3).
    rewrite E1. exists a1', (o :: o1), o2. repeat split; [exact E2|]. subst os. reflexivity.
Qed.

Lemma arun_app_intro a : forall l1 l2 a1 o1 a2 o2,
  arun a l1 = Some (a1, o1) -> arun a1 l2 = Some (a2, o2) ->
  arun a (l1 ++ l2) = Some (a2, o1 ++ o2).
Proof.
  intros l1. revert a. induction l1 as [|op r IH]; intros a l2 a1 o1 a2 o2 S1 S2; cbn [app arun] in *.
  - injection S1 as E1 E2. subst a1 o1. exact S2.
  - destruct (astep a op) as [[a1' o]|]; [|discriminate S1].
    destruct (arun a1' r) as [[a3 os]|] eqn:Rn; [|discriminate S1].
    injection S1 as E1 E2. subst a3 o1.
    rewrite (IH a1' l2 a1 os a2 o2 Rn S2). reflexivity.
Qed.

Lemma crun_app c : forall l1 l2,
  crun c (l1 ++ l2) =
  (fst (crun (fst (crun c l1)) l2), snd (crun c l1) ++ snd (crun (fst (crun c l1)) l2)).
Proof.
  unfold crun. intros l1. revert c. induction l1 as [|op r IH]; intros c l2; cbn [app run].
  - cbn [fst snd app]. destruct (run cstep c l2); reflexivity.
  - destruct (cstep c op) as [c1 o]. rewrite IH.
    destruct (run cstep c1 r) as [c2 os]. cbn [fst snd]. reflexivity.
Qed.

(* the refinement holds after EVERY step of a protocol-respecting history, not only at its end *)
Theorem trace_refines_every_step cap ops1 ops2 a' outs :
  arun ainit (ops1 ++ ops2) = Some (a', outs) ->
  exists a1 o1 o2,
    arun ainit ops1 = Some (a1, o1) /\ outs = o1 ++ o2 /\
    snd (crun (cinit cap) ops1) = o1 /\ refined (fst (crun (cinit cap) ops1)) a1.
Proof.
  intros S. destruct (arun_app ainit ops1 ops2 a' outs S) as (a1 & o1 & o2 & E1 & _ & E3).
  exists a1, o1, o2. destruct (trace_refines cap ops1 a1 o1 E1) as [Eo Rf].
  split; [exact E1|split; [exact E3|split; [exact Eo|exact Rf]]].
Qed.

(* ------------------------------------------------------------------ *)
(** * Corollaries in the property's words                                *)
(* ------------------------------------------------------------------ *)

(* the operation writes key k (or everything) *)
Definition touches (op : top) (k : Z) : bool :=
  match op with
  | TStore it | TSwap it | TPublish it | TRemove it => ikey it =? k
  | TClear => true
  | TLookup _ | TProbe _ | TUnpin => false
  end.

Lemma astep_untouched a op a' o k :
  astep a op = Some (a', o) -> touches op k = false -> aget (am a') k = aget (am a) k.
Proof.
  intros S T. unfold astep in S.
  destruct op as [it|k0|k0|it|it| |it| ]; cbn [touches] in T.
  - destruct (aph a); try discriminate S. destruct (ins_ok a it); [|discriminate S].
    injection S as S1 S2. subst a'. cbn [a_insert am]. rewrite aget_aset.
    rewrite Z.eqb_sym, T. reflexivity.
  - injection S as S1 S2. subst a'. reflexivity.
  - destruct (aph a); try discriminate S.
    destruct (aget (am a) k0); injection S as S1 S2; subst a'; reflexivity.
  - destruct (aph a); try discriminate S. destruct (_ && _)%bool; [|discriminate S].
    injection S as S1 S2. subst a'. cbn [a_insert am]. rewrite aget_aset.
    rewrite Z.eqb_sym, T. reflexivity.
  - destruct (aph a); try discriminate S; (destruct (_ && _)%bool; [|discriminate S]);
      injection S as S1 S2; subst a'; cbn [a_insert am]; rewrite aget_aset;
      rewrite Z.eqb_sym, T; reflexivity.
  - injection S as S1 S2. subst a'. reflexivity.
  - assert (S' : (if (consb it && ident_ok (aissued a) it)%bool
                  then Some ({| am := if rem_ok (am a) it then adel (am a) (ikey it) else am a;
                                aph := aph a; astale := astale a; aissued := aissued a |},
                             ORemove (rem_ok (am a) it))
                  else None) = Some (a', o)).
    { destruct (aph a); [exact S|exact S|discriminate S]. }
    destruct (_ && _)%bool; [|discriminate S'].
    injection S' as S1 S2. subst a'. cbn [am].
    destruct (rem_ok (am a) it); [|reflexivity].
    rewrite aget_adel, Z.eqb_sym, T. reflexivity.
  - discriminate T.
Qed.

Lemma arun_untouched k : forall ops a a' outs,
  arun a ops = Some (a', outs) -> Forall (fun op => touches op k = false) ops ->
  aget (am a') k = aget (am a) k.
Proof.
  induction ops as [|op r IH]; intros a a' outs S F; cbn [arun] in S.
  - injection S as S1 S2. subst a'. reflexivity.
  - destruct (astep a op) as [[a1 o]|] eqn:St; [|discriminate S].
    destruct (arun a1 r) as [[a2 os]|] eqn:Rn; [|discriminate S].
    injection S as S1 S2. subst a2. inversion F as [|? ? F1 F2]; subst.
    rewrite (IH a1 a' os Rn F2). apply (astep_untouched a op a1 o k St F1).
Qed.

(* Across any suffix of operations that do not write key k — stores, swaps, publishes, removals, probes
   of OTHER (possibly colliding) keys, lookups, unpins — lookup of k on the concrete table keeps returning
   exactly what the abstract map held for k before the suffix. *)
Theorem key_stable cap ops1 ops2 a1 o1 a2 o2 k :
  arun ainit ops1 = Some (a1, o1) -> arun a1 ops2 = Some (a2, o2) ->
  Forall (fun op => touches op k = false) ops2 ->
  lookup (ctab (fst (crun (cinit cap) (ops1 ++ ops2)))) (hashf k) k = aget (am a1) k.
Proof.
  intros S1 S2 F.
  pose proof (arun_app_intro ainit ops1 ops2 a1 o1 a2 o2 S1 S2) as S.
  destruct (trace_refines cap _ _ _ S) as [_ (_ & L & _)].
  rewrite L. apply (arun_untouched k ops2 a1 a2 o2 S2 F).
Qed.

(* (a) never lost *)
Corollary key_never_lost cap ops1 ops2 a1 o1 a2 o2 k x :
  arun ainit ops1 = Some (a1, o1) -> aget (am a1) k = Some x ->
  arun a1 ops2 = Some (a2, o2) -> Forall (fun op => touches op k = false) ops2 ->
  lookup (ctab (fst (crun (cinit cap) (ops1 ++ ops2)))) (hashf k) k = Some x.
Proof. intros S1 G S2 F. rewrite (key_stable cap ops1 ops2 a1 o1 a2 o2 k S1 S2 F). exact G. Qed.

(* (a') ... and a TLookup operation issued after the suffix outputs that very item *)
Corollary key_never_lost_output cap ops1 ops2 a1 o1 a2 o2 k x :
  arun ainit ops1 = Some (a1, o1) -> aget (am a1) k = Some x ->
  arun a1 ops2 = Some (a2, o2) -> Forall (fun op => touches op k = false) ops2 ->
  snd (crun (cinit cap) (ops1 ++ ops2 ++ [TLookup k])) = o1 ++ o2 ++ [OLookup (Some x)].
Proof.
  intros S1 G S2 F.
  assert (S3 : arun a2 [TLookup k] = Some (a2, [OLookup (Some x)])).
  { cbn [arun astep]. rewrite (arun_untouched k ops2 a1 a2 o2 S2 F), G. reflexivity. }
  pose proof (arun_app_intro a1 ops2 [TLookup k] a2 o2 a2 _ S2 S3) as S23.
  pose proof (arun_app_intro ainit ops1 _ a1 o1 a2 _ S1 S23) as S.
  apply (trace_refines cap _ _ _ S).
Qed.

(* (b) no resurrection: a key absent from the abstract map is not found, now ... *)
Corollary absent_not_found cap ops a outs k :
  arun ainit ops = Some (a, outs) -> aget (am a) k = None ->
  lookup (ctab (fst (crun (cinit cap) ops))) (hashf k) k = None.
Proof.
  intros S G. destruct (trace_refines cap _ _ _ S) as [_ (_ & L & _)]. rewrite L. exact G.
Qed.

(* ... nor after any suffix that does not write it *)
Corollary no_resurrection cap ops1 ops2 a1 o1 a2 o2 k :
  arun ainit ops1 = Some (a1, o1) -> aget (am a1) k = None ->
  arun a1 ops2 = Some (a2, o2) -> Forall (fun op => touches op k = false) ops2 ->
  lookup (ctab (fst (crun (cinit cap) (ops1 ++ ops2)))) (hashf k) k = None.
Proof. intros S1 G S2 F. rewrite (key_stable cap ops1 ops2 a1 o1 a2 o2 k S1 S2 F). exact G. Qed.

(* (c) live always equals the number of entries (and of resident items) *)
Corollary live_is_count cap ops a outs :
  arun ainit ops = Some (a, outs) ->
  live (ctab (fst (crun (cinit cap) ops))) = Z.of_nat (length (am a)) /\
  live (ctab (fst (crun (cinit cap) ops))) = Z.of_nat (length (contents (ctab (fst (crun (cinit cap) ops))))).
Proof.
  intros S. destruct (run_refines ops (cinit cap) ainit a outs (Rel_init cap) S) as [_ R].
  split; [apply (Rel_live _ _ R)|apply (counts_match hashf _ (Rel_core _ _ R))].
Qed.

(* fuel always suffices on every reachable table *)
Corollary herr_never cap ops a outs :
  arun ainit ops = Some (a, outs) -> herr (ctab (fst (crun (cinit cap) ops))) = false.
Proof. intros S. destruct (trace_refines cap _ _ _ S) as [_ (_ & _ & H & _)]. exact H. Qed.

(*MARK-SECTION*)
End Trace.

(* ------------------------------------------------------------------ *)
(** * Non-vacuity: a concrete protocol-respecting history                *)
(* ------------------------------------------------------------------ *)

Module TraceExample.

(* every key hashes to 5: all keys collide (home slot 5 of 8) *)
Definition hf (k : Z) : Z := 5.
Definition mk (k v id : Z) : item := {| ikey := k; ihash := hf k; ival := v; iid := id |}.

Definition ops : list top :=
  [TStore (mk 1 10 100); TStore (mk 2 20 101); TStore (mk 3 30 102); TStore (mk 4 40 103);
   TRemove (mk 2 20 101);            (* tombstone in slot 6 *)
   TProbe 5;                         (* absent: Pending 5, cursor parked on the tombstone *)
   TRemove (mk 4 40 103); TRemove (mk 3 30 102);   (* removals while Pending: reclaim stops at the pin *)
   TLookup 1;
   TPublish (mk 5 50 104);           (* through the cursor *)
   TLookup 5;
   TProbe 1;                         (* present: Found 1 *)
   TSwap (mk 1 11 105);
   TLookup 1;
   TRemove (mk 1 10 100);            (* the replaced object is no longer resident: false *)
   TProbe 7;                         (* Pending 7 *)
   TClear;                           (* stale cursor *)
   TPublish (mk 6 60 106);           (* defensive path: behaves as a store *)
   TLookup 6; TLookup 1].

Definition outs : list tout :=
  [OStore None; OStore None; OStore None; OStore None;
   ORemove true; OProbe None; ORemove true; ORemove true;
   OLookup (Some (mk 1 10 100)); OUnit; OLookup (Some (mk 5 50 104));
   OProbe (Some (mk 1 10 100)); OUnit; OLookup (Some (mk 1 11 105));
   ORemove false; OProbe None; OUnit; OUnit;
   OLookup (Some (mk 6 60 106)); OLookup None].

Example ops_protocol_ok :
  exists a, arun hf ainit ops = Some (a, outs) /\ am a = [mk 6 60 106] /\ aph a = Idle.
Proof. eexists. split; [vm_compute; reflexivity|]. split; reflexivity. Qed.

(* the concrete machine produces the same outputs (here by the theorem, not by evaluation) *)
Example ops_refined :
  snd (crun hf (cinit 0) ops) = outs /\
  WF hf (ctab (fst (crun hf (cinit 0) ops))) /\
  live (ctab (fst (crun hf (cinit 0) ops))) = 1.
Proof.
  destruct ops_protocol_ok as (a & S & M & P).
  destruct (trace_refines hf 0 ops a outs S) as [E (_ & _ & _ & Ph & Lv & _)].
  rewrite P in Ph. rewrite M in Lv. split; [exact E|]. split; [exact Ph|exact Lv].
Qed.

(* in the middle of the history (after the two removals under the pin) the invariant is WFpin and the
   pinned tombstone survived the reclaim *)
Example ops_pending_state :
  let c8 := fst (crun hf (cinit 0) (firstn 8 ops)) in
  WFpin hf (ctab c8) 5 6 /\
  slots (ctab c8) = [Empty; Empty; Empty; Empty; Empty; Live (mk 1 10 100); Tomb; Empty] /\
  pinned (ctab c8) = Some 6%nat.
Proof.
  assert (S : exists a o, arun hf ainit (firstn 8 ops) = Some (a, o) /\ aph a = Pending 5).
  { eexists. eexists. split; [vm_compute; reflexivity|reflexivity]. }
  destruct S as (a & o & S & P).
  destruct (trace_refines hf 0 _ a o S) as [_ (_ & _ & _ & Ph & _)].
  rewrite P in Ph. cbn [phase_inv] in Ph. destruct Ph as (Wp & _).
  cbv zeta. split; [|split; vm_compute; reflexivity].
  replace (cslot (ccur (fst (crun hf (cinit 0) (firstn 8 ops))))) with 6%nat in Wp
    by (vm_compute; reflexivity).
  exact Wp.
Qed.

(* protocol violations are rejected by the abstract machine *)
Example store_while_pending_rejected :
  arun hf ainit [TProbe 5; TStore (mk 1 10 100)] = None.
Proof. vm_compute. reflexivity. Qed.

Example reused_iid_rejected :
  arun hf ainit [TStore (mk 1 10 100); TStore (mk 2 20 100)] = None.
Proof. vm_compute. reflexivity. Qed.

End TraceExample.

Print Assumptions trace_refines.
Print Assumptions trace_refines_every_step.
Print Assumptions key_never_lost_output.
Print Assumptions no_resurrection.
Print Assumptions live_is_count.
Print Assumptions TraceExample.ops_pending_state.

(*MARK-END*)
