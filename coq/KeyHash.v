(* KeyHash.v — internal/keyhash/hasher.go: the reflect.Kind switch of keyhash.New as the
   GENERATED table Gen/KindTable.v (re-read from the source on every run), checked against
   the Go language's widths of the integer kinds; the integer hasher as a function of the
   key's integer value; and a sequential model of the named-cache registry used as the
   specification side of the "reg" correspondence stream (C17). *)
Require Import KV.Base KV.Gen.KindTable KV.EstimatorModel.
From Coq Require Import String.
Open Scope Z_scope.

(* Go spec: width in bits and signedness of every integer kind on a 64-bit target *)
Definition int_kind_spec : list (string * Z * Z) :=
  [("Int", 64, 1); ("Int8", 8, 1); ("Int16", 16, 1); ("Int32", 32, 1); ("Int64", 64, 1);
   ("Uint", 64, 0); ("Uint8", 8, 0); ("Uint16", 16, 0); ("Uint32", 32, 0); ("Uint64", 64, 0);
   ("Uintptr", 64, 0)]%string.

Definition row_ok (r : string * Z * string * Z * Z) : bool :=
  let '(kind, hasher, _, w, sg) := r in
  if String.eqb kind "String" then hasher =? 1
  else match find (fun s => String.eqb (fst (fst s)) kind) int_kind_spec with
       | Some (_, w', sg') => (hasher =? 2) && (w =? w') && (sg =? sg')
       | None => false     (* a kind routed to a fast path that is neither string nor integer *)
       end.

Definition all_int_kinds_present : bool :=
  forallb (fun s => existsb (fun r => String.eqb (fst (fst (fst (fst r)))) (fst (fst s))) kind_table) int_kind_spec.

(* hashIntKey: read the key through an integer type of its own width, extend to 64 bits, avalanche *)
Definition extend (w sg v : Z) : Z :=
  let m := v mod 2 ^ w in
  if (sg =? 1) && (2 ^ (w - 1) <=? m) then (m - 2 ^ w) mod 2 ^ 64 else m.
Definition hash_int (w sg v : Z) : Z := Z.of_N (avalanche (Z.to_N (extend w sg v))).

Lemma kind_table_ok : forallb row_ok kind_table = true /\ all_int_kinds_present = true /\ kind_default = 3.
Proof. vm_compute. repeat split; reflexivity. Qed.

(* every row of the generated table is well-typed: the unsafe read covers exactly the key's bytes *)
Lemma kind_rows_ok : forall r, In r kind_table -> row_ok r = true.
Proof. apply forallb_forall. exact (proj1 kind_table_ok). Qed.

(* equal integer keys (same kind, same value) hash equally: hash_int is a function; distinct
   widths never share a cache (K is one type per cache) *)
Lemma hash_int_function : forall w sg v1 v2, v1 = v2 -> hash_int w sg v1 = hash_int w sg v2.
Proof. intros; subst; reflexivity. Qed.

(* sign/zero extension is injective on the kind's value range, so distinct keys keep distinct pre-images *)
Lemma extend_injective : forall w v1 v2, 1 <= w <= 64 ->
  0 <= v1 < 2 ^ w -> 0 <= v2 < 2 ^ w -> extend w 0 v1 = extend w 0 v2 -> v1 = v2.
Proof.
  intros w v1 v2 Hw H1 H2. unfold extend. cbn [Z.eqb andb].
  rewrite !Z.mod_small by lia. auto.
Qed.

(* ---------------------------------------------------------------- sequential registry (spec side of stream "reg") *)
Record reg_state := {
  rregs : list (Z * Z);            (* name -> registered type (0 = untyped) *)
  rinsts : list (Z * (Z * Z));     (* name -> (type, instance id) live instances *)
  rnext : Z                        (* next instance id *)
}.
Fixpoint zassoc {A} (l : list (Z * A)) (k : Z) : option A :=
  match l with [] => None | (k', v) :: r => if k' =? k then Some v else zassoc r k end.
Definition zdel {A} (l : list (Z * A)) (k : Z) : list (Z * A) := filter (fun kv => negb (fst kv =? k)) l.

(* error codes: 0 ok, 1 ErrCacheExists, 2 ErrCacheNotRegistered, 3 ErrTypeMismatch, 4 invalid config *)
Definition reg_step (s : reg_state) (op : list Z) : reg_state * list Z :=
  match op with
  | [1; name; ty; valid] =>          (* Register (ty = 0) / RegisterCache[ty] *)
    if valid =? 0 then (s, [4; 0])
    else match zassoc (rregs s) name with
         | Some _ => (s, [1; 0])
         | None => ({| rregs := (name, ty) :: rregs s; rinsts := rinsts s; rnext := rnext s |}, [0; 0])
         end
  | [2; name; ty] =>                 (* GetCache[ty] *)
    match zassoc (rinsts s) name with
    | Some (t, id) => if t =? ty then (s, [0; id]) else (s, [3; 0])
    | None =>
      match zassoc (rregs s) name with
      | None => (s, [2; 0])
      | Some rt => if negb (rt =? 0) && negb (rt =? ty) then (s, [3; 0])
                   else ({| rregs := rregs s; rinsts := (name, (ty, rnext s)) :: rinsts s; rnext := rnext s + 1 |}, [0; rnext s])
      end
    end
  | [3; name; ty; valid] =>          (* GetCacheWithConfig[ty] *)
    match zassoc (rinsts s) name with
    | Some (t, id) => if t =? ty then (s, [0; id]) else (s, [3; 0])
    | None =>
      match zassoc (rregs s) name with
      | Some rt => if negb (rt =? 0) && negb (rt =? ty) then (s, [3; 0])
                   else if valid =? 0 then (s, [4; 0])
                   else ({| rregs := rregs s; rinsts := (name, (ty, rnext s)) :: rinsts s; rnext := rnext s + 1 |}, [0; rnext s])
      | None => if valid =? 0 then (s, [4; 0])
                else ({| rregs := rregs s; rinsts := (name, (ty, rnext s)) :: rinsts s; rnext := rnext s + 1 |}, [0; rnext s])
      end
    end
  | [4; name] =>                     (* Remove *)
    ({| rregs := zdel (rregs s) name; rinsts := zdel (rinsts s) name; rnext := rnext s |}, [0; 0])
  | [5] =>                           (* CloseAll *)
    ({| rregs := rregs s; rinsts := []; rnext := rnext s |}, [0; 0])
  | _ => (s, [-1])
  end.
Definition reg_init : reg_state := {| rregs := []; rinsts := []; rnext := 1 |}.
