(* C09 — LRU, FIFO and LFU evict exactly the entry their policy names. Statements over CacheModel's classic-policy shard (ClassicProofs.v); ghost stamps touch/born/reads are threaded by the wrapper gstep. Only `exact` + Print Assumptions. *)
Require Import KV.Base KV.Gen.Consts KV.CacheModel KV.ClassicProofs KV.PtrModel KV.PtrProofs.
Open Scope Z_scope.

(* LRU: after any write the shared list is sorted by strictly decreasing last-touch stamp (write = touch) *)
Theorem c09_lru_order_write :
  forall (e : env) (s : shard) (k v ex c : Z) (s' : shard) (cm : bool) 
           (d : Z) (touch : Z -> Z) (clk : Z),
         e_pol e = policyLRU ->
         CInv policyLRU s ->
         0 <= c ->
         OrdInv touch clk s ->
         apply_classic e s k v ex c = (s', cm, d) ->
         OrdInv (ClassicProofs.upd touch k clk) (clk + 1) s'.
Proof. exact lru_apply_classic. Qed.

(* LRU: a read hit moves the key to the most recent position; order invariant kept *)
Theorem c09_lru_order_read :
  forall (s : shard) (k : Z) (it : item) (touch : Z -> Z) (clk : Z),
         CInv policyLRU s ->
         OrdInv touch clk s ->
         lookup s policyLRU k = Some it ->
         OrdInv (ClassicProofs.upd touch k clk) (clk + 1) (get_hit_upd policyLRU s it k).
Proof. exact lru_get_hit. Qed.

(* FIFO (every policy but LRU): the list is sorted by insertion stamp; an update of a resident key does not restamp it *)
Theorem c09_fifo_order_write :
  forall (pol : Z) (e : env) (s : shard) (k v ex c : Z) (s' : shard) 
           (cm : bool) (d : Z) (born : Z -> Z) (clk : Z),
         e_pol e = pol ->
         pol <> policyLRU ->
         CInv pol s ->
         0 <= c ->
         OrdInv born clk s ->
         apply_classic e s k v ex c = (s', cm, d) ->
         OrdInv match lookup s pol k with
                | Some _ => born
                | None => ClassicProofs.upd born k clk
                end (clk + 1) s'.
Proof. exact fifo_apply_classic. Qed.

(* FIFO: reads never change the order *)
Theorem c09_fifo_order_read :
  forall (pol : Z) (s : shard) (k : Z) (it : item) (born : Z -> Z) (clk : Z),
         pol <> policyLRU -> OrdInv born clk s -> OrdInv born clk (get_hit_upd pol s it k).
Proof. exact fifo_get_hit. Qed.

(* LRU/FIFO: the evicted entry has the minimum stamp among residents; everything else is untouched *)
Theorem c09_victim_is_oldest :
  forall (pol : Z) (e : env) (s s1 : shard) (d : Z) (f : Z -> Z) (clk : Z),
         e_pol e = pol ->
         pol <> policyLFU ->
         CInv pol s ->
         tabk s <> [] ->
         OrdInv f clk s ->
         evict_one e s = (s1, d) ->
         exists it : item,
           lookup s pol (key it) = Some it /\
           lookup s1 pol (key it) = None /\
           (forall k' : Z, In k' (tabk s) -> f (key it) <= f k') /\
           (forall k' : Z, k' <> key it -> lookup s1 pol k' = lookup s pol k') /\
           glog s1 = glog s ++ [drop_entry it].
Proof. exact tail_victim_min. Qed.

(* LFU: bucket frequency = 1 + reads since the last write; a write resets it *)
Theorem c09_lfu_reads_write :
  forall (e : env) (s : shard) (k v ex c : Z) (s' : shard) (cm : bool) 
           (d : Z) (reads : Z -> Z),
         e_pol e = policyLFU ->
         CInv policyLFU s ->
         0 <= c ->
         ReadsInv reads s ->
         apply_classic e s k v ex c = (s', cm, d) -> ReadsInv (ClassicProofs.upd reads k 0) s'.
Proof. exact lfu_apply_classic. Qed.

(* LFU: a read hit increments exactly that key's frequency *)
Theorem c09_lfu_reads_read :
  forall (s : shard) (k : Z) (it : item) (reads : Z -> Z),
         CInv policyLFU s ->
         ReadsInv reads s ->
         lookup s policyLFU k = Some it ->
         ReadsInv (ClassicProofs.upd reads k (reads k + 1)) (get_hit_upd policyLFU s it k).
Proof. exact lfu_get_hit. Qed.

(* LFU: whichever member of the minimum bucket the implementation picks (oracle), its read count is minimal among residents; a pick outside the minimum bucket is refused (serr) *)
Theorem c09_lfu_victim_min :
  forall (e : env) (s s1 : shard) (d : Z) (reads : Z -> Z),
         e_pol e = policyLFU ->
         CInv policyLFU s ->
         tabk s <> [] ->
         ReadsInv reads s ->
         evict_one e s = (s1, d) ->
         serr s1 = 0 ->
         exists it : item,
           lookup s policyLFU (key it) = Some it /\
           lookup s1 policyLFU (key it) = None /\
           (forall k' : Z, In k' (tabk s) -> reads (key it) <= reads k') /\
           (forall k' : Z, k' <> key it -> lookup s1 policyLFU k' = lookup s policyLFU k') /\
           glog s1 = glog s ++ [drop_entry it].
Proof. exact lfu_victim_min. Qed.

(* Exists, Keys, failed or expired lookups, Delete, Cleanup, Clear never change touch/born/reads stamps *)
Theorem c09_neutral_ops :
  forall (e : env) (g : gstate) (op : gop),
         match op with
         | GGet k nw =>
             match lookup (g_sh g) (e_pol e) k with
             | Some it => expired it nw = true
             | None => True
             end
         | _ => True
         end ->
         match op with
         | GSet _ _ _ _ => True
         | _ =>
             g_touch (gstep e g op) = g_touch g /\
             g_born (gstep e g op) = g_born g /\
             g_reads (gstep e g op) = g_reads g /\ g_clk (gstep e g op) = g_clk g
         end.
Proof. exact gstep_stamps_unchanged. Qed.

(* removing an entry (Delete, expiry) keeps the relative order of the others *)
Theorem c09_order_survives_drops :
  forall (e : env) (s : shard) (k : Z) (it : item) (r : Z) (s' : shard) 
           (ok : bool) (dd : Z) (f : Z -> Z) (clk : Z),
         CInv (e_pol e) s ->
         lookup s (e_pol e) k = Some it ->
         drop_item e s it r = (s', ok, dd) -> OrdInv f clk s -> OrdInv f clk s'.
Proof. exact order_lookup_drop. Qed.

(* for every operation sequence: shard invariant + ledger + notification log + the policy's order invariant hold *)
Theorem c09_invariants_all_histories :
  forall (pol m : Z) (e : env) (ops : list gop) (g : gstate),
         e_pol e = pol ->
         e_mask e = m -> Forall gop_ok ops -> GInv pol m g -> GInv pol m (grun e g ops).
Proof. exact grun_inv. Qed.

(* the empty shard satisfies them *)
Theorem c09_initial :
  forall (pol m cp ccp : Z) (ev : list (Z * Z)),
         is_sieve (empty_shard cp ccp ev) pol = false -> GInv pol m (g_init (empty_shard cp ccp ev)).
Proof. exact g_init_inv. Qed.

(* the cache-level Get acts on its shard exactly as the wrapper step *)
Theorem c09_cache_get_is_wrapper_step :
  forall (c : cache) (k sh : Z) (s : shard) (g : gstate),
         closed c = false ->
         get_shard c sh = Some s ->
         is_sieve s (policy c) = false ->
         g_sh g = s ->
         get_shard (fst (fst (fst (op_get c k sh)))) sh =
         Some (g_sh (gstep (env_of c) g (GGet k (now c)))).
Proof. exact op_get_classic. Qed.

(* the cache-level Set acts on its shard exactly as the wrapper step *)
Theorem c09_cache_set_is_wrapper_step :
  forall (c : cache) (k v ttl cst sh : Z) (s : shard) (g : gstate),
         get_shard c sh = Some s ->
         pend s = [] ->
         is_sieve s (policy c) = false ->
         g_sh g = s ->
         set_check c sh cst = 0 ->
         0 <= cst /\
         get_shard (fst (op_set c k v ttl cst sh)) sh =
         Some (g_sh (gstep (env_of c) g (GSet k v (stamp (norm_ttl c ttl) (now c)) cst))).
Proof. exact op_set_classic. Qed.

(* non-vacuity: LRU cap 3 with an eviction *)
Theorem c09_lru_example :
  Good policyLRU 1 (ex_run policyLRU []) /\
         map key (lst (ex_run policyLRU [])) = [4; 1; 3] /\
         glog (ex_run policyLRU []) = [(0, 1, 10); (0, 2, 20); (0, 3, 30); (10, 2, 20); (0, 4, 40)] /\
         nlog (ex_run policyLRU []) = [{| nkey := 2; nval := 20; nreason := 0 |}] /\
         size (ex_run policyLRU []) = 3 /\ serr (ex_run policyLRU []) = 0.
Proof. exact lru_example. Qed.

(* non-vacuity: FIFO evicts key 1 despite the read *)
Theorem c09_fifo_example :
  Good policyFIFO 1 (ex_run policyFIFO []) /\
         map key (lst (ex_run policyFIFO [])) = [4; 3; 2] /\
         glog (ex_run policyFIFO []) = [(0, 1, 10); (0, 2, 20); (0, 3, 30); (10, 1, 10); (0, 4, 40)] /\
         nlog (ex_run policyFIFO []) = [{| nkey := 1; nval := 10; nreason := 0 |}] /\
         size (ex_run policyFIFO []) = 3 /\ serr (ex_run policyFIFO []) = 0.
Proof. exact fifo_example. Qed.

(* non-vacuity: LFU with an oracle pick *)
Theorem c09_lfu_example :
  Good policyLFU 1 (ex_run policyLFU [(evLfu, 3)]) /\
         map key (lst (ex_run policyLFU [(evLfu, 3)])) = [4; 2; 1] /\
         CacheModel.lfu (ex_run policyLFU [(evLfu, 3)]) = [(1, [4; 2]); (2, [1])] /\
         glog (ex_run policyLFU [(evLfu, 3)]) =
         [(0, 1, 10); (0, 2, 20); (0, 3, 30); (10, 3, 30); (0, 4, 40)] /\
         size (ex_run policyLFU [(evLfu, 3)]) = 3 /\ serr (ex_run policyLFU [(evLfu, 3)]) = 0.
Proof. exact lfu_example. Qed.

(* pointer level: the LRU/FIFO evictor's tail.prev is the last element of the represented list (0 when empty) *)
Theorem c09_ptr_lru_victim :
  forall (s : pstate) (l : list Z),
         dll (hp s) lruHead lruTail l -> lru_victim s = match rev l with
                                                        | [] => 0
                                                        | x :: _ => x
                                                        end.
Proof. exact lru_victim_spec. Qed.

(* pointer level: moveToLRUHead on the real prev/next surgery yields it :: remz l it (doubly linked, both directions) *)
Theorem c09_ptr_lru_move :
  forall (s : pstate) (it : Z) (l : list Z),
         dll (hp s) lruHead lruTail l ->
         In it l ->
         let s' := lru_move s it in
         dll (hp s') lruHead lruTail (it :: remz l it) /\
         perr s' = perr s /\
         (forall x : Z,
          pq (hp s' x) = pq (hp s x) /\
          pown (hp s' x) = pown (hp s x) /\
          pvis (hp s' x) = pvis (hp s x) /\ preuse (hp s' x) = preuse (hp s x)) /\
         prob s' = prob s /\ mainq s' = mainq s /\ hand s' = hand s /\ maincap s' = maincap s.
Proof. exact lru_move_dll. Qed.

(* pointer level: every protocol-respecting sequence of addToLRUHead / removeFromLRU / moveToLRUHead from the initial heap keeps the doubly linked representation of the abstract list; no nil dereference *)
Theorem c09_ptr_lru_sequence :
  forall (owner mcap : Z) (ops : list lru_op),
         lru_ops_ok [] ops = true ->
         let s := fold_left lru_p_step ops (pinit owner mcap) in
         let l := fold_left lru_abs_step ops [] in
         dll (hp s) lruHead lruTail l /\
         perr s = false /\ lru_victim s = match rev l with
                                          | [] => 0
                                          | x :: _ => x
                                          end.
Proof. exact lru_sequence. Qed.

(* pointer level: the LFU frequency ring (buckets, freqMap, itemFreq) refines CacheModel's bucket list under add / increment / remove / removeLFU for every operation sequence *)
Theorem c09_ptr_lfu_ring :
  forall ops : list LfuRing.lfu_op,
         LfuRing.lfu_ops_ok [] ops = true ->
         LfuRing.LInv (fold_left LfuRing.lfu_p_step ops lfu_init)
           (fold_left LfuRing.lfu_abs_step ops []).
Proof. exact LfuRing.lfu_ring_refines. Qed.

(* pointer level: removeLFU's victim lies in head.next's bucket, which is the minimum-frequency bucket *)
Theorem c09_ptr_lfu_victim :
  forall (l : lfu) (b : list (Z * list Z)) (pick : Z),
         LfuRing.LInv l b ->
         b <> [] ->
         lerr (fst (lfu_remove_lfu_p l pick)) = false ->
         snd (lfu_remove_lfu_p l pick) = pick /\
         In pick (lfu_min_bucket b) /\
         (forall it : Z, In it (LfuRing.bitems b) -> lfu_freq b pick <= lfu_freq b it).
Proof. exact LfuRing.lfu_remove_lfu_victim. Qed.

(* the first bucket of a well-formed ring holds the minimum frequency *)
Theorem c09_ptr_lfu_min :
  forall (b : list (Z * list Z)) (k it : Z),
         LfuRing.bwf b ->
         In k (lfu_min_bucket b) -> In it (LfuRing.bitems b) -> lfu_freq b k <= lfu_freq b it.
Proof. exact LfuRing.min_bucket_is_min. Qed.

Print Assumptions c09_lru_order_write.
Print Assumptions c09_lru_order_read.
Print Assumptions c09_fifo_order_write.
Print Assumptions c09_fifo_order_read.
Print Assumptions c09_victim_is_oldest.
Print Assumptions c09_lfu_reads_write.
Print Assumptions c09_lfu_reads_read.
Print Assumptions c09_lfu_victim_min.
Print Assumptions c09_neutral_ops.
Print Assumptions c09_order_survives_drops.
Print Assumptions c09_invariants_all_histories.
Print Assumptions c09_initial.
Print Assumptions c09_cache_get_is_wrapper_step.
Print Assumptions c09_cache_set_is_wrapper_step.
Print Assumptions c09_lru_example.
Print Assumptions c09_fifo_example.
Print Assumptions c09_lfu_example.
Print Assumptions c09_ptr_lru_victim.
Print Assumptions c09_ptr_lru_move.
Print Assumptions c09_ptr_lru_sequence.
Print Assumptions c09_ptr_lfu_ring.
Print Assumptions c09_ptr_lfu_victim.
Print Assumptions c09_ptr_lfu_min.
