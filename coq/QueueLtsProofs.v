(* QueueLtsProofs.v — invariants of the write-pipeline LTS (QueueLts.v), for every ring size
   n >= 2, batch B >= 1, any number of threads and every schedule (including every resolution
   of the two-way selects: the choice bit of lstepc). *)
Require Import KV.Base KV.QueueLts.
Open Scope Z_scope.
Set Default Goal Selector "!".

(* ================================================================ list / ring helpers *)

Lemma upd_length {A} (l : list A) i x : length (upd l i x) = length l.
Proof. revert i; induction l as [|y l IH]; intros [|i]; cbn; auto. Qed.

Lemma nth_error_upd_eq {A} (l : list A) i x : (i < length l)%nat -> nth_error (upd l i x) i = Some x.
Proof. revert i; induction l as [|y l IH]; intros [|i] H; cbn in *; try lia; auto. apply IH; lia. Qed.

Lemma nth_error_upd_ne {A} (l : list A) i j x : i <> j -> nth_error (upd l i x) j = nth_error l j.
Proof.
  revert i j; induction l as [|y l IH]; intros [|i] [|j] H; cbn; auto; try congruence.
Qed.

Lemma nth_upd_eq {A} (l : list A) i x d : (i < length l)%nat -> nth i (upd l i x) d = x.
Proof. revert i; induction l as [|y l IH]; intros [|i] H; cbn in *; try lia; auto. apply IH; lia. Qed.

Lemma nth_upd_ne {A} (l : list A) i j x d : i <> j -> nth j (upd l i x) d = nth j l d.
Proof.
  revert i j; induction l as [|y l IH]; intros [|i] [|j] H; cbn; auto; try congruence.
Qed.

Lemma nth_error_lt {A} (l : list A) i x : nth_error l i = Some x -> (i < length l)%nat.
Proof. intros H. apply nth_error_Some. congruence. Qed.

(* ================================================================ thread access *)

Definition thr (s : gstate) (tid : nat) (th : thread) : Prop := nth_error (threads s) tid = Some th.

Lemma lstepc_inv c s tid s' o :
  lstepc c s tid = Some (s', o) ->
  exists th s1 th1, thr s tid th /\ tstep c s tid th = Some (s1, th1, o)
                    /\ s' = set_threads s1 (upd (threads s1) tid th1).
Proof.
  unfold lstepc, thr. destruct (nth_error (threads s) tid) as [th|]; [|discriminate].
  destruct (tstep c s tid th) as [[[s1 th1] o1]|] eqn:E; [|discriminate].
  intros H; inversion H; subst. eauto 6.
Qed.

(* ================================================================ classification of park points *)

Definition holder (p : pcT) : bool :=
  match p with P121 | P122 | P123 | P124 | P125 | P126 | P312 | P313 | P323 | P332 | P333 => true | _ => false end.
Definition has_buf (p : pcT) : bool :=
  match p with P122 | P123 | P124 | P125 | P126 | P312 => true | _ => false end.

Definition cur_ok (p : pcT) (c : option op) : bool :=
  match p, c with
  | P0, None => true
  | (P101|P102|P103|P104|P105|P106|P108), Some (OSetAsync _ | OEnqueue _ | OSync _ | OClear _ | OClose _) => true
  | (P121|P122|P123|P124|P125|P126|P312|P313), Some (OWorker | OSet _ | OSync _ | OClear _ | OClose _ | OMiss) => true
  | (P301|P302|P303|P304|P305|P308|P311), Some OWorker => true
  | (P321|P322|P323), Some (OSetAsync _) => true
  | (P331|P332|P333), Some (OSet _) => true
  | P340, Some (OSync _ | OClear _ | OClose _) => true
  | (P339|P341|P343), Some (OClose _) => true
  | (P350|P351), Some OHoldMu => true
  | _, _ => false
  end.

(* cache-level operations: everything except the raw consumer operations, which drive the ring
   without the drain token and are only meant for the ring-level correspondence check *)
Definition wf_op (o : op) : bool :=
  match o with OTryDequeue _ | OTakeWake | OClearWS | OReady | ORearm | OCloseCh => false | _ => true end.

(* ================================================================ the case-analysis tactic *)

Ltac unfold_helpers H :=
  cbv beta iota delta [start_op enq_ret cenqueue try_drain drain_start deq_retn deq_ret0 drain_ret
                       finish_w finish park apply_direct apply_batch signal_wake signal_space] in H.

Ltac break_ifs H :=
  repeat match type of H with
         | context [if ?b then _ else _] => let E := fresh "Eb" in destruct b eqn:E
         | context [match ?x with Some _ => _ | None => _ end] => let E := fresh "Eo" in destruct x eqn:E
         | context [match ?x with [] => _ | _ :: _ => _ end] => let E := fresh "El" in destruct x eqn:E
         end.

(* H : tstep c s tid th = Some (s1, th1, o);  Hok : cur_ok (pc th) (cur th) = true *)
Ltac step_cases H Hok :=
  unfold tstep in H;
  let Hpc := fresh "Hpc" in let Hcur := fresh "Hcur" in
  destruct (pc _) eqn:Hpc in H;
  rewrite Hpc in Hok;
  destruct (cur _) as [[]|] eqn:Hcur in Hok; cbn in Hok; try discriminate Hok;
  rewrite ?Hcur in H.

Ltac thread_cbn H :=
  cbn [cur pc script epos dpos dbuf dacks wclosing starget
       set_script set_cur set_pc set_epos set_dpos set_dbuf set_dacks set_wclosing set_starget] in H.

Ltac break_all H :=
  repeat match type of H with
         | context [match ?x with _ => _ end] => let E := fresh "E" in destruct x eqn:E
         end.

(* full decomposition of one thread step into its leaf cases *)
Ltac step_leaves H Hok :=
  step_cases H Hok;
  unfold_helpers H; thread_cbn H; cbn [Z.eqb] in H;
  repeat match goal with Hc : cur _ = _ |- _ => rewrite Hc in H end;
  break_all H; try discriminate H; inversion H; subst; clear H.

(* flatten the nested setter terms of a leaf: kernel conversion on nested record setters is
   exponential in the nesting depth, on a flat constructor form it is immediate *)
Ltac simp_rec t := eval cbn [set_cell gn gB gfixed ring head tail wakeState wakeTok spaceTok closeCh closedFlag drainMu mu onceHeld onceDone ackTok applied threads resv qlog dlog accd gtail overwrote trace set_gn set_gB set_gfixed set_ring set_head set_tail set_wakeState set_wakeTok set_spaceTok set_closeCh set_closedFlag set_drainMu set_mu set_onceHeld set_onceDone set_ackTok set_applied set_threads set_resv set_qlog set_dlog set_accd set_gtail set_overwrote set_trace script cur pc epos dpos dbuf dacks wclosing starget set_script set_cur set_pc set_epos set_dpos set_dbuf set_dacks set_wclosing set_starget] in t.
Ltac norm_thread T :=
  let v0 := simp_rec (script T) in
  let v1 := simp_rec (cur T) in
  let v2 := simp_rec (pc T) in
  let v3 := simp_rec (epos T) in
  let v4 := simp_rec (dpos T) in
  let v5 := simp_rec (dbuf T) in
  let v6 := simp_rec (dacks T) in
  let v7 := simp_rec (wclosing T) in
  let v8 := simp_rec (starget T) in
  constr:(mkThread v0 v1 v2 v3 v4 v5 v6 v7 v8).
Ltac norm_gstate S :=
  let v0 := simp_rec (gn S) in
  let v1 := simp_rec (gB S) in
  let v2 := simp_rec (gfixed S) in
  let v3 := simp_rec (ring S) in
  let v4 := simp_rec (head S) in
  let v5 := simp_rec (tail S) in
  let v6 := simp_rec (wakeState S) in
  let v7 := simp_rec (wakeTok S) in
  let v8 := simp_rec (spaceTok S) in
  let v9 := simp_rec (closeCh S) in
  let v10 := simp_rec (closedFlag S) in
  let v11 := simp_rec (drainMu S) in
  let v12 := simp_rec (mu S) in
  let v13 := simp_rec (onceHeld S) in
  let v14 := simp_rec (onceDone S) in
  let v15 := simp_rec (ackTok S) in
  let v16 := simp_rec (applied S) in
  let v17 := simp_rec (threads S) in
  let v18 := simp_rec (resv S) in
  let v19 := simp_rec (qlog S) in
  let v20 := simp_rec (dlog S) in
  let v21 := simp_rec (accd S) in
  let v22 := simp_rec (gtail S) in
  let v23 := simp_rec (overwrote S) in
  let v24 := simp_rec (trace S) in
  constr:(mkG v0 v1 v2 v3 v4 v5 v6 v7 v8 v9 v10 v11 v12 v13 v14 v15 v16 v17 v18 v19 v20 v21 v22 v23 v24).
Ltac norm_state :=
  match goal with
  | |- context [set_threads ?S1 (upd ?L ?t ?T)] =>
      let T' := norm_thread T in
      change T with T';
      match goal with
      | |- context [set_threads ?S2 ?U] =>
          let nf := norm_gstate (set_threads S2 U) in
          change (set_threads S2 U) with nf
      end
  end.

Ltac bool_hyps :=
  repeat match goal with
         | H : _ || _ = false |- _ => apply orb_false_iff in H; destruct H
         | H : negb _ = false |- _ => apply negb_false_iff in H
         | H : _ && _ = true |- _ => apply andb_true_iff in H; destruct H
         | H : negb _ = true |- _ => apply negb_true_iff in H
         end.

Ltac none_hyps :=
  repeat match goal with
         | H : is_none ?x = _ |- _ =>
             let E := fresh "En" in destruct x eqn:E; cbn in H; try discriminate H; clear H; cbn in E
         end.

(* ================================================================ reachability *)

Inductive reachable (s0 : gstate) : gstate -> Prop :=
| reach_refl : reachable s0 s0
| reach_step s c tid s' o : reachable s0 s -> lstepc c s tid = Some (s', o) -> reachable s0 s'.

Definition wf_scripts (scripts : list (list op)) : Prop :=
  Forall (fun l => forallb wf_op l = true) scripts.

Lemma nth_error_map_thread scripts tid th :
  nth_error (map thread_of scripts) tid = Some th ->
  exists l, nth_error scripts tid = Some l /\ th = thread_of l.
Proof.
  rewrite nth_error_map. destruct (nth_error scripts tid) as [l|]; cbn; [|discriminate].
  intros H; inversion H; eauto.
Qed.

(* ================================================================ layer A: control, locks *)

Record invA_th (s : gstate) (tid : nat) (th : thread) : Prop := {
  a_cur : cur_ok (pc th) (cur th) = true;
  a_tok : drainMu s = Some tid <-> holder (pc th) = true;
  a_mu : mu s = Some tid <-> pc th = P351;
  a_buf : has_buf (pc th) = false -> dbuf th = [];
  a_wf : forallb wf_op (script th) = true
}.

Definition invA (s : gstate) : Prop :=
  (forall tid th, thr s tid th -> invA_th s tid th)
  /\ (forall t, drainMu s = Some t -> (t < length (threads s))%nat)
  /\ (forall t, mu s = Some t -> (t < length (threads s))%nat).

Lemma invA_init f n B scripts : wf_scripts scripts -> invA (init_scripts f n B scripts).
Proof.
  intros Hwf. split; [|split]; cbn; try discriminate.
  intros tid th H. unfold thr in H; cbn in H. apply nth_error_map_thread in H as (l & Hl & ->).
  constructor; cbn; try reflexivity; try (split; discriminate).
  eapply Forall_forall in Hwf; [exact Hwf|]. eapply nth_error_In; eauto.
Qed.

Lemma invA_step c s tid s' o : invA s -> lstepc c s tid = Some (s', o) -> invA s'.
Proof.
  intros [HT [HD HM]] Hs. apply lstepc_inv in Hs as (th & s1 & th1 & Hth & Hst & ->).
  pose proof (HT _ _ Hth) as [Hok Htok Hmu Hbuf Hwf].
  step_leaves Hst Hok.
  all: rewrite ?Hpc in *; cbn [holder has_buf] in *; cbn in Hwf; try discriminate Hwf.
  all: (split; [|split]);
  [ intros t th' Ht'; unfold thr in Ht'; cbn in Ht';
    destruct (Nat.eq_dec t tid) as [->|Hne];
    [ rewrite nth_error_upd_eq in Ht' by (eapply nth_error_lt; eauto); inversion Ht'; subst th'; clear Ht';
      constructor; cbn; try rewrite Hpc; cbn
    | rewrite nth_error_upd_ne in Ht' by auto; destruct (HT _ _ Ht') as [Hok' Htok' Hmu' Hbuf' Hwf'];
      constructor; cbn ]
  | cbn; intros t Ht; rewrite upd_length
  | cbn; intros t Ht; rewrite upd_length ].
  all: try assumption; try reflexivity; try (apply HD; assumption); try (apply HM; assumption).
  all: try (rewrite Hcur; reflexivity).
  all: try discriminate.
  all: try (inversion Ht; subst; eapply nth_error_lt; eassumption).
  all: bool_hyps; none_hyps.
  all: solve [intuition congruence].
Qed.

Lemma invA_reachable f n B scripts s :
  wf_scripts scripts -> reachable (init_scripts f n B scripts) s -> invA s.
Proof.
  intros Hwf H. induction H as [|s c tid s' o _ IH Hs]; [apply invA_init; auto|].
  eapply invA_step; eauto.
Qed.

(* ================================================================ layer B: ring shape *)

Definition ownpc (p : pcT) : bool := match p with P104 | P105 => true | _ => false end.
Definition rcmd (s : gstate) (p : Z) : cmd := nth (Z.to_nat p) (resv s) (Write 0).
Definition published (s : gstate) (p : Z) : Prop :=
  cseq (cell_at s p) = p + 1 /\ ccmd (cell_at s p) = Some (rcmd s p).
Definition owned (s : gstate) (p : Z) : Prop :=
  exists tid th, thr s tid th /\ ownpc (pc th) = true /\ epos th = p.

Record tinvB (s : gstate) (th : thread) : Prop := {
  t_102 : pc th = P102 -> epos th <= head s;
  t_103 : pc th = P103 -> epos th < gtail s + gn s;
  t_own : ownpc (pc th) = true ->
          gtail s <= epos th < head s /\ cseq (cell_at s (epos th)) = epos th
          /\ Some (rcmd s (epos th)) = option_map cmd_of (cur th);
  t_c104 : pc th = P104 -> ccmd (cell_at s (epos th)) = None;
  t_c105 : pc th = P105 -> ccmd (cell_at s (epos th)) = option_map cmd_of (cur th);
  t_106 : pc th = P106 -> 0 <= epos th < head s /\ (gtail s <= epos th -> published s (epos th));
  t_r106 : pc th = P106 -> Some (rcmd s (epos th)) = option_map cmd_of (cur th);
  t_dpos : pc th = P122 \/ pc th = P123 \/ pc th = P124 \/ pc th = P125 -> dpos th = gtail s;
  t_pub : pc th = P123 \/ pc th = P124 -> dpos th < head s /\ published s (dpos th);
  t_tail : holder (pc th) = true -> tail s = gtail s - (match pc th with P125 => 1 | _ => 0 end)
}.

Record invB (s : gstate) : Prop := {
  b_n : 2 <= gn s;
  b_len : Z.of_nat (length (ring s)) = gn s;
  b_lo : 0 <= gtail s;
  b_le : gtail s <= head s;
  b_hi : head s <= gtail s + gn s;
  b_resv : Z.of_nat (length (resv s)) = head s;
  b_cells : forall p, gtail s <= p < gtail s + gn s ->
      (p < head s -> published s p \/ (cseq (cell_at s p) = p /\ owned s p))
      /\ (head s <= p -> cseq (cell_at s p) = p /\ ccmd (cell_at s p) = None);
  b_uniq : forall t1 t2 th1 th2, thr s t1 th1 -> thr s t2 th2 -> t1 <> t2 ->
      ownpc (pc th1) = true -> ownpc (pc th2) = true -> epos th1 <> epos th2;
  b_notok : drainMu s = None -> tail s = gtail s;
  b_ow : overwrote s = false;
  b_accd : forall p, In p (accd s) -> 0 <= p < head s /\ (gtail s <= p -> published s p);
  b_thr : forall tid th, thr s tid th -> tinvB s th
}.

(* ---- ring cell access ---- *)

Lemma idx_inj n a p q : 0 < n -> a <= p < a + n -> a <= q < a + n -> p mod n = q mod n -> p = q.
Proof.
  intros Hn Hp Hq H.
  assert (E1 : p = n * (p / n) + p mod n) by (apply Z.div_mod; lia).
  assert (E2 : q = n * (q / n) + q mod n) by (apply Z.div_mod; lia).
  assert ((p / n) = (q / n)); [|nia].
  destruct (Z.lt_trichotomy (p / n) (q / n)) as [L|[L|L]]; auto; nia.
Qed.

Lemma cell_at_same s s' q : gn s' = gn s -> ring s' = ring s -> cell_at s' q = cell_at s q.
Proof. unfold cell_at, idx. intros -> ->. reflexivity. Qed.

Lemma cell_at_upd_eq s s' p c :
  gn s' = gn s -> ring s' = upd (ring s) (idx s p) c -> Z.of_nat (length (ring s)) = gn s -> 0 < gn s ->
  cell_at s' p = c.
Proof.
  unfold cell_at, idx. intros -> -> Hl Hn. apply nth_upd_eq.
  pose proof (Z.mod_pos_bound p (gn s) Hn). lia.
Qed.

Lemma cell_at_upd_ne s s' p q c a :
  gn s' = gn s -> ring s' = upd (ring s) (idx s p) c -> 0 < gn s ->
  a <= p < a + gn s -> a <= q < a + gn s -> p <> q -> cell_at s' q = cell_at s q.
Proof.
  unfold cell_at, idx. intros -> -> Hn Hp Hq Hne. apply nth_upd_ne.
  intros E. apply Hne. apply (idx_inj (gn s) a); auto.
  pose proof (Z.mod_pos_bound p (gn s) Hn). pose proof (Z.mod_pos_bound q (gn s) Hn). lia.
Qed.

(* what a producer / the consumer learn from a sequence number *)
Lemma obs_free s e : invB s -> e <= head s -> cseq (cell_at s e) = e -> e < gtail s + gn s.
Proof.
  intros HB He Hc. destruct HB. destruct (Z.lt_ge_cases e (gtail s + gn s)) as [|Hge]; auto.
  assert (e = gtail s + gn s) by lia. subst e.
  assert (Hw : gtail s <= gtail s < gtail s + gn s) by lia.
  destruct (b_cells0 _ Hw) as [Hc1 _].
  assert (Hcell : cell_at s (gtail s + gn s) = cell_at s (gtail s)).
  { unfold cell_at, idx. replace (gtail s + gn s) with (gtail s + 1 * gn s) by lia.
    rewrite Z.mod_add by lia. reflexivity. }
  rewrite Hcell in Hc. destruct Hc1 as [[Hp _]|[Hr _]]; lia.
Qed.

Lemma obs_pub s : invB s -> cseq (cell_at s (gtail s)) = gtail s + 1 -> gtail s < head s /\ published s (gtail s).
Proof.
  intros HB Hc. destruct HB.
  assert (Hw : gtail s <= gtail s < gtail s + gn s) by lia.
  destruct (b_cells0 _ Hw) as [Hc1 Hc2].
  destruct (Z.lt_ge_cases (gtail s) (head s)) as [Hlt|Hge].
  - split; auto. destruct (Hc1 Hlt) as [|[? _]]; auto. lia.
  - destruct (Hc2 Hge). lia.
Qed.

(* ---- frames ---- *)

Definition same_ring (s s' : gstate) : Prop :=
  gn s' = gn s /\ ring s' = ring s /\ head s' = head s /\ gtail s' = gtail s /\ tail s' = tail s
  /\ resv s' = resv s.

Lemma tinvB_frame s s' th : same_ring s s' -> tinvB s th -> tinvB s' th.
Proof.
  intros (Hn & Hr & Hh & Hg & Ht & Hv) [].
  assert (Hc : forall q, cell_at s' q = cell_at s q) by (intros; apply cell_at_same; auto).
  constructor; unfold published, rcmd in *; rewrite ?Hc, ?Hn, ?Hh, ?Hg, ?Ht, ?Hv; auto.
Qed.

Lemma thr_upd_other s s' tid th1 t th :
  threads s' = upd (threads s) tid th1 -> t <> tid -> (thr s' t th <-> thr s t th).
Proof. unfold thr. intros -> Hne. rewrite nth_error_upd_ne by auto. tauto. Qed.

Lemma thr_upd_same s s' tid th th1 th' :
  threads s' = upd (threads s) tid th1 -> thr s tid th -> thr s' tid th' -> th' = th1.
Proof.
  unfold thr. intros -> H. rewrite nth_error_upd_eq by (eapply nth_error_lt; eauto). congruence.
Qed.

Lemma thr_det s t th th' : thr s t th -> thr s t th' -> th = th'.
Proof. unfold thr; congruence. Qed.

Lemma invB_frame s s' tid th th1 :
  invB s -> thr s tid th -> threads s' = upd (threads s) tid th1 ->
  same_ring s s' -> overwrote s' = overwrote s ->
  ownpc (pc th) = false -> ownpc (pc th1) = false ->
  tinvB s' th1 -> (drainMu s' = None -> tail s' = gtail s') ->
  (forall p, In p (accd s') -> In p (accd s) \/ (pc th = P106 /\ p = epos th)) ->
  invB s'.
Proof.
  intros HB Hth Hthr Hsame How Ho Ho1 Ht1 Hnt Hacc.
  pose proof Hsame as (Hn & Hr & Hh & Hg & Ht & Hv).
  pose proof (b_thr _ HB _ _ Hth) as Tth0. destruct HB.
  assert (Hc : forall q, cell_at s' q = cell_at s q) by (intros; apply cell_at_same; auto).
  constructor; try (rewrite ?Hn, ?Hr, ?Hh, ?Hg, ?Hv; auto; fail); try congruence.
  - rewrite Hn, Hg, Hh. intros p Hp. destruct (b_cells0 p Hp) as [C1 C2]. unfold published, rcmd, owned in *.
    rewrite Hc, Hv. split; auto. intros Hlt. destruct (C1 Hlt) as [|[Hs (t0 & th0 & Ht0 & Hown & He)]]; auto.
    right; split; auto. exists t0, th0. split; auto.
    apply (thr_upd_other s s' tid th1); auto. intros ->. rewrite (thr_det _ _ _ _ Ht0 Hth) in Hown. congruence.
  - intros t1 t2 th1' th2' H1 H2 Hne O1 O2.
    destruct (Nat.eq_dec t1 tid) as [->|N1].
    { rewrite (thr_upd_same _ _ _ _ _ _ Hthr Hth H1) in O1. congruence. }
    destruct (Nat.eq_dec t2 tid) as [->|N2].
    { rewrite (thr_upd_same _ _ _ _ _ _ Hthr Hth H2) in O2. congruence. }
    apply (thr_upd_other s s' tid th1) in H1; auto. apply (thr_upd_other s s' tid th1) in H2; auto.
    eapply b_uniq0; eauto.
  - exact Hnt.
  - rewrite Hh, Hg. intros p Hp. unfold published, rcmd. rewrite Hc, Hv.
    destruct (Hacc p Hp) as [Hin|[Hp6 ->]]; [apply b_accd0; auto | apply (t_106 _ _ Tth0 Hp6)].
  - intros t th' H. destruct (Nat.eq_dec t tid) as [->|N].
    + rewrite (thr_upd_same _ _ _ _ _ _ Hthr Hth H). auto.
    + apply (thr_upd_other s s' tid th1) in H; auto. eapply tinvB_frame; eauto.
Qed.

Lemma rcmd_app s s' l p :
  resv s' = resv s ++ l -> 0 <= p < Z.of_nat (length (resv s)) -> rcmd s' p = rcmd s p.
Proof. unfold rcmd. intros -> H. apply app_nth1. lia. Qed.

Lemma holder_pcs p : (p = P122 \/ p = P123 \/ p = P124 \/ p = P125) -> holder p = true.
Proof. intros [ -> | [ -> | [ -> | -> ]]]; reflexivity. Qed.

Lemma tinvB_other s s' th' :
  gn s' = gn s -> head s <= head s' -> gtail s <= gtail s' ->
  (exists l, resv s' = resv s ++ l) -> Z.of_nat (length (resv s)) = head s -> 0 <= gtail s ->
  (ownpc (pc th') = true -> gtail s' <= epos th' /\ cell_at s' (epos th') = cell_at s (epos th')) ->
  (holder (pc th') = true -> gtail s' = gtail s /\ tail s' = tail s) ->
  (pc th' = P123 \/ pc th' = P124 -> cell_at s' (dpos th') = cell_at s (dpos th')) ->
  (pc th' = P106 -> gtail s' <= epos th' -> cell_at s' (epos th') = cell_at s (epos th')) ->
  tinvB s th' -> tinvB s' th'.
Proof.
  intros Hn Hh Hg [l Hl] Hlen H0 Hown Hhold Hcell Hc106 [T102 T103 Town Tc104 Tc105 T106 Tr106 Tdpos Tpub Ttail].
  constructor.
  - intros X. specialize (T102 X). lia.
  - intros X. specialize (T103 X). lia.
  - intros X. destruct (Town X) as (A & B & C). destruct (Hown X) as [D E].
    rewrite E. split; [lia|]. split; auto. rewrite (rcmd_app s s' l); auto. lia.
  - intros X. assert (O : ownpc (pc th') = true) by (rewrite X; reflexivity).
    destruct (Hown O) as [_ E]. rewrite E. auto.
  - intros X. assert (O : ownpc (pc th') = true) by (rewrite X; reflexivity).
    destruct (Hown O) as [_ E]. rewrite E. auto.
  - intros X. destruct (T106 X) as [A B]. split; [lia|]. intros G. unfold published.
    rewrite (Hc106 X G). rewrite (rcmd_app s s' l); auto; [|lia]. apply B. lia.
  - intros X. destruct (T106 X) as [A B]. rewrite (rcmd_app s s' l); auto. lia.
  - intros X. destruct (Hhold (holder_pcs _ X)) as (A & _). rewrite A. auto.
  - intros X. assert (Y : holder (pc th') = true) by (apply holder_pcs; tauto).
    destruct (Hhold Y) as (A & B). pose proof (Hcell X) as C. destruct (Tpub X) as [D [E F]].
    assert (G : dpos th' = gtail s) by (apply Tdpos; tauto).
    split; [lia|]. unfold published. rewrite C. split; auto. rewrite (rcmd_app s s' l); auto. lia.
  - intros X. destruct (Hhold X) as (A & B). rewrite A, B. auto.
Qed.

Lemma invB_103 s s' tid th o :
  invB s -> thr s tid th -> pc th = P103 -> cur th = Some o -> head s = epos th ->
  threads s' = upd (threads s) tid (set_pc th P104) ->
  gn s' = gn s -> ring s' = ring s -> head s' = epos th + 1 -> gtail s' = gtail s -> tail s' = tail s ->
  resv s' = resv s ++ [cmd_of o] -> overwrote s' = overwrote s -> drainMu s' = drainMu s ->
  accd s' = accd s -> invB s'.
Proof.
  intros HB Hth Hpc Hcur Hhe Hthr Hn Hr Hh Hg Ht Hv How Hd Hac.
  pose proof (b_thr _ HB _ _ Hth) as Tth. pose proof (t_103 _ _ Tth Hpc) as H103.
  destruct HB.
  assert (Hc : forall q, cell_at s' q = cell_at s q) by (intros; apply cell_at_same; auto).
  assert (Hlt : (tid < length (threads s))%nat) by (eapply nth_error_lt; eauto).
  assert (Hnew : thr s' tid (set_pc th P104)) by (unfold thr; rewrite Hthr; apply nth_error_upd_eq; auto).
  assert (Hw : gtail s <= epos th < gtail s + gn s) by lia.
  destruct (b_cells0 _ Hw) as [_ Cfree]. destruct Cfree as [Cs Cc]; [lia|].
  constructor; try congruence; try lia.
  - rewrite Hv, app_length. cbn. lia.
  - rewrite Hn, Hg, Hh. intros p Hp. destruct (b_cells0 p Hp) as [C1 C2]. unfold published, owned in *.
    rewrite Hc. split.
    + intros Hlt'. destruct (Z.eq_dec p (epos th)) as [->|Hne].
      * right. split; auto. exists tid, (set_pc th P104). cbn. auto.
      * destruct C1 as [[A B]|[A (t0 & th0 & Ht0 & Hown & He)]]; [lia| |].
        -- left. split; auto. rewrite (rcmd_app s s' [cmd_of o]); auto. lia.
        -- right. split; auto. exists t0, th0. split; auto.
           apply (thr_upd_other s s' tid (set_pc th P104)); auto.
           intros ->. rewrite (thr_det _ _ _ _ Ht0 Hth), Hpc in Hown. discriminate.
    + intros Hge. apply C2. lia.
  - intros t1 t2 th1' th2' H1 H2 Hne O1 O2.
    assert (Old : forall t th', t <> tid -> thr s' t th' -> ownpc (pc th') = true -> epos th' < epos th).
    { intros t th' N H O. apply (thr_upd_other s s' tid (set_pc th P104)) in H; auto.
      destruct (t_own _ _ (b_thr0 _ _ H) O) as (A & _). lia. }
    destruct (Nat.eq_dec t1 tid) as [->|N1]; destruct (Nat.eq_dec t2 tid) as [->|N2]; try congruence.
    + rewrite (thr_upd_same _ _ _ _ _ _ Hthr Hth H1). cbn. specialize (Old _ _ N2 H2 O2). lia.
    + rewrite (thr_upd_same _ _ _ _ _ _ Hthr Hth H2). cbn. specialize (Old _ _ N1 H1 O1). lia.
    + apply (thr_upd_other s s' tid (set_pc th P104)) in H1; auto.
      apply (thr_upd_other s s' tid (set_pc th P104)) in H2; auto. eapply b_uniq0; eauto.
  - rewrite Hd, Ht, Hg. auto.
  - rewrite Hac, Hh, Hg. intros p Hp. destruct (b_accd0 p Hp) as [A B]. split; [lia|]. intros G.
    unfold published. rewrite Hc. rewrite (rcmd_app s s' [cmd_of o]) by (auto; lia). apply B; auto.
  - intros t th' H. destruct (Nat.eq_dec t tid) as [->|N].
    + rewrite (thr_upd_same _ _ _ _ _ _ Hthr Hth H).
      constructor; cbn; try discriminate; try (intros [X|[X|[X|X]]]; discriminate); try (intros [X|X]; discriminate).
      * intros _. rewrite Hc, Hg, Hh. split; [lia|]. split; auto.
        unfold rcmd. rewrite Hv, Hcur. cbn. f_equal.
        replace (Z.to_nat (epos th)) with (length (resv s)) by lia. apply nth_middle.
      * intros _. rewrite Hc. auto.
    + apply (thr_upd_other s s' tid (set_pc th P104)) in H; auto.
      apply (tinvB_other s s'); auto; try lia.
      * eauto.
      * intros O. rewrite Hc. split; auto. destruct (t_own _ _ (b_thr0 _ _ H) O) as (A & _). lia.
      * eauto.
Qed.

Lemma invB_own_upd s s' tid th p1 c :
  invB s -> thr s tid th -> ownpc (pc th) = true ->
  threads s' = upd (threads s) tid (set_pc th p1) ->
  gn s' = gn s -> ring s' = upd (ring s) (idx s (epos th)) c -> head s' = head s -> gtail s' = gtail s ->
  tail s' = tail s -> resv s' = resv s -> overwrote s' = false -> drainMu s' = drainMu s ->
  ((p1 = P105 /\ cseq c = epos th /\ ccmd c = option_map cmd_of (cur th))
   \/ (p1 = P106 /\ cseq c = epos th + 1 /\ ccmd c = Some (rcmd s (epos th)))) ->
  accd s' = accd s -> invB s'.
Proof.
  intros HB Hth Hown Hthr Hn Hr Hh Hg Ht Hv How Hd Hcase Hac.
  pose proof (b_thr _ HB _ _ Hth) as Tth. destruct (t_own _ _ Tth Hown) as (Ein & Eseq & Ercmd).
  destruct HB.
  assert (Hlt : (tid < length (threads s))%nat) by (eapply nth_error_lt; eauto).
  assert (Hnew : thr s' tid (set_pc th p1)) by (unfold thr; rewrite Hthr; apply nth_error_upd_eq; auto).
  assert (Hce : cell_at s' (epos th) = c) by (eapply cell_at_upd_eq; eauto; lia).
  assert (Hcn : forall q, gtail s <= q < gtail s + gn s -> q <> epos th -> cell_at s' q = cell_at s q).
  { intros q Hq Hne. eapply (cell_at_upd_ne s s' (epos th) q c (gtail s)); eauto; lia. }
  assert (Hrc : forall q, rcmd s' q = rcmd s q) by (intros; unfold rcmd; rewrite Hv; auto).
  constructor; try congruence; try lia.
  - rewrite Hr, upd_length, Hn. auto.
  - rewrite Hn, Hg, Hh. intros p Hp. destruct (b_cells0 p Hp) as [C1 C2]. unfold published, owned in *.
    destruct (Z.eq_dec p (epos th)) as [->|Hne].
    + rewrite Hce, Hrc. split; [|lia]. intros _.
      destruct Hcase as [(-> & A & B)|(-> & A & B)].
      * right. split; auto. exists tid, (set_pc th P105). cbn. auto.
      * left. auto.
    + rewrite Hcn, Hrc by auto. split; auto. intros Hlt'.
      destruct (C1 Hlt') as [|[A (t0 & th0 & Ht0 & Hown0 & He)]]; auto.
      right. split; auto. exists t0, th0. split; auto.
      apply (thr_upd_other s s' tid (set_pc th p1)); auto.
      intros ->. rewrite (thr_det _ _ _ _ Ht0 Hth) in He. congruence.
  - intros t1 t2 th1' th2' H1 H2 Hne O1 O2.
    destruct (Nat.eq_dec t1 tid) as [->|N1]; destruct (Nat.eq_dec t2 tid) as [->|N2]; try congruence.
    + rewrite (thr_upd_same _ _ _ _ _ _ Hthr Hth H1). cbn.
      apply (thr_upd_other s s' tid (set_pc th p1)) in H2; auto. eapply (b_uniq0 tid t2); eauto.
    + rewrite (thr_upd_same _ _ _ _ _ _ Hthr Hth H2). cbn.
      apply (thr_upd_other s s' tid (set_pc th p1)) in H1; auto. eapply (b_uniq0 t1 tid); eauto.
    + apply (thr_upd_other s s' tid (set_pc th p1)) in H1; auto.
      apply (thr_upd_other s s' tid (set_pc th p1)) in H2; auto. eapply b_uniq0; eauto.
  - rewrite Hd, Ht, Hg. auto.
  - rewrite Hac, Hh, Hg. intros p Hp. destruct (b_accd0 p Hp) as [A B]. split; [lia|]. intros G.
    destruct (B G) as [C D]. unfold published. rewrite Hcn, Hrc; [split; auto|lia|].
    intros E. rewrite E in C. lia.
  - intros t th' H. destruct (Nat.eq_dec t tid) as [->|N].
    + rewrite (thr_upd_same _ _ _ _ _ _ Hthr Hth H).
      destruct Hcase as [(-> & A & B)|(-> & A & B)].
      * constructor; cbn; try discriminate; try (intros [X|[X|[X|X]]]; discriminate); try (intros [X|X]; discriminate).
        -- intros _. rewrite Hce, Hg, Hh, Hrc. auto.
        -- intros _. rewrite Hce. auto.
      * constructor; cbn; try discriminate; try (intros [X|[X|[X|X]]]; discriminate); try (intros [X|X]; discriminate).
        -- intros _. rewrite Hh. split; [lia|]. intros _. unfold published. rewrite Hce, Hrc. auto.
        -- intros _. rewrite Hrc. exact Ercmd.
    + apply (thr_upd_other s s' tid (set_pc th p1)) in H; auto.
      pose proof (b_thr0 _ _ H) as Tth'.
      apply (tinvB_other s s'); auto; try lia.
      * exists []. rewrite app_nil_r. auto.
      * intros O. destruct (t_own _ _ Tth' O) as (A & _). rewrite Hg. split; [lia|].
        apply Hcn; [lia|]. eapply (b_uniq0 t tid); eauto.
      * intros X. destruct (t_pub _ _ Tth' X) as [A [B C]].
        assert (G : dpos th' = gtail s) by (apply (t_dpos _ _ Tth'); tauto).
        apply Hcn; [lia|]. intros E. rewrite E in B. lia.
      * intros X G. destruct (t_106 _ _ Tth' X) as [A B]. rewrite Hg in G. destruct (B G) as [C _].
        apply Hcn; [lia|]. intros E. rewrite E in C. lia.
Qed.

Lemma holder_unique s t1 t2 th1 th2 :
  invA s -> thr s t1 th1 -> thr s t2 th2 -> holder (pc th1) = true -> holder (pc th2) = true -> t1 = t2.
Proof.
  intros [HT _] H1 H2 O1 O2.
  apply (a_tok _ _ _ (HT _ _ H1)) in O1. apply (a_tok _ _ _ (HT _ _ H2)) in O2. congruence.
Qed.

Lemma cell_at_shift s p : 0 < gn s -> cell_at s (p + gn s) = cell_at s p.
Proof.
  intros H. unfold cell_at, idx. replace (p + gn s) with (p + 1 * gn s) by lia.
  rewrite Z.mod_add by lia. reflexivity.
Qed.

Ltac vac_tinv :=
  constructor; cbn; try discriminate; try (intros [X|[X|[X|X]]]; discriminate); try (intros [X|X]; discriminate).

Lemma invB_124 s s' tid th :
  invA s -> invB s -> thr s tid th -> pc th = P124 ->
  threads s' = upd (threads s) tid (set_pc (set_dpos th (dpos th + 1)) P125) ->
  gn s' = gn s -> ring s' = upd (ring s) (idx s (dpos th)) (mkCell (dpos th + gn s) None) ->
  head s' = head s -> gtail s' = dpos th + 1 -> tail s' = tail s -> resv s' = resv s ->
  overwrote s' = overwrote s -> drainMu s' = drainMu s -> accd s' = accd s -> invB s'.
Proof.
  intros HA HB Hth Hpc Hthr Hn Hr Hh Hg Ht Hv How Hd Hac.
  pose proof (b_thr _ HB _ _ Hth) as Tth.
  assert (Edp : dpos th = gtail s) by (apply (t_dpos _ _ Tth); tauto).
  destruct (t_pub _ _ Tth) as (Elt & Eps & Epc); [tauto|].
  assert (Etl : tail s = gtail s) by (rewrite (t_tail _ _ Tth) by (rewrite Hpc; reflexivity); rewrite Hpc; lia).
  assert (Hhold : holder (pc th) = true) by (rewrite Hpc; reflexivity).
  assert (Hdm : drainMu s = Some tid) by (destruct HA as [HT _]; apply (a_tok _ _ _ (HT _ _ Hth)); auto).
  set (th1 := set_pc (set_dpos th (dpos th + 1)) P125) in *.
  destruct HB.
  assert (Hlt : (tid < length (threads s))%nat) by (eapply nth_error_lt; eauto).
  assert (Hce : cell_at s' (dpos th) = mkCell (dpos th + gn s) None) by (eapply cell_at_upd_eq; eauto; lia).
  assert (Hcn : forall q, gtail s <= q < gtail s + gn s -> q <> dpos th -> cell_at s' q = cell_at s q).
  { intros q Hq Hne. eapply (cell_at_upd_ne s s' (dpos th) q _ (gtail s)); eauto; lia. }
  assert (Hrc : forall q, rcmd s' q = rcmd s q) by (intros; unfold rcmd; rewrite Hv; auto).
  assert (Hoth : forall t th', t <> tid -> thr s' t th' -> thr s t th' /\ holder (pc th') = false).
  { intros t th' N H. apply (thr_upd_other s s' tid th1) in H; auto. split; auto.
    destruct (holder (pc th')) eqn:E; auto. exfalso. apply N. eapply holder_unique; eauto. }
  constructor; try congruence; try lia.
  - rewrite Hr, upd_length, Hn. auto.
  - rewrite Hn, Hg, Hh. intros p Hp. unfold published, owned in *.
    destruct (Z.eq_dec p (gtail s + gn s)) as [->|Hne].
    + rewrite <- Hn, cell_at_shift, <- Edp, Hce by lia. cbn. split; [lia|]. intros _. split; auto. lia.
    + assert (Hp' : gtail s <= p < gtail s + gn s) by lia.
      destruct (b_cells0 p Hp') as [C1 C2]. rewrite Hcn, Hrc by (auto; lia). split; auto. intros Hlt'.
      destruct (C1 Hlt') as [|[A (t0 & th0 & Ht0 & Hown0 & He)]]; auto.
      right. split; auto. exists t0, th0. split; auto.
      apply (thr_upd_other s s' tid th1); auto.
      intros ->. rewrite (thr_det _ _ _ _ Ht0 Hth), Hpc in Hown0. discriminate.
  - intros t1 t2 th1' th2' H1 H2 Hne O1 O2.
    destruct (Nat.eq_dec t1 tid) as [->|N1].
    { rewrite (thr_upd_same _ _ _ _ _ _ Hthr Hth H1) in O1. discriminate. }
    destruct (Nat.eq_dec t2 tid) as [->|N2].
    { rewrite (thr_upd_same _ _ _ _ _ _ Hthr Hth H2) in O2. discriminate. }
    apply (thr_upd_other s s' tid th1) in H1; auto. apply (thr_upd_other s s' tid th1) in H2; auto.
    eapply b_uniq0; eauto.
  - rewrite Hac, Hh, Hg. intros p Hp. destruct (b_accd0 p Hp) as [A B]. split; [lia|]. intros G.
    destruct B as [C D]; [lia|]. unfold published. rewrite Hcn, Hrc; [split; auto|lia|lia].
  - intros t th' H. destruct (Nat.eq_dec t tid) as [->|N].
    + rewrite (thr_upd_same _ _ _ _ _ _ Hthr Hth H). unfold th1. vac_tinv.
      * intros _. auto.
      * intros _. lia.
    + destruct (Hoth _ _ N H) as [H' Hnh]. pose proof (b_thr0 _ _ H') as Tth'.
      apply (tinvB_other s s'); auto; try lia.
      * exists []. rewrite app_nil_r. auto.
      * intros O. destruct (t_own _ _ Tth' O) as (A & B & _).
        assert (epos th' <> gtail s) by (intros E; rewrite E, <- Edp in B; lia).
        split; [lia|]. apply Hcn; lia.
      * intros X. rewrite holder_pcs in Hnh by tauto. discriminate.
      * intros X G. destruct (t_106 _ _ Tth' X) as [A B]. apply Hcn; lia.
Qed.

Lemma invB_125 s s' tid th p1 :
  invA s -> invB s -> thr s tid th -> pc th = P125 -> (p1 = P122 \/ p1 = P126) ->
  threads s' = upd (threads s) tid (set_pc th p1) ->
  gn s' = gn s -> ring s' = ring s -> head s' = head s -> gtail s' = gtail s -> tail s' = dpos th ->
  resv s' = resv s -> overwrote s' = overwrote s -> drainMu s' = drainMu s -> accd s' = accd s -> invB s'.
Proof.
  intros HA HB Hth Hpc Hp1 Hthr Hn Hr Hh Hg Ht Hv How Hd Hac.
  pose proof (b_thr _ HB _ _ Hth) as Tth.
  assert (Edp : dpos th = gtail s) by (apply (t_dpos _ _ Tth); tauto).
  assert (Hhold : holder (pc th) = true) by (rewrite Hpc; reflexivity).
  assert (Hdm : drainMu s = Some tid) by (destruct HA as [HT _]; apply (a_tok _ _ _ (HT _ _ Hth)); auto).
  destruct HB.
  assert (Hc : forall q, cell_at s' q = cell_at s q) by (intros; apply cell_at_same; auto).
  assert (Hrc : forall q, rcmd s' q = rcmd s q) by (intros; unfold rcmd; rewrite Hv; auto).
  assert (Hoth : forall t th', t <> tid -> thr s' t th' -> thr s t th' /\ holder (pc th') = false).
  { intros t th' N H. apply (thr_upd_other s s' tid (set_pc th p1)) in H; auto. split; auto.
    destruct (holder (pc th')) eqn:E; auto. exfalso. apply N. eapply holder_unique; eauto. }
  constructor; try congruence; try lia.
  - rewrite Hn, Hg, Hh. intros p Hp. destruct (b_cells0 p Hp) as [C1 C2]. unfold published, owned in *.
    rewrite Hc, Hrc. split; auto. intros Hlt. destruct (C1 Hlt) as [|[Hs (t0 & th0 & Ht0 & Hown & He)]]; auto.
    right; split; auto. exists t0, th0. split; auto.
    apply (thr_upd_other s s' tid (set_pc th p1)); auto.
    intros ->. rewrite (thr_det _ _ _ _ Ht0 Hth), Hpc in Hown. discriminate.
  - intros t1 t2 th1' th2' H1 H2 Hne O1 O2.
    destruct (Nat.eq_dec t1 tid) as [->|N1].
    { rewrite (thr_upd_same _ _ _ _ _ _ Hthr Hth H1) in O1. destruct Hp1 as [-> | ->]; discriminate. }
    destruct (Nat.eq_dec t2 tid) as [->|N2].
    { rewrite (thr_upd_same _ _ _ _ _ _ Hthr Hth H2) in O2. destruct Hp1 as [-> | ->]; discriminate. }
    apply (thr_upd_other s s' tid (set_pc th p1)) in H1; auto.
    apply (thr_upd_other s s' tid (set_pc th p1)) in H2; auto.
    eapply b_uniq0; eauto.
  - rewrite Hac, Hh, Hg. intros p Hp. destruct (b_accd0 p Hp) as [A B]. split; [lia|]. intros G.
    unfold published. rewrite Hc, Hrc. apply B; auto.
  - intros t th' H. destruct (Nat.eq_dec t tid) as [->|N].
    + rewrite (thr_upd_same _ _ _ _ _ _ Hthr Hth H). destruct Hp1 as [-> | ->]; vac_tinv; intros _; lia.
    + destruct (Hoth _ _ N H) as [H' Hnh]. pose proof (b_thr0 _ _ H') as Tth'.
      apply (tinvB_other s s'); auto; try lia.
      * exists []. rewrite app_nil_r. auto.
      * intros O. destruct (t_own _ _ Tth' O) as (A & B & _). rewrite Hc. split; auto; lia.
Qed.

Ltac zb :=
  repeat match goal with
         | H : (_ =? _) = true |- _ => apply Z.eqb_eq in H
         | H : (_ =? _) = false |- _ => apply Z.eqb_neq in H
         | H : (_ <? _) = true |- _ => apply Z.ltb_lt in H
         | H : (_ <? _) = false |- _ => apply Z.ltb_ge in H
         end.

Lemma invB_step c s tid s' o : invA s -> invB s -> lstepc c s tid = Some (s', o) -> invB s'.
Proof.
  intros HA HB Hs. apply lstepc_inv in Hs as (th & s1 & th1 & Hth & Hst & ->).
  pose proof (a_cur _ _ _ (proj1 HA _ _ Hth)) as Hok.
  pose proof (b_thr _ HB _ _ Hth) as Tth.
  pose proof (a_wf _ _ _ (proj1 HA _ _ Hth)) as Hwf.
  step_leaves Hst Hok.
  all: norm_state.
  all: try (match goal with E : script _ = _ :: _ |- _ => rewrite E in Hwf; cbn in Hwf; try discriminate Hwf end).
  all: bool_hyps; zb.
  all: try (lazymatch goal with Hp : pc _ = P103 |- _ => solve [eapply (invB_103 _ _ tid th); eauto; reflexivity] end).
  all: try (lazymatch goal with Hp : pc _ = P124 |- _ => solve [eapply (invB_124 _ _ tid th); eauto; reflexivity] end).
  all: try (lazymatch goal with Hp : pc _ = P125 |- _ => solve [eapply (invB_125 _ _ tid th _ HA HB Hth Hpc); [ | reflexivity .. ]; auto] end).
  all: try (eapply (invB_frame _ _ tid th);
    [exact HB | exact Hth | reflexivity | repeat split; reflexivity | reflexivity
    | rewrite Hpc; reflexivity | reflexivity | |
    | cbn [accd]; intros p Hp;
      first [ left; exact Hp
            | apply in_app_or in Hp; destruct Hp as [Hp|[<-|[]]]; [left; exact Hp | right; split; [exact Hpc|reflexivity]] ] ]).
  all: try (destruct Tth as [T102 T103 Town Tc104 Tc105 T106 Tr106 Tdpos Tpub Ttail]; rewrite Hpc in *; cbn [holder ownpc] in * ).
  all: try (vac_tinv; fail).
  all: cbn.
  all: try exact (b_notok _ HB).
  all: try (intros X; discriminate X).
  all: try (intros _; rewrite Ttail by reflexivity; lia).
  (* the owner's two writes *)
  all: try (lazymatch goal with Hp : pc _ = P104 |- _ => rewrite Tc104 in * by reflexivity; discriminate end).
  all: try (lazymatch goal with |- invB _ => idtac end; eapply (invB_own_upd _ _ tid th);
            [exact HB|exact Hth|rewrite Hpc; reflexivity|reflexivity|reflexivity|reflexivity|reflexivity
            |reflexivity|reflexivity|reflexivity|exact (b_ow _ HB)|reflexivity| |reflexivity];
            destruct Town as (Ta & Tb & Tc); [reflexivity|]; rewrite Hcur in *;
            first [ left; split; [reflexivity|]; split; cbn; [exact Tb|reflexivity]
                  | right; split; [reflexivity|]; split; cbn; [reflexivity|];
                    rewrite Tc105 by reflexivity; symmetry; exact Tc ]).
  all: constructor; cbn; try discriminate; try (intros [X|[X|[X|X]]]; discriminate); try (intros [X|X]; discriminate).
  all: none_hyps.
  all: try (intros _; first [ lia | rewrite (b_notok _ HB) by assumption; lia
                            | rewrite Ttail by reflexivity; lia
                            | apply Tdpos; tauto | apply Tpub; tauto ]).
  all: try (intros _; eapply obs_free; eauto; lia).
  all: try (intros _; pose proof (Tdpos ltac:(tauto)) as Ed;
            match goal with E : cseq _ = _ |- _ => rewrite Ed in E |- *; destruct (obs_pub _ HB E) as [A B] end;
            split; [exact A | exact B]).
Qed.

Lemma nth_zseq_map {A} (f : Z -> A) a len i d :
  (i < len)%nat -> nth i (map f (zseq a len)) d = f (a + Z.of_nat i).
Proof.
  revert a i; induction len as [|len IH]; intros a [|i] H; cbn [zseq map nth]; try lia.
  - f_equal. lia.
  - rewrite IH by lia. f_equal. lia.
Qed.

Lemma zseq_length a len : length (zseq a len) = len.
Proof. revert a; induction len as [|len IH]; intros a; cbn; auto. Qed.

Lemma invB_init f n B scripts : 2 <= n -> invB (init_scripts f n B scripts).
Proof.
  intros Hn.
  assert (Hcell : forall p, 0 <= p < n -> cell_at (init_scripts f n B scripts) p = mkCell p None).
  { intros p Hp. unfold cell_at, idx. cbn [gn ring init_scripts init_state]. unfold init_ring.
    rewrite Z.mod_small by lia. rewrite nth_zseq_map by lia. f_equal. lia. }
  constructor; cbn [gn ring head tail gtail resv drainMu overwrote threads init_scripts init_state length]; try lia; auto.
  - unfold init_ring. rewrite map_length, zseq_length. lia.
  - intros p Hp. split; [lia|]. intros _. rewrite Hcell by lia. auto.
  - intros t1 t2 th1 th2 H1 _ _ O1. unfold thr in H1; cbn in H1.
    apply nth_error_map_thread in H1 as (l & _ & ->). discriminate.
  - cbn. intros p [].
  - intros tid th H. unfold thr in H; cbn in H. apply nth_error_map_thread in H as (l & _ & ->).
    vac_tinv.
Qed.

Record inv1 (s : gstate) : Prop := { i_A : invA s; i_B : invB s }.

Lemma inv1_reachable f n B scripts s :
  2 <= n -> wf_scripts scripts -> reachable (init_scripts f n B scripts) s -> inv1 s.
Proof.
  intros Hn Hwf H. induction H as [|s c tid s' o _ IH Hs].
  - split; [apply invA_init; auto | apply invB_init; auto].
  - destruct IH as [HA HB]. split; [eapply invA_step; eauto | eapply invB_step; eauto].
Qed.

(* ---- 1. ring_shape ---- *)
Theorem ring_shape f n B scripts s :
  2 <= n -> wf_scripts scripts -> reachable (init_scripts f n B scripts) s -> invB s.
Proof. intros. eapply inv1_reachable; eauto. Qed.

(* ---- 2. no_overwrite ---- *)
Theorem no_overwrite f n B scripts s :
  2 <= n -> wf_scripts scripts -> reachable (init_scripts f n B scripts) s ->
  overwrote s = false
  /\ forall tid th, thr s tid th -> pc th = P104 -> ccmd (cell_at s (epos th)) = None.
Proof.
  intros Hn Hwf H. pose proof (ring_shape _ _ _ _ _ Hn Hwf H) as HB. split; [apply (b_ow _ HB)|].
  intros tid th Hth Hpc. apply (t_c104 _ _ (b_thr _ HB _ _ Hth) Hpc).
Qed.

(* with a single cell the published and freed sequence numbers coincide: the second producer
   overwrites the first command before it is consumed (newMPSCQueue enforces max(.., 2)) *)
Example no_overwrite_needs_two_cells :
  overwrote (run_sched (init_scripts true 1 1 [[OEnqueue 1]; [OEnqueue 2]])
                       [0;0;0;0;0;0;0; 1;1;1;1;1]%nat) = true.
Proof. vm_compute. reflexivity. Qed.

(* ================================================================ layer C: the logs *)

(* c is an interleaving of a and b (built from the right, matching how the logs grow) *)
Inductive Merge : list Z -> list Z -> list Z -> Prop :=
| M_nil : Merge [] [] []
| M_l x a b c : Merge a b c -> Merge (a ++ [x]) b (c ++ [x])
| M_r x a b c : Merge a b c -> Merge a (b ++ [x]) (c ++ [x]).

Lemma Merge_app_l l a b c : Merge a b c -> Merge (a ++ l) b (c ++ l).
Proof.
  revert a c; induction l as [|x l IH]; intros a c H; [rewrite !app_nil_r; auto|].
  replace (a ++ x :: l) with ((a ++ [x]) ++ l) by (rewrite <- app_assoc; auto).
  replace (c ++ x :: l) with ((c ++ [x]) ++ l) by (rewrite <- app_assoc; auto).
  apply IH. constructor; auto.
Qed.

Definition k124 (p : pcT) : Z := match p with P124 => 1 | _ => 0 end.

Record invC (s : gstate) : Prop := {
  c_idle : drainMu s = None -> qlog s = firstn (Z.to_nat (gtail s)) (resv s);
  c_hold : forall tid th, thr s tid th -> holder (pc th) = true ->
           qlog s ++ dbuf th = firstn (Z.to_nat (gtail s + k124 (pc th))) (resv s);
  c_merge : Merge (wids (qlog s)) (dlog s) (applied s);
  c_ack : forall a, In a (ackTok s) -> In a (cacks (qlog s));
  c_dack : forall tid th a, thr s tid th -> In a (dacks th) -> In a (cacks (qlog s))
}.

Lemma wids_app a b : wids (a ++ b) = wids a ++ wids b.
Proof. unfold wids. apply flat_map_app. Qed.
Lemma cacks_app a b : cacks (a ++ b) = cacks a ++ cacks b.
Proof. unfold cacks. apply flat_map_app. Qed.

Lemma firstn_snoc {A} (l : list A) k d :
  (k < length l)%nat -> firstn (S k) l = firstn k l ++ [nth k l d].
Proof.
  revert k; induction l as [|x l IH]; intros [|k] H; cbn in *; try lia; auto.
  f_equal. apply IH. lia.
Qed.

Lemma In_removeZ x a l : In x (removeZ a l) -> In x l.
Proof.
  induction l as [|y l IH]; cbn; auto. destruct (a =? y); cbn; intuition.
Qed.

(* steps that leave qlog, gtail and resv alone *)
Lemma invC_frame s s' tid th th1 :
  invC s -> thr s tid th -> threads s' = upd (threads s) tid th1 ->
  qlog s' = qlog s -> gtail s' = gtail s -> resv s' = resv s ->
  (drainMu s' = None -> qlog s = firstn (Z.to_nat (gtail s)) (resv s)) ->
  (holder (pc th1) = true -> qlog s ++ dbuf th1 = firstn (Z.to_nat (gtail s + k124 (pc th1))) (resv s)) ->
  Merge (wids (qlog s)) (dlog s') (applied s') ->
  (forall a, In a (ackTok s') -> In a (cacks (qlog s))) ->
  (forall a, In a (dacks th1) -> In a (cacks (qlog s))) ->
  invC s'.
Proof.
  intros HC Hth Hthr Hq Hg Hv Hidle Hhold Hm Hack Hdack. destruct HC.
  constructor; rewrite ?Hq, ?Hg, ?Hv; auto.
  - intros t th' H Hh. destruct (Nat.eq_dec t tid) as [->|N].
    + pose proof (thr_upd_same _ _ _ _ _ _ Hthr Hth H) as E. subst th'. apply Hhold; auto.
    + apply (thr_upd_other s s' tid th1) in H; auto. apply (c_hold0 t); auto.
  - intros t th' a H Hin. destruct (Nat.eq_dec t tid) as [->|N].
    + rewrite (thr_upd_same _ _ _ _ _ _ Hthr Hth H) in Hin. auto.
    + apply (thr_upd_other s s' tid th1) in H; auto. eauto.
Qed.

Lemma firstn_app_le {A} (l l' : list A) k : (k <= length l)%nat -> firstn k (l ++ l') = firstn k l.
Proof.
  intros H. rewrite firstn_app. replace (k - length l)%nat with O by lia. cbn. apply app_nil_r.
Qed.

Lemma invC_103 s s' tid th o :
  invB s -> invC s -> thr s tid th -> pc th = P103 -> cur th = Some o ->
  threads s' = upd (threads s) tid (set_pc th P104) ->
  qlog s' = qlog s -> gtail s' = gtail s -> resv s' = resv s ++ [cmd_of o] ->
  drainMu s' = drainMu s -> dlog s' = dlog s -> applied s' = applied s -> ackTok s' = ackTok s ->
  invC s'.
Proof.
  intros HB HC Hth Hpc _ Hthr Hq Hg Hv Hd Hdl Hap Hak. destruct HC.
  assert (Hlen : Z.of_nat (length (resv s)) = head s) by apply (b_resv _ HB).
  pose proof (b_le _ HB) as Hle. pose proof (b_lo _ HB) as Hlo.
  constructor; rewrite ?Hq, ?Hg, ?Hv, ?Hd, ?Hdl, ?Hap, ?Hak; auto.
  - intros X. rewrite firstn_app_le by lia. auto.
  - intros t th' H Hh. destruct (Nat.eq_dec t tid) as [->|N].
    + rewrite (thr_upd_same _ _ _ _ _ _ Hthr Hth H) in Hh. discriminate.
    + apply (thr_upd_other s s' tid (set_pc th P104)) in H; auto.
      rewrite firstn_app_le; [eauto|].
      pose proof (b_thr _ HB _ _ H) as T.
      destruct (pc th') eqn:E; cbn [k124]; try lia.
      destruct (t_pub _ _ T) as [A _]; [tauto|]. rewrite (t_dpos _ _ T) in A by tauto. lia.
  - intros t th' a H Hin. destruct (Nat.eq_dec t tid) as [->|N].
    + rewrite (thr_upd_same _ _ _ _ _ _ Hthr Hth H) in Hin. cbn in Hin. eauto.
    + apply (thr_upd_other s s' tid (set_pc th P104)) in H; auto. eauto.
Qed.

Lemma invC_124 s s' tid th :
  invA s -> invB s -> invC s -> thr s tid th -> pc th = P124 ->
  threads s' = upd (threads s) tid (set_pc (set_dpos th (dpos th + 1)) P125) ->
  qlog s' = qlog s -> gtail s' = dpos th + 1 -> resv s' = resv s ->
  drainMu s' = drainMu s -> dlog s' = dlog s -> applied s' = applied s -> ackTok s' = ackTok s ->
  invC s'.
Proof.
  intros HA HB HC Hth Hpc Hthr Hq Hg Hv Hd Hdl Hap Hak. destruct HC.
  assert (Edp : dpos th = gtail s) by (apply (t_dpos _ _ (b_thr _ HB _ _ Hth)); tauto).
  rewrite Edp in Hg.
  set (th1 := set_pc (set_dpos th (dpos th + 1)) P125) in *.
  assert (Hhold : holder (pc th) = true) by (rewrite Hpc; reflexivity).
  assert (Hdm : drainMu s = Some tid) by (destruct HA as [HT _]; apply (a_tok _ _ _ (HT _ _ Hth)); auto).
  constructor; rewrite ?Hq, ?Hg, ?Hv, ?Hd, ?Hdl, ?Hap, ?Hak; auto.
  - rewrite Hdm. discriminate.
  - intros t th' H Hh. destruct (Nat.eq_dec t tid) as [->|N].
    + rewrite (thr_upd_same _ _ _ _ _ _ Hthr Hth H). unfold th1. cbn.
      specialize (c_hold0 _ _ Hth Hhold). rewrite Hpc in c_hold0. cbn in c_hold0.
      rewrite Z.add_0_r. auto.
    + apply (thr_upd_other s s' tid th1) in H; auto. exfalso. apply N.
      eapply holder_unique; eauto.
  - intros t th' a H Hin. destruct (Nat.eq_dec t tid) as [->|N].
    + rewrite (thr_upd_same _ _ _ _ _ _ Hthr Hth H) in Hin. unfold th1 in Hin. cbn in Hin. eauto.
    + apply (thr_upd_other s s' tid th1) in H; auto. eauto.
Qed.

Lemma invC_312 s s' tid th :
  invA s -> invC s -> thr s tid th -> pc th = P312 ->
  threads s' = upd (threads s) tid (set_pc (set_dbuf (set_dacks th (cacks (dbuf th))) []) P313) ->
  qlog s' = qlog s ++ dbuf th -> gtail s' = gtail s -> resv s' = resv s ->
  drainMu s' = drainMu s -> dlog s' = dlog s -> applied s' = applied s ++ wids (dbuf th) ->
  ackTok s' = ackTok s ->
  invC s'.
Proof.
  intros HA HC Hth Hpc Hthr Hq Hg Hv Hd Hdl Hap Hak. destruct HC.
  set (th1 := set_pc (set_dbuf (set_dacks th (cacks (dbuf th))) []) P313) in *.
  assert (Hhold : holder (pc th) = true) by (rewrite Hpc; reflexivity).
  assert (Hdm : drainMu s = Some tid) by (destruct HA as [HT _]; apply (a_tok _ _ _ (HT _ _ Hth)); auto).
  constructor; rewrite ?Hq, ?Hg, ?Hv, ?Hd, ?Hdl, ?Hap, ?Hak; auto.
  - rewrite Hdm. discriminate.
  - intros t th' H Hh. destruct (Nat.eq_dec t tid) as [->|N].
    + rewrite (thr_upd_same _ _ _ _ _ _ Hthr Hth H). unfold th1. cbn.
      specialize (c_hold0 _ _ Hth Hhold). rewrite Hpc in c_hold0. cbn in c_hold0.
      rewrite app_nil_r. auto.
    + apply (thr_upd_other s s' tid th1) in H; auto. exfalso. apply N.
      eapply holder_unique; eauto.
  - rewrite wids_app. apply Merge_app_l. auto.
  - intros a Ha. rewrite cacks_app. apply in_or_app. auto.
  - intros t th' a H Hin. rewrite cacks_app. apply in_or_app.
    destruct (Nat.eq_dec t tid) as [->|N].
    + rewrite (thr_upd_same _ _ _ _ _ _ Hthr Hth H) in Hin. unfold th1 in Hin. cbn in Hin. auto.
    + apply (thr_upd_other s s' tid th1) in H; auto. eauto.
Qed.

Lemma invC_init f n B scripts : invC (init_scripts f n B scripts).
Proof.
  constructor; cbn; auto; try (intros; contradiction).
  - intros tid th H. unfold thr in H; cbn in H. apply nth_error_map_thread in H as (l & _ & ->). discriminate.
  - constructor.
  - intros tid th a H. unfold thr in H; cbn in H. apply nth_error_map_thread in H as (l & _ & ->). cbn. auto.
Qed.

Lemma invC_step c s tid s' o : invA s -> invB s -> invC s -> lstepc c s tid = Some (s', o) -> invC s'.
Proof.
  intros HA HB HC Hs. apply lstepc_inv in Hs as (th & s1 & th1 & Hth & Hst & ->).
  pose proof (proj1 HA _ _ Hth) as [Hok Htok _ Hbuf Hwf].
  pose proof (b_thr _ HB _ _ Hth) as Tth.
  step_leaves Hst Hok.
  all: norm_state.
  all: try (match goal with E : script _ = _ :: _ |- _ => rewrite E in Hwf; cbn in Hwf; try discriminate Hwf end).
  all: bool_hyps; zb.
  all: try (lazymatch goal with Hp : pc _ = P103 |- _ => solve [eapply (invC_103 _ _ tid th); eauto; reflexivity] end).
  all: try (lazymatch goal with Hp : pc _ = P124 |- _ => solve [eapply (invC_124 _ _ tid th); eauto; reflexivity] end).
  all: try (lazymatch goal with Hp : pc _ = P312 |- _ => solve [eapply (invC_312 _ _ tid th); eauto; reflexivity] end).
  all: eapply (invC_frame _ _ tid th); [exact HC | exact Hth | reflexivity | reflexivity | reflexivity | reflexivity | | | | | ].
  all: rewrite ?Hpc in *; cbn [holder has_buf k124 drainMu dlog applied ackTok pc dbuf dacks] in *.
  all: try exact (c_idle _ HC).
  all: try exact (c_merge _ HC).
  all: try exact (c_ack _ HC).
  all: try exact (fun a => c_dack _ HC _ _ a Hth).
  all: try (intros X; discriminate X).
  all: try (intros a []).
  all: try (constructor; exact (c_merge _ HC)).
  all: try (intros a Ha; first [apply In_removeZ in Ha; exact (c_ack _ HC _ Ha)
                               | apply in_app_or in Ha; destruct Ha as [Ha|Ha];
                                 [exact (c_ack _ HC _ Ha) | exact (c_dack _ HC _ _ _ Hth Ha)]]).
  all: try (cbn in Hwf; discriminate Hwf).
  all: none_hyps.
  all: try (intros _; rewrite app_nil_r, Z.add_0_r; apply (c_idle _ HC); assumption).
  all: try (intros _; rewrite Hbuf by reflexivity; rewrite app_nil_r, Z.add_0_r; apply (c_idle _ HC); assumption).
  all: pose proof (c_hold _ HC _ _ Hth) as X; rewrite Hpc in X; cbn [holder k124] in X; try specialize (X eq_refl).
  all: try (intros _; exact X).
  all: try (intros _; first [rewrite Hbuf in X by reflexivity | match goal with E : dbuf _ = [] |- _ => rewrite E in X end];
            rewrite ?app_nil_r, ?Z.add_0_r in *; exact X).
  all: intros _; destruct (t_pub _ _ Tth) as [A [B C]]; [left; exact Hpc|];
       pose proof (t_dpos _ _ Tth (or_intror (or_introl Hpc))) as Ed;
       rewrite E in C; try discriminate C; inversion C; subst;
       rewrite app_assoc, X, Z.add_0_r;
       pose proof (b_lo _ HB); pose proof (b_resv _ HB);
       match goal with |- context [Z.to_nat (gtail ?ss + 1)] => replace (Z.to_nat (gtail ss + 1)) with (S (Z.to_nat (gtail ss))) by lia end;
       rewrite (firstn_snoc _ _ (Write 0)) by lia;
       unfold rcmd; rewrite Ed; reflexivity.
Qed.

Record inv2 (s : gstate) : Prop := { i_1 : inv1 s; i_C : invC s }.

Lemma inv2_reachable f n B scripts s :
  2 <= n -> wf_scripts scripts -> reachable (init_scripts f n B scripts) s -> inv2 s.
Proof.
  intros Hn Hwf H. induction H as [|s c tid s' o H IH Hs].
  - split; [eapply inv1_reachable; eauto; constructor | apply invC_init].
  - destruct IH as [[HA HB] HC]. split.
    + eapply inv1_reachable; eauto. econstructor; eauto.
    + eapply invC_step; eauto.
Qed.

Lemma prefix_firstn {A} (a b l : list A) K : a ++ b = firstn K l -> a = firstn (length a) l.
Proof.
  revert K l; induction a as [|x a IH]; intros K l H; cbn; auto.
  destruct K as [|K]; destruct l as [|y l]; cbn in *; try discriminate.
  inversion H; subst. f_equal. eapply IH; eauto.
Qed.

Lemma NoDup_app_mid {A} (a m d : list A) : NoDup (a ++ m ++ d) -> NoDup (a ++ d).
Proof.
  induction a as [|x a IH]; cbn; intros H.
  - induction m as [|y m IHm]; cbn in *; auto. inversion H; auto.
  - inversion H; subst. constructor; auto.
    intros Hin. apply H2. apply in_app_or in Hin. apply in_or_app. destruct Hin; auto.
    right. apply in_or_app. auto.
Qed.

Lemma Merge_In a b c x : Merge a b c -> In x c -> In x a \/ In x b.
Proof.
  induction 1; intros Hin.
  - destruct Hin.
  - apply in_app_or in Hin. destruct Hin as [Hin|[<-|[]]].
    + destruct (IHMerge Hin) as [|]; [left; apply in_or_app; auto | right; auto].
    + left. apply in_or_app. cbn. auto.
  - apply in_app_or in Hin. destruct Hin as [Hin|[<-|[]]].
    + destruct (IHMerge Hin) as [|]; [left; auto | right; apply in_or_app; auto].
    + right. apply in_or_app. cbn. auto.
Qed.

Lemma NoDup_snoc {A} (l : list A) x : NoDup l -> ~ In x l -> NoDup (l ++ [x]).
Proof.
  induction l as [|y l IH]; cbn; intros H Hn.
  - constructor; auto.
  - inversion H; subst. constructor.
    + intros Hin. apply in_app_or in Hin. destruct Hin as [|[->|[]]]; auto.
    + apply IH; auto.
Qed.

Lemma NoDup_app_snoc_l {A} (a b : list A) x : NoDup ((a ++ [x]) ++ b) -> NoDup (a ++ b) /\ ~ In x a /\ ~ In x b.
Proof.
  rewrite <- app_assoc. cbn. intros H. split; [|split].
  - apply NoDup_remove_1 in H. auto.
  - apply NoDup_remove_2 in H. intros Hin. apply H. apply in_or_app. auto.
  - apply NoDup_remove_2 in H. intros Hin. apply H. apply in_or_app. auto.
Qed.

Lemma Merge_NoDup a b c : Merge a b c -> NoDup (a ++ b) -> NoDup c.
Proof.
  induction 1; intros Hnd.
  - constructor.
  - apply NoDup_app_snoc_l in Hnd as (H1 & H2 & H3). apply NoDup_snoc; auto.
    intros Hin. destruct (Merge_In _ _ _ _ H Hin); auto.
  - rewrite app_assoc in Hnd.
    assert (Hnd' : NoDup (a ++ b) /\ ~ In x (a ++ b)).
    { clear - Hnd. induction (a ++ b) as [|y l IH]; cbn in *; [split; auto; constructor|].
      inversion Hnd; subst. destruct (IH H2) as [A B]. split.
      - constructor; auto. intros Hin. apply H1. apply in_or_app. auto.
      - intros [->|Hin]; auto. apply H1. apply in_or_app. cbn. auto. }
    destruct Hnd' as [H1 H2]. apply NoDup_snoc; auto.
    intros Hin. destruct (Merge_In _ _ _ _ H Hin); apply H2; apply in_or_app; auto.
Qed.

(* ---- 3. exactly_once_fifo ---- *)
Theorem exactly_once_fifo f n B scripts s :
  2 <= n -> wf_scripts scripts -> reachable (init_scripts f n B scripts) s ->
  (* the commands applied from the ring are exactly a prefix of the reservation order
     (order of the successful head CASes), each applied once *)
  qlog s = firstn (length (qlog s)) (resv s)
  (* applied = that prefix's writes interleaved with the inline / synchronous applies *)
  /\ Merge (wids (qlog s)) (dlog s) (applied s)
  (* hence duplicate-free whenever the ids handed to the shard are distinct *)
  /\ (NoDup (wids (resv s) ++ dlog s) -> NoDup (applied s))
  (* every enqueue that returned nil (at position p) is still published in the ring, or has been
     consumed: applied already or sitting in the token holder's batch buffer *)
  /\ (forall p, In p (accd s) ->
        0 <= p < head s
        /\ (gtail s <= p -> published s p)
        /\ (p < gtail s ->
             (drainMu s = None -> (Z.to_nat p < length (qlog s))%nat)
             /\ (forall tid th, thr s tid th -> holder (pc th) = true ->
                   (Z.to_nat p < length (qlog s ++ dbuf th))%nat))).
Proof.
  intros Hn Hwf H. destruct (inv2_reachable _ _ _ _ _ Hn Hwf H) as [[HA HB] HC].
  assert (Hpre : qlog s = firstn (length (qlog s)) (resv s)).
  { destruct (drainMu s) as [t|] eqn:E.
    - destruct HA as (HT & HD & _). pose proof (HD _ E) as Hlt.
      destruct (nth_error (threads s) t) as [th|] eqn:Et; [|apply nth_error_None in Et; lia].
      pose proof (proj1 (a_tok _ _ _ (HT _ _ Et)) E) as Hh.
      eapply prefix_firstn. apply (c_hold _ HC _ _ Et Hh).
    - pose proof (c_idle _ HC E) as X. rewrite X at 1. rewrite <- X. eapply (prefix_firstn _ []).
      rewrite app_nil_r. exact X. }
  split; [exact Hpre|]. split; [apply (c_merge _ HC)|]. split.
  - intros Hnd. apply (Merge_NoDup _ _ _ (c_merge _ HC)).
    rewrite Hpre. rewrite <- (firstn_skipn (length (qlog s)) (resv s)) in Hnd.
    rewrite wids_app, <- app_assoc in Hnd. apply NoDup_app_mid in Hnd. exact Hnd.
  - intros p Hp. destruct (b_accd _ HB p Hp) as [A Bp]. split; auto. split; auto.
    intros Hlt. pose proof (b_resv _ HB) as Hr. pose proof (b_le _ HB) as Hle. split.
    + intros E. rewrite (c_idle _ HC E), firstn_length. lia.
    + intros tid th Hth Hh. rewrite (c_hold _ HC _ _ Hth Hh), firstn_length.
      destruct (pc th); cbn [k124]; lia.
Qed.

(* ================================================================ layer R: real-time order *)

(* ids of the writes that returned nil before write b was (first) invoked *)
Fixpoint rets_before (b : Z) (tr : list event) : list Z :=
  match tr with
  | [] => []
  | EInv b' :: r => if b' =? b then [] else rets_before b r
  | ERet a :: r => a :: rets_before b r
  | EApp _ :: r => rets_before b r
  end.

Lemma rb_frozen b tr l : In (EInv b) tr -> rets_before b (tr ++ l) = rets_before b tr.
Proof.
  induction tr as [|e tr IH]; cbn; [tauto|]. intros [->|H].
  - rewrite Z.eqb_refl. auto.
  - destruct e; rewrite ?IH by auto; auto.
Qed.

Lemma rb_ret a b tr : In a (rets_before b tr) -> In (ERet a) tr.
Proof.
  induction tr as [|e tr IH]; cbn; auto. destruct e; cbn.
  - destruct (id =? b); cbn; [tauto|]. auto.
  - intros [->|H]; auto.
  - auto.
Qed.

(* every occurrence of b in l is preceded by an a *)
Definition before (a b : Z) (l : list Z) : Prop := forall l1 l2, l = l1 ++ b :: l2 -> In a l1.

Lemma before_notin a b l : ~ In b l -> before a b l.
Proof. intros H l1 l2 ->. exfalso. apply H. apply in_or_app. cbn. auto. Qed.

Lemma app_eq_split {A} (l ws m1 : list A) x m2 :
  l ++ ws = m1 ++ x :: m2 ->
  (exists r, l = m1 ++ x :: r /\ m2 = r ++ ws) \/ (exists w1, m1 = l ++ w1 /\ ws = w1 ++ x :: m2).
Proof.
  revert m1; induction l as [|y l IH]; intros m1 H; cbn in *.
  - right. exists m1. auto.
  - destruct m1 as [|z m1]; cbn in *; inversion H; subst.
    + left. exists l. auto.
    + destruct (IH _ H2) as [(r & -> & ->)|(w1 & -> & ->)].
      * left. exists r. auto.
      * right. exists w1. auto.
Qed.

Lemma before_app a b l ws :
  before a b l -> (forall w1 w2, ws = w1 ++ b :: w2 -> In a (l ++ w1)) -> before a b (l ++ ws).
Proof.
  intros Hb Hw m1 m2 E. apply app_eq_split in E as [(r & -> & ->)|(w1 & -> & ->)].
  - eapply Hb; eauto.
  - eapply Hw; eauto.
Qed.

Definition wop_id (o : op) : option Z :=
  match o with OSetAsync id | OEnqueue id | OSet id => Some id | _ => None end.

Definition pos_lt (s : gstate) (a q : Z) : Prop := exists p, 0 <= p < q /\ rcmd s p = Write a.
Definition settled_below (s : gstate) (a q : Z) : Prop := In a (dlog s) \/ pos_lt s a q.

(* park points of syncMutate after the target was read *)
Definition tpc (p : pcT) : bool :=
  match p with P121 | P122 | P123 | P124 | P125 | P126 | P312 | P313 | P332 | P333 => true | _ => false end.

Record invR (s : gstate) : Prop := {
  r_fixed : gfixed s = true;
  r_ret : forall a, In (ERet a) (trace s) -> settled_below s a (head s);
  r_pos : forall q b, 0 <= q < head s -> rcmd s q = Write b ->
          In (EInv b) (trace s) /\ forall a, In a (rets_before b (trace s)) -> settled_below s a q;
  r_inv : forall tid th o b, thr s tid th -> cur th = Some o -> wop_id o = Some b -> In (EInv b) (trace s);
  r_tgt : forall tid th b, thr s tid th -> cur th = Some (OSet b) -> tpc (pc th) = true ->
          starget th <= head s
          /\ (forall a, In a (rets_before b (trace s)) -> settled_below s a (starget th))
          /\ (pc th = P332 -> starget th <= tail s);
  r_app : forall b, In b (applied s) -> In (EInv b) (trace s);
  r_rt : forall a b, In (EInv b) (trace s) -> In a (rets_before b (trace s)) -> before a b (applied s)
}.

Lemma settled_mono s s' a q q' :
  q <= q' -> q <= Z.of_nat (length (resv s)) ->
  (exists l, resv s' = resv s ++ l) -> (forall x, In x (dlog s) -> In x (dlog s')) ->
  settled_below s a q -> settled_below s' a q'.
Proof.
  intros Hq Hl [l Hv] Hd [H|(p & Hp & Hr)]; [left; auto|].
  right. exists p. split; [lia|]. rewrite (rcmd_app s s' l); auto. lia.
Qed.

(* trace extension by events that do not invoke b *)
Lemma in_inv_app b tr l : In (EInv b) (tr ++ l) -> ~ In (EInv b) l -> In (EInv b) tr.
Proof. intros H N. apply in_app_or in H. tauto. Qed.

Definition tgt_ok (s : gstate) (th : thread) (b : Z) : Prop :=
  starget th <= head s
  /\ (forall a, In a (rets_before b (trace s)) -> settled_below s a (starget th))
  /\ (pc th = P332 -> starget th <= tail s).

Lemma tgt_ok_mono s s' th b evs :
  In (EInv b) (trace s) -> trace s' = trace s ++ evs ->
  (exists l, resv s' = resv s ++ l) -> head s <= head s' -> Z.of_nat (length (resv s)) = head s ->
  (forall x, In x (dlog s) -> In x (dlog s')) -> tail s <= tail s' ->
  tgt_ok s th b -> tgt_ok s' th b.
Proof.
  intros Hi Ht Hv Hh Hl Hd Htl (A & B & C). split; [lia|]. split.
  - intros a Ha. rewrite Ht, rb_frozen in Ha by auto. eapply settled_mono; eauto; lia.
  - intros X. specialize (C X). lia.
Qed.

Lemma invR_ext s s' tid th th1 evs :
  invR s -> thr s tid th -> threads s' = upd (threads s) tid th1 ->
  gfixed s' = gfixed s -> trace s' = trace s ++ evs ->
  (exists l, resv s' = resv s ++ l) -> head s <= head s' -> Z.of_nat (length (resv s)) = head s ->
  (forall x, In x (dlog s) -> In x (dlog s')) -> tail s <= tail s' ->
  (forall a, In (ERet a) evs -> settled_below s' a (head s')) ->
  (forall q b, head s <= q < head s' -> rcmd s' q = Write b ->
     In (EInv b) (trace s') /\ forall a, In a (rets_before b (trace s')) -> settled_below s' a q) ->
  (forall o b, cur th1 = Some o -> wop_id o = Some b -> In (EInv b) (trace s')) ->
  (forall b, cur th1 = Some (OSet b) -> tpc (pc th1) = true -> tgt_ok s' th1 b) ->
  (forall b, In b (applied s') -> In (EInv b) (trace s')) ->
  (forall a b, In (EInv b) (trace s') -> In a (rets_before b (trace s')) -> before a b (applied s')) ->
  invR s'.
Proof.
  intros HR Hth Hthr Hf Ht Hv Hh Hl Hd Htl O1 O2 O3 O4 O5 O6. destruct HR.
  constructor; auto; try congruence.
  - intros a Ha. rewrite Ht in Ha. apply in_app_or in Ha. destruct Ha as [Ha|Ha]; auto.
    eapply settled_mono; eauto; lia.
  - intros q b Hq Hr. destruct (Z.lt_ge_cases q (head s)) as [Hlt|Hge]; [|apply O2; auto; lia].
    destruct Hv as [l Hv]. rewrite (rcmd_app s s' l) in Hr by (auto; lia).
    destruct (r_pos0 q b) as [A B]; [lia|auto|]. split.
    + rewrite Ht. apply in_or_app. auto.
    + intros a Ha. rewrite Ht, rb_frozen in Ha by auto. eapply settled_mono; eauto; try lia.
  - intros t th' o b H Hc Hw. destruct (Nat.eq_dec t tid) as [->|N].
    + rewrite (thr_upd_same _ _ _ _ _ _ Hthr Hth H) in Hc. eauto.
    + apply (thr_upd_other s s' tid th1) in H; auto. rewrite Ht. apply in_or_app. left. eauto.
  - intros t th' b H Hc Hp. destruct (Nat.eq_dec t tid) as [->|N].
    + rewrite (thr_upd_same _ _ _ _ _ _ Hthr Hth H) in *. apply O4; auto.
    + apply (thr_upd_other s s' tid th1) in H; auto.
      apply (tgt_ok_mono s s' th' b evs); auto.
      all: first [ apply (r_tgt0 t); auto; fail | eapply r_inv0; eauto; reflexivity ].
Qed.

(* steps that apply nothing *)
Lemma invR_ext_noapp s s' tid th th1 evs :
  invR s -> thr s tid th -> threads s' = upd (threads s) tid th1 ->
  gfixed s' = gfixed s -> trace s' = trace s ++ evs ->
  (exists l, resv s' = resv s ++ l) -> head s <= head s' -> Z.of_nat (length (resv s)) = head s ->
  (forall x, In x (dlog s) -> In x (dlog s')) -> tail s <= tail s' ->
  applied s' = applied s ->
  (forall a, In (ERet a) evs -> settled_below s' a (head s')) ->
  (forall q b, head s <= q < head s' -> rcmd s' q = Write b ->
     In (EInv b) (trace s') /\ forall a, In a (rets_before b (trace s')) -> settled_below s' a q) ->
  (forall o b, cur th1 = Some o -> wop_id o = Some b -> In (EInv b) (trace s')) ->
  (forall b, cur th1 = Some (OSet b) -> tpc (pc th1) = true -> tgt_ok s' th1 b) ->
  invR s'.
Proof.
  intros HR Hth Hthr Hf Ht Hv Hh Hl Hd Htl Ha O1 O2 O3 O4.
  eapply invR_ext; eauto.
  - intros b Hb. rewrite Ha in Hb. rewrite Ht. apply in_or_app. left. apply (r_app _ HR); auto.
  - intros a b Hi Hr. rewrite Ha.
    destruct (in_dec (fun x y : event => ltac:(decide equality; apply Z.eq_dec)) (EInv b) (trace s)) as [Hin|Hnin].
    + rewrite Ht, rb_frozen in Hr by auto. apply (r_rt _ HR); auto.
    + apply before_notin. intros Hb. apply Hnin. apply (r_app _ HR); auto.
Qed.

Lemma Merge_incl a b c : Merge a b c -> (forall x, In x a -> In x c) /\ (forall x, In x b -> In x c).
Proof.
  induction 1 as [|x a b c H [IH1 IH2]|x a b c H [IH1 IH2]]; [split; auto| |]; split; intros y Hy;
    try (apply in_app_or in Hy; destruct Hy as [Hy|[<-|[]]]); apply in_or_app; cbn; auto.
Qed.

Lemma wids_in l a : In (Write a) l -> In a (wids l).
Proof. intros H. unfold wids. apply in_flat_map. exists (Write a). cbn. auto. Qed.

(* a position below the consumed prefix holds a command of that prefix *)
Lemma prefix_pos s (pre : list cmd) K p :
  pre = firstn K (resv s) -> 0 <= p -> (Z.to_nat p < length pre)%nat -> In (rcmd s p) pre.
Proof.
  intros E Hp Hl. unfold rcmd.
  replace (nth (Z.to_nat p) (resv s) (Write 0)) with (nth (Z.to_nat p) pre (Write 0)).
  - apply nth_In. auto.
  - rewrite E. rewrite E, firstn_length in Hl.
    rewrite <- (firstn_skipn K (resv s)) at 2. rewrite app_nth1; auto. rewrite firstn_length. lia.
Qed.

Lemma wids_split l w1 b w2 :
  wids l = w1 ++ b :: w2 -> exists i, nth_error l i = Some (Write b) /\ w1 = wids (firstn i l).
Proof.
  revert w1; induction l as [|cm l IH]; intros w1 H; cbn in H.
  - destruct w1; discriminate.
  - destruct cm as [x|x|x]; cbn in H.
    + destruct w1 as [|y w1]; cbn in H; inversion H; subst.
      * exists O. cbn. auto.
      * destruct (IH _ H2) as (i & Hi & ->). exists (S i). cbn. auto.
    + destruct (IH _ H) as (i & Hi & ->). exists (S i). cbn. auto.
    + destruct (IH _ H) as (i & Hi & ->). exists (S i). cbn. auto.
Qed.

Lemma invR_direct s s' tid th th1 id :
  invR s -> thr s tid th -> threads s' = upd (threads s) tid th1 ->
  gfixed s' = gfixed s -> trace s' = trace s ++ [EApp id; ERet id] ->
  resv s' = resv s -> head s' = head s -> tail s' = tail s -> Z.of_nat (length (resv s)) = head s ->
  dlog s' = dlog s ++ [id] -> applied s' = applied s ++ [id] -> cur th1 = None ->
  In (EInv id) (trace s) ->
  (forall a, In a (rets_before id (trace s)) -> In a (applied s)) ->
  invR s'.
Proof.
  intros HR Hth Hthr Hf Ht Hv Hh Htl Hl Hd Ha Hc Hi Key.
  eapply (invR_ext s s' tid th th1); eauto; try lia.
  - exists []. rewrite app_nil_r. auto.
  - intros x Hx. rewrite Hd. apply in_or_app. auto.
  - intros a [X|[X|[]]]; inversion X; subst. left. rewrite Hd. apply in_or_app. cbn. auto.
  - intros o b X. rewrite Hc in X. discriminate.
  - intros b X. rewrite Hc in X. discriminate.
  - intros b Hb. rewrite Ha in Hb. rewrite Ht. apply in_or_app. left.
    apply in_app_or in Hb. destruct Hb as [Hb|[<-|[]]]; auto. apply (r_app _ HR); auto.
  - intros a b Hib Hr. rewrite Ht in Hib. apply in_app_or in Hib.
    destruct Hib as [Hib|[X|[X|[]]]]; try discriminate.
    rewrite Ht, rb_frozen in Hr by auto. rewrite Ha. apply before_app; [apply (r_rt _ HR); auto|].
    intros w1 w2 E. destruct w1 as [|y w1]; cbn in E; inversion E; subst.
    + rewrite app_nil_r. auto.
    + destruct w1; discriminate.
Qed.

Lemma invR_batch s s' tid th th1 :
  invR s -> thr s tid th -> threads s' = upd (threads s) tid th1 ->
  gfixed s' = gfixed s -> trace s' = trace s ++ map EApp (wids (dbuf th)) ->
  resv s' = resv s -> head s' = head s -> tail s' = tail s -> Z.of_nat (length (resv s)) = head s ->
  dlog s' = dlog s -> applied s' = applied s ++ wids (dbuf th) ->
  cur th1 = cur th -> starget th1 = starget th -> pc th1 = P313 -> tpc (pc th) = true ->
  (forall w1 b w2, wids (dbuf th) = w1 ++ b :: w2 ->
     In (EInv b) (trace s) /\ forall a, In a (rets_before b (trace s)) -> In a (applied s ++ w1)) ->
  invR s'.
Proof.
  intros HR Hth Hthr Hf Ht Hv Hh Htl Hl Hd Ha Hc Hs Hp Htp Key.
  assert (Hnoinv : forall b, ~ In (EInv b) (map EApp (wids (dbuf th)))).
  { intros b H. apply in_map_iff in H as (x & X & _). discriminate. }
  eapply (invR_ext s s' tid th th1); eauto; try lia.
  - exists []. rewrite app_nil_r. auto.
  - intros x Hx. rewrite Hd. auto.
  - intros a H. apply in_map_iff in H as (x & X & _). discriminate.
  - intros o b X Y. rewrite Hc in X. rewrite Ht. apply in_or_app. left. eapply (r_inv _ HR); eauto.
  - intros b X Y. rewrite Hc in X.
    assert (Hi : In (EInv b) (trace s)) by (eapply (r_inv _ HR); eauto; reflexivity).
    destruct (r_tgt _ HR _ _ _ Hth X Htp) as (A & B & C).
    split; [rewrite Hs; lia|]. split.
    + intros a Ha'. rewrite Ht, rb_frozen in Ha' by auto. rewrite Hs.
      eapply (settled_mono s s'); eauto; try lia.
      * exists []. rewrite app_nil_r. auto.
      * intros x Hx. rewrite Hd. auto.
    + rewrite Hp. discriminate.
  - intros b Hb. rewrite Ha in Hb. rewrite Ht. apply in_or_app. left.
    apply in_app_or in Hb. destruct Hb as [Hb|Hb]; [apply (r_app _ HR); auto|].
    apply in_split in Hb as (w1 & w2 & E). apply (Key _ _ _ E).
  - intros a b Hib Hr. rewrite Ht in Hib. apply in_inv_app in Hib; auto.
    rewrite Ht, rb_frozen in Hr by auto. rewrite Ha. apply before_app; [apply (r_rt _ HR); auto|].
    intros w1 w2 E. apply (Key _ _ _ E). auto.
Qed.

Lemma nth_pre {A} (pre l : list A) K n d :
  pre = firstn K l -> (n < length pre)%nat -> nth n l d = nth n pre d.
Proof.
  intros E H. rewrite E in *. rewrite firstn_length in H.
  rewrite <- (firstn_skipn K l) at 1. rewrite app_nth1; auto. rewrite firstn_length. lia.
Qed.

Lemma settled_applied s a q :
  invB s -> Merge (wids (qlog s)) (dlog s) (applied s) ->
  qlog s = firstn (Z.to_nat (gtail s)) (resv s) -> q <= gtail s ->
  settled_below s a q -> In a (applied s).
Proof.
  intros HB HM Hq Hle [H|(p & Hp & Hr)]; destruct (Merge_incl _ _ _ HM) as [I1 I2]; auto.
  apply I1. apply wids_in. rewrite <- Hr. eapply prefix_pos; eauto; [lia|].
  rewrite Hq, firstn_length. pose proof (b_resv _ HB). pose proof (b_le _ HB). lia.
Qed.

Lemma batch_key s th :
  invB s -> invR s -> Merge (wids (qlog s)) (dlog s) (applied s) ->
  qlog s ++ dbuf th = firstn (Z.to_nat (gtail s)) (resv s) ->
  forall w1 b w2, wids (dbuf th) = w1 ++ b :: w2 ->
    In (EInv b) (trace s) /\ forall a, In a (rets_before b (trace s)) -> In a (applied s ++ w1).
Proof.
  intros HB HR HM Hq w1 b w2 E.
  destruct (Merge_incl _ _ _ HM) as [I1 I2].
  apply wids_split in E as (i & Hi & ->).
  pose proof (b_resv _ HB) as Hl. pose proof (b_le _ HB) as Hle. pose proof (b_lo _ HB) as Hlo.
  assert (Hlen : length (qlog s ++ dbuf th) = Z.to_nat (gtail s)) by (rewrite Hq, firstn_length; lia).
  assert (Hi' : (i < length (dbuf th))%nat) by (apply nth_error_Some; congruence).
  rewrite app_length in Hlen.
  set (q := Z.of_nat (length (qlog s) + i)).
  assert (Hrq : rcmd s q = Write b).
  { unfold rcmd, q. rewrite Nat2Z.id. rewrite (nth_pre _ _ _ _ _ Hq) by (rewrite app_length; lia).
    rewrite app_nth2 by lia. replace (length (qlog s) + i - length (qlog s))%nat with i by lia.
    apply nth_error_nth. auto. }
  destruct (r_pos _ HR q b) as [A B]; [unfold q; lia|auto|]. split; auto.
  intros a Ha. destruct (B a Ha) as [H|(p & Hp & Hr)]; [apply in_or_app; auto|].
  apply in_or_app.
  destruct (Nat.lt_ge_cases (Z.to_nat p) (length (qlog s))) as [Hlt|Hge].
  - left. apply I1. apply wids_in. rewrite <- Hr. unfold rcmd.
    rewrite (nth_pre _ _ _ _ _ Hq) by (rewrite app_length; lia). rewrite app_nth1 by lia.
    apply nth_In. lia.
  - right. apply wids_in. rewrite <- Hr. unfold rcmd.
    rewrite (nth_pre _ _ _ _ _ Hq) by (rewrite app_length; unfold q in Hp; lia). rewrite app_nth2 by lia.
    set (j := (Z.to_nat p - length (qlog s))%nat).
    assert (Hj : (j < i)%nat) by (unfold j, q in *; lia).
    replace (nth j (dbuf th) (Write 0)) with (nth j (firstn i (dbuf th)) (Write 0)).
    + apply nth_In. rewrite firstn_length. lia.
    + rewrite <- (firstn_skipn i (dbuf th)) at 2. rewrite app_nth1; auto. rewrite firstn_length. lia.
Qed.

Lemma invR_init n B scripts : invR (init_scripts true n B scripts).
Proof.
  constructor; cbn; auto; try (intros; contradiction); try (intros; lia).
  - intros tid th o b H Hc. unfold thr in H; cbn in H. apply nth_error_map_thread in H as (l & _ & ->). discriminate.
  - intros tid th b H Hc. unfold thr in H; cbn in H. apply nth_error_map_thread in H as (l & _ & ->). discriminate.
Qed.

Lemma invR_step c s tid s' o :
  invA s -> invB s -> invC s -> invR s -> lstepc c s tid = Some (s', o) -> invR s'.
Proof.
  intros HA HB HC HR Hs. apply lstepc_inv in Hs as (th & s1 & th1 & Hth & Hst & ->).
  pose proof (proj1 HA _ _ Hth) as [Hok Htok _ Hbuf Hwf].
  pose proof (b_thr _ HB _ _ Hth) as Tth.
  pose proof (b_resv _ HB) as Hlen.
  pose proof (r_fixed _ HR) as Hfx.
  step_leaves Hst Hok.
  all: norm_state.
  all: try (match goal with E : script _ = _ :: _ |- _ => rewrite E in Hwf end).
  all: try (cbn in Hwf; discriminate Hwf).
  all: bool_hyps; zb.
  (* the three kinds of apply steps *)
  all: try (lazymatch goal with Hp : pc _ = P312 |- _ =>
      eapply (invR_batch _ _ tid th); [exact HR|exact Hth|reflexivity|reflexivity|reflexivity|reflexivity
        |reflexivity|reflexivity|exact Hlen|reflexivity|reflexivity|reflexivity|reflexivity|reflexivity
        |rewrite Hpc; reflexivity| ];
      apply (batch_key _ _ HB HR (c_merge _ HC));
      pose proof (c_hold _ HC _ _ Hth) as X; rewrite Hpc in X; cbn [holder k124] in X;
      rewrite Z.add_0_r in X; exact (X eq_refl) end).
  all: try (eapply (invR_direct _ _ tid th);
      [exact HR|exact Hth|reflexivity|reflexivity|cbn [trace]; rewrite <- app_assoc; reflexivity|reflexivity
      |reflexivity|reflexivity|exact Hlen|reflexivity|reflexivity|reflexivity
      |eapply (r_inv _ HR); eauto; reflexivity| ];
      pose proof (c_hold _ HC _ _ Hth) as X; rewrite Hpc in X; cbn [holder k124] in X;
      rewrite Hbuf, app_nil_r, Z.add_0_r in X by (rewrite Hpc; reflexivity); specialize (X eq_refl);
      pose proof (t_tail _ _ Tth) as Y; rewrite Hpc in Y; cbn [holder] in Y; specialize (Y eq_refl);
      intros a Ha;
      first [ (* inline: quiescent under the token *)
              apply rb_ret in Ha; apply (r_ret _ HR) in Ha;
              eapply settled_applied; [exact HB|exact (c_merge _ HC)|exact X| |exact Ha]; lia
            | (* syncMutate: the consumer passed the target *)
              destruct (r_tgt _ HR _ _ _ Hth Hcur) as (A & B & C); [rewrite Hpc; reflexivity|];
              specialize (C Hpc);
              eapply settled_applied; [exact HB|exact (c_merge _ HC)|exact X| |exact (B a Ha)]; lia ]).
  all: pose proof (t_tail _ _ Tth) as Ytl; pose proof (t_dpos _ _ Tth) as Ydp; rewrite Hpc in Ytl, Ydp; cbn [holder] in Ytl.
  all: try (match goal with E : gfixed _ && _ = false |- _ => rewrite Hfx in E; cbn [andb] in E; apply Z.ltb_ge in E end).
  all: eapply (invR_ext_noapp _ _ tid th);
    [exact HR|exact Hth|reflexivity|reflexivity
    | first [reflexivity | cbn [trace]; symmetry; apply app_nil_r]
    | first [eexists; reflexivity | exists []; cbn [resv]; rewrite app_nil_r; reflexivity]
    | first [apply Z.le_refl | cbn [head]; lia] | exact Hlen | cbn [dlog]; auto
    | first [apply Z.le_refl | cbn [tail]; rewrite Ytl, Ydp by tauto; lia] | reflexivity | | | | ].
  all: lazymatch goal with
    | |- forall a, In (ERet a) _ -> _ =>
        intros a Hin;
        first [ destruct Hin; fail
              | destruct Hin as [X|[]];
                first [ discriminate X
                      | inversion X; subst a; right; exists (epos th);
                        destruct (t_106 _ _ Tth Hpc) as [P1 _]; pose proof (t_r106 _ _ Tth Hpc) as P2;
                        rewrite Hcur in P2; cbn in P2; injection P2 as P3; split; [exact P1|exact P3] ] ]
    | |- forall q b, _ <= q < _ -> _ =>
        first [ intros q b [Q1 Q2]; exact (False_ind _ (Z.lt_irrefl _ (Z.le_lt_trans _ _ _ Q1 Q2)))
              | match goal with Hl : Z.of_nat (length (resv ?ss)) = head ?ss |- _ =>
                  intros q b Hq Hr; cbn [head] in Hq; assert (q = epos th) by lia; subst q;
                  unfold rcmd in Hr; cbn [resv] in Hr;
                  replace (Z.to_nat (epos th)) with (length (resv ss)) in Hr by lia;
                  rewrite nth_middle in Hr;
                  first [ discriminate Hr
                        | inversion Hr; subst b;
                          cbn [trace]; split; [exact (r_inv _ HR _ _ _ _ Hth Hcur eq_refl)|];
                          intros a Ha; apply rb_ret in Ha; apply (r_ret _ HR) in Ha;
                          eapply (settled_mono ss _); [ | | eexists; reflexivity | cbn [dlog]; auto | exact Ha]; lia ]
                end ]
    | |- forall o b, cur _ = Some o -> _ =>
        intros o0 b X Y; cbn [cur] in X; rewrite ?Hcur in X;
        first [ discriminate X
              | inversion X; subst o0; cbn in Y;
                first [ discriminate Y
                      | inversion Y; subst b; cbn [trace];
                        first [ exact (r_inv _ HR _ _ _ _ Hth Hcur eq_refl)
                              | apply in_or_app; left; exact (r_inv _ HR _ _ _ _ Hth Hcur eq_refl)
                              | apply in_or_app; right; left; reflexivity ] ] ]
    | |- forall b, cur _ = Some (OSet b) -> _ =>
        intros b X Y; cbn [cur pc tpc] in X, Y; rewrite ?Hcur in X;
        first [ discriminate X | discriminate Y
              | injection X as <-;
                first [ destruct (r_tgt _ HR _ _ _ Hth Hcur) as (A & B & C); [rewrite Hpc; reflexivity|];
                        split; [exact A| split; [exact B | cbn [pc tail starget]; intros Z; first [discriminate Z | lia] ] ]
                      | split; [cbn; lia| split; [cbn [trace starget]; intros a Ha; apply rb_ret in Ha; exact (r_ret _ HR _ Ha)
                                                 | cbn [pc]; intros Z; discriminate Z]] ] ]
    end.
Qed.

Record inv3 (s : gstate) : Prop := { i_2 : inv2 s; i_R : invR s }.

Lemma inv3_reachable n B scripts s :
  2 <= n -> wf_scripts scripts -> reachable (init_scripts true n B scripts) s -> inv3 s.
Proof.
  intros Hn Hwf H. induction H as [|s c tid s' o H IH Hs].
  - split; [eapply inv2_reachable; eauto; constructor | apply invR_init].
  - destruct IH as [[[HA HB] HC] HR]. split.
    + eapply inv2_reachable; eauto. econstructor; eauto.
    + eapply invR_step; eauto.
Qed.

(* ---- 4. realtime_order (repaired syncMutate) ----
   For any mix of SetAsync / Set / raw Enqueue on the shard: if write a returned nil before write
   b was invoked, every application of b is preceded by an application of a. *)
Theorem realtime_order n B scripts s a b :
  2 <= n -> wf_scripts scripts -> reachable (init_scripts true n B scripts) s ->
  In (EInv b) (trace s) -> In a (rets_before b (trace s)) -> before a b (applied s).
Proof. intros Hn Hwf H. apply (r_rt _ (i_R _ (inv3_reachable _ _ _ _ Hn Hwf H))). Qed.

Lemma rets_before_spec a b t1 t2 t3 :
  ~ In (EInv b) (t1 ++ ERet a :: t2) -> In a (rets_before b (t1 ++ ERet a :: t2 ++ EInv b :: t3)).
Proof.
  induction t1 as [|e t1 IH]; cbn.
  - intros _. auto.
  - intros H. destruct e as [x|x|x]; cbn.
    + destruct (x =? b) eqn:E; [apply Z.eqb_eq in E; subst; tauto|]. apply IH. tauto.
    + right. apply IH. tauto.
    + apply IH. tauto.
Qed.

Corollary realtime_order_trace n B scripts s a b t1 t2 t3 l1 l2 :
  2 <= n -> wf_scripts scripts -> reachable (init_scripts true n B scripts) s ->
  trace s = t1 ++ ERet a :: t2 ++ EInv b :: t3 -> ~ In (EInv b) (t1 ++ ERet a :: t2) ->
  applied s = l1 ++ b :: l2 -> In a l1.
Proof.
  intros Hn Hwf H Ht Hni Ha.
  eapply (realtime_order _ _ _ _ a b Hn Hwf H); eauto.
  - rewrite Ht. apply in_or_app. right. right. apply in_or_app. right. left. auto.
  - rewrite Ht. apply rets_before_spec. auto.
Qed.

(* The original syncMutate (fixed = false) violates it: producer 1 reserves position 0 and stalls
   at 104; producer 0 reserves position 1, publishes and returns nil; then Set 5 is invoked, takes
   drainMu, finds cell 0 unpublished, applies 5 and returns; 3 and 1 are applied afterwards. *)
Definition rt_scripts : list (list op) := [[OSetAsync 1]; [OSetAsync 3]; [OWorker]; [OSet 5]].
Definition rt_sched : list nat :=
  [0;0;0; 1;1;1;1;1;1; 0;0;0;0;0;0;0; 3;3;3;3;3; 1;1;1;
   2;2;2;2;2;2;2;2;2;2;2;2;2;2;2;2;2;2;2;2;2;2;2;2;2;2;2]%nat.

Example realtime_order_refuted :
  let s := run_sched (init_scripts false 2 1 rt_scripts) rt_sched in
  trace s = [EInv 1; EInv 3; ERet 1; EInv 5; EApp 5; ERet 5; ERet 3; EApp 3; EApp 1]
  /\ applied s = [5; 3; 1]
  /\ In (EInv 5) (trace s) /\ In 1 (rets_before 5 (trace s)) /\ ~ before 1 5 (applied s).
Proof.
  vm_compute. repeat split; auto 10.
  intros H. specialize (H [] [3; 1] eq_refl). destruct H.
Qed.

(* on the repaired model the same schedule parks Set at 333; once position 0 is published Set
   drains both queued writes itself and only then applies 5 *)
Example realtime_order_fixed_run :
  let s := run_sched (init_scripts true 2 1 rt_scripts) (rt_sched ++ repeat 3%nat 32) in
  applied s = [3; 1; 5] /\ trace s = [EInv 1; EInv 3; ERet 1; EInv 5; ERet 3; EApp 3; EApp 1; EApp 5; ERet 5].
Proof. vm_compute. auto. Qed.

(* ================================================================ layer D: the wake protocol *)

Definition wsetW (p : pcT) : bool :=
  match p with P302 | P311 | P303 | P121 | P122 | P123 | P124 | P125 | P126 | P312 | P313 => true | _ => false end.
Definition wsetN (p : pcT) : bool :=
  match p with P302 | P311 | P303 | P304 | P305 => true | _ => false end.
(* token holders that will look at the tail cell again before giving the token back *)
Definition cpcs (p : pcT) : bool :=
  match p with P121 | P122 | P123 | P124 | P125 | P126 | P312 | P313 | P333 => true | _ => false end.

Definition ready (s : gstate) : Prop := cseq (cell_at s (gtail s)) = gtail s + 1.

Definition ex_thr (s : gstate) (Q : thread -> Prop) : Prop := exists tid th, thr s tid th /\ Q th.

Definition QW (th : thread) : Prop := cur th = Some OWorker /\ wsetW (pc th) = true.
Definition QN (th : thread) : Prop := cur th = Some OWorker /\ wsetN (pc th) = true.
Definition QP (g : Z) (th : thread) : Prop := pc th = P106 /\ epos th = g.
Definition QC (th : thread) : Prop := cpcs (pc th) = true.

Definition Wdisj (s : gstate) : Prop := wakeTok s = true \/ ex_thr s QW.
Definition Ndisj (s : gstate) : Prop :=
  wakeTok s = true \/ ex_thr s QN \/ ex_thr s (QP (gtail s)) \/ ex_thr s QC.

Record invD (s : gstate) : Prop := {
  d_B : 1 <= gB s;
  d_ws : wakeState s = 0 \/ wakeState s = 1;
  d_closing : forall tid th, thr s tid th -> cur th = Some OWorker -> wclosing th = true -> closeCh s = true;
  d_308 : forall tid th, thr s tid th -> pc th = P308 -> closeCh s = true;
  d_tgt : forall tid th b, thr s tid th -> cur th = Some (OSet b) -> holder (pc th) = true -> starget th <= head s;
  d_333 : forall tid th, thr s tid th -> pc th = P333 -> tail s < starget th;
  d_W : wakeState s = 1 -> closeCh s = false -> Wdisj s;
  d_N : ready s -> closeCh s = false -> Ndisj s
}.

Lemma ex_thr_other s s' tid th1 (Q : thread -> Prop) t0 th0 :
  threads s' = upd (threads s) tid th1 -> t0 <> tid -> thr s t0 th0 -> Q th0 -> ex_thr s' Q.
Proof. intros Hthr N H HQ. exists t0, th0. split; auto. apply (thr_upd_other s s' tid th1); auto. Qed.

Lemma ex_thr_self s s' tid th th1 (Q : thread -> Prop) :
  threads s' = upd (threads s) tid th1 -> thr s tid th -> Q th1 -> ex_thr s' Q.
Proof.
  intros Hthr H HQ. exists tid, th1. split; auto. unfold thr. rewrite Hthr.
  apply nth_error_upd_eq. eapply nth_error_lt; eauto.
Qed.

(* a witness survives a step if the stepping thread, when it is the witness, still qualifies *)
Lemma ex_thr_step s s' tid th th1 (Q : thread -> Prop) :
  threads s' = upd (threads s) tid th1 -> thr s tid th -> ex_thr s Q -> (Q th -> Q th1) -> ex_thr s' Q.
Proof.
  intros Hthr H (t0 & th0 & H0 & HQ) Himp. destruct (Nat.eq_dec t0 tid) as [->|N].
  - rewrite (thr_det _ _ _ _ H0 H) in HQ. eapply ex_thr_self; eauto.
  - eapply ex_thr_other; eauto.
Qed.

(* if the stepping thread is not a witness, witnesses survive *)
Lemma ex_thr_skip s s' tid th th1 (Q : thread -> Prop) :
  threads s' = upd (threads s) tid th1 -> thr s tid th -> ex_thr s Q -> ~ Q th -> ex_thr s' Q.
Proof. intros Hthr H Hex Hn. eapply ex_thr_step; eauto. tauto. Qed.

Lemma wsetW_split p : wsetW p = true -> wsetN p = true \/ cpcs p = true.
Proof. destruct p; cbn; auto; discriminate. Qed.

Lemma holder125 s : invA s -> invB s -> tail s <> gtail s -> ex_thr s (fun th => pc th = P125).
Proof.
  intros (HT & HD & _) HB Hne.
  destruct (drainMu s) as [t|] eqn:E; [|exfalso; apply Hne; apply (b_notok _ HB E)].
  pose proof (HD t eq_refl) as Hlt.
  destruct (nth_error (threads s) t) as [th|] eqn:Et; [|apply nth_error_None in Et; lia].
  pose proof (proj1 (a_tok _ _ _ (HT _ _ Et)) E) as Hh.
  pose proof (t_tail _ _ (b_thr _ HB _ _ Et) Hh) as Htl.
  exists t, th. split; auto. destruct (pc th); auto; lia.
Qed.

Lemma holder125_C s : invA s -> invB s -> tail s <> gtail s -> ex_thr s QC.
Proof.
  intros HA HB Hne. destruct (holder125 s HA HB Hne) as (t & th & H & Hp).
  exists t, th. split; auto. unfold QC. rewrite Hp. reflexivity.
Qed.

(* from Wdisj to Ndisj (the stepping thread is not a W witness) *)
Lemma W_to_N s : Wdisj s -> Ndisj s.
Proof.
  intros [H|(t & th & H & Hc & Hp)]; [left; auto|].
  destruct (wsetW_split _ Hp) as [X|X].
  - right. left. exists t, th. split; auto. split; auto.
  - right. right. right. exists t, th. split; auto.
Qed.

Lemma d_closing_frame s s' tid th th1 :
  invD s -> thr s tid th -> threads s' = upd (threads s) tid th1 ->
  (closeCh s = true -> closeCh s' = true) ->
  (cur th1 = Some OWorker -> wclosing th1 = true -> closeCh s' = true) ->
  forall t th', thr s' t th' -> cur th' = Some OWorker -> wclosing th' = true -> closeCh s' = true.
Proof.
  intros HD Hth Hthr Hc H1 t th' H Hcu Hw. destruct (Nat.eq_dec t tid) as [->|N].
  - rewrite (thr_upd_same _ _ _ _ _ _ Hthr Hth H) in *. auto.
  - apply (thr_upd_other s s' tid th1) in H; auto. apply Hc. eapply (d_closing _ HD); eauto.
Qed.

Lemma d_308_frame s s' tid th th1 :
  invD s -> thr s tid th -> threads s' = upd (threads s) tid th1 ->
  (closeCh s = true -> closeCh s' = true) ->
  (pc th1 = P308 -> closeCh s' = true) ->
  forall t th', thr s' t th' -> pc th' = P308 -> closeCh s' = true.
Proof.
  intros HD Hth Hthr Hc H1 t th' H Hp. destruct (Nat.eq_dec t tid) as [->|N].
  - rewrite (thr_upd_same _ _ _ _ _ _ Hthr Hth H) in *. auto.
  - apply (thr_upd_other s s' tid th1) in H; auto. apply Hc. eapply (d_308 _ HD); eauto.
Qed.

Lemma d_tgt_frame s s' tid th th1 :
  invD s -> thr s tid th -> threads s' = upd (threads s) tid th1 -> head s <= head s' ->
  (forall b, cur th1 = Some (OSet b) -> holder (pc th1) = true -> starget th1 <= head s') ->
  forall t th' b, thr s' t th' -> cur th' = Some (OSet b) -> holder (pc th') = true -> starget th' <= head s'.
Proof.
  intros HD Hth Hthr Hh H1 t th' b H Hc Hp. destruct (Nat.eq_dec t tid) as [->|N].
  - rewrite (thr_upd_same _ _ _ _ _ _ Hthr Hth H) in *. eauto.
  - apply (thr_upd_other s s' tid th1) in H; auto. pose proof (d_tgt _ HD _ _ _ H Hc Hp). lia.
Qed.

Lemma d_333_frame s s' tid th th1 :
  invA s -> invD s -> thr s tid th -> threads s' = upd (threads s) tid th1 ->
  (tail s' = tail s \/ holder (pc th) = true) ->
  (pc th1 = P333 -> tail s' < starget th1) ->
  forall t th', thr s' t th' -> pc th' = P333 -> tail s' < starget th'.
Proof.
  intros HA HD Hth Hthr Ht H1 t th' H Hp. destruct (Nat.eq_dec t tid) as [->|N].
  - rewrite (thr_upd_same _ _ _ _ _ _ Hthr Hth H) in *. auto.
  - apply (thr_upd_other s s' tid th1) in H; auto. destruct Ht as [Ht|Ht].
    + rewrite Ht. eapply (d_333 _ HD); eauto.
    + exfalso. apply N. eapply (holder_unique s t tid th' th); eauto. rewrite Hp. reflexivity.
Qed.

Lemma W_frame s s' tid th th1 :
  threads s' = upd (threads s) tid th1 -> thr s tid th ->
  (wakeTok s = true -> wakeTok s' = true) -> (QW th -> QW th1) -> Wdisj s -> Wdisj s'.
Proof.
  intros Hthr Hth Ht Hq [H|H]; [left; auto|right]. eapply ex_thr_step; eauto.
Qed.

Lemma N_step s s' tid th th1 :
  threads s' = upd (threads s) tid th1 -> thr s tid th -> gtail s' = gtail s ->
  (wakeTok s = true -> Ndisj s') -> (QN th -> Ndisj s') -> (QP (gtail s) th -> Ndisj s') ->
  (QC th -> Ndisj s') -> Ndisj s -> Ndisj s'.
Proof.
  intros Hthr Hth Hg H1 H2 H3 H4 [H|[(t0 & th0 & H0 & HQ)|[(t0 & th0 & H0 & HQ)|(t0 & th0 & H0 & HQ)]]]; auto.
  - destruct (Nat.eq_dec t0 tid) as [->|N]; [rewrite (thr_det _ _ _ _ H0 Hth) in HQ; auto|].
    right. left. eapply ex_thr_other; eauto.
  - destruct (Nat.eq_dec t0 tid) as [->|N]; [rewrite (thr_det _ _ _ _ H0 Hth) in HQ; auto|].
    right. right. left. rewrite Hg. eapply ex_thr_other; eauto.
  - destruct (Nat.eq_dec t0 tid) as [->|N]; [rewrite (thr_det _ _ _ _ H0 Hth) in HQ; auto|].
    right. right. right. eapply ex_thr_other; eauto.
Qed.

Lemma W_to_N_step s s' tid th th1 :
  threads s' = upd (threads s) tid th1 -> thr s tid th -> ~ QW th ->
  (wakeTok s = true -> wakeTok s' = true) -> Wdisj s -> Ndisj s'.
Proof.
  intros Hthr Hth Hn Ht [H|(t0 & th0 & H0 & Hc & Hp)]; [left; auto|].
  destruct (Nat.eq_dec t0 tid) as [->|N].
  { exfalso. apply Hn. rewrite (thr_det _ _ _ _ Hth H0). split; auto. }
  destruct (wsetW_split _ Hp) as [X|X].
  - right. left. eapply (ex_thr_other s s' tid th1 QN); eauto. split; auto.
  - right. right. right. eapply (ex_thr_other s s' tid th1 QC); eauto.
Qed.

Lemma C_lift s s' tid th th1 :
  threads s' = upd (threads s) tid th1 -> thr s tid th -> cpcs (pc th) = false -> ex_thr s QC -> Ndisj s'.
Proof.
  intros Hthr Hth Hn H. right. right. right. eapply ex_thr_skip; eauto.
  unfold QC. rewrite Hn. discriminate.
Qed.

Lemma ready_same_seq s s' e x :
  gn s' = gn s -> gtail s' = gtail s -> Z.of_nat (length (ring s)) = gn s -> 0 < gn s ->
  ring s' = upd (ring s) (idx s e) (mkCell (cseq (cell_at s e)) x) -> ready s' -> ready s.
Proof.
  unfold ready, cell_at, idx. intros Hn Hg Hl H0 Hr. rewrite Hg, Hn, Hr.
  destruct (Nat.eq_dec (Z.to_nat (e mod gn s)) (Z.to_nat (gtail s mod gn s))) as [E|E].
  - rewrite <- E. rewrite nth_upd_eq; auto.
    pose proof (Z.mod_pos_bound e (gn s) H0). lia.
  - rewrite nth_upd_ne; auto.
Qed.

Lemma ready_other_cell s s' e c :
  invB s -> gn s' = gn s -> gtail s' = gtail s -> ring s' = upd (ring s) (idx s e) c ->
  gtail s <= e < head s -> e <> gtail s -> ready s' -> ready s.
Proof.
  intros HB Hn Hg Hr He Hne. unfold ready. rewrite Hg.
  rewrite (cell_at_upd_ne s s' e (gtail s) c (gtail s)); auto.
  - pose proof (b_n _ HB). lia.
  - pose proof (b_hi _ HB). lia.
  - pose proof (b_n _ HB). lia.
Qed.

Lemma invD_init f n B scripts : 1 <= B -> invD (init_scripts f n B scripts).
Proof.
  intros HB. constructor; cbn; auto; try discriminate.
  - intros tid th H. unfold thr in H; cbn in H. apply nth_error_map_thread in H as (l & _ & ->). discriminate.
  - intros tid th H. unfold thr in H; cbn in H. apply nth_error_map_thread in H as (l & _ & ->). discriminate.
  - intros tid th b H. unfold thr in H; cbn in H. apply nth_error_map_thread in H as (l & _ & ->). discriminate.
  - intros tid th H. unfold thr in H; cbn in H. apply nth_error_map_thread in H as (l & _ & ->). discriminate.
  - unfold ready, cell_at, idx. cbn [gtail gn ring init_scripts init_state]. rewrite Zmod_0_l.
    unfold init_ring. destruct (Z.to_nat n); cbn; discriminate.
Qed.

Lemma invD_step c s tid s' o :
  invA s -> invB s -> invD s -> lstepc c s tid = Some (s', o) -> invD s'.
Proof.
  intros HA HB HD Hs. apply lstepc_inv in Hs as (th & s1 & th1 & Hth & Hst & ->).
  pose proof (proj1 HA _ _ Hth) as [Hok Htok _ Hbuf Hwf].
  pose proof (b_thr _ HB _ _ Hth) as Tth.
  step_leaves Hst Hok.
  all: norm_state.
  all: try (match goal with E : script _ = _ :: _ |- _ => rewrite E in Hwf end).
  all: try (cbn in Hwf; discriminate Hwf).
  all: bool_hyps; zb.
  all: constructor.
  (* d_B, d_ws *)
  all: try exact (d_B _ HD).
  all: try (cbn [wakeState]; first [exact (d_ws _ HD) | left; reflexivity | right; reflexivity]).
  (* d_closing, d_308 *)
  all: try (eapply (d_closing_frame _ _ tid th); [exact HD|exact Hth|reflexivity| cbn [closeCh]; auto | ];
            cbn [cur wclosing closeCh]; rewrite ?Hcur;
            first [ intros X; discriminate X | intros _ X; discriminate X | reflexivity
                  | intros _ X; exact (d_closing _ HD _ _ Hth Hcur X)
                  | intros _ _; exact (d_308 _ HD _ _ Hth Hpc) ]).
  all: try (eapply (d_308_frame _ _ tid th); [exact HD|exact Hth|reflexivity| cbn [closeCh]; auto | ];
            cbn [pc closeCh]; first [ intros X; discriminate X | intros _; reflexivity | intros _; assumption ]).
  (* d_tgt, d_333 *)
  all: pose proof (t_tail _ _ Tth) as Ytl; pose proof (t_dpos _ _ Tth) as Ydp; rewrite Hpc in Ytl, Ydp; cbn [holder] in Ytl.
  all: try (match goal with E : gfixed _ && _ = true |- _ => apply andb_true_iff in E; destruct E as [_ E]; apply Z.ltb_lt in E end).
  all: try (eapply (d_tgt_frame _ _ tid th); [exact HD|exact Hth|reflexivity
            | first [apply Z.le_refl | cbn [head]; lia] | ];
            cbn [cur pc starget head holder]; rewrite ?Hcur; intros b0 X Y;
            first [ discriminate X | discriminate Y | apply Z.le_refl
                  | injection X as <-; eapply (d_tgt _ HD _ _ _ Hth Hcur); rewrite Hpc; reflexivity ]).
  all: try (eapply (d_333_frame _ _ tid th); [exact HA|exact HD|exact Hth|reflexivity
            | first [left; reflexivity | right; rewrite Hpc; reflexivity] | ];
            cbn [pc tail starget]; intros X; first [discriminate X | lia]).
  (* d_W *)
  all: try (lazymatch goal with |- _ -> _ -> Wdisj _ => idtac end;
    intros Hws Hcl; cbn [wakeState closeCh] in Hws, Hcl;
    first [ discriminate Hws | discriminate Hcl
          | left; reflexivity
          | right; eapply (ex_thr_self _ _ tid th); [reflexivity|exact Hth| split; [exact Hcur | reflexivity]]
          | exfalso; rewrite (d_closing _ HD _ _ Hth Hcur) in Hcl by assumption; discriminate Hcl
          | eapply (W_frame _ _ tid th); [reflexivity|exact Hth| cbn [wakeTok]; auto
              | intros [Qa Qb]; rewrite Hpc in Qb; first [discriminate Qb | rewrite Hcur in Qa; discriminate Qa | split; [exact Qa | reflexivity]]
              | exact (d_W _ HD Hws Hcl)] ]).
  (* d_N *)
  all: lazymatch goal with |- _ -> _ -> Ndisj _ => idtac | _ => fail "unexpected goal" end.
  all: intros Hr Hcl; cbn [closeCh] in Hcl; try discriminate Hcl.
  all: try (lazymatch goal with Hp : pc _ = P124 |- _ =>
              right; right; right; eapply (ex_thr_self _ _ tid th); [reflexivity|exact Hth|reflexivity] end).
  all: match goal with HBx : invB ?ss |- _ =>
    lazymatch goal with
    | Hp : pc _ = P105 |- _ =>
        destruct (t_own _ _ Tth) as (Oin & _); [rewrite Hpc; reflexivity|];
        destruct (Z.eq_dec (epos th) (gtail ss)) as [Ee|Ee];
        [ right; right; left; eapply (ex_thr_self _ _ tid th); [reflexivity|exact Hth|split; [reflexivity|exact Ee]]
        | assert (Hr0 : ready ss)
            by (match type of Hr with ready ?S' => eapply (ready_other_cell ss S' (epos th)); [exact HB|reflexivity|reflexivity|reflexivity|exact Oin|exact Ee|exact Hr] end) ]
    | Hp : pc _ = P104 |- _ =>
        assert (Hr0 : ready ss)
          by (match type of Hr with ready ?S' => eapply (ready_same_seq ss S' (epos th)); [reflexivity|reflexivity|exact (b_len _ HB)
                                                       |pose proof (b_n _ HB); lia|reflexivity|exact Hr] end)
    | _ => assert (Hr0 : ready ss) by exact Hr
    end
  end.
  all: eapply (N_step _ _ tid th); [reflexivity|exact Hth|reflexivity| | | | |exact (d_N _ HD Hr0 Hcl)].
  all: match goal with HBx : invB ?ss |- _ =>
    lazymatch goal with
    | |- wakeTok _ = true -> _ =>
        intros Htk;
        first [ left; exact Htk | left; reflexivity
              | right; left; eapply (ex_thr_self _ _ tid th); [reflexivity|exact Hth|split; [exact Hcur|reflexivity]] ]
    | |- QN _ -> _ =>
        intros [Qa Qb]; rewrite Hpc in Qb;
        first [ discriminate Qb
              | right; left; eapply (ex_thr_self _ _ tid th); [reflexivity|exact Hth|split; [exact Hcur|reflexivity]]
              | right; right; right; eapply (ex_thr_self _ _ tid th); [reflexivity|exact Hth|reflexivity]
              | (* 304: not ready at tail *)
                destruct (Z.eq_dec (tail ss) (gtail ss)) as [Et|Et];
                [ exfalso; unfold ready in Hr0; rewrite <- Et in Hr0; contradiction
                | eapply (C_lift _ _ tid th); [reflexivity|exact Hth|rewrite Hpc; reflexivity|exact (holder125_C _ HA HB Et)] ]
              | (* 305: the re-arm CAS failed *)
                destruct (d_ws _ HD) as [W0|W1]; [contradiction|];
                eapply (W_to_N_step _ _ tid th); [reflexivity|exact Hth|intros [_ X]; rewrite Hpc in X; discriminate X
                                                 |cbn [wakeTok]; auto|exact (d_W _ HD W1 Hcl)] ]
    | |- QP _ _ -> _ =>
        intros [Qa Qb]; rewrite Hpc in Qa;
        first [ discriminate Qa
              | left; reflexivity
              | match goal with E : _ && _ = false |- _ =>
                  apply andb_false_iff in E; destruct E as [E|E]; zb;
                  [ eapply (C_lift _ _ tid th); [reflexivity|exact Hth|rewrite Hpc; reflexivity|];
                    apply (holder125_C _ HA HB); rewrite <- Qb; exact E
                  | destruct (d_ws _ HD) as [W0|W1]; [contradiction|];
                    eapply (W_to_N_step _ _ tid th); [reflexivity|exact Hth|intros [_ X]; rewrite Hpc in X; discriminate X
                                                     |cbn [wakeTok]; auto|exact (d_W _ HD W1 Hcl)] ]
                end ]
    | |- QC _ -> _ =>
        intros Qc; unfold QC in Qc; rewrite Hpc in Qc;
        first [ discriminate Qc
              | right; right; right; eapply (ex_thr_self _ _ tid th); [reflexivity|exact Hth|reflexivity]
              | right; left; eapply (ex_thr_self _ _ tid th); [reflexivity|exact Hth|split; [exact Hcur|reflexivity]]
              | exfalso; match goal with E : cseq _ <> _ |- _ => apply E end;
                rewrite (t_dpos _ _ Tth) by (rewrite Hpc; tauto); exact Hr0
              | exfalso; match goal with E : max_of _ _ <= 0 |- _ => unfold max_of in E; rewrite Hcur in E end;
                pose proof (d_B _ HD); lia ]
    end
  end.
Qed.

(* ---- enabledness ---- *)
Definition always_enabled (p : pcT) : bool :=
  match p with
  | P101 | P102 | P103 | P104 | P105 | P106
  | P121 | P122 | P123 | P124 | P125 | P126
  | P302 | P303 | P304 | P305 | P308 | P313
  | P321 | P322 | P323 | P333 | P339 | P351 => true
  | _ => false
  end.

Ltac break_goal :=
  repeat match goal with
         | |- context [match ?x with _ => _ end] => destruct x
         end.

Lemma always_enabled_step c s tid th :
  cur_ok (pc th) (cur th) = true -> always_enabled (pc th) = true -> tstep c s tid th <> None.
Proof.
  intros Hok Hen. unfold tstep.
  destruct (pc th); cbn in Hen; try discriminate Hen;
    destruct (cur th) as [[]|]; cbn in Hok; try discriminate Hok;
    cbv beta iota delta [start_op enq_ret cenqueue try_drain drain_start deq_retn deq_ret0 drain_ret
                         finish_w finish park];
    cbn [cur set_pc set_cur set_dbuf set_dpos set_epos set_dacks set_wclosing set_starget];
    break_goal; discriminate.
Qed.

Lemma lstepc_enabled c s tid th : thr s tid th -> tstep c s tid th <> None -> lstepc c s tid <> None.
Proof.
  unfold lstepc, thr. intros -> H. destruct (tstep c s tid th) as [[[? ?] ?]|]; [discriminate|contradiction].
Qed.

Lemma enabled_mu_free c s tid th :
  cur_ok (pc th) (cur th) = true -> (pc th = P312 \/ pc th = P332) -> mu s = None -> tstep c s tid th <> None.
Proof.
  intros Hok Hp Hm. unfold tstep. destruct Hp as [Hp|Hp]; rewrite Hp in *; rewrite Hm; cbn [is_none].
  - unfold park. discriminate.
  - destruct (cur th) as [[]|]; cbn in Hok; try discriminate Hok. unfold finish_w, finish. discriminate.
Qed.

Lemma enabled_311 c s tid th : pc th = P311 -> drainMu s = None -> tstep c s tid th <> None.
Proof. intros Hp Hd. unfold tstep. rewrite Hp, Hd. cbn. discriminate. Qed.

Lemma enabled_301 c s tid th :
  pc th = P301 -> wakeTok s = true -> closeCh s = false -> tstep c s tid th <> None.
Proof. intros Hp Ht Hc. unfold tstep. rewrite Hp, Ht, Hc. destruct c; cbn; discriminate. Qed.

Definition responsible (s : gstate) (th : thread) : Prop :=
  cur th = Some OWorker \/ holder (pc th) = true \/ pc th = P351 \/ (pc th = P106 /\ epos th = gtail s).

Definition can_step (c : bool) (s : gstate) : Prop :=
  exists tid th, thr s tid th /\ responsible s th /\ lstepc c s tid <> None.

(* the token holder can step, or waits for the shard lock whose holder can step *)
Lemma holder_progress c s t :
  invA s -> drainMu s = Some t -> can_step c s.
Proof.
  intros HA E. pose proof HA as (HT & HDl & HMl).
  pose proof (HDl t E) as Hlt.
  destruct (nth_error (threads s) t) as [th|] eqn:Et; [|apply nth_error_None in Et; lia].
  pose proof (HT _ _ Et) as [Hok Htok Hmu _ _]. pose proof (proj1 Htok E) as Hh.
  destruct (always_enabled (pc th)) eqn:Hen.
  { exists t, th. split; auto. split; [right; left; auto|].
    apply (lstepc_enabled c s t th); auto. apply always_enabled_step; auto. }
  assert (Hp : pc th = P312 \/ pc th = P332) by (destruct (pc th); cbn in Hh, Hen; try discriminate; auto).
  destruct (mu s) as [m|] eqn:Em.
  - pose proof (HMl m eq_refl) as Hlm.
    destruct (nth_error (threads s) m) as [thm|] eqn:Etm; [|apply nth_error_None in Etm; lia].
    pose proof (HT _ _ Etm) as [Hok' _ Hmu' _ _]. pose proof (proj1 Hmu' Em) as Hpm.
    exists m, thm. split; auto. split; [right; right; left; auto|].
    apply (lstepc_enabled c s m thm); auto. apply always_enabled_step; auto. rewrite Hpm. reflexivity.
  - exists t, th. split; auto. split; [right; left; auto|].
    apply (lstepc_enabled c s t th); auto. apply enabled_mu_free; auto.
Qed.

Lemma worker_progress c s tid th :
  invA s -> thr s tid th -> cur th = Some OWorker -> closeCh s = false ->
  (pc th = P301 -> wakeTok s = true) -> can_step c s.
Proof.
  intros HA Hth Hc Hcl H301. pose proof (proj1 HA _ _ Hth) as [Hok Htok _ _ _].
  destruct (always_enabled (pc th)) eqn:Hen.
  { exists tid, th. split; auto. split; [left; auto|].
    apply (lstepc_enabled c s tid th); auto. apply always_enabled_step; auto. }
  rewrite Hc in Hok.
  destruct (pc th) eqn:Hp; cbn in Hok, Hen; try discriminate.
  - exists tid, th. split; auto. split; [left; auto|].
    apply (lstepc_enabled c s tid th); auto. apply enabled_301; auto.
  - destruct (drainMu s) as [t|] eqn:E; [eapply holder_progress; eauto|].
    exists tid, th. split; auto. split; [left; auto|].
    apply (lstepc_enabled c s tid th); auto. apply enabled_311; auto.
  - eapply holder_progress; eauto. apply Htok. reflexivity.
Qed.

Record inv4 (s : gstate) : Prop := { i4_A : invA s; i4_B : invB s; i4_D : invD s }.

Lemma inv4_reachable f n B scripts s :
  2 <= n -> 1 <= B -> wf_scripts scripts -> reachable (init_scripts f n B scripts) s -> inv4 s.
Proof.
  intros Hn HB Hwf H. induction H as [|s c tid s' o H IH Hs].
  - split; [apply invA_init; auto | apply invB_init; auto | apply invD_init; auto].
  - destruct IH as [HA HBB HD]. split;
      [eapply invA_step; eauto | eapply invB_step; eauto | eapply invD_step; eauto].
Qed.

(* ---- 6. no_lost_wake ---- *)
Theorem no_lost_wake f n B scripts s :
  2 <= n -> 1 <= B -> wf_scripts scripts -> reachable (init_scripts f n B scripts) s ->
  cseq (cell_at s (tail s)) = tail s + 1 -> drainMu s = None -> closeCh s = false ->
  wakeTok s = true
  \/ (exists tid th, thr s tid th /\ cur th = Some OWorker /\ wsetN (pc th) = true)
  \/ (exists tid th, thr s tid th /\ pc th = P106 /\ epos th = tail s).
Proof.
  intros Hn HB Hwf H Hpub Hd Hcl. destruct (inv4_reachable _ _ _ _ _ Hn HB Hwf H) as [HA HBB HD].
  pose proof (b_notok _ HBB Hd) as Ht.
  assert (Hr : ready s) by (unfold ready; rewrite <- Ht; exact Hpub).
  destruct (d_N _ HD Hr Hcl) as [X|[X|[X|(t & th & Hth & Hq)]]]; auto.
  - right. right. rewrite Ht. exact X.
  - exfalso. pose proof (proj1 HA _ _ Hth) as [_ Htok _ _ _].
    assert (Hh : holder (pc th) = true) by (unfold QC in Hq; destruct (pc th); cbn in *; auto; discriminate).
    apply Htok in Hh. congruence.
Qed.

(* the auxiliary fact behind it: wakeState = 1 means a token is pending or a worker is on its way
   to clear it *)
Theorem wake_state_sound f n B scripts s :
  2 <= n -> 1 <= B -> wf_scripts scripts -> reachable (init_scripts f n B scripts) s ->
  wakeState s = 1 -> closeCh s = false ->
  wakeTok s = true \/ exists tid th, thr s tid th /\ cur th = Some OWorker /\ wsetW (pc th) = true.
Proof.
  intros Hn HB Hwf H. apply (d_W _ (i4_D _ (inv4_reachable _ _ _ _ _ Hn HB Hwf H))).
Qed.

(* ---- progress: a published command at the (effective) tail always has a responsible thread that
   can step: the worker, the token holder (or the reader whose shard lock it waits for), or the
   producer about to signal ---- *)
Theorem progress f n B scripts s c :
  2 <= n -> 1 <= B -> wf_scripts scripts -> reachable (init_scripts f n B scripts) s ->
  ready s -> closeCh s = false -> (exists tid th, thr s tid th /\ cur th = Some OWorker) ->
  can_step c s.
Proof.
  intros Hn HB Hwf H Hr Hcl (tw & thw & Hw & Hcw).
  destruct (inv4_reachable _ _ _ _ _ Hn HB Hwf H) as [HA HBB HD].
  destruct (d_N _ HD Hr Hcl) as [X|[(t & th & Hth & Hc & Hp)|[(t & th & Hth & Hp & He)|(t & th & Hth & Hq)]]].
  - eapply worker_progress; eauto.
  - eapply (worker_progress c s t th); eauto. intros E. rewrite E in Hp. discriminate.
  - exists t, th. split; auto. split; [right; right; right; auto|].
    apply (lstepc_enabled c s t th); auto. apply always_enabled_step.
    + apply (a_cur _ _ _ (proj1 HA _ _ Hth)).
    + rewrite Hp. reflexivity.
  - pose proof (proj1 HA _ _ Hth) as [_ Htok _ _ _].
    assert (Hh : holder (pc th) = true) by (unfold QC in Hq; destruct (pc th); cbn in *; auto; discriminate).
    apply Htok in Hh. eapply holder_progress; eauto.
Qed.

(* the drain measure: each completed dequeue moves tail by one and leaves head alone *)
Lemma drain_measure c s tid th s' o :
  invB s -> thr s tid th -> pc th = P125 -> lstepc c s tid = Some (s', o) ->
  tail s' = tail s + 1 /\ head s' = head s.
Proof.
  intros HB Hth Hpc Hs. apply lstepc_inv in Hs as (th0 & s1 & th1 & Hth0 & Hst & ->).
  rewrite (thr_det _ _ _ _ Hth0 Hth) in *. unfold tstep in Hst. rewrite Hpc in Hst.
  pose proof (b_thr _ HB _ _ Hth) as T.
  assert (E1 : dpos th = gtail s) by (apply (t_dpos _ _ T); tauto).
  assert (E2 : tail s = gtail s - 1) by (rewrite (t_tail _ _ T) by (rewrite Hpc; reflexivity); rewrite Hpc; lia).
  destruct (Z.of_nat (length (dbuf th)) <? max_of s th); unfold park in Hst; inversion Hst; subst; cbn; lia.
Qed.

(* Set's wait at 333 (repaired syncMutate) is bounded: the cell the consumer is stuck on is
   reserved by a producer between its head CAS and its publish, and that producer can always step *)
Theorem set_wait_bounded f n B scripts s tid th :
  2 <= n -> 1 <= B -> wf_scripts scripts -> reachable (init_scripts f n B scripts) s ->
  thr s tid th -> pc th = P333 ->
  tail s < starget th /\ starget th <= head s
  /\ (published s (tail s)
      \/ exists t' th', thr s t' th' /\ ownpc (pc th') = true /\ epos th' = tail s
                        /\ forall c, lstepc c s t' <> None).
Proof.
  intros Hn HB Hwf H Hth Hpc. destruct (inv4_reachable _ _ _ _ _ Hn HB Hwf H) as [HA HBB HD].
  pose proof (proj1 HA _ _ Hth) as [Hok _ _ _ _].
  rewrite Hpc in Hok. destruct (cur th) as [[]|] eqn:Hc; cbn in Hok; try discriminate.
  pose proof (d_333 _ HD _ _ Hth Hpc) as H1.
  assert (H2 : starget th <= head s) by (eapply (d_tgt _ HD); eauto; rewrite Hpc; reflexivity).
  assert (H3 : tail s = gtail s).
  { rewrite (t_tail _ _ (b_thr _ HBB _ _ Hth)) by (rewrite Hpc; reflexivity). rewrite Hpc. lia. }
  split; auto. split; auto. rewrite H3.
  destruct (b_cells _ HBB (gtail s)) as [C1 _]; [pose proof (b_n _ HBB); lia|].
  destruct C1 as [Hp|[_ (t' & th' & Ht' & Ho & He)]]; [lia|left; auto|].
  right. exists t', th'. repeat split; auto. intros c.
  apply (lstepc_enabled c s t' th'); auto. apply always_enabled_step.
  - apply (a_cur _ _ _ (proj1 HA _ _ Ht')).
  - destruct (pc th'); cbn in Ho; try discriminate; reflexivity.
Qed.

(* ================================================================ 5. sync_fence *)

Lemma cack_cases cm a : In a (cack cm) -> cm = Barrier a \/ cm = ClearCmd a.
Proof. destruct cm; cbn; intros H; [destruct H|destruct H as [H|[]]|destruct H as [H|[]]]; subst; auto. Qed.

Theorem sync_fence f n B scripts s a :
  2 <= n -> wf_scripts scripts -> reachable (init_scripts f n B scripts) s ->
  In a (ackTok s) ->
  exists k, (k < length (qlog s))%nat
    /\ (nth k (resv s) (Write 0) = Barrier a \/ nth k (resv s) (Write 0) = ClearCmd a)
    /\ forall j id, (j < k)%nat -> nth j (resv s) (Write 0) = Write id -> In id (applied s).
Proof.
  intros Hn Hwf H Ha.
  destruct (exactly_once_fifo _ _ _ _ _ Hn Hwf H) as (Hpre & HM & _).
  destruct (inv2_reachable _ _ _ _ _ Hn Hwf H) as [_ HC].
  pose proof (c_ack _ HC _ Ha) as Hin. unfold cacks in Hin. apply in_flat_map in Hin as (cm & Hcm & Hac).
  apply (In_nth _ _ (Write 0)) in Hcm as (k & Hk & Hnth).
  exists k. split; auto. split.
  - rewrite (nth_pre _ _ _ _ _ Hpre Hk), Hnth. apply cack_cases; auto.
  - intros j id Hj Hr. destruct (Merge_incl _ _ _ HM) as [I1 _]. apply I1. apply wids_in.
    rewrite <- Hr. rewrite (nth_pre _ _ _ _ _ Hpre) by lia. apply nth_In. lia.
Qed.

(* ================================================================ layer E: Close *)

Lemma worker_flag_step c s tid th s1 th1 o :
  tstep c s tid th = Some (s1, th1, o) -> thread_is_worker th1 = true -> thread_is_worker th = true.
Proof.
  unfold thread_is_worker. intros Hst.
  unfold tstep in Hst.
  destruct (pc th);
    cbv beta iota zeta delta [start_op enq_ret cenqueue try_drain drain_start deq_retn deq_ret0 drain_ret
                         finish_w finish park] in Hst;
    repeat match type of Hst with
           | context [match ?x with _ => _ end] => let E := fresh "E" in destruct x eqn:E
           end; try discriminate Hst; inversion Hst; subst; clear Hst; cbn; auto;
    rewrite ?E, ?E0, ?E1, ?E2; cbn; auto; rewrite ?orb_true_r, ?orb_false_r; auto.
  all: intros X; rewrite X; reflexivity.
Qed.

Lemma existsb_nth_false {A} (f : A -> bool) l i x :
  existsb f l = false -> nth_error l i = Some x -> f x = false.
Proof.
  revert i; induction l as [|y l IH]; intros [|i] H E; cbn in *; try discriminate.
  - inversion E; subst. apply orb_false_iff in H. tauto.
  - apply orb_false_iff in H. eapply IH; eauto. tauto.
Qed.

Lemma existsb_upd_false {A} (f : A -> bool) l i x :
  existsb f l = false -> f x = false -> existsb f (upd l i x) = false.
Proof.
  revert i; induction l as [|y l IH]; intros [|i] H E; cbn in *; auto.
  - apply orb_false_iff in H. rewrite E. tauto.
  - apply orb_false_iff in H. destruct H as [-> H]. cbn. apply IH; auto.
Qed.

Lemma workers_done_keep s s' tid th th1 :
  thr s tid th -> threads s' = upd (threads s) tid th1 ->
  (thread_is_worker th1 = true -> thread_is_worker th = true) ->
  workers_done s = true -> workers_done s' = true.
Proof.
  unfold workers_done. intros Hth Hthr Himp H. apply negb_true_iff in H. apply negb_true_iff.
  rewrite Hthr. apply existsb_upd_false; auto.
  pose proof (existsb_nth_false _ _ _ _ H Hth) as X.
  destruct (thread_is_worker th1); auto. rewrite Himp in X; auto.
Qed.

Record invE (s : gstate) : Prop := {
  e_once : forall tid th a, thr s tid th -> cur th = Some (OClose a) -> onceHeld s = Some tid;
  e_343 : forall tid th, thr s tid th -> pc th = P343 -> workers_done s = true;
  e_done : onceDone s = true -> workers_done s = true
}.

Lemma invE_init f n B scripts : invE (init_scripts f n B scripts).
Proof.
  constructor; cbn; try discriminate.
  - intros tid th a H. unfold thr in H; cbn in H. apply nth_error_map_thread in H as (l & _ & ->). discriminate.
  - intros tid th H. unfold thr in H; cbn in H. apply nth_error_map_thread in H as (l & _ & ->). discriminate.
Qed.

Lemma e_once_frame s s' tid th th1 :
  invE s -> thr s tid th -> threads s' = upd (threads s) tid th1 ->
  (forall t, t <> tid -> onceHeld s = Some t -> onceHeld s' = Some t) ->
  (forall a, cur th1 = Some (OClose a) -> onceHeld s' = Some tid) ->
  forall t th' a, thr s' t th' -> cur th' = Some (OClose a) -> onceHeld s' = Some t.
Proof.
  intros HE Hth Hthr Ho H1 t th' a H Hc. destruct (Nat.eq_dec t tid) as [->|N].
  - rewrite (thr_upd_same _ _ _ _ _ _ Hthr Hth H) in *. eauto.
  - apply (thr_upd_other s s' tid th1) in H; auto. apply Ho; auto. eapply (e_once _ HE); eauto.
Qed.

Lemma e_343_frame s s' tid th th1 :
  invE s -> thr s tid th -> threads s' = upd (threads s) tid th1 ->
  (workers_done s = true -> workers_done s' = true) ->
  (pc th1 = P343 -> workers_done s' = true) ->
  forall t th', thr s' t th' -> pc th' = P343 -> workers_done s' = true.
Proof.
  intros HE Hth Hthr Hw H1 t th' H Hp. destruct (Nat.eq_dec t tid) as [->|N].
  - rewrite (thr_upd_same _ _ _ _ _ _ Hthr Hth H) in *. auto.
  - apply (thr_upd_other s s' tid th1) in H; auto. apply Hw. eapply (e_343 _ HE); eauto.
Qed.

Lemma invE_step c s tid s' o : invA s -> invE s -> lstepc c s tid = Some (s', o) -> invE s'.
Proof.
  intros HA HE Hs. apply lstepc_inv in Hs as (th & s1 & th1 & Hth & Hst & ->).
  pose proof (proj1 HA _ _ Hth) as [Hok _ _ _ Hwf].
  pose proof (worker_flag_step _ _ _ _ _ _ _ Hst) as Hwk.
  assert (Hkeep : workers_done s = true -> negb (existsb thread_is_worker (upd (threads s) tid th1)) = true).
  { intros X. apply (workers_done_keep s (set_threads s (upd (threads s) tid th1)) tid th th1); auto. }
  step_leaves Hst Hok.
  all: norm_state.
  all: try (match goal with E : script _ = _ :: _ |- _ => rewrite E in Hwf end).
  all: try (cbn in Hwf; discriminate Hwf).
  all: bool_hyps; zb; none_hyps.
  all: constructor.
  all: try (eapply (e_once_frame _ _ tid th); [exact HE|exact Hth|reflexivity| | ];
            cbn [onceHeld cur];
            [ first [ intros t Hn X; exact X
                    | intros t Hn X; congruence
                    | intros t Hn X; pose proof (e_once _ HE _ _ _ Hth Hcur); congruence ]
            | rewrite ?Hcur; intros a X; first [discriminate X | reflexivity | exact (e_once _ HE _ _ _ Hth Hcur)] ]).
  all: try (eapply (e_343_frame _ _ tid th); [exact HE|exact Hth|reflexivity
            | intros X; unfold workers_done; cbn [threads]; apply Hkeep; first [exact X | reflexivity] | ];
            cbn [pc]; intros X; first [discriminate X | unfold workers_done; cbn [threads]; apply Hkeep; first [assumption | reflexivity]]).
  all: try (cbn [onceDone]; intros X;
            first [ discriminate X
                  | unfold workers_done; cbn [threads]; apply Hkeep; first [exact (e_done _ HE X) | reflexivity]
                  | unfold workers_done; cbn [threads]; apply Hkeep; exact (e_343 _ HE _ _ Hth Hpc) ]).
Qed.

Lemma invAE_reachable f n B scripts s :
  wf_scripts scripts -> reachable (init_scripts f n B scripts) s -> invA s /\ invE s.
Proof.
  intros Hwf H. induction H as [|s c tid s' o H IH Hs].
  - split; [apply invA_init; auto | apply invE_init].
  - destruct IH as [HA HE]. split; [eapply invA_step; eauto | eapply invE_step; eauto].
Qed.

(* ---- 8. close_releases ---- *)

(* once closeCh is closed a producer parked at 108 can step: it retries (only if a space token is
   pending and the select picks it) or returns ErrCacheClosed (Close's own flush barrier gives up
   and goes on to 339) *)
Theorem close_releases f n B scripts s c tid th :
  wf_scripts scripts -> reachable (init_scripts f n B scripts) s ->
  thr s tid th -> pc th = P108 -> closeCh s = true ->
  exists s' o, lstepc c s tid = Some (s', o)
    /\ ((o = [101; 0; 0] /\ spaceTok s = true /\ c = false)
        \/ o = [0; 3; 0]
        \/ (o = [339; 0; 0] /\ exists a, cur th = Some (OClose a))).
Proof.
  intros Hwf H Hth Hpc Hcl. destruct (invAE_reachable _ _ _ _ _ Hwf H) as [HA _].
  pose proof (a_cur _ _ _ (proj1 HA _ _ Hth)) as Hok. rewrite Hpc in Hok.
  unfold lstepc. rewrite Hth. unfold tstep. rewrite Hpc, Hcl.
  destruct (cur th) as [[]|] eqn:Hc; cbn in Hok; try discriminate Hok;
    destruct (spaceTok s), c; cbn;
    unfold enq_ret, park, finish_w, finish; rewrite ?Hc; cbn; eauto 10.
Qed.

(* after Close has returned (the Once is done) every worker thread has exited *)
Theorem close_waits_for_workers f n B scripts s :
  wf_scripts scripts -> reachable (init_scripts f n B scripts) s ->
  onceDone s = true -> workers_done s = true.
Proof. intros Hwf H. apply (e_done _ (proj2 (invAE_reachable _ _ _ _ _ Hwf H))). Qed.

(* sync.Once: at most one thread is inside Close; a second Close blocks while the first runs and
   returns at once, touching nothing, after it finished *)
Theorem close_exclusive f n B scripts s t1 t2 th1 th2 a1 a2 :
  wf_scripts scripts -> reachable (init_scripts f n B scripts) s ->
  thr s t1 th1 -> thr s t2 th2 -> cur th1 = Some (OClose a1) -> cur th2 = Some (OClose a2) -> t1 = t2.
Proof.
  intros Hwf H H1 H2 C1 C2. destruct (invAE_reachable _ _ _ _ _ Hwf H) as [_ HE].
  pose proof (e_once _ HE _ _ _ H1 C1). pose proof (e_once _ HE _ _ _ H2 C2). congruence.
Qed.

Lemma close_blocks c s tid th a r t :
  thr s tid th -> pc th = P0 -> cur th = None -> script th = OClose a :: r ->
  onceDone s = false -> onceHeld s = Some t -> lstepc c s tid = None.
Proof.
  intros Hth Hpc Hc Hs Hd Ho. unfold lstepc. rewrite Hth. unfold tstep. rewrite Hpc, Hc, Hs.
  unfold start_op. rewrite Hd, Ho. reflexivity.
Qed.

Lemma close_idempotent c s tid th a r :
  thr s tid th -> pc th = P0 -> cur th = None -> script th = OClose a :: r -> onceDone s = true ->
  lstepc c s tid
  = Some (set_threads s (upd (threads s) tid (set_dbuf (set_pc (set_cur (set_cur (set_script th r) (Some (OClose a))) None) P0) [])),
          [0; 0; 0]).
Proof.
  intros Hth Hpc Hc Hs Hd. unfold lstepc. rewrite Hth. unfold tstep. rewrite Hpc, Hc, Hs.
  unfold start_op. rewrite Hd. reflexivity.
Qed.

(* ---- 7. lock_order ----
   Blocking acquisitions are ordered drainMu then mu:
   - a thread blocked on drainMu.Lock (311, 331) holds neither lock;
   - a thread blocked on mu.Lock holds at most drainMu (312, 332), or nothing (343, 350);
   - the only thread that ever holds mu across a park point is the reader at 351, whose next step
     (the unlock) is always enabled, so it never waits for anything while holding mu;
   - every other use of the two locks on the inline / helper paths is a TryLock that never blocks
     (322, 323, the Get-miss helper and tryDrainShard at the end of an enqueue: all always enabled);
   - a thread blocked on a channel (108 space/closeCh, 301 wake/closeCh, 340 ack/closeCh) or in
     workers.Wait (341) holds neither drainMu nor mu; the Closer holds only the Once there. *)
Definition blocks_on_drainMu (p : pcT) : bool := match p with P311 | P331 => true | _ => false end.
Definition blocks_on_mu (p : pcT) : bool := match p with P312 | P332 | P343 | P350 => true | _ => false end.
Definition blocks_on_chan (p : pcT) : bool := match p with P108 | P301 | P340 | P341 => true | _ => false end.

Theorem lock_order f n B scripts s tid th :
  wf_scripts scripts -> reachable (init_scripts f n B scripts) s -> thr s tid th ->
  (blocks_on_drainMu (pc th) = true -> drainMu s <> Some tid /\ mu s <> Some tid)
  /\ (blocks_on_mu (pc th) = true -> mu s <> Some tid /\ (drainMu s = Some tid <-> (pc th = P312 \/ pc th = P332)))
  /\ (blocks_on_chan (pc th) = true -> drainMu s <> Some tid /\ mu s <> Some tid)
  /\ (mu s = Some tid -> pc th = P351 /\ forall c, lstepc c s tid <> None)
  /\ ((pc th = P322 \/ pc th = P323 \/ pc th = P106) -> forall c, lstepc c s tid <> None).
Proof.
  intros Hwf H Hth. destruct (invAE_reachable _ _ _ _ _ Hwf H) as [HA _].
  pose proof (proj1 HA _ _ Hth) as [Hok Htok Hmu _ _].
  assert (Hen : always_enabled (pc th) = true -> forall c, lstepc c s tid <> None).
  { intros X c. apply (lstepc_enabled c s tid th); auto. apply always_enabled_step; auto. }
  split; [|split; [|split; [|split]]].
  - intros X. split; intros Y.
    + apply Htok in Y. destruct (pc th); discriminate.
    + apply Hmu in Y. rewrite Y in X. discriminate.
  - intros X. split.
    + intros Y. apply Hmu in Y. rewrite Y in X. discriminate.
    + split.
      * intros Y. apply Htok in Y. destruct (pc th); cbn in *; try discriminate; auto.
      * intros [Y|Y]; apply Htok; rewrite Y; reflexivity.
  - intros X. split; intros Y.
    + apply Htok in Y. destruct (pc th); discriminate.
    + apply Hmu in Y. rewrite Y in X. discriminate.
  - intros Y. split; [apply Hmu; auto|]. apply Hen. apply Hmu in Y. rewrite Y. reflexivity.
  - intros [X|[X|X]]; apply Hen; rewrite X; reflexivity.
Qed.

(* ================================================================ 9. non-vacuity examples *)

Definition ex_scripts : list (list op) := [[OEnqueue 1; OEnqueue 2; OEnqueue 3]; [OEnqueue 4]; [OWorker]].

(* ring of 2: producer 0 fills the ring, its third enqueue parks at 108 (step disabled), the worker
   dequeues one command and signals space at 126, and the producer is released: it retries from 101
   and laps the ring (position 2 reuses cell 0) without overwriting anything *)
Definition ex_sched_backpressure : list nat :=
  (repeat 0 7 ++ repeat 0 7 ++ [0;0;0;0] ++ repeat 2 12 ++ [0;0;0;0;0;0;0])%nat.

Example backpressure_and_lap :
  let r := run_sched_obs (init_scripts true 2 1 ex_scripts) ex_sched_backpressure in
  snd r =
    [[101;0;0];[102;0;0];[103;0;0];[104;0;0];[105;0;0];[106;0;0];[0;0;0];
     [101;0;0];[102;0;0];[103;0;0];[104;0;0];[105;0;0];[106;0;0];[0;0;0];
     [101;0;0];[102;0;0];[108;0;0];[-2];
     [301;0;0];[302;0;0];[311;0;0];[121;0;0];[122;0;0];[123;0;0];[124;0;0];[125;0;0];[126;0;0];
     [312;0;0];[313;0;0];[121;0;0];
     [101;0;0];[102;0;0];[103;0;0];[104;0;0];[105;0;0];[106;0;0];[0;0;0]]
  /\ head (fst r) = 3 /\ tail (fst r) = 1 /\ applied (fst r) = [1] /\ overwrote (fst r) = false.
Proof. vm_compute. auto 10. Qed.

(* the re-arm CAS: the worker finds position 2 unpublished and goes to 303; the producer publishes;
   the worker clears wakeState (304), sees ready() (305), wins the re-arm CAS (302) and drains the
   command, while the producer's own wake attempt at 106 finds wakeState = 1 and sends nothing *)
Definition ex_sched_rearm : list nat :=
  (repeat 0 7 ++ repeat 0 7 ++ [0;0;0;0] ++ repeat 2 12 ++ [0;0;0;0;0]
   ++ repeat 2 9 ++ [2;2] ++ [0] ++ [2;2;2] ++ [0] ++ repeat 2 12)%nat.

Example rearm_cas :
  let r := run_sched_obs (init_scripts true 2 1 ex_scripts) ex_sched_rearm in
  skipn 42 (snd r) =
    [[121;0;0];[122;0;0];[303;0;0];[304;0;0];[106;0;0];[305;0;0];[302;0;0];[311;0;0];[0;0;0];
     [121;0;0];[122;0;0];[123;0;0];[124;0;0];[125;0;0];[126;0;0];[312;0;0];[313;0;0];[121;0;0];
     [122;0;0];[303;0;0];[304;0;0]]
  /\ applied (fst r) = [1;2;3] /\ wakeTok (fst r) = false /\ head (fst r) = 3 /\ tail (fst r) = 3.
Proof. vm_compute. auto 10. Qed.

(* ================================================================ layer U: ids stay distinct *)

Definition op_wid (o : op) : list Z :=
  match o with OSetAsync id | OEnqueue id | OSet id => [id] | _ => [] end.
Definition script_ids (l : list op) : list Z := flat_map op_wid l.
(* the current write is neither reserved nor applied yet *)
Definition pend_pc (p : pcT) : bool := match p with P104 | P105 | P106 => false | _ => true end.
Definition cur_pending (th : thread) : list Z :=
  match cur th with Some o => if pend_pc (pc th) then op_wid o else [] | None => [] end.
Definition th_ids (th : thread) : list Z := cur_pending th ++ script_ids (script th).
Definition remaining (s : gstate) : list Z := flat_map th_ids (threads s).

Notation cnt := (count_occ Z.eq_dec).

Definition invU (s : gstate) : Prop :=
  forall x, (cnt (wids (resv s)) x + cnt (dlog s) x + cnt (remaining s) x <= 1)%nat.

Lemma upd_split {A} (l1 l2 : list A) x y : upd (l1 ++ x :: l2) (length l1) y = l1 ++ y :: l2.
Proof. induction l1 as [|z l1 IH]; cbn; auto. f_equal. auto. Qed.

Lemma remaining_upd s s' tid th th1 x :
  thr s tid th -> threads s' = upd (threads s) tid th1 ->
  (cnt (remaining s') x + cnt (th_ids th) x = cnt (remaining s) x + cnt (th_ids th1) x)%nat.
Proof.
  unfold thr, remaining. intros Hth Hthr. rewrite Hthr.
  apply nth_error_split in Hth as (l1 & l2 & -> & <-). rewrite upd_split.
  rewrite !flat_map_app. cbn [flat_map]. rewrite !count_occ_app. lia.
Qed.

Lemma invU_frame s s' tid th th1 :
  invU s -> thr s tid th -> threads s' = upd (threads s) tid th1 ->
  (forall x, (cnt (wids (resv s')) x + cnt (dlog s') x + cnt (th_ids th1) x
              <= cnt (wids (resv s)) x + cnt (dlog s) x + cnt (th_ids th) x)%nat) ->
  invU s'.
Proof.
  intros HU Hth Hthr H x. specialize (HU x). specialize (H x).
  pose proof (remaining_upd s s' tid th th1 x Hth Hthr). lia.
Qed.

Lemma wid_cmd_of o : cur_ok P103 (Some o) = true -> wid (cmd_of o) = op_wid o.
Proof. destruct o; cbn; auto; discriminate. Qed.

Definition all_script_ids (scripts : list (list op)) : list Z := flat_map script_ids scripts.

Lemma invU_init f n B scripts : NoDup (all_script_ids scripts) -> invU (init_scripts f n B scripts).
Proof.
  intros H x. cbn. unfold remaining. cbn [threads init_scripts init_state].
  assert (E : flat_map th_ids (map thread_of scripts) = all_script_ids scripts).
  { clear H. unfold all_script_ids. induction scripts as [|l r IH]; cbn; auto.
    rewrite IH. reflexivity. }
  rewrite E. rewrite (NoDup_count_occ Z.eq_dec) in H. apply H.
Qed.

Lemma invU_step c s tid s' o : invA s -> invU s -> lstepc c s tid = Some (s', o) -> invU s'.
Proof.
  intros HA HU Hs. apply lstepc_inv in Hs as (th & s1 & th1 & Hth & Hst & ->).
  pose proof (proj1 HA _ _ Hth) as [Hok _ _ _ Hwf].
  step_leaves Hst Hok.
  all: norm_state.
  all: try (match goal with E : script _ = _ :: _ |- _ => rewrite E in Hwf end).
  all: try (cbn in Hwf; discriminate Hwf).
  all: eapply (invU_frame _ _ tid th); [exact HU|exact Hth|reflexivity|].
  all: intros x; unfold th_ids, cur_pending;
       cbn [resv dlog cur pc script pend_pc];
       rewrite ?Hcur, ?Hpc; cbn [pend_pc op_wid cmd_of];
       try (match goal with E : script _ = _ :: _ |- _ => rewrite E end);
       cbn [script_ids flat_map op_wid app];
       rewrite ?wids_app, ?count_occ_app; cbn [wids flat_map wid app count_occ].
  all: unfold script_ids; clear; repeat destruct (Z.eq_dec _ _); lia.
Qed.

Lemma invAU_reachable f n B scripts s :
  wf_scripts scripts -> NoDup (all_script_ids scripts) ->
  reachable (init_scripts f n B scripts) s -> invA s /\ invU s.
Proof.
  intros Hwf Hnd H. induction H as [|s c tid s' o H IH Hs].
  - split; [apply invA_init; auto | apply invU_init; auto].
  - destruct IH as [HA HU]. split; [eapply invA_step; eauto | eapply invU_step; eauto].
Qed.

(* ---- 3 (continued): with distinct write ids in the scripts, every id is applied at most once ---- *)
Theorem exactly_once f n B scripts s :
  2 <= n -> wf_scripts scripts -> NoDup (all_script_ids scripts) ->
  reachable (init_scripts f n B scripts) s -> NoDup (applied s).
Proof.
  intros Hn Hwf Hnd H.
  destruct (exactly_once_fifo _ _ _ _ _ Hn Hwf H) as (_ & _ & Himp & _). apply Himp.
  destruct (invAU_reachable _ _ _ _ _ Hwf Hnd H) as [_ HU].
  apply (NoDup_count_occ Z.eq_dec). intros x. specialize (HU x). rewrite count_occ_app. lia.
Qed.
