(* C14 — HTTP: a cache hit replays the origin response faithfully. Statements over HttpModel's capturing writer composed with the net/http reference writer (HttpProofs.v). Isolation from later mutation (aliasing) is not expressible in a value-semantics model and is decided by the harness attack in the http stream. Only `exact` + Print Assumptions. *)
Require Import KV.Base KV.HttpModel KV.HttpProofs KV.AliasModel KV.AliasProofs KV.AliasBody.
Open Scope Z_scope.

(* for every handler script without Hijack: status, header snapshot (+ the MISS marker) and body captured are exactly what the client was sent: implicit 200, several writes, 1xx first, edits after commit, superfluous WriteHeader *)
Theorem c14_snapshot_faithful :
  forall (miss : str) (maxbody : Z) (limit : bool) (acts : list action),
         ~ In AHijack acts ->
         let c := fst (run_handler miss maxbody limit acts) in
         let u := snd (run_handler miss maxbody limit acts) in
         c_wrote c = true /\
         u_committed u = true /\
         u_hijacked u = false /\
         u_status u = c_status c /\
         u_sent_hdr u =
         match miss with
         | [] => c_headers c
         | _ :: _ => hset (c_headers c) miss [s_MISS]
         end /\ (cacheable c = true -> body_allowed (c_status c) = true -> u_body u = c_buf c).
Proof. exact capture_faithful. Qed.

(* what the client reads from a hit equals what it read from the origin response, outside the ignored headers and the markers *)
Theorem c14_replay_faithful :
  forall (p : pconf) (ignore : list str) (miss hit : str) (method : Z) 
           (acts : list action) (exp : option Z) (s : HttpModel.stored) (u : under),
         wrap_miss p ignore miss method acts exp = (Some s, u) ->
         miss = [] \/ ci_ignored ignore miss = true ->
         ci_ignored ignore hit = true ->
         let
         '(st1, h1, b1) := client_of (replay s hit) in
          let
          '(st2, h2, b2) := client_of (u_status u, u_sent_hdr u, u_body u) in
           st1 = st2 /\ b1 = b2 /\ cached_headers ignore h1 = cached_headers ignore h2.
Proof. exact replay_faithful. Qed.

(* hits carry HIT, misses carried MISS *)
Theorem c14_markers :
  forall (p : pconf) (ignore : list str) (miss hit : str) (method : Z) 
           (acts : list action) (exp : option Z) (s : HttpModel.stored) (u : under),
         wrap_miss p ignore miss method acts exp = (Some s, u) ->
         ci_ignored ignore hit = true ->
         hget (client_header (snd (fst (replay s hit)))) (canon hit) = [s_HIT] /\
         (miss <> [] -> In s_MISS (hget (client_header (u_sent_hdr u)) (canon miss))).
Proof. exact replay_markers. Qed.

(* dropping ignored headers commutes with what the wire does to keys and values *)
Theorem c14_ignore_commutes_with_wire :
  forall (ignore : list str) (h : header),
         cached_headers ignore (client_header h) = client_header (cached_headers ignore h).
Proof. exact cached_headers_client. Qed.

(* non-vacuity: 103 first, header edit, implicit status, late edit, body landing on the limit *)
Theorem c14_example_at_limit :
  let
         '(st, u) := wrap_miss ex_p ex_ignore ex_miss 1 ex_at_limit None in
          st =
          Some
            {|
              st_status := 200;
              st_hdr := [([65], [[49]])];
              st_body := [(8, 1)];
              st_kind := 3;
              st_ttl := 60
            |} /\
          u_committed u = true /\
          u_status u = 200 /\
          u_sent_hdr u = [([65], [[49]]); (ex_miss, [s_MISS])] /\
          u_body u = [(8, 1)] /\ u_info u = [(103, [])].
Proof. exact ex_at_limit_stored. Qed.

(* one byte more: nothing stored *)
Theorem c14_example_over_limit :
  let
         '(st, u) := wrap_miss ex_p ex_ignore ex_miss 1 ex_over_limit None in
          st = None /\
          u_status u = 200 /\
          u_body u = [(8, 1); (1, 2)] /\ u_sent_hdr u = [([65], [[49]]); (ex_miss, [s_MISS])].
Proof. exact ex_over_limit_not_stored. Qed.

(* for 204/304 the captured body differs from the (empty) sent body, which is why c14_snapshot_faithful carries body_allowed; the replay drops it again *)
Theorem c14_no_body_status_note :
  let
         '(c, u) := run_handler [] 8 true [AWriteHeader 204; AWrite 3 1] in
          cacheable c = true /\ c_buf c = [(3, 1)] /\ u_body u = [] /\ body_allowed 204 = false.
Proof. exact ex_no_body_status. Qed.

(* hijacked responses are outside the statement (they are never cached) *)
Theorem c14_hijack_excluded :
  let
         '(c, u) := run_handler ex_miss 8 true [AHijack] in
          c_wrote c = true /\ u_committed u = false /\ u_hijacked u = true /\ cacheable c = false.
Proof. exact capture_faithful_hijack_refuted. Qed.

(* isolation: no operation other than a store (handler, retaining policy or front writing through ANY reference they hold, further hits) changes what a hit delivers *)
Theorem c14_alias_view_stable :
  forall (s : ast) (op : list Z),
         WF s -> (forall r : Z, op <> [4; r]) -> view (fst (al_step s op)) = view s.
Proof. exact view_stable. Qed.

(* isolation over every sequence of such operations *)
Theorem c14_alias_view_stable_seq :
  forall (ops : list (list Z)) (s : ast),
         WF s ->
         Forall (fun op : list Z => forall r : Z, op <> [4; r]) ops ->
         view (fold_left (fun (s0 : ast) (o : list Z) => fst (al_step s0 o)) ops s) = view s.
Proof. exact view_stable_seq. Qed.

(* every hit of a run after the store delivers the view of the store, with an all-zero sharing report *)
Theorem c14_alias_hits_constant :
  forall (ops : list (list Z)) (s : ast),
         WF s ->
         Forall (fun op : list Z => forall r : Z, op <> [4; r]) ops ->
         Forall (fun o : list Z => o = view s ++ [-3; 0; 0; 0]) (hit_outs s ops).
Proof. exact hits_constant. Qed.

(* a hit delivers exactly the stored view *)
Theorem c14_alias_hit_output :
  forall s : ast, WF s -> stored s <> None -> snd (hit s) = view s.
Proof. exact hit_output. Qed.

(* in every reachable state no reference held outside the middleware points into the stored response (header value arrays, body array, header map) *)
Theorem c14_alias_no_sharing :
  forall (ign : list Z) (ops : list (list Z)),
         shares (fold_left (fun (s : ast) (o : list Z) => fst (al_step s o)) ops (init ign)) =
         [0; 0; 0].
Proof. exact reachable_shares_zero. Qed.

(* what is stored is the committed header snapshot minus ignored keys and the captured body, as they are at the store *)
Theorem c14_alias_store_view :
  forall (s : ast) (r : bool),
         WF s ->
         committed s = true ->
         view (store s r) =
         status s
         :: flat_map (fun e : Z * Z => fst e :: Z.of_nat (length (arr s (snd e))) :: arr s (snd e))
              (filter (fun e : Z * Z => negb (zmem (ignored s) (fst e))) (hmap s (rwh s))) ++
            [-2] ++ arr s (bufarr s).
Proof. exact store_view. Qed.

(* between the committing WriteHeader and the store the snapshot rw.headers cannot be altered by the handler (it is a private clone) *)
Theorem c14_alias_snapshot_private :
  forall (s : ast) (op : list Z),
         WF s -> Priv s -> committed s = true -> snap (step s op) = snap s.
Proof. exact snap_stable. Qed.

(* the snapshot is the handler's header map at the committing WriteHeader *)
Theorem c14_alias_commit_snapshot :
  forall (s : ast) (code : Z),
         committed s = false ->
         WF s ->
         snap (commit s code) = map (fun e : Z * Z => (fst e, arr s (snd e))) (hmap s (wmap s)).
Proof. exact commit_snapshot. Qed.

(* without slices.Clone in cachedHeaders a retaining policy alters later hits (the copy is necessary) *)
Theorem c14_alias_nocloneH_refuted :
  let s0 := store_nocloneH miss_done true in
         view s0 = [200; 5; 2; 1; 2; -2; 7; 8; 9] /\
         view (step s0 [5; 1; 0; 99]) = [200; 5; 2; 99; 2; -2; 7; 8; 9] /\
         view (step s0 [5; 1; 0; 99]) <> view s0 /\ shares s0 = [1; 0; 0].
Proof. exact nocloneH_refuted. Qed.

(* without bytes.Clone of the body a retaining policy alters later hits *)
Theorem c14_alias_nocloneB_refuted :
  let s0 := store_nocloneB miss_done true in
         view s0 = [200; 5; 2; 1; 2; -2; 7; 8; 9] /\
         view (step s0 [5; 0; 0; 99]) = [200; 5; 2; 1; 2; -2; 99; 8; 9] /\
         view (step s0 [5; 0; 0; 99]) <> view s0 /\
         shares s0 = [0; 1; 0] /\
         view (step (store_nocloneB miss_done false) [3; 4; 4; 4]) <>
         view (store_nocloneB miss_done false).
Proof. exact nocloneB_refuted. Qed.

(* without slices.Clone in serveCached the front of the middleware alters later hits *)
Theorem c14_alias_hit_noclone_refuted :
  let s0 := store miss_done false in
         let s1 := fst (hit_noclone s0) in
         snd (hit_noclone s0) = view s0 /\
         view s1 = view s0 /\
         view (step s1 [5; 0; 0; 99]) = [200; 5; 2; 99; 2; -2; 7; 8; 9] /\
         view (step s1 [5; 0; 0; 99]) <> view s0 /\
         snd (hit_noclone (step s1 [5; 0; 0; 99])) <> snd (hit_noclone s0) /\ shares s1 = [1; 0; 0].
Proof. exact hit_noclone_refuted. Qed.

(* the captured body is the concatenation of the bytes passed to Write, whatever the handler or anyone else overwrote through retained slices in between (before a retaining policy call) *)
Theorem c14_body_is_written_bytes :
  forall (ign : list Z) (ops : list (list Z)),
         Forall (fun op : list Z => op <> [4; 1]) ops ->
         body (steps (init ign) ops) = flat_map written ops.
Proof. exact AliasBody.body_is_written_bytes. Qed.

(* what a store puts into the cache is exactly that body, for a retaining and a non-retaining policy *)
Theorem c14_stored_body_is_written_bytes :
  forall (ign : list Z) (ops : list (list Z)) (r : Z),
         Forall (fun op : list Z => op <> [4; 1]) ops ->
         exists st m b : Z,
           stored (step (steps (init ign) ops) [4; r]) = Some (st, m, b) /\
           arr (step (steps (init ign) ops) [4; r]) b = flat_map written ops.
Proof. exact AliasBody.stored_body_is_written_bytes. Qed.

(* one step of any kind changes the capture buffer only by the bytes it writes *)
Theorem c14_body_step :
  forall (s : ast) (op : list Z),
         WF s ->
         BufPriv s -> op <> [4; 1] -> body (step s op) = body s ++ written op /\ BufPriv (step s op).
Proof. exact AliasBody.body_step. Qed.

Print Assumptions c14_snapshot_faithful.
Print Assumptions c14_replay_faithful.
Print Assumptions c14_markers.
Print Assumptions c14_ignore_commutes_with_wire.
Print Assumptions c14_example_at_limit.
Print Assumptions c14_example_over_limit.
Print Assumptions c14_no_body_status_note.
Print Assumptions c14_hijack_excluded.
Print Assumptions c14_alias_view_stable.
Print Assumptions c14_alias_view_stable_seq.
Print Assumptions c14_alias_hits_constant.
Print Assumptions c14_alias_hit_output.
Print Assumptions c14_alias_no_sharing.
Print Assumptions c14_alias_store_view.
Print Assumptions c14_alias_snapshot_private.
Print Assumptions c14_alias_commit_snapshot.
Print Assumptions c14_alias_nocloneH_refuted.
Print Assumptions c14_alias_nocloneB_refuted.
Print Assumptions c14_alias_hit_noclone_refuted.
Print Assumptions c14_body_is_written_bytes.
Print Assumptions c14_stored_body_is_written_bytes.
Print Assumptions c14_body_step.
