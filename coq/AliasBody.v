(* AliasBody.v: the captured body is exactly the bytes passed to Write, whatever the handler / a retaining reader does
   with the slices it holds.  Proved about AliasModel.v, reusing AliasProofs.v.  Stdlib only, every proof closed. *)
From Coq Require Import List ZArith Bool Lia.
From KV Require Import AliasModel AliasProofs.
Import ListNotations.
Open Scope Z_scope.

Definition body (s : ast) : list Z := arr s (bufarr s).               (* the capture buffer's contents *)
Definition BufPriv (s : ast) : Prop := ~ In (bufarr s) (adv_arr s).   (* nobody outside holds the buffer's array *)

(* bytes an operation hands to Write *)
Definition written (op : list Z) : list Z :=
  match op with [3; b1; b2; b3] => [b1; b2; b3] | _ => [] end.

Lemma written_cases op : (exists a b c, op = [3; a; b; c]) \/ written op = [].
Proof.
  destruct op as [|c l]; [right; reflexivity|].
  destruct c as [|p|p];
    [destruct l as [|x1 [|x2 [|x3 [|x4 l]]]]; right; reflexivity| |
     destruct l as [|x1 [|x2 [|x3 [|x4 l]]]]; right; reflexivity].
  destruct p as [[p|p|]|[p|p|]|]; destruct l as [|x1 [|x2 [|x3 [|x4 l]]]];
    try (right; reflexivity).
  left. repeat eexists.
Qed.

(* ------------------------------------------------------------------------------------------------------------ *)
(* the steps, one by one                                                                                        *)
(* ------------------------------------------------------------------------------------------------------------ *)

Lemma body_h_set s k v1 v2 : Bnd s -> BufPriv s ->
  body (h_set s k v1 v2) = body s /\ BufPriv (h_set s k v1 v2).
Proof.
  intros B P. pose proof (b_buf _ B) as Hb. unfold body, BufPriv, h_set. fld. split.
  - apply aupd_other. lia.
  - intros [H1|H1]; [lia|exact (P H1)].
Qed.

Lemma body_commit s code : Bnd s -> BufPriv s ->
  body (commit s code) = body s /\ BufPriv (commit s code).
Proof.
  intros B P. destruct (commit_ext s code) as (_ & Ha & _).
  destruct (commit_refs s code) as (_ & Hb & _ & Haa & _).
  unfold body, BufPriv. rewrite Hb, Haa. split; [apply Ha, (b_buf _ B)|exact P].
Qed.

Lemma body_h_write s b1 b2 b3 : Bnd s -> BufPriv s ->
  body (h_write s b1 b2 b3) = body s ++ [b1; b2; b3] /\ BufPriv (h_write s b1 b2 b3).
Proof.
  intros B P. pose proof (b_buf _ B) as Hbuf. rewrite h_write_eq. cbv zeta.
  destruct (commit_ext (hw_pre s b1 b2 b3) 200) as (Hn & Ha & _).
  destruct (commit_refs (hw_pre s b1 b2 b3) 200) as (_ & Hb & _ & Haa & _).
  set (s3 := commit (hw_pre s b1 b2 b3) 200) in *. clearbody s3.
  unfold hw_pre in *. unfold body, BufPriv. fld. rewrite Hb, Haa. split.
  - rewrite aupd_same. rewrite !Ha by lia. rewrite aupd_same. rewrite aupd_other by lia. reflexivity.
  - intros [H1|H1]; [lia|exact (P H1)].
Qed.

(* everything the body theorems need to know about a store, retaining or not *)
Lemma store_facts s retain : Bnd s ->
  bufarr (store s retain) = bufarr s /\
  arr (store s retain) (bufarr s) = arr s (bufarr s) /\
  adv_arr (store s retain) = adv_arr (st_pre (commit s 200) retain) /\
  exists st m b, stored (store s retain) = Some (st, m, b) /\ arr (store s retain) b = arr s (bufarr s).
Proof.
  intros B. pose proof (b_buf _ B) as Hbuf. rewrite store_eq. cbv zeta.
  destruct (commit_ext s 200) as (Hn0 & Ha0 & _).
  destruct (commit_refs s 200) as (_ & Hb0 & _ & Haa0 & _).
  destruct (st_pre_heap (commit s 200) retain) as (A1 & M1 & N1 & R1 & T1 & F1 & _).
  set (s0 := commit s 200) in *. clearbody s0.
  set (s1 := st_pre s0 retain) in *. clearbody s1.
  destruct (clone_entries s1 (hmap s1 (rwh s1)) (ignored s1)) as [s2 es] eqn:E.
  destruct (clone_spec _ _ _ _ _ E) as (C & Hm & Hn & Ha & Hr & _).
  destruct C as (C1 & C2 & C3 & C4 & C5 & C6 & C7 & C8 & C9).
  fld.
  assert (Hx : arr s2 (bufarr s) = arr s (bufarr s)).
  { rewrite Ha by lia. rewrite A1. apply Ha0. exact Hbuf. }
  split; [congruence|]. split.
  { rewrite aupd_other by lia. exact Hx. }
  split; [exact C7|].
  exists (status s2), (nxt s2), (nxt s2 + 1). split; [reflexivity|].
  rewrite aupd_same. rewrite C5, F1, Hb0. exact Hx.
Qed.

Lemma body_store_false s : Bnd s -> BufPriv s ->
  body (store s false) = body s /\ BufPriv (store s false).
Proof.
  intros B P. destruct (store_facts s false B) as (Hb & Ha & Haa & _).
  destruct (commit_refs s 200) as (_ & _ & _ & Haa0 & _).
  unfold body, BufPriv. rewrite Hb, Ha, Haa. unfold st_pre. rewrite Haa0. split; [reflexivity|exact P].
Qed.

Lemma body_adv_write s i pos v : BufPriv s ->
  body (adv_write s i pos v) = body s /\ BufPriv (adv_write s i pos v).
Proof.
  intros P. unfold adv_write.
  destruct (nth_error (adv_arr s) (Z.to_nat i)) as [a|] eqn:E; [|split; [reflexivity|exact P]].
  apply nth_error_In in E. unfold body, BufPriv. fld. split; [|exact P].
  apply aupd_other. intros Heq. apply P. rewrite Heq. exact E.
Qed.

Lemma body_adv_mapset s i k v : Bnd s -> BufPriv s ->
  body (adv_mapset s i k v) = body s /\ BufPriv (adv_mapset s i k v).
Proof.
  intros B P. pose proof (b_buf _ B) as Hbuf. unfold adv_mapset.
  destruct (nth_error (adv_map s) (Z.to_nat i)) as [m|] eqn:E; [|split; [reflexivity|exact P]].
  unfold body, BufPriv. fld. split.
  - apply aupd_other. lia.
  - intros [H1|H1]; [lia|exact (P H1)].
Qed.

Lemma body_adv_mapdel s i k : BufPriv s ->
  body (adv_mapdel s i k) = body s /\ BufPriv (adv_mapdel s i k).
Proof.
  intros P. unfold adv_mapdel.
  destruct (nth_error (adv_map s) (Z.to_nat i)) as [m|] eqn:E; split; try reflexivity; exact P.
Qed.

Lemma body_hit s : Bnd s -> BufPriv s ->
  body (fst (hit s)) = body s /\ BufPriv (fst (hit s)).
Proof.
  intros B P. pose proof (b_buf _ B) as Hbuf. rewrite hit_eq.
  destruct (stored s) as [[[st m] b]|] eqn:Hst; [|split; [reflexivity|exact P]].
  destruct (clone_entries s (hmap s m) []) as [s1 es] eqn:E.
  destruct (clone_spec _ _ _ _ _ E) as (C & Hm & Hn & Ha & Hr & _).
  destruct C as (C1 & C2 & C3 & C4 & C5 & C6 & C7 & C8 & C9).
  unfold body, BufPriv. fld. rewrite C5, C7. split; [apply Ha, Hbuf|].
  intros H. apply in_app_or in H. destruct H as [H|H]; [|exact (P H)].
  apply in_map_iff in H. destruct H as [[k1 a1] [H0 H]]. simpl in H0. subst a1. apply Hr in H. lia.
Qed.

(* ------------------------------------------------------------------------------------------------------------ *)
(* one step                                                                                                     *)
(* ------------------------------------------------------------------------------------------------------------ *)

Theorem body_step s op : WF s -> BufPriv s -> op <> [4; 1] ->
  body (step s op) = body s ++ written op /\ BufPriv (step s op).
Proof.
  intros [B _] P N.
  destruct (al_step_cases s op) as
    [(k & v1 & v2 & ->)|[(c & ->)|[(a & b & c & ->)|[(r & ->)|[(i & p & v & ->)|[(i & k & v & ->)|
     [(i & k & ->)|[->|E]]]]]]]].
  - unfold step. cbn [al_step fst written]. rewrite app_nil_r. apply body_h_set; assumption.
  - unfold step. cbn [al_step fst written]. rewrite app_nil_r. apply body_commit; assumption.
  - unfold step. cbn [al_step fst written]. apply body_h_write; assumption.
  - unfold step. cbn [al_step fst written]. rewrite app_nil_r.
    destruct (Z.eqb_spec r 1) as [->|Hr]; [contradiction|]. apply body_store_false; assumption.
  - unfold step. cbn [al_step fst written]. rewrite app_nil_r. apply body_adv_write; assumption.
  - unfold step. cbn [al_step fst written]. rewrite app_nil_r. apply body_adv_mapset; assumption.
  - unfold step. cbn [al_step fst written]. rewrite app_nil_r. apply body_adv_mapdel; assumption.
  - rewrite step_hit. cbn [written]. rewrite app_nil_r. apply body_hit; assumption.
  - destruct (written_cases op) as [(a & b & c & ->)|Hw].
    + apply (f_equal snd) in E. cbn [al_step snd] in E. discriminate E.
    + unfold step. rewrite E, Hw, app_nil_r. split; [reflexivity|exact P].
Qed.

(* ------------------------------------------------------------------------------------------------------------ *)
(* runs                                                                                                         *)
(* ------------------------------------------------------------------------------------------------------------ *)

Lemma body_steps ops : forall s, WF s -> BufPriv s -> Forall (fun op => op <> [4; 1]) ops ->
  body (steps s ops) = body s ++ flat_map written ops /\ BufPriv (steps s ops) /\ WF (steps s ops).
Proof.
  induction ops as [|op ops IH]; intros s W P F.
  - simpl. rewrite app_nil_r. split; [reflexivity|split; assumption].
  - inversion F; subst. destruct (body_step s op W P H1) as [Hb Hp].
    assert (W' : WF (step s op)) by (apply al_step_wf, W).
    destruct (IH (step s op) W' Hp H2) as (Hb' & Hp' & Hw').
    change (steps s (op :: ops)) with (steps (step s op) ops).
    split; [|split; assumption].
    rewrite Hb', Hb. simpl. rewrite app_assoc. reflexivity.
Qed.

Lemma init_bufpriv ign : BufPriv (init ign).
Proof. unfold BufPriv. simpl. tauto. Qed.

Theorem body_is_written_bytes ign ops : Forall (fun op => op <> [4; 1]) ops ->
  body (steps (init ign) ops) = flat_map written ops.
Proof.
  intros F. destruct (body_steps ops (init ign) (init_wf ign) (init_bufpriv ign) F) as (Hb & _).
  rewrite Hb. reflexivity.
Qed.

Theorem stored_body_is_written_bytes ign ops r : Forall (fun op => op <> [4; 1]) ops ->
  exists st m b, stored (step (steps (init ign) ops) [4; r]) = Some (st, m, b) /\
                 arr (step (steps (init ign) ops) [4; r]) b = flat_map written ops.
Proof.
  intros F. destruct (body_steps ops (init ign) (init_wf ign) (init_bufpriv ign) F) as (Hb & _ & [B _]).
  set (s := steps (init ign) ops) in *. clearbody s.
  change (step s [4; r]) with (store s (r =? 1)).
  destruct (store_facts s (r =? 1) B) as (_ & _ & _ & st & m & b & Hst & Harr).
  exists st, m, b. split; [exact Hst|]. rewrite Harr. exact Hb.
Qed.

(* the retaining store is excluded from body_step for a reason: it ends the privacy, and the next handler/reader
   write through the retained reference does change the buffer (the stored clone is untouched, by view_stable) *)
Example retain_ends_bufpriv :
  let s := step (steps (init []) [[3; 7; 8; 9]]) [4; 1] in
  body s = [7; 8; 9] /\ In (bufarr s) (adv_arr s) /\ body (step s [5; 0; 0; 99]) = [99; 8; 9] /\
  view (step s [5; 0; 0; 99]) = view s.
Proof. vm_compute. repeat split. left. reflexivity. Qed.

Print Assumptions body_step.
Print Assumptions body_is_written_bytes.
Print Assumptions stored_body_is_written_bytes.
