(* C18 — keys that compare equal address the same entry, for every key type. (a) the table refines a map for EVERY hash function (C12's trace theorems): distinct keys never alias even when their hashes or tags coincide, hashes 0 and 1 (the sentinel tags) are ordinary; (b) the reflect.Kind switch of keyhash.New, re-read from the source on every run (Gen/KindTable.v), routes every integer kind through a type of the same width and signedness and strings to the string hasher, everything else to maphash.Comparable (whose equal-implies-same-hash contract is trusted); (c) the integer hasher is a function of the key's value. Only `exact` + Print Assumptions. *)
Require Import KV.Base KV.HtableModel KV.HtableProofs KV.HtableTrace KV.Gen.KindTable KV.KeyHash.
Open Scope Z_scope.

(* for every hash assignment (collisions, 0 and 1 included) the table is a map keyed by the KEY *)
Theorem c18_table_any_hash :
  forall (hashf : Z -> Z) (cap : Z) (ops : list top) (a' : astate) (outs : list tout),
         arun hashf ainit ops = Some (a', outs) ->
         snd (crun hashf (cinit cap) ops) = outs /\
         refined hashf (fst (crun hashf (cinit cap) ops)) a'.
Proof. exact trace_refines. Qed.

(* operations on other keys, whatever their hashes, never change what a key reads *)
Theorem c18_no_alias :
  forall (hashf : Z -> Z) (cap : Z) (ops1 ops2 : list top) (a1 : astate) 
           (o1 : list tout) (a2 : astate) (o2 : list tout) (k : Z) (x : item),
         arun hashf ainit ops1 = Some (a1, o1) ->
         aget (am a1) k = Some x ->
         arun hashf a1 ops2 = Some (a2, o2) ->
         Forall (fun op : top => touches op k = false) ops2 ->
         snd (crun hashf (cinit cap) (ops1 ++ ops2 ++ [TLookup k])) = o1 ++ o2 ++ [OLookup (Some x)].
Proof. exact key_never_lost_output. Qed.

(* every row of the generated kind table is well-typed; all integer kinds present; default = maphash.Comparable *)
Theorem c18_kind_table :
  forallb row_ok kind_table = true /\ all_int_kinds_present = true /\ kind_default = 3.
Proof. exact kind_table_ok. Qed.

(* row-wise form *)
Theorem c18_kind_rows :
  forall r : String.string * Z * String.string * Z * Z, In r kind_table -> row_ok r = true.
Proof. exact kind_rows_ok. Qed.

(* equal integer keys hash equally *)
Theorem c18_int_hash_function :
  forall w sg v1 v2 : Z, v1 = v2 -> hash_int w sg v1 = hash_int w sg v2.
Proof. exact hash_int_function. Qed.

(* zero extension is injective on the kind's range *)
Theorem c18_extend_injective :
  forall w v1 v2 : Z,
         1 <= w <= 64 ->
         0 <= v1 < 2 ^ w -> 0 <= v2 < 2 ^ w -> extend w 0 v1 = extend w 0 v2 -> v1 = v2.
Proof. exact extend_injective. Qed.

Print Assumptions c18_table_any_hash.
Print Assumptions c18_no_alias.
Print Assumptions c18_kind_table.
Print Assumptions c18_kind_rows.
Print Assumptions c18_int_hash_function.
Print Assumptions c18_extend_injective.
